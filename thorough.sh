#!/bin/bash
cd "$(dirname "$0")"
exec python3 ./thorough.py "$1"
