#!/usr/bin/env python3
"""Thorough tier for one property:
 (1) the property's rules on the whole module (./..., examples included);
 (2) checker sensitivity on the CURRENT tree, by static analysis only (nothing is executed):
   a. every single-edit variant of the hand-written library files (generated from /repo's working tree by
      `hwcheck -gen-variants`: statement deleted / swapped, condition negated, operator changed, go/defer
      added or removed) is re-type-checked in-process with the variant file laid over /repo and analysed
      with this property's rules;
   b. the seeded corpus /verif/seeded/*/patch.diff (independently written property-breaking changes) for
      this property must be flagged;
   c. the benign corpus /verif/benign/*.diff (behaviour-preserving rewrites) must stay silent.
 Scratch files live under a fresh temporary directory, removed at the end. The exit status is that of (1) only:
 (2) measures the checker and is reported in the evidence file."""
import json, os, shutil, subprocess, sys, tempfile, time, glob, re, concurrent.futures as cf

prop = sys.argv[1]
REPO = "/repo"
V = os.path.dirname(os.path.abspath(__file__))
BIN = V + "/bin/hwcheck"
ENV = dict(os.environ, GOFLAGS="-mod=mod", GOPROXY="off", GOWORK="off", GOTOOLCHAIN="local", GOSUMDB="off")
t0 = time.time()
tmp = tempfile.mkdtemp(prefix="hw-thorough-")
LIB = ["actor", "remote", "cluster", "ringbuffer", "safemap"]

def overlay_from_patch(path, dst, desc):
    """applies the patch to a scratch copy of the library and stores only the files it touches as an overlay"""
    work = tempfile.mkdtemp(prefix="p-", dir=tmp)
    try:
        for p in LIB:
            shutil.copytree(os.path.join(REPO, p), os.path.join(work, p))
        a = subprocess.run(["patch", "-p1", "-s", "-f", "-d", work, "-i", path], capture_output=True, text=True)
        if a.returncode != 0:
            return False
        os.makedirs(dst, exist_ok=True)
        for m in re.finditer(r"^\+\+\+ b/(\S+)", open(path).read(), re.M):
            rel = m.group(1)
            if rel.split("/")[0] in LIB and rel.endswith(".go") and not rel.endswith("_test.go"):
                os.makedirs(os.path.dirname(os.path.join(dst, rel)), exist_ok=True)
                shutil.copy(os.path.join(work, rel), os.path.join(dst, rel))
        open(os.path.join(dst, "desc.txt"), "w").write(desc + "\n")
        return True
    finally:
        shutil.rmtree(work, ignore_errors=True)

def sweep(vroot, shards):
    def run(i):
        p = subprocess.run([BIN, "-verif", V, "-sweep", vroot, "-p", prop, "-shard", "%d/%d" % (i, shards)], capture_output=True, text=True,
                           env=dict(ENV, GOMAXPROCS="2"))
        return [json.loads(l) for l in p.stdout.splitlines() if l.startswith("{")]
    out = []
    with cf.ThreadPoolExecutor(shards) as ex:
        for rows in ex.map(run, range(shards)):
            out += rows
    return out

extra = {}
try:
    # (b) + (c): seeded and benign corpora as overlays
    corp = os.path.join(tmp, "corpus")
    os.makedirs(corp)
    seeded_names, benign_names, skipped = [], [], []
    for meta in sorted(glob.glob(V + "/seeded/*/meta.json")):
        m = json.load(open(meta))
        if prop not in ([m.get("property")] + m.get("also_breaks", [])):
            continue
        name = "seeded-" + os.path.basename(os.path.dirname(meta))
        if overlay_from_patch(os.path.join(os.path.dirname(meta), "patch.diff"), os.path.join(corp, name), name):
            seeded_names.append(name)
        else:
            skipped.append(name)
    for d in sorted(glob.glob(V + "/benign/*.diff")):
        name = "benign-" + os.path.basename(d)[:-5]
        if overlay_from_patch(d, os.path.join(corp, name), name):
            benign_names.append(name)
        else:
            skipped.append(name)
    rows = {r["n"]: r for r in sweep(corp, 4)} if (seeded_names or benign_names) else {}
    def flagged(n):
        r = rows.get(n, {})
        return (not r.get("compiles", False), r.get("fired", {}).get(prop, []))
    sv = {"total": len(seeded_names), "flagged": 0, "silent": [], "do_not_compile": [], "patch_does_not_apply": [s for s in skipped if s.startswith("seeded-")]}
    for n in seeded_names:
        bad, keys = flagged(n)
        if bad:
            sv["do_not_compile"].append(n)
        elif keys:
            sv["flagged"] += 1
        else:
            sv["silent"].append(n)
    bv = {"total": len(benign_names), "silent": 0, "flagged": [], "patch_does_not_apply": [s for s in skipped if s.startswith("benign-")]}
    for n in benign_names:
        bad, keys = flagged(n)
        if keys or bad:
            bv["flagged"].append({"patch": n, "keys": keys[:3]})
        else:
            bv["silent"] += 1
    extra["seeded_variants"], extra["benign_variants"] = sv, bv
    # (a) generated single-edit variants
    vroot = os.path.join(tmp, "gen")
    subprocess.run([BIN, "-gen-variants", vroot, "-repo", REPO], capture_output=True, text=True, env=ENV)
    shards = int(os.environ.get("VERIF_WORKERS", "8"))
    res = sweep(vroot, shards) if os.path.isdir(vroot) else []
    counts = {"generated": len(res), "nocompile": 0, "flagged": 0, "silent": 0}
    samples = []
    for r in sorted(res, key=lambda r: int(r["n"])):
        if not r.get("compiles"):
            counts["nocompile"] += 1
        elif r.get("fired", {}).get(prop):
            counts["flagged"] += 1
            if len(samples) < 10 and counts["flagged"] % 7 == 1:
                samples.append({"edit": r["desc"], "reported": r["fired"][prop][:2]})
        else:
            counts["silent"] += 1
    counts["samples_flagged"] = samples
    counts["note"] = ("single-edit variants of every hand-written library function, type-checked and analysed in-process with this property's rules only; "
                      "'silent' includes the many edits that are irrelevant to this property")
    extra["generated_variants"] = counts
finally:
    shutil.rmtree(tmp, ignore_errors=True)
extra["sweep_wall_s"] = round(time.time() - t0, 1)
os.makedirs(V + "/out", exist_ok=True)
xf = V + "/out/%s-sweep.json" % prop
json.dump(extra, open(xf, "w"))
rc = subprocess.run([BIN, "-verif", V, "-p", prop, "-tier", "thorough", "-extra", xf], env=ENV).returncode
sv, bv, gv = extra["seeded_variants"], extra["benign_variants"], extra["generated_variants"]
print("sweep: seeded %d/%d flagged (silent: %s) | benign silent %d/%d (flagged: %s) | generated: %d flagged, %d silent, %d do not compile of %d | %.0fs" % (
    sv["flagged"], sv["total"], sv["silent"], bv["silent"], bv["total"], [b["patch"] for b in bv["flagged"]], gv["flagged"], gv["silent"], gv["nocompile"], gv["generated"], extra["sweep_wall_s"]))
sys.exit(rc)
