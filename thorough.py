#!/usr/bin/env python3
"""Thorough tier for one property: (1) the rules on the whole module; (2) checker sensitivity on the current tree:
   a. every single-edit variant of the library (generated from /repo's working tree by `hwcheck -gen-variants`) is
      type-checked and ANALYSED (never executed) with this property's rules;
   b. the seeded corpus /verif/seeded/*/patch.diff (independently written property-breaking changes) for this
      property must be flagged;
   c. the benign corpus /verif/benign/*.diff (behaviour-preserving rewrites) must stay silent.
 Scratch copies live under $TMPDIR and are removed at once. The exit status is that of (1) only: (2) measures
 the checker, and is reported in the evidence file."""
import json, os, shutil, subprocess, sys, tempfile, time, glob, concurrent.futures as cf, random

prop = sys.argv[1]
REPO = "/repo"
V = "/verif"
BIN = V + "/bin/hwcheck"
ENV = dict(os.environ, GOFLAGS="-mod=mod", GOPROXY="off", GOWORK="off", GOTOOLCHAIN="local", GOSUMDB="off")
known = {k["key"] for k in json.load(open(V + "/known_findings.json")) if k["status"] == "known" and k["property"] == prop}
seed = int(os.environ.get("VERIF_SEED", "0") or 0)
t0 = time.time()
tmp = tempfile.mkdtemp(prefix="hw-thorough-")

def copy_lib(dst):
    os.makedirs(dst, exist_ok=True)
    for p in ["actor", "remote", "cluster", "ringbuffer", "safemap", "go.mod", "go.sum"]:
        s = os.path.join(REPO, p)
        (shutil.copytree if os.path.isdir(s) else shutil.copy)(s, os.path.join(dst, p))

def analyse(work):
    p = subprocess.run([BIN, "-p", prop, "-repo", work, "-no-evidence", "-json"], capture_output=True, text=True, env=ENV)
    keys, compiles = [], True
    got = False
    for line in p.stdout.splitlines():
        if line.startswith("["):
            got = True
            for o in json.loads(line):
                if o["rule"].endswith(".load"):
                    compiles = False
                elif o["verdict"] != "discharged" and o["key"] not in known:
                    keys.append(o["key"])
    return compiles and got, keys

def run_patch(path):
    work = tempfile.mkdtemp(prefix="v-", dir=tmp)
    try:
        copy_lib(work)
        a = subprocess.run(["patch", "-p1", "-s", "-f", "-d", work, "-i", path], capture_output=True, text=True)
        if a.returncode != 0:
            return ("skipped", [])
        ok, keys = analyse(work)
        if not ok:
            return ("nocompile", [])
        return ("flagged" if keys else "silent", keys)
    finally:
        shutil.rmtree(work, ignore_errors=True)

def run_variant(vdir):
    desc, rel = open(os.path.join(vdir, "desc.txt")).read().split("\n")[:2]
    work = tempfile.mkdtemp(prefix="v-", dir=tmp)
    try:
        copy_lib(work)
        shutil.copy(os.path.join(vdir, rel), os.path.join(work, rel))
        ok, keys = analyse(work)
        return (desc, "nocompile" if not ok else ("flagged" if keys else "silent"), keys[:2])
    finally:
        shutil.rmtree(work, ignore_errors=True)

extra = {}
try:
    # (b) seeded corpus
    seeded = {"total": 0, "flagged": 0, "silent": [], "skipped": 0}
    for meta in sorted(glob.glob(V + "/seeded/*/meta.json")):
        m = json.load(open(meta))
        if prop not in ([m.get("property")] + m.get("also_breaks", [])):
            continue
        st, keys = run_patch(os.path.join(os.path.dirname(meta), "patch.diff"))
        seeded["total"] += 1
        if st == "flagged":
            seeded["flagged"] += 1
        elif st == "silent":
            seeded["silent"].append(os.path.basename(os.path.dirname(meta)))
        else:
            seeded["skipped"] += 1
    extra["seeded_variants"] = seeded
    # (c) benign corpus
    benign = {"total": 0, "silent": 0, "flagged": [], "skipped": 0}
    for d in sorted(glob.glob(V + "/benign/*.diff")):
        st, keys = run_patch(d)
        benign["total"] += 1
        if st == "silent":
            benign["silent"] += 1
        elif st == "flagged":
            benign["flagged"].append({"patch": os.path.basename(d), "keys": keys[:3]})
        else:
            benign["skipped"] += 1
    extra["benign_variants"] = benign
    # (a) generated single-edit variants
    vroot = os.path.join(tmp, "gen")
    subprocess.run([BIN, "-gen-variants", vroot, "-repo", REPO], capture_output=True, text=True, env=ENV)
    names = sorted(os.listdir(vroot), key=int) if os.path.isdir(vroot) else []
    random.Random(seed).shuffle(names)
    budget = int(os.environ.get("VERIF_SWEEP_MAX", "100000"))
    names = names[:budget]
    counts = {"generated": len(names), "nocompile": 0, "flagged": 0, "silent": 0}
    samples = []
    with cf.ThreadPoolExecutor(int(os.environ.get("VERIF_WORKERS", "12"))) as ex:
        for desc, st, keys in ex.map(lambda n: run_variant(os.path.join(vroot, n)), names):
            counts[st] += 1
            if st == "flagged" and len(samples) < 8:
                samples.append({"edit": desc, "reported": keys})
    counts["samples_flagged"] = samples
    counts["note"] = "single-edit variants (statement deleted / swapped, condition negated, operator or go/defer changed) of every hand-written library function, analysed with this property's rules only; 'silent' includes edits that are irrelevant to this property"
    extra["generated_variants"] = counts
finally:
    shutil.rmtree(tmp, ignore_errors=True)
extra["sweep_wall_s"] = round(time.time() - t0, 1)
os.makedirs(V + "/out", exist_ok=True)
xf = V + "/out/%s-sweep.json" % prop
json.dump(extra, open(xf, "w"))
rc = subprocess.run([BIN, "-p", prop, "-tier", "thorough", "-extra", xf], env=ENV).returncode
print("sweep: seeded %(flagged)d/%(total)d flagged" % extra["seeded_variants"], "| benign silent %d/%d" % (extra["benign_variants"]["silent"], extra["benign_variants"]["total"]),
      "| generated: %(flagged)d flagged, %(silent)d silent, %(nocompile)d do not compile of %(generated)d" % extra["generated_variants"])
sys.exit(rc)
