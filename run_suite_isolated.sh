#!/bin/bash
# Runs the repository's own test suite in a private network namespace (the cluster tests use
# mDNS: concurrent runs on one host discover each other). usage: run_suite_isolated.sh [dir] [go test args...]
DIR="${1:-/repo}"; shift
export GOFLAGS=-mod=mod GOPROXY=off
exec unshare -n sh -c "ip link set lo up; ip link set lo multicast on; ip route add 224.0.0.0/4 dev lo; cd $DIR && go test -vet=off -count=1 ${*:-./actor ./remote ./cluster ./ringbuffer ./safemap}"
