#!/bin/bash
# usage: confirm_batch3.sh <out log> name...   (names like C01_M3_1 -> /tmp/wt-C01/${MUTDIR:-MUT3}/1)
out=$1; shift
for n in "$@"; do p=${n%%_*}; i=${n##*_}; /verif/confirm_mut.sh /tmp/${WTPREFIX:-wt}-$p/${MUTDIR:-MUT3}/$i $p $n; done > $out 2>&1
