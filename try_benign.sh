#!/bin/bash
# applies every benign patch to /repo in turn and runs all checks; prints anything that fires
cd /verif; mkdir -p /tmp/verif-scratch; cp known_findings.json /tmp/verif-scratch/
for d in benign/*.diff; do
  (cd /repo && git apply /verif/$d) || { echo "$d DOES NOT APPLY"; continue; }
  out=$(./bin/hwcheck -p all -verif /tmp/verif-scratch 2>&1 | grep -E "^  (violated|undecided)" | cut -c1-260)
  git -C /repo checkout -- .
  if [ -n "$out" ]; then echo "== $d"; echo "$out"; else echo "== $d silent"; fi
done
