#!/bin/bash
# confirm_mut.sh <src dir with patch.diff + demo_test.go> <prop id> <name>
# Confirms in a scratch worktree: patch applies, builds, full suite passes (isolated netns), demo fails with
# the patch and passes without; then runs the property's check against the patched tree. Writes a result line.
SRC="$1"; PROP="$2"; NAME="$3"
WT=/tmp/confirm-wt-$NAME
export GOFLAGS=-mod=mod GOPROXY=off
git -C /repo worktree remove --force $WT 2>/dev/null
git -C /repo worktree add -q --detach $WT HEAD || exit 2
cd $WT
res() { echo "RESULT $NAME prop=$PROP $*"; }
if ! git apply --check "$SRC/patch.diff" 2>/dev/null; then res "patch-does-not-apply"; cd /; git -C /repo worktree remove --force $WT; exit 0; fi
DEMO=$(ls "$SRC"/*_test.go 2>/dev/null | head -1)
PKG=$(grep -m1 '^package ' "$DEMO" | awk '{print $2}' | sed 's/_test$//')
case "$PKG" in actor|remote|cluster|ringbuffer|safemap) ;; *) PKG=actor;; esac
TESTS=$(grep -o '^func Test[A-Za-z0-9_]*' "$DEMO" | sed 's/func //' | tr '\n' '|' | sed 's/|$//')
iso() { unshare -n sh -c "ip link set lo up; ip link set lo multicast on; ip route add 224.0.0.0/4 dev lo; $*"; }
cp "$DEMO" $PKG/zz_demo_test.go
iso "go test -vet=off -count=1 -run '^($TESTS)\$' ./$PKG" > /tmp/confirm-$NAME-demo-base.log 2>&1; DB=$?
rm $PKG/zz_demo_test.go
git apply "$SRC/patch.diff"
go build ./... > /tmp/confirm-$NAME-build.log 2>&1 || { res "does-not-build"; cd /; git -C /repo worktree remove --force $WT; exit 0; }
S=0; for i in 1 2; do iso "go test -vet=off -count=1 ./actor ./remote ./cluster ./ringbuffer ./safemap" > /tmp/confirm-$NAME-suite$i.log 2>&1 && S=$((S+1)); done
cp "$DEMO" $PKG/zz_demo_test.go
iso "go test -vet=off -count=1 -run '^($TESTS)\$' ./$PKG" > /tmp/confirm-$NAME-demo-mut.log 2>&1; DM=$?
rm $PKG/zz_demo_test.go
# static check on the patched worktree
mkdir -p /tmp/verif-scratch-$NAME; cp /verif/known_findings.json /tmp/verif-scratch-$NAME/
/verif/bin/hwcheck -p $PROP -repo $WT -verif /tmp/verif-scratch-$NAME > /tmp/confirm-$NAME-check.log 2>&1; CK=$?
VIOL=$(grep -E "^  (violated|undecided)" /tmp/confirm-$NAME-check.log | head -3 | cut -c1-150 | tr '\n' ';')
res "demo_base_exit=$DB suite_pass=$S/2 demo_mut_exit=$DM check_exit=$CK :: $VIOL"
cd /; git -C /repo worktree remove --force $WT; rm -rf /tmp/verif-scratch-$NAME
