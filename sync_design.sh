#!/bin/bash
# keeps Part II of DESIGN.md identical to DESIGN_part2.md
cd /verif
python3 - <<'PY'
s=open('DESIGN.md').read()
m='\n# Part II — as built'
i=s.find(m)
if i>=0: s=s[:i]
s=s.rstrip('\n')+'\n\n'+open('DESIGN_part2.md').read()
open('DESIGN.md','w').write(s)
PY
