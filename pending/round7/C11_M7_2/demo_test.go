package actor

import (
	"testing"
	"time"
)

// A responder answers after the requester's timeout, and the payload of its reply is nil
// (a legal message: in time it would make Result() return (nil, nil)). The late reply must
// become a dead letter, and so must every later late reply.
func TestMut7LateNilReplyIsDeadLetter(t *testing.T) {
	e, err := NewEngine(NewEngineConfig())
	if err != nil {
		t.Fatal(err)
	}
	type ask struct{ reply any }
	type probe struct{}

	dead := make(chan DeadLetterEvent, 64)
	sub := e.SpawnFunc(func(c *Context) {
		if dl, ok := c.Message().(DeadLetterEvent); ok {
			dead <- dl
		}
	}, "mut7dl")
	e.Subscribe(sub)
	subscribed := false
	for i := 0; i < 200 && !subscribed; i++ {
		e.Send(NewPID(LocalLookupAddr, "mut7/nobody"), probe{})
		select {
		case <-dead:
			subscribed = true
		case <-time.After(20 * time.Millisecond):
		}
	}
	if !subscribed {
		t.Fatal("dead letter subscription never became active")
	}

	proceed := make(chan struct{}, 1)
	replied := make(chan struct{}, 8)
	responder := e.SpawnFunc(func(c *Context) {
		if m, ok := c.Message().(ask); ok {
			<-proceed
			c.Respond(m.reply)
			replied <- struct{}{}
		}
	}, "mut7responder")

	lateReply := func(payload any) {
		t.Helper()
		resp := e.Request(responder, ask{reply: payload}, 30*time.Millisecond)
		if v, err := resp.Result(); err == nil {
			t.Fatalf("expected a timeout, got reply %v", v)
		}
		if e.Registry.get(resp.PID()) != nil {
			t.Fatalf("response pid still registered after Result()")
		}
		proceed <- struct{}{}
		select {
		case <-replied:
		case <-time.After(5 * time.Second):
			t.Fatal("responder never replied")
		}
		deadline := time.After(3 * time.Second)
		for {
			select {
			case dl := <-dead:
				if _, isProbe := dl.Message.(probe); isProbe {
					continue
				}
				if dl.Target == nil || dl.Target.ID != resp.PID().ID {
					t.Fatalf("unexpected dead letter: %+v", dl)
				}
				if dl.Message != payload {
					t.Fatalf("dead letter carries %v, want %v", dl.Message, payload)
				}
				return
			case <-deadline:
				t.Fatalf("late reply (payload %v) did not become a dead letter", payload)
			}
		}
	}

	lateReply("too late") // an ordinary late reply
	lateReply(nil)        // a late reply with a nil payload
	lateReply("too late again")
}
