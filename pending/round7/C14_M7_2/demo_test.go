package ringbuffer

import "testing"

// A burst grows the buffer, then the queue is kept partly filled while
// producer and consumer advance around the ring, and is finally drained.
// Whatever the head/tail position at the moment the drain starts, every
// element has to come out exactly once and in push order.
func TestMut7DrainAfterBurstKeepsEveryElement(t *testing.T) {
	for rot := 0; rot < 48; rot++ {
		for _, usePopN := range []bool{false, true} {
			rb := New[int](4)
			var model []int
			next := 1
			push := func() {
				rb.Push(next)
				model = append(model, next)
				next++
			}
			pop := func() {
				v, ok := rb.Pop()
				if !ok {
					t.Fatalf("rot %d: Pop reported empty with %d queued", rot, len(model))
				}
				if v != model[0] {
					t.Fatalf("rot %d popN=%v: Pop = %d, want %d (remaining model %v)", rot, usePopN, v, model[0], model)
				}
				model = model[1:]
				if l := rb.Len(); l != int64(len(model)) {
					t.Fatalf("rot %d: Len = %d, want %d", rot, l, len(model))
				}
			}
			// burst: 4 -> 8 -> 16 slots
			for i := 0; i < 10; i++ {
				push()
			}
			for i := 0; i < 5; i++ {
				pop()
			}
			// steady state with 5..6 queued; head and tail walk around the ring
			for i := 0; i < rot; i++ {
				push()
				pop()
			}
			// drain
			if usePopN {
				for len(model) > 0 {
					items, ok := rb.PopN(2)
					if !ok {
						t.Fatalf("rot %d: PopN reported empty with %d queued", rot, len(model))
					}
					want := 2
					if len(model) < want {
						want = len(model)
					}
					if len(items) != want {
						t.Fatalf("rot %d: PopN(2) returned %d elements, want %d", rot, len(items), want)
					}
					for i, v := range items {
						if v != model[i] {
							t.Fatalf("rot %d: PopN items[%d] = %d, want %d (model %v)", rot, i, v, model[i], model)
						}
					}
					model = model[len(items):]
				}
			} else {
				for len(model) > 0 {
					pop()
				}
			}
			if _, ok := rb.Pop(); ok {
				t.Fatalf("rot %d: Pop on drained queue reported true", rot)
			}
			if l := rb.Len(); l != 0 {
				t.Fatalf("rot %d: Len after drain = %d", rot, l)
			}
			// the queue must still be usable afterwards
			for i := 0; i < 20; i++ {
				push()
			}
			for len(model) > 0 {
				pop()
			}
		}
	}
}
