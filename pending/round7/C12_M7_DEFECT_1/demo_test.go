package actor

import (
	"sync"
	"testing"
	"time"

	"github.com/stretchr/testify/require"
)

type mut7DrainEvent struct{ n int }

// A subscriber is poisoned gracefully while events are queued behind the pill
// in the same inbox batch, and it crashes on one of them while draining. The
// events it had already handled during the drain are replayed after the
// restart: they are delivered twice (and the pill is lost).
func TestMut7DefectGracefulDrainCrashDuplicatesEvents(t *testing.T) {
	e, err := NewEngine(NewEngineConfig())
	require.NoError(t, err)

	var (
		mu      sync.Mutex
		got     []int
		crashed bool
	)
	gate := make(chan struct{})
	sub := e.SpawnFunc(func(c *Context) {
		switch m := c.Message().(type) {
		case string:
			<-gate // hold the inbox so that everything below lands in one batch
		case mut7DrainEvent:
			mu.Lock()
			crashNow := m.n == 3 && !crashed
			if crashNow {
				crashed = true
			} else {
				got = append(got, m.n)
			}
			mu.Unlock()
			if crashNow {
				panic("crash while draining")
			}
		}
	}, "mut7sub", WithID("1"), WithRestartDelay(time.Millisecond))
	e.Subscribe(sub)

	// fence: when it has seen event 3 the event stream has forwarded 2 and 3 to sub as well.
	fence := make(chan struct{})
	f := e.SpawnFunc(func(c *Context) {
		if m, ok := c.Message().(mut7DrainEvent); ok && m.n == 3 {
			close(fence)
		}
	}, "mut7fence")
	e.Subscribe(f)

	e.Send(sub, "hold")
	time.Sleep(50 * time.Millisecond) // sub is now blocked inside its handler
	e.Poison(sub)
	e.BroadcastEvent(mut7DrainEvent{2})
	e.BroadcastEvent(mut7DrainEvent{3})
	<-fence
	time.Sleep(50 * time.Millisecond)
	close(gate) // next batch of sub: [pill, 2, 3]

	time.Sleep(500 * time.Millisecond)
	mu.Lock()
	defer mu.Unlock()
	seen := map[int]int{}
	for _, n := range got {
		seen[n]++
	}
	for n, k := range seen {
		require.LessOrEqual(t, k, 1, "event %d was delivered %d times: %v", n, k, got)
	}
}
