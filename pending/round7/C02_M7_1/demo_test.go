package actor

import (
	"sync/atomic"
	"testing"
	"time"
)

type mut7TickC02a struct{}

// TestMut7C02ThroughputHandOff keeps one actor's inbox non-empty for far more
// consecutive batches than the scheduler's throughput budget (the actor feeds
// itself: every Receive sends one message back to self, four such chains run
// at once). Receive counts how many invocations are in flight; more than one
// means two goroutines were inside Receive of the same actor at the same time.
func TestMut7C02ThroughputHandOff(t *testing.T) {
	e, err := NewEngine(NewEngineConfig())
	if err != nil {
		t.Fatal(err)
	}
	const total = 4000
	var (
		inflight atomic.Int32
		overlap  atomic.Int32
		seen     atomic.Int32
		done     = make(chan struct{})
	)
	pid := e.SpawnFunc(func(c *Context) {
		if _, ok := c.Message().(mut7TickC02a); !ok {
			return
		}
		if inflight.Add(1) > 1 {
			overlap.Add(1)
		}
		for t0 := time.Now(); time.Since(t0) < 40*time.Microsecond; {
		}
		n := seen.Add(1)
		if n < total {
			c.Send(c.PID(), mut7TickC02a{})
		} else if n == total {
			close(done)
		}
		inflight.Add(-1)
	}, "mut7c02a")
	for i := 0; i < 4; i++ {
		e.Send(pid, mut7TickC02a{})
	}
	select {
	case <-done:
	case <-time.After(12 * time.Second):
		t.Logf("only %d messages seen", seen.Load())
	}
	time.Sleep(50 * time.Millisecond)
	if n := overlap.Load(); n > 0 {
		t.Fatalf("Receive of one actor ran concurrently with itself %d times", n)
	}
}
