package remote

import (
	"context"
	"fmt"
	"net"
	"sync"
	"testing"

	"github.com/anthdm/hollywood/actor"
	"google.golang.org/protobuf/proto"
	"storj.io/drpc"
)

// ---- harness -------------------------------------------------------------

type mut7Delivery struct {
	target  string
	sender  *actor.PID
	payload any
}

type mut7Recorder struct {
	mu  *sync.Mutex
	log *[]mut7Delivery
	pid *actor.PID
}

func (r *mut7Recorder) Start()          {}
func (r *mut7Recorder) PID() *actor.PID { return r.pid }
func (r *mut7Recorder) Send(to *actor.PID, msg any, sender *actor.PID) {
	r.mu.Lock()
	defer r.mu.Unlock()
	*r.log = append(*r.log, mut7Delivery{target: to.String(), sender: sender, payload: msg})
}
func (r *mut7Recorder) Invoke([]actor.Envelope) {}
func (r *mut7Recorder) Shutdown()               {}

type mut7OutStream struct {
	drpc.Stream
	envs [][]byte
}

func (s *mut7OutStream) Send(e *Envelope) error {
	// the codec the generated DRPC client uses on the wire
	b, err := drpcEncoding_File_remote_proto{}.Marshal(e)
	if err != nil {
		return err
	}
	s.envs = append(s.envs, b)
	return nil
}
func (s *mut7OutStream) Recv() (*Envelope, error) { return nil, context.Canceled }
func (s *mut7OutStream) Close() error             { return nil }

type mut7InStream struct {
	drpc.Stream
	envs [][]byte
}

func (s *mut7InStream) Send(*Envelope) error { return nil }
func (s *mut7InStream) Recv() (*Envelope, error) {
	if len(s.envs) == 0 {
		return nil, context.Canceled
	}
	b := s.envs[0]
	s.envs = s.envs[1:]
	e := &Envelope{}
	if err := (drpcEncoding_File_remote_proto{}).Unmarshal(b, e); err != nil {
		return nil, err
	}
	return e, nil
}

type mut7Msg struct {
	target *actor.PID
	sender *actor.PID
	msg    any
}

// mut7RoundTrip encodes every batch with a real streamWriter, carries the bytes
// over to a real streamReader and returns what the receiving engine delivered.
func mut7RoundTrip(t *testing.T, recvIDs []string, batches ...[]mut7Msg) ([]mut7Delivery, error) {
	t.Helper()
	se, err := actor.NewEngine(actor.NewEngineConfig())
	if err != nil {
		t.Fatal(err)
	}
	re, err := actor.NewEngine(actor.NewEngineConfig())
	if err != nil {
		t.Fatal(err)
	}
	var (
		mu  sync.Mutex
		log []mut7Delivery
	)
	for _, id := range recvIDs {
		re.SpawnProc(&mut7Recorder{mu: &mu, log: &log, pid: actor.NewPID(re.Address(), id)})
	}
	c1, c2 := net.Pipe()
	defer c1.Close()
	defer c2.Close()
	out := &mut7OutStream{}
	sw := newStreamWriter(se, actor.NewPID("local", "router"), "peer:1", nil, 0).(*streamWriter)
	sw.stream = out
	sw.rawconn = c1
	for _, batch := range batches {
		envs := make([]actor.Envelope, 0, len(batch))
		for _, m := range batch {
			envs = append(envs, actor.Envelope{Msg: &streamDeliver{target: m.target, sender: m.sender, msg: m.msg}})
		}
		sw.Invoke(envs)
	}
	sr := newStreamReader(&Remote{engine: re})
	rerr := sr.Receive(&mut7InStream{envs: out.envs})
	mu.Lock()
	defer mu.Unlock()
	return append([]mut7Delivery(nil), log...), rerr
}

func mut7Check(t *testing.T, got []mut7Delivery, want []mut7Msg) {
	t.Helper()
	if len(got) != len(want) {
		t.Fatalf("delivered %d messages, want %d: %+v", len(got), len(want), got)
	}
	for i := range want {
		g, w := got[i], want[i]
		if g.target != w.target.String() {
			t.Errorf("message %d: delivered to %s, want %s", i, g.target, w.target)
		}
		if (g.sender == nil) != (w.sender == nil) || (g.sender != nil && !g.sender.Equals(w.sender)) {
			t.Errorf("message %d: sender %v, want %v", i, g.sender, w.sender)
		}
		gp, ok := g.payload.(proto.Message)
		if !ok || !proto.Equal(gp, w.msg.(proto.Message)) {
			t.Errorf("message %d: payload %v, want %v", i, g.payload, w.msg)
		}
	}
}

var _ = fmt.Sprint

// A batch that mixes messages with and without a sender: lookupPIDs gives a nil
// sender the index 0, and the reader resolves index 0 as soon as the envelope has
// a sender table at all, so the sender-less message arrives with Senders[0].
func TestMut7DefectNilSenderInMixedBatch(t *testing.T) {
	a := actor.NewPID("local", "a")
	s1 := actor.NewPID("n1:1", "s1")
	for i, batch := range [][]mut7Msg{
		{{a, s1, &TestMessage{Data: []byte("1")}}, {a, nil, &TestMessage{Data: []byte("2")}}},
		{{a, nil, &TestMessage{Data: []byte("1")}}, {a, s1, &TestMessage{Data: []byte("2")}}},
	} {
		got, err := mut7RoundTrip(t, []string{"a"}, batch)
		if err != nil {
			t.Fatalf("batch %d: %v", i, err)
		}
		mut7Check(t, got, batch)
	}
}
