package actor

import (
	"testing"
	"time"
)

// Inbox contents at the moment of the budget-exhausting panic: a graceful
// poison pill followed by the message that panics (last of its batch).
// The actor has to be terminated (event, unregistered) and the hosting
// process - here: the test binary - and the other actors have to survive.
func TestMut7BudgetExhaustedWhileDrainingForPoison(t *testing.T) {
	e, err := NewEngine(NewEngineConfig())
	if err != nil {
		t.Fatal(err)
	}
	type bad struct{}
	type block struct{}
	type ping struct{}

	exceeded := make(chan *PID, 4)
	monReady := make(chan struct{})
	e.SpawnFunc(func(c *Context) {
		switch m := c.Message().(type) {
		case Started:
			c.Engine().Subscribe(c.PID())
			close(monReady)
		case ActorMaxRestartsExceededEvent:
			exceeded <- m.PID
		}
	}, "monitor")
	<-monReady
	time.Sleep(50 * time.Millisecond)

	pong := make(chan struct{}, 1)
	bystander := e.SpawnFunc(func(c *Context) {
		if _, ok := c.Message().(ping); ok {
			pong <- struct{}{}
		}
	}, "bystander")

	entered := make(chan struct{})
	release := make(chan struct{})
	pid := e.SpawnFunc(func(c *Context) {
		switch c.Message().(type) {
		case block:
			close(entered)
			<-release
		case bad:
			panic("boom")
		}
	}, "victim", WithID("v"), WithMaxRestarts(0))

	// park the actor so that its next batch is exactly [pill, bad]
	e.Send(pid, block{})
	<-entered
	e.Poison(pid)
	e.Send(pid, bad{})
	close(release)

	select {
	case p := <-exceeded:
		if !p.Equals(pid) {
			t.Fatalf("exceeded event for %v", p)
		}
	case <-time.After(3 * time.Second):
		t.Fatal("no ActorMaxRestartsExceededEvent")
	}
	deadline := time.Now().Add(2 * time.Second)
	for e.Registry.GetPID("victim", "v") != nil {
		if time.Now().After(deadline) {
			t.Fatal("actor still registered after exhausting its budget")
		}
		time.Sleep(10 * time.Millisecond)
	}
	// everybody else is still there
	e.Send(bystander, ping{})
	select {
	case <-pong:
	case <-time.After(2 * time.Second):
		t.Fatal("bystander does not answer any more")
	}
}
