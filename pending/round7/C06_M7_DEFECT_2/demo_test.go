package actor

import (
	"testing"
	"time"
)

// A parent exhausts its restart budget; its cleanup poisons (gracefully) the
// child. The child's batch is [pill, bad]: the graceful drain in Invoke runs
// `bad`, which panics. Invoke's recover buffers msgs[nproc:] (the pill is not
// among them) and the child, which still has budget, is restarted. The pill is
// lost: the child keeps running and the parent's cleanup blocks forever.
func TestMut7DefectChildSurvivesParentTermination(t *testing.T) {
	e, err := NewEngine(NewEngineConfig())
	if err != nil {
		t.Fatal(err)
	}
	type bad struct{}
	type block struct{}
	type goMsg struct{}

	exceeded := make(chan *PID, 16)
	monReady := make(chan struct{})
	e.SpawnFunc(func(c *Context) {
		switch m := c.Message().(type) {
		case Started:
			c.Engine().Subscribe(c.PID())
			close(monReady)
		case ActorMaxRestartsExceededEvent:
			exceeded <- m.PID
		}
	}, "monitor")
	<-monReady
	time.Sleep(50 * time.Millisecond)

	entered := make(chan struct{})
	release := make(chan struct{})
	var childPID *PID
	parent := e.SpawnFunc(func(c *Context) {
		switch c.Message().(type) {
		case Started:
			childPID = c.SpawnChildFunc(func(cc *Context) {
				switch cc.Message().(type) {
				case block:
					close(entered)
					<-release
				case bad:
					panic("child fails")
				}
			}, "child", WithMaxRestarts(3), WithRestartDelay(time.Millisecond), WithID("c"))
		case goMsg:
			panic("parent fails")
		}
	}, "parent", WithMaxRestarts(0), WithID("p"))

	// park the child inside a handler so that the next batch is ours to build
	e.Send(childPID, block{})
	<-entered

	e.Send(parent, goMsg{})
	select {
	case pid := <-exceeded:
		if !pid.Equals(parent) {
			t.Fatalf("unexpected exceeded event for %v", pid)
		}
	case <-time.After(2 * time.Second):
		t.Fatal("parent did not exhaust its budget")
	}
	// parent's cleanup has (or is about to have) pushed the graceful pill
	time.Sleep(200 * time.Millisecond)
	e.Send(childPID, bad{}) // batch of the child is now [pill, bad]
	close(release)

	deadline := time.Now().Add(3 * time.Second)
	for time.Now().Before(deadline) {
		if e.Registry.GetPID("parent", "p") == nil && e.Registry.get(childPID) == nil {
			return // both terminated
		}
		time.Sleep(20 * time.Millisecond)
	}
	t.Fatalf("3s after the parent's ActorMaxRestartsExceededEvent: parent registered=%v child registered=%v (pill lost in the child's graceful drain, parent cleanup blocked)",
		e.Registry.GetPID("parent", "p") != nil, e.Registry.get(childPID) != nil)
}
