package actor

import (
	"sync/atomic"
	"testing"
	"time"
)

type mut7WorkC02b struct{}

// One round: actor A is poisoned; while it handles Stopped (the usual place for
// a supervisor-style respawn) it spawns a successor B and hands it a backlog of
// work. B counts the Receive invocations that are in flight at the same time.
func mut7C02bRound(t *testing.T, e *Engine, round int) (overlaps int32) {
	const backlog = 400
	var (
		inflight atomic.Int32
		overlap  atomic.Int32
		seen     atomic.Int32
		bpid     atomic.Pointer[PID]
	)
	recvB := func(c *Context) {
		if _, ok := c.Message().(mut7WorkC02b); !ok {
			return
		}
		if inflight.Add(1) > 1 {
			overlap.Add(1)
		}
		for t0 := time.Now(); time.Since(t0) < 50*time.Microsecond; {
		}
		seen.Add(1)
		inflight.Add(-1)
	}
	recvA := func(c *Context) {
		if _, ok := c.Message().(Stopped); !ok {
			return
		}
		b := c.Engine().SpawnFunc(recvB, "mut7c02b-succ")
		bpid.Store(b)
		for i := 0; i < backlog; i++ {
			c.Engine().Send(b, mut7WorkC02b{})
		}
	}
	a := e.SpawnFunc(recvA, "mut7c02b-first")
	select {
	case <-e.Poison(a).Done():
	case <-time.After(5 * time.Second):
		t.Fatalf("round %d: first actor did not stop", round)
	}
	// keep a trickle of work coming while the backlog is being worked off
	const trickle = 200
	for i := 0; i < trickle; i++ {
		e.Send(bpid.Load(), mut7WorkC02b{})
		time.Sleep(20 * time.Microsecond)
	}
	deadline := time.Now().Add(3 * time.Second)
	for seen.Load() < backlog+trickle && time.Now().Before(deadline) {
		time.Sleep(time.Millisecond)
	}
	time.Sleep(5 * time.Millisecond)
	if b := bpid.Load(); b != nil {
		<-e.Poison(b).Done()
	}
	return overlap.Load()
}

func TestMut7C02SuccessorSpawnedInStopped(t *testing.T) {
	e, err := NewEngine(NewEngineConfig())
	if err != nil {
		t.Fatal(err)
	}
	for round := 0; round < 25; round++ {
		if n := mut7C02bRound(t, e, round); n > 0 {
			t.Fatalf("round %d: Receive of the successor actor ran concurrently with itself %d times", round, n)
		}
	}
}
