package actor

import (
	"sync/atomic"
	"testing"
	"time"
)

// Budget 1: the first crash is a restart, the second crash - whenever it
// happens in the life of the actor - must terminate it.
func TestMut7RestartBudgetIsForTheWholeLife(t *testing.T) {
	e, err := NewEngine(NewEngineConfig())
	if err != nil {
		t.Fatal(err)
	}
	type bad struct{}

	var restarted int32
	exceeded := make(chan *PID, 4)
	restartedCh := make(chan int32, 16)
	monReady := make(chan struct{})
	e.SpawnFunc(func(c *Context) {
		switch m := c.Message().(type) {
		case Started:
			c.Engine().Subscribe(c.PID())
			close(monReady)
		case ActorRestartedEvent:
			atomic.AddInt32(&restarted, 1)
			restartedCh <- m.Restarts
		case ActorMaxRestartsExceededEvent:
			exceeded <- m.PID
		}
	}, "monitor")
	<-monReady
	time.Sleep(50 * time.Millisecond)

	pid := e.SpawnFunc(func(c *Context) {
		if _, ok := c.Message().(bad); ok {
			panic("boom")
		}
	}, "victim", WithID("v"), WithMaxRestarts(1), WithRestartDelay(time.Millisecond))

	e.Send(pid, bad{})
	select {
	case <-restartedCh:
	case <-time.After(2 * time.Second):
		t.Fatal("first crash did not restart the actor")
	}

	// the actor now lives happily for a while
	time.Sleep(5300 * time.Millisecond)

	e.Send(pid, bad{})
	select {
	case p := <-exceeded:
		if !p.Equals(pid) {
			t.Fatalf("exceeded event for %v", p)
		}
	case n := <-restartedCh:
		t.Fatalf("actor with MaxRestarts(1) was restarted a second time (event says Restarts=%d, %d restarts seen)", n, atomic.LoadInt32(&restarted))
	case <-time.After(2 * time.Second):
		t.Fatal("neither restarted nor terminated")
	}

	deadline := time.Now().Add(2 * time.Second)
	for e.Registry.GetPID("victim", "v") != nil {
		if time.Now().After(deadline) {
			t.Fatal("actor still registered after exhausting its budget")
		}
		time.Sleep(10 * time.Millisecond)
	}
	if n := atomic.LoadInt32(&restarted); n > 1 {
		t.Fatalf("restarted %d times with MaxRestarts(1)", n)
	}
}
