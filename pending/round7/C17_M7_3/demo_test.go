package remote

import (
	"fmt"
	"sync"
	"testing"
	"time"

	"github.com/anthdm/hollywood/actor"
)

// A Remote built from a Config literal (all fields are exported, the zero value has always
// been a valid configuration and is exactly what NewConfig() used to return) must behave
// like one built from NewConfig(): messages to a peer that is up are delivered once and in
// order and the peer is not reported unreachable.
func TestMut7ZeroValueConfig(t *testing.T) {
	mk := func() (*actor.Engine, *Remote) {
		r := New(getRandomLocalhostAddr(), Config{})
		e, err := actor.NewEngine(actor.NewEngineConfig().WithRemote(r))
		if err != nil {
			t.Fatal(err)
		}
		return e, r
	}
	a, ra := mk()
	defer ra.Stop()
	b, rb := mk()
	defer rb.Stop()

	const n = 10
	var (
		mu          sync.Mutex
		got         []string
		unreachable int
		deadLetters int
	)
	pid := a.SpawnFunc(func(c *actor.Context) {
		if msg, ok := c.Message().(*TestMessage); ok {
			mu.Lock()
			got = append(got, string(msg.Data))
			mu.Unlock()
		}
	}, "sink")
	mon := b.SpawnFunc(func(c *actor.Context) {
		mu.Lock()
		defer mu.Unlock()
		switch c.Message().(type) {
		case actor.RemoteUnreachableEvent:
			unreachable++
		case actor.DeadLetterEvent:
			deadLetters++
		}
	}, "monitor")
	b.Subscribe(mon)
	time.Sleep(50 * time.Millisecond)

	// two rounds, so that the second one goes over the connection the first one opened
	for round := 0; round < 2; round++ {
		for i := 0; i < n/2; i++ {
			b.Send(pid, &TestMessage{Data: []byte(fmt.Sprintf("m%d", round*n/2+i))})
		}
		time.Sleep(300 * time.Millisecond)
	}

	deadline := time.Now().Add(4 * time.Second)
	for time.Now().Before(deadline) {
		mu.Lock()
		l := len(got)
		mu.Unlock()
		if l >= n {
			break
		}
		time.Sleep(20 * time.Millisecond)
	}
	mu.Lock()
	defer mu.Unlock()
	if unreachable != 0 || deadLetters != 0 {
		t.Errorf("peer %s is up, but sender saw %d RemoteUnreachableEvent and %d DeadLetterEvent", a.Address(), unreachable, deadLetters)
	}
	if len(got) != n {
		t.Fatalf("delivered %d of %d messages: %v", len(got), n, got)
	}
	for i, s := range got {
		if s != fmt.Sprintf("m%d", i) {
			t.Fatalf("position %d: got %s (%v)", i, s, got)
		}
	}
}
