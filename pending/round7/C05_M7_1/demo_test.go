package actor

import (
	"fmt"
	"sync/atomic"
	"testing"
	"time"
)

// A panic in a lifecycle handler (Initialized / Started) of the FIRST
// incarnation of a top-level actor happens on the goroutine that called
// Spawn, i.e. with no (*process).Invoke frame on the stack. The panic must be
// contained: Spawn returns normally, an ActorRestartedEvent{Restarts: 1} is
// published, a fresh receiver is initialised and messages flow.
func mut7LifecycleCrash(t *testing.T, crashIn string) {
	e, err := NewEngine(NewEngineConfig())
	if err != nil {
		t.Fatal(err)
	}

	events := make(chan ActorRestartedEvent, 8)
	subReady := make(chan struct{})
	e.SpawnFunc(func(c *Context) {
		switch m := c.Message().(type) {
		case Started:
			c.Engine().Subscribe(c.PID())
			close(subReady)
		case ActorRestartedEvent:
			events <- m
		}
	}, "mut7watch")
	<-subReady
	time.Sleep(20 * time.Millisecond) // let the subscription reach the event stream

	var (
		crashes atomic.Int32
		inits   atomic.Int32
		got     = make(chan int, 4)
		pid     *PID
	)
	escaped := func() (v any) {
		defer func() { v = recover() }()
		pid = e.SpawnFunc(func(c *Context) {
			switch m := c.Message().(type) {
			case Initialized:
				inits.Add(1)
				if crashIn == "Initialized" && crashes.Add(1) == 1 {
					panic("boom in Initialized")
				}
			case Started:
				if crashIn == "Started" && crashes.Add(1) == 1 {
					panic("boom in Started")
				}
			case int:
				got <- m
			}
		}, "mut7life", WithRestartDelay(5*time.Millisecond))
		return nil
	}()
	if escaped != nil {
		t.Fatalf("panic raised in the %s handler escaped from Spawn into the caller: %v", crashIn, escaped)
	}

	e.Send(pid, 42)
	select {
	case v := <-got:
		if v != 42 {
			t.Fatalf("got %d", v)
		}
	case <-time.After(3 * time.Second):
		t.Fatal("actor did not resume after the lifecycle panic")
	}
	if n := inits.Load(); n != 2 {
		t.Fatalf("expected 2 incarnations to be initialised, got %d", n)
	}
	select {
	case ev := <-events:
		if ev.Restarts != 1 || !ev.PID.Equals(pid) {
			t.Fatalf("unexpected restart event %s", fmt.Sprint(ev.Restarts, ev.PID))
		}
	case <-time.After(3 * time.Second):
		t.Fatal("no ActorRestartedEvent published")
	}
}

func TestMut7StartedPanicOnSpawnContained(t *testing.T)     { mut7LifecycleCrash(t, "Started") }
func TestMut7InitializedPanicOnSpawnContained(t *testing.T) { mut7LifecycleCrash(t, "Initialized") }
