package actor

import (
	"sync/atomic"
	"testing"
	"time"
)

// An actor that never makes it through Started (restart budget used up while
// starting) is a stopped actor: it has handled Stopped and it is gone from the
// registry when Spawn returns. Stopping/poisoning such a PID afterwards is the
// "already stopped PID" case: the context must become done.
func mut7SpawnFailingStarter(t *testing.T, e *Engine, stops *atomic.Int32) *PID {
	t.Helper()
	return e.SpawnFunc(func(c *Context) {
		switch c.Message().(type) {
		case Started:
			panic("cannot start")
		case Stopped:
			stops.Add(1)
		}
	}, "failing", WithMaxRestarts(1), WithRestartDelay(time.Millisecond))
}

func mut7StopAfterFailedStart(t *testing.T, graceful bool) {
	e, err := NewEngine(NewEngineConfig())
	if err != nil {
		t.Fatal(err)
	}
	var stops atomic.Int32
	pid := mut7SpawnFailingStarter(t, e, &stops)
	// Spawn is synchronous: the actor crashed in Started twice and gave up.
	if stops.Load() == 0 {
		t.Fatal("the actor that failed to start never handled Stopped")
	}
	var ctx interface{ Done() <-chan struct{} }
	if graceful {
		ctx = e.Poison(pid)
	} else {
		ctx = e.Stop(pid)
	}
	select {
	case <-ctx.Done():
	case <-time.After(2 * time.Second):
		t.Fatalf("context for an already stopped PID never done (still registered: %v)", e.Registry.get(pid) != nil)
	}
	if e.Registry.get(pid) != nil {
		t.Fatal("context done but the PID is still registered")
	}
}

func TestMut7PoisonAfterFailedStart(t *testing.T) { mut7StopAfterFailedStart(t, true) }
func TestMut7StopAfterFailedStart(t *testing.T)   { mut7StopAfterFailedStart(t, false) }

// Parent-initiated shutdown: one of the children never came up. Poisoning the
// parent must still complete.
func TestMut7PoisonParentWithFailedChild(t *testing.T) {
	e, err := NewEngine(NewEngineConfig())
	if err != nil {
		t.Fatal(err)
	}
	var (
		parentStops atomic.Int32
		childStops  atomic.Int32
		goodStops   atomic.Int32
	)
	parent := e.SpawnFunc(func(c *Context) {
		switch c.Message().(type) {
		case Started:
			c.SpawnChildFunc(func(c *Context) {
				if _, ok := c.Message().(Stopped); ok {
					goodStops.Add(1)
				}
			}, "good")
			c.SpawnChildFunc(func(c *Context) {
				switch c.Message().(type) {
				case Started:
					panic("cannot start")
				case Stopped:
					childStops.Add(1)
				}
			}, "bad", WithMaxRestarts(0))
		case Stopped:
			parentStops.Add(1)
		}
	}, "parent")
	ctx := e.Poison(parent)
	select {
	case <-ctx.Done():
	case <-time.After(2 * time.Second):
		t.Fatalf("Poison(parent) never done: parent Stopped=%d good child Stopped=%d bad child Stopped=%d registered=%v",
			parentStops.Load(), goodStops.Load(), childStops.Load(), e.Registry.get(parent) != nil)
	}
	if parentStops.Load() != 1 || goodStops.Load() != 1 || e.Registry.get(parent) != nil {
		t.Fatalf("done but parent Stopped=%d good child Stopped=%d registered=%v",
			parentStops.Load(), goodStops.Load(), e.Registry.get(parent) != nil)
	}
}
