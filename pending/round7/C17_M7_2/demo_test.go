package remote

import (
	"fmt"
	"sync"
	"testing"
	"time"

	"github.com/anthdm/hollywood/actor"
)

func init() {
	// The documented way to announce a vtproto type to the remote (remote_test.go does
	// the same for the whole test binary).
	RegisterType(&TestMessage{})
}

// Distinct messages of one (registered) type sent to one remote actor: every one of
// them has to arrive exactly once, with its own content, in the order it was sent.
// The receiver keeps the messages it was given and looks at them once all arrived,
// as any actor that stores or forwards its messages does.
func TestMut7DistinctMessagesOfRegisteredType(t *testing.T) {
	a, ra, err := makeRemoteEngine(getRandomLocalhostAddr())
	if err != nil {
		t.Fatal(err)
	}
	defer ra.Stop()
	b, rb, err := makeRemoteEngine(getRandomLocalhostAddr())
	if err != nil {
		t.Fatal(err)
	}
	defer rb.Stop()

	const n = 50
	var (
		mu     sync.Mutex
		kept   []*TestMessage
		atRecv []string
		done   = make(chan struct{})
	)
	pid := a.SpawnFunc(func(c *actor.Context) {
		if msg, ok := c.Message().(*TestMessage); ok {
			mu.Lock()
			kept = append(kept, msg)
			atRecv = append(atRecv, string(msg.Data))
			if len(kept) == n {
				close(done)
			}
			mu.Unlock()
		}
	}, "sink")

	for i := 0; i < n; i++ {
		b.Send(pid, &TestMessage{Data: []byte(fmt.Sprintf("payload-%03d", i))})
	}
	select {
	case <-done:
	case <-time.After(8 * time.Second):
		t.Fatalf("timeout waiting for %d messages", n)
	}
	// let a straggling duplicate show up
	time.Sleep(100 * time.Millisecond)

	mu.Lock()
	defer mu.Unlock()
	if len(kept) != n {
		t.Fatalf("received %d messages, sent %d", len(kept), n)
	}
	distinct := map[*TestMessage]bool{}
	for i, m := range kept {
		distinct[m] = true
		want := fmt.Sprintf("payload-%03d", i)
		if string(m.Data) != want {
			t.Errorf("message %d: content is %q, want %q (content seen on arrival: %q)", i, m.Data, want, atRecv[i])
			if i > 5 {
				break
			}
		}
	}
	if len(distinct) != len(kept) && !t.Failed() {
		t.Errorf("%d deliveries share %d message objects", len(kept), len(distinct))
	}
}
