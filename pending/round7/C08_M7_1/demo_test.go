package actor

import (
	"context"
	"sync"
	"testing"
	"time"
)

// An application that hands its actors an application context (WithContext),
// cancels that context on shutdown and then poisons the root actor.  The
// subtree has to be down (Stopped handled, unregistered) before the root
// handles its own Stopped and before the root's stop context is done.
func TestMut7CtxBoundSubtreeShutdown(t *testing.T) {
	e, err := NewEngine(NewEngineConfig())
	if err != nil {
		t.Fatal(err)
	}
	var (
		mu      sync.Mutex
		order   []string
		started sync.WaitGroup
	)
	rec := func(s string) {
		mu.Lock()
		order = append(order, s)
		mu.Unlock()
	}
	leaf := func(name string) func(*Context) {
		return func(c *Context) {
			switch c.Message().(type) {
			case Started:
				started.Done()
			case Stopped:
				time.Sleep(100 * time.Millisecond) // a child that needs a moment to wind down
				rec(name)
			}
		}
	}
	appCtx, appCancel := context.WithCancel(context.Background())
	defer appCancel()

	started.Add(3)
	root := e.SpawnFunc(func(c *Context) {
		switch c.Message().(type) {
		case Started:
			c.SpawnChildFunc(leaf("a"), "leaf", WithID("a"))
			c.SpawnChildFunc(leaf("b"), "leaf", WithID("b"))
			started.Done()
		case Stopped:
			rec("root")
		}
	}, "root", WithID("1"), WithContext(appCtx))
	started.Wait()

	// application shutdown: cancel the application context, then stop the tree.
	appCancel()
	select {
	case <-e.Poison(root).Done():
	case <-time.After(5 * time.Second):
		t.Fatal("root did not stop")
	}

	mu.Lock()
	got := append([]string(nil), order...)
	mu.Unlock()
	for _, id := range []string{"root/1/leaf/a", "root/1/leaf/b"} {
		if e.Registry.getByID(id) != nil {
			t.Errorf("child %s still registered after the root's stop context is done", id)
		}
	}
	if len(got) != 3 || got[2] != "root" {
		t.Fatalf("Stopped order = %v, want both leaves before root", got)
	}
}
