package actor

import (
	"testing"
	"time"
)

// A responder answers a request twice: once in time, and once more after the
// requester's Result() has returned. The second reply must become a dead letter.
func TestMut7SecondLateReplyIsDeadLetter(t *testing.T) {
	e, err := NewEngine(NewEngineConfig())
	if err != nil {
		t.Fatal(err)
	}
	type ask struct{ n int }
	type probe struct{}

	dead := make(chan DeadLetterEvent, 64)
	sub := e.SpawnFunc(func(c *Context) {
		if dl, ok := c.Message().(DeadLetterEvent); ok {
			dead <- dl
		}
	}, "mut7dl")
	e.Subscribe(sub)
	// make sure the subscription is in place: wait until a probe dead letter shows up.
	subscribed := false
	for i := 0; i < 200 && !subscribed; i++ {
		e.Send(NewPID(LocalLookupAddr, "mut7/nobody"), probe{})
		select {
		case <-dead:
			subscribed = true
		case <-time.After(20 * time.Millisecond):
		}
	}
	if !subscribed {
		t.Fatal("dead letter subscription never became active")
	}

	proceed := make(chan struct{})
	sentSecond := make(chan struct{}, 8)
	responder := e.SpawnFunc(func(c *Context) {
		if m, ok := c.Message().(ask); ok {
			c.Respond(m.n) // in time
			<-proceed
			c.Respond(-m.n) // late: the requester is long gone
			sentSecond <- struct{}{}
		}
	}, "mut7responder")

	resp := e.Request(responder, ask{n: 7}, 5*time.Second)
	got, err := resp.Result()
	if err != nil {
		t.Fatalf("first reply did not arrive: %v", err)
	}
	if got != 7 {
		t.Fatalf("wrong reply: %v", got)
	}
	if e.Registry.get(resp.PID()) != nil {
		t.Fatalf("response pid still registered after Result()")
	}
	close(proceed)
	select {
	case <-sentSecond:
	case <-time.After(5 * time.Second):
		t.Fatal("responder never sent its second reply")
	}

	deadline := time.After(3 * time.Second)
	for {
		select {
		case dl := <-dead:
			if _, isProbe := dl.Message.(probe); isProbe {
				continue
			}
			if dl.Target == nil || dl.Target.ID != resp.PID().ID {
				t.Fatalf("unexpected dead letter: %+v", dl)
			}
			if dl.Message != -7 {
				t.Fatalf("dead letter carries wrong message: %v", dl.Message)
			}
			return // the late reply became a dead letter
		case <-deadline:
			t.Fatal("late second reply to an unregistered response pid did not become a dead letter")
		}
	}
}
