package cluster

import (
	"testing"
	"time"

	"github.com/anthdm/hollywood/actor"
	"github.com/anthdm/hollywood/remote"
)

// Helpers (bootstrap members instead of relying on mDNS timing; unique ids and
// kinds so that nodes of other tests in the same process cannot interfere).

type m7cNode struct {
	c *Cluster
	r *remote.Remote
}

func m7cMakeNode(t *testing.T, id, region string, boot []*m7cNode, kinds ...string) *m7cNode {
	t.Helper()
	addr := getRandomLocalhostAddr()
	pc := NewSelfManagedConfig()
	for _, b := range boot {
		pc = pc.WithBootstrapMember(MemberAddr{ListenAddr: b.c.engine.Address(), ID: b.c.ID()})
	}
	r := remote.New(addr, remote.NewConfig())
	e, err := actor.NewEngine(actor.NewEngineConfig().WithRemote(r))
	if err != nil {
		t.Fatal(err)
	}
	c, err := New(NewConfig().WithID(id).WithRegion(region).WithEngine(e).WithListenAddr(addr).
		WithProvider(NewSelfManagedProvider(pc)))
	if err != nil {
		t.Fatal(err)
	}
	for _, k := range kinds {
		c.RegisterKind(k, NewPlayer, NewKindConfig())
	}
	return &m7cNode{c: c, r: r}
}

func (n *m7cNode) stop() {
	n.c.Stop()
	n.r.Stop().Wait()
}

func m7cWaitMembers(t *testing.T, nodes ...*m7cNode) {
	t.Helper()
	deadline := time.Now().Add(8 * time.Second)
	for time.Now().Before(deadline) {
		ok := true
		for _, nd := range nodes {
			have := map[string]bool{}
			for _, m := range nd.c.Members() {
				have[m.ID] = true
			}
			for _, other := range nodes {
				if !have[other.c.ID()] {
					ok = false
				}
			}
		}
		if ok {
			return
		}
		time.Sleep(20 * time.Millisecond)
	}
	t.Fatalf("members did not converge")
}

// B found the cluster through its bootstrap member A. A hosts an activation and then leaves
// (its remote goes away). Every activation hosted on A has to disappear from the view of B,
// A has to leave B's member set, and its kind can no longer be activated.
func TestMut7BootstrapMemberLeavePurgesItsActivations(t *testing.T) {
	const kind = "m7ckind"
	a := m7cMakeNode(t, "m7cA", "eu", nil, kind)
	b := m7cMakeNode(t, "m7cB", "eu", []*m7cNode{a})
	a.c.Start()
	b.c.Start()
	defer b.stop()
	m7cWaitMembers(t, a, b)

	pid := b.c.Activate(kind, NewActivationConfig().WithID("1"))
	if pid == nil || pid.Address != a.c.engine.Address() {
		t.Fatalf("expected activation on A, got %v", pid)
	}
	ok := m7cEventually(3*time.Second, func() bool {
		p := b.c.GetActiveByID(kind + "/1")
		return p != nil && p.Equals(pid)
	})
	if !ok {
		t.Fatalf("B never learned about the activation")
	}

	// A leaves: the whole node goes away (cluster actors first, so that its discovery cannot
	// re-introduce it to B afterwards, then the remote).
	a.c.Stop()
	a.r.Stop().Wait()

	gone := m7cEventually(7*time.Second, func() bool { return b.c.GetActiveByID(kind+"/1") == nil })
	if !gone {
		t.Errorf("A left, but B still resolves %v", b.c.GetActiveByID(kind+"/1"))
	}
	if pids := b.c.GetActiveByKind(kind); len(pids) != 1 || pids[0] != nil {
		t.Errorf("A left, but B still lists %v under kind %q", pids, kind)
	}
	for _, m := range b.c.Members() {
		if m.ID == a.c.ID() {
			t.Errorf("A left, but it is still a member for B")
		}
	}
	if p := b.c.Activate(kind, NewActivationConfig().WithID("2")); p != nil {
		t.Errorf("no remaining member advertises %q, Activate must return nil, got %v", kind, p)
	}
}

func m7cEventually(d time.Duration, f func() bool) bool {
	deadline := time.Now().Add(d)
	for time.Now().Before(deadline) {
		if f() {
			return true
		}
		time.Sleep(25 * time.Millisecond)
	}
	return f()
}
