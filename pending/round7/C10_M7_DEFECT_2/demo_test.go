package actor

import (
	"sync/atomic"
	"testing"
	"time"
)

// A SpawnChild that is rejected as a duplicate still records the PID in the
// parent's children table. If the incumbent is not a child of that parent
// (top-level actor whose kind happens to be "<parentID>/<name>"), the parent
// adopts it and poisons it when the parent stops.
func TestMut7DefectDuplicateSpawnChildAdoptsIncumbent(t *testing.T) {
	e, err := NewEngine(NewEngineConfig())
	if err != nil {
		t.Fatal(err)
	}
	var incStopped, loserProducer int32
	inc := e.SpawnFunc(func(c *Context) {
		if _, ok := c.Message().(Stopped); ok {
			atomic.AddInt32(&incStopped, 1)
		}
	}, "parent/1/worker", WithID("7"))

	spawned := make(chan struct{})
	parent := e.SpawnFunc(func(c *Context) {
		switch c.Message().(type) {
		case Started:
			c.SpawnChild(func() Receiver {
				atomic.AddInt32(&loserProducer, 1)
				return &funcReceiver{f: func(*Context) {}}
			}, "worker", WithID("7"))
			close(spawned)
		}
	}, "parent", WithID("1"))
	<-spawned
	if atomic.LoadInt32(&loserProducer) != 0 {
		t.Fatalf("duplicate child was started")
	}
	<-e.Poison(parent).Done()
	time.Sleep(100 * time.Millisecond)
	if atomic.LoadInt32(&incStopped) != 0 || e.Registry.get(inc) == nil {
		t.Errorf("incumbent %s was stopped together with the parent of a REJECTED duplicate spawn", inc.ID)
	}
}
