package actor

import (
	"fmt"
	"sync"
	"testing"
	"time"
)

// Unmodified tree: when the restart budget is exhausted the crashing
// incarnation receives Stopped twice - once from the recover handler of
// Invoke()/Start() and once more from cleanup() called by tryRestart().

type mut7d1Trace struct {
	mu     sync.Mutex
	traces [][]string
}

type mut7d1Recv struct {
	t   *mut7d1Trace
	idx int
}

func (r *mut7d1Recv) Receive(c *Context) {
	r.t.mu.Lock()
	r.t.traces[r.idx] = append(r.t.traces[r.idx], fmt.Sprintf("%T", c.Message()))
	r.t.mu.Unlock()
	if s, ok := c.Message().(string); ok && s == "boom" {
		panic("boom")
	}
}

func TestMut7DefectStoppedTwiceAtMaxRestarts(t *testing.T) {
	for _, maxRestarts := range []int{0, 1} {
		e, err := NewEngine(NewEngineConfig())
		if err != nil {
			t.Fatal(err)
		}
		tr := &mut7d1Trace{}
		pid := e.Spawn(func() Receiver {
			tr.mu.Lock()
			defer tr.mu.Unlock()
			tr.traces = append(tr.traces, nil)
			return &mut7d1Recv{t: tr, idx: len(tr.traces) - 1}
		}, "d1", WithMaxRestarts(maxRestarts), WithRestartDelay(time.Millisecond))
		for i := 0; i <= maxRestarts; i++ {
			e.Send(pid, "boom")
			time.Sleep(50 * time.Millisecond)
		}
		deadline := time.Now().Add(2 * time.Second)
		for e.Registry.GetPID("d1", pid.ID[len("d1/"):]) != nil && time.Now().Before(deadline) {
			time.Sleep(5 * time.Millisecond)
		}
		time.Sleep(50 * time.Millisecond)
		tr.mu.Lock()
		for i, inc := range tr.traces {
			n := 0
			for _, m := range inc {
				if m == "actor.Stopped" {
					n++
				}
			}
			if n != 1 {
				t.Errorf("MaxRestarts=%d incarnation %d received Stopped %d times: %v", maxRestarts, i, n, inc)
			}
		}
		tr.mu.Unlock()
	}
}
