package remote

import (
	"context"
	"testing"
	"time"

	"github.com/anthdm/hollywood/actor"
	"storj.io/drpc"
)

// mut7Stream feeds prepared envelopes to streamReader.Receive and then ends the
// stream the way a cancelled drpc stream does.
type mut7Stream struct {
	drpc.Stream
	envs []*Envelope
}

func (s *mut7Stream) Context() context.Context { return context.Background() }
func (s *mut7Stream) Send(*Envelope) error     { return nil }
func (s *mut7Stream) Recv() (*Envelope, error) {
	if len(s.envs) == 0 {
		return nil, context.Canceled
	}
	e := s.envs[0]
	s.envs = s.envs[1:]
	return e, nil
}

type mut7Delivery struct {
	to  string
	msg any
}

func mut7Run(t *testing.T, engineAddr string, e *actor.Engine, r *Remote) {
	got := make(chan mut7Delivery, 16)
	dead := make(chan actor.DeadLetterEvent, 16)

	// the only user actor of this node: victim/1
	e.SpawnFunc(func(c *actor.Context) {
		if m, ok := c.Message().(*TestMessage); ok {
			got <- mut7Delivery{to: c.PID().GetID(), msg: m}
		}
	}, "victim", actor.WithID("1"))
	dl := e.SpawnFunc(func(c *actor.Context) {
		if ev, ok := c.Message().(actor.DeadLetterEvent); ok {
			if _, ok := ev.Message.(*TestMessage); ok {
				dead <- ev
			}
		}
	}, "mut7dl")
	e.Subscribe(dl)
	time.Sleep(50 * time.Millisecond)

	data, err := ProtoSerializer{}.Serialize(&TestMessage{Data: []byte("hello")})
	if err != nil {
		t.Fatal(err)
	}
	// The peer names the process with id "1" on a node called "<addr>/victim".
	// No process with the id "1" exists here.
	target := &actor.PID{Address: engineAddr + "/victim", ID: "1"}
	env := &Envelope{
		TypeNames: []string{"remote.TestMessage"},
		Targets:   []*actor.PID{target},
		Messages:  []*Message{{Data: data, TypeNameIndex: 0, TargetIndex: 0}},
	}
	if err := newStreamReader(r).Receive(&mut7Stream{envs: []*Envelope{env}}); err != nil {
		t.Fatalf("a well formed envelope ended the stream: %v", err)
	}

	select {
	case d := <-got:
		t.Fatalf("envelope addressed to id %q (address %q) was delivered to the actor %q, which it does not name",
			target.ID, target.Address, d.to)
	case ev := <-dead:
		if ev.Target.GetID() != "1" {
			t.Fatalf("dead letter for unexpected target %v", ev.Target)
		}
	case <-time.After(5 * time.Second):
		t.Fatal("message neither delivered nor dead-lettered")
	}
	// nothing may trickle in afterwards either
	select {
	case d := <-got:
		t.Fatalf("late delivery to the unaddressed actor %q", d.to)
	case <-time.After(100 * time.Millisecond):
	}
}

// local engine (address "local"), reader fed directly
func TestMut7SplitAddressLocalEngine(t *testing.T) {
	e, err := actor.NewEngine(actor.NewEngineConfig())
	if err != nil {
		t.Fatal(err)
	}
	mut7Run(t, e.Address(), e, &Remote{engine: e})
}

// engine with a real remote: the address is host:port
func TestMut7SplitAddressRemoteEngine(t *testing.T) {
	addr := getRandomLocalhostAddr()
	r := New(addr, NewConfig())
	e, err := actor.NewEngine(actor.NewEngineConfig().WithRemote(r))
	if err != nil {
		t.Fatal(err)
	}
	defer r.Stop().Wait()
	mut7Run(t, addr, e, r)
}
