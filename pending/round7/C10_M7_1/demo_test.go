package actor

import (
	"sync/atomic"
	"testing"
	"time"
)

// Two spawns of one ID overlap: the second one arrives while the first one is
// still inside its Producer (a constructor that takes a while). Exactly one of
// them may win; the loser's Producer must never run and a duplicate event has
// to be published.
func TestMut7ConcurrentSpawnWhileProducerRuns(t *testing.T) {
	e, err := NewEngine(NewEngineConfig())
	if err != nil {
		t.Fatal(err)
	}
	var (
		producers, started, stopped, dupEvents int32
		inProducer                             = make(chan struct{})
		release                                = make(chan struct{})
	)
	subscribed := make(chan struct{})
	e.SpawnFunc(func(c *Context) {
		switch c.Message().(type) {
		case Started:
			c.Engine().Subscribe(c.PID())
			close(subscribed)
		case ActorDuplicateIdEvent:
			atomic.AddInt32(&dupEvents, 1)
		}
	}, "monitor")
	<-subscribed

	recv := func() Receiver {
		return &funcReceiver{f: func(c *Context) {
			switch c.Message().(type) {
			case Started:
				atomic.AddInt32(&started, 1)
			case Stopped:
				atomic.AddInt32(&stopped, 1)
			}
		}}
	}
	slowProducer := func() Receiver {
		atomic.AddInt32(&producers, 1)
		close(inProducer)
		<-release // e.g. opens a connection, loads state ...
		return recv()
	}
	fastProducer := func() Receiver {
		atomic.AddInt32(&producers, 1)
		return recv()
	}

	firstDone := make(chan struct{})
	go func() {
		defer close(firstDone)
		e.Spawn(slowProducer, "foo", WithID("1"))
	}()
	<-inProducer
	// foo/1 is registered (its spawn has won) - this one is a duplicate
	if e.Registry.GetPID("foo", "1") == nil {
		t.Fatal("first spawn should hold the ID while it is starting")
	}
	e.Spawn(fastProducer, "foo", WithID("1"))
	close(release)
	<-firstDone
	// the event travels through the event stream actor: give it time on a loaded machine
	for i := 0; i < 500 && atomic.LoadInt32(&dupEvents) == 0 && atomic.LoadInt32(&producers) == 1; i++ {
		time.Sleep(10 * time.Millisecond)
	}

	if got := atomic.LoadInt32(&producers); got != 1 {
		t.Errorf("producers run for foo/1: %d, want 1 (the loser of a concurrent spawn must not be built)", got)
	}
	if s, x := atomic.LoadInt32(&started), atomic.LoadInt32(&stopped); s-x != 1 {
		t.Errorf("live actors foo/1: %d (started %d, stopped %d), want 1", s-x, s, x)
	}
	if got := atomic.LoadInt32(&dupEvents); got != 1 {
		t.Errorf("ActorDuplicateIdEvent published %d times, want 1", got)
	}
}
