package actor

import (
	"testing"
	"time"
)

func mut7cntMonitor(e *Engine, name string) (*PID, chan DeadLetterEvent) {
	ch := make(chan DeadLetterEvent, 64)
	pid := e.SpawnFunc(func(c *Context) {
		if ev, ok := c.Message().(DeadLetterEvent); ok {
			ch <- ev
		}
	}, name)
	return pid, ch
}

func mut7cntExpectOne(t *testing.T, ch chan DeadLetterEvent, target *PID, msg any, sender *PID) {
	t.Helper()
	select {
	case ev := <-ch:
		if !ev.Target.Equals(target) || ev.Message != msg {
			t.Fatalf("dead letter carries %v / %v, want %v / %v", ev.Target, ev.Message, target, msg)
		}
		if (sender == nil) != (ev.Sender == nil) || (sender != nil && !ev.Sender.Equals(sender)) {
			t.Fatalf("dead letter carries sender %v, want %v", ev.Sender, sender)
		}
	case <-time.After(2 * time.Second):
		t.Fatalf("subscribed monitor never saw the DeadLetterEvent for %v: the message vanished silently", msg)
	}
	select {
	case ev := <-ch:
		t.Fatalf("second dead letter for one send: %+v", ev)
	case <-time.After(100 * time.Millisecond):
	}
}

// A live subscriber must see the dead letter no matter what other
// (un)subscriptions happened before: here somebody unsubscribes a PID that was
// never subscribed (a defensive clean-up on shutdown of a component that never
// got as far as subscribing).
func TestMut7CounterUnsubscribeOfStranger(t *testing.T) {
	e, err := NewEngine(NewEngineConfig())
	if err != nil {
		t.Fatal(err)
	}
	mon, ch := mut7cntMonitor(e, "mon")
	e.Subscribe(mon)
	e.Unsubscribe(NewPID(LocalLookupAddr, "never/subscribed"))

	target := NewPID(LocalLookupAddr, "nobody/1")
	sender := NewPID(LocalLookupAddr, "me/1")
	e.SendWithSender(target, "hello", sender)
	mut7cntExpectOne(t, ch, target, "hello", sender)
}

// Same, with an unsubscribe that is simply issued twice (explicit call plus a
// deferred one) while another subscriber stays.
func TestMut7CounterDoubleUnsubscribe(t *testing.T) {
	e, err := NewEngine(NewEngineConfig())
	if err != nil {
		t.Fatal(err)
	}
	mon, ch := mut7cntMonitor(e, "mon")
	other, _ := mut7cntMonitor(e, "other")
	e.Subscribe(mon)
	e.Subscribe(other)
	e.Unsubscribe(other)
	e.Unsubscribe(other)

	target := NewPID(LocalLookupAddr, "nobody/2")
	e.Send(target, "again")
	mut7cntExpectOne(t, ch, target, "again", nil)
}
