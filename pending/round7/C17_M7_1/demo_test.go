package remote

import (
	"fmt"
	"sync"
	"testing"
	"time"

	"github.com/anthdm/hollywood/actor"
)

// Both nodes run an actor with the same kind and id (a per-node singleton such as
// "worker/1"). A message addressed to the PID on the OTHER node has to arrive there
// exactly once, and not at the sending node's own actor of that name.
func TestMut7SameIDOnBothNodes(t *testing.T) {
	a, ra, err := makeRemoteEngine(getRandomLocalhostAddr())
	if err != nil {
		t.Fatal(err)
	}
	defer ra.Stop()
	b, rb, err := makeRemoteEngine(getRandomLocalhostAddr())
	if err != nil {
		t.Fatal(err)
	}
	defer rb.Stop()

	const n = 20
	var (
		mu   sync.Mutex
		seen = map[string][]string{} // node -> payloads in arrival order
	)
	recorder := func(node string) func(*actor.Context) {
		return func(c *actor.Context) {
			if msg, ok := c.Message().(*TestMessage); ok {
				mu.Lock()
				seen[node] = append(seen[node], string(msg.Data))
				mu.Unlock()
			}
		}
	}
	pidA := a.SpawnFunc(recorder("a"), "worker", actor.WithID("1"))
	pidB := b.SpawnFunc(recorder("b"), "worker", actor.WithID("1"))
	if pidA.ID != pidB.ID || pidA.Address == pidB.Address {
		t.Fatalf("setup: want equal ids on different addresses, got %v and %v", pidA, pidB)
	}

	for i := 0; i < n; i++ {
		b.Send(pidA, &TestMessage{Data: []byte(fmt.Sprintf("m%d", i))})
	}

	deadline := time.Now().Add(5 * time.Second)
	for time.Now().Before(deadline) {
		mu.Lock()
		got := len(seen["a"])
		mu.Unlock()
		if got == n {
			break
		}
		time.Sleep(10 * time.Millisecond)
	}
	mu.Lock()
	defer mu.Unlock()
	if len(seen["b"]) != 0 {
		t.Errorf("node b's own worker/1 received %d messages that were addressed to %v: %v", len(seen["b"]), pidA, seen["b"])
	}
	if len(seen["a"]) != n {
		t.Fatalf("node a's worker/1 received %d of %d messages: %v", len(seen["a"]), n, seen["a"])
	}
	for i, s := range seen["a"] {
		if s != fmt.Sprintf("m%d", i) {
			t.Fatalf("position %d: got %s", i, s)
		}
	}
}
