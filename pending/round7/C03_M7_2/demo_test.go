package actor

import (
	"errors"
	"sync"
	"testing"
	"time"
)

// A batch [dial, b, c] is popped in one go; the handler fails on "dial" with an
// *InternalError (the "could not dial, keep trying" restart that does not count
// against MaxRestarts). b and c were accepted and sit in the crashed batch: the
// restarted actor must process them without anybody sending again.
func TestMut7InternalErrorKeepsRestOfBatch(t *testing.T) {
	e, err := NewEngine(NewEngineConfig())
	if err != nil {
		t.Fatal(err)
	}
	type gate struct{}
	type dial struct{}
	var (
		mu      sync.Mutex
		got     []string
		failed  bool
		entered = make(chan struct{})
		release = make(chan struct{})
		done    = make(chan struct{}, 4)
	)
	pid := e.SpawnFunc(func(c *Context) {
		switch m := c.Message().(type) {
		case gate:
			close(entered)
			<-release
		case dial:
			mu.Lock()
			first := !failed
			failed = true
			mu.Unlock()
			if first {
				panic(&InternalError{From: "demo", Err: errors.New("peer not up yet")})
			}
		case string:
			mu.Lock()
			got = append(got, m)
			mu.Unlock()
			done <- struct{}{}
		}
	}, "dialer", WithRestartDelay(10*time.Millisecond), WithMaxRestarts(3))

	// hold the worker inside the handler so that the next three messages form one batch
	e.Send(pid, gate{})
	<-entered
	e.Send(pid, dial{})
	e.Send(pid, "b")
	e.Send(pid, "c")
	close(release)
	// senders are silent from here on

	for i := 0; i < 2; i++ {
		select {
		case <-done:
		case <-time.After(3 * time.Second):
			mu.Lock()
			defer mu.Unlock()
			t.Fatalf("messages accepted before the crash were never processed: got %v, want [b c]", got)
		}
	}
	mu.Lock()
	defer mu.Unlock()
	if len(got) != 2 || got[0] != "b" || got[1] != "c" {
		t.Fatalf("got %v, want [b c]", got)
	}
}
