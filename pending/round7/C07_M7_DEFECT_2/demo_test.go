package actor

import (
	"sync/atomic"
	"testing"
	"time"
)

// DEFECT (unmodified tree): a crash can lose the pill.
//
// (a) Invoke increments nproc before it looks at the message, so when the
//     graceful drain behind a pill panics, nproc already counts the pill and
//     the crash buffer is msgs[idx(pill)+1:]. The pill is not in it: after the
//     restart the actor lives on (it even handles the drained messages a second
//     time) and the Poison context never becomes done.
//
// (b) When the restart budget is used up while a pill sits in the crash buffer,
//     tryRestart calls cleanup(nil): the actor is stopped and unregistered but
//     the buffered pill's cancel func is never called.

func TestMut7DefectCrashWhileDrainingLosesPill(t *testing.T) {
	e, err := NewEngine(NewEngineConfig())
	if err != nil {
		t.Fatal(err)
	}
	entered := make(chan struct{})
	release := make(chan struct{})
	var boom atomic.Int32
	pid := e.SpawnFunc(func(c *Context) {
		switch m := c.Message().(type) {
		case string:
			if m == "block" {
				close(entered)
				<-release
			}
			if m == "boom" && boom.Add(1) == 1 {
				panic("boom")
			}
		}
	}, "probe", WithRestartDelay(time.Millisecond))
	e.Send(pid, "block")
	<-entered
	c1 := e.Poison(pid)
	e.Send(pid, "boom") // queued behind the pill, same batch
	close(release)
	select {
	case <-c1.Done():
	case <-time.After(2 * time.Second):
		t.Fatalf("poison ctx never done after a crash while draining; still registered: %v",
			e.Registry.get(pid) != nil)
	}
}

func TestMut7DefectRestartBudgetExhaustedLosesPill(t *testing.T) {
	e, err := NewEngine(NewEngineConfig())
	if err != nil {
		t.Fatal(err)
	}
	entered := make(chan struct{})
	release := make(chan struct{})
	stopped := make(chan struct{}, 8)
	pid := e.SpawnFunc(func(c *Context) {
		switch m := c.Message().(type) {
		case Stopped:
			stopped <- struct{}{}
		case string:
			if m == "block" {
				close(entered)
				<-release
			}
			if m == "boom" {
				panic("boom")
			}
		}
	}, "probe", WithRestartDelay(time.Millisecond), WithMaxRestarts(1))
	e.Send(pid, "block")
	<-entered
	e.Send(pid, "boom")
	e.Send(pid, "boom")
	c1 := e.Poison(pid) // batch: boom, boom, pill
	close(release)
	select {
	case <-c1.Done():
	case <-time.After(2 * time.Second):
		t.Fatalf("poison ctx never done although the actor is gone (registered: %v)",
			e.Registry.get(pid) != nil)
	}
}
