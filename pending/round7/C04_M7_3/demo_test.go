package actor

import (
	"fmt"
	"sync"
	"testing"
	"time"
)

type mut7cTrace struct {
	mu     sync.Mutex
	traces [][]string
}

func (t *mut7cTrace) startedSeen() bool {
	t.mu.Lock()
	defer t.mu.Unlock()
	for _, inc := range t.traces {
		for _, m := range inc {
			if m == "actor.Started" {
				return true
			}
		}
	}
	return false
}

type mut7cRecv struct {
	t   *mut7cTrace
	idx int
}

func (r *mut7cRecv) Receive(c *Context) {
	r.t.mu.Lock()
	r.t.traces[r.idx] = append(r.t.traces[r.idx], fmt.Sprintf("%T", c.Message()))
	r.t.mu.Unlock()
	// only the very first incarnation fails, while it is initialising
	if _, ok := c.Message().(Initialized); ok && r.idx == 0 {
		panic("cannot initialise yet")
	}
}

// The first incarnation panics in Initialized. When Spawn of the fresh ID
// returns, Started must have been handled (by the incarnation that replaced it).
func TestMut7SpawnReturnsAfterStartedWhenInitCrashes(t *testing.T) {
	e, err := NewEngine(NewEngineConfig())
	if err != nil {
		t.Fatal(err)
	}
	tr := &mut7cTrace{}
	pid := e.Spawn(func() Receiver {
		tr.mu.Lock()
		defer tr.mu.Unlock()
		tr.traces = append(tr.traces, nil)
		return &mut7cRecv{t: tr, idx: len(tr.traces) - 1}
	}, "m7c", WithID("fresh"), WithMaxRestarts(3), WithRestartDelay(300*time.Millisecond))
	if !tr.startedSeen() {
		tr.mu.Lock()
		t.Errorf("Spawn returned but no incarnation has handled Started: %v", tr.traces)
		tr.mu.Unlock()
	}
	// the actor is usable afterwards and keeps the order Initialized, Started, messages
	e.Send(pid, "hello")
	<-e.Poison(pid).Done()
	time.Sleep(50 * time.Millisecond)
	tr.mu.Lock()
	defer tr.mu.Unlock()
	last := tr.traces[len(tr.traces)-1]
	want := []string{"actor.Initialized", "actor.Started", "string", "actor.Stopped"}
	if fmt.Sprint(last) != fmt.Sprint(want) {
		t.Errorf("last incarnation trace %v, want %v", last, want)
	}
}
