package ringbuffer

import "testing"

// PopN(n) must return the first min(n, Len) elements, also when the live
// region of the ring wraps around the physical end of the backing array.
func TestMut7PopNAcrossWrapReturnsMinNLen(t *testing.T) {
	for _, size := range []int64{4, 8, 16, 1024} {
		for shift := int64(1); shift < size; shift++ {
			rb := New[int](size)
			// move head/tail forward without growing
			for i := int64(0); i < shift; i++ {
				rb.Push(-1)
				if _, ok := rb.Pop(); !ok {
					t.Fatalf("size %d shift %d: pop failed", size, shift)
				}
			}
			// fill to size-1 elements: no growth, but the region wraps
			want := size - 1
			for i := int64(0); i < want; i++ {
				rb.Push(int(i))
			}
			if l := rb.Len(); l != want {
				t.Fatalf("size %d shift %d: Len = %d, want %d", size, shift, l, want)
			}
			items, ok := rb.PopN(want + 10)
			if !ok {
				t.Fatalf("size %d shift %d: PopN reported empty", size, shift)
			}
			if int64(len(items)) != want {
				t.Fatalf("size %d shift %d: PopN(%d) with Len %d returned %d elements, want %d",
					size, shift, want+10, want, len(items), want)
			}
			for i, v := range items {
				if v != i {
					t.Fatalf("size %d shift %d: items[%d] = %d", size, shift, i, v)
				}
			}
			if l := rb.Len(); l != 0 {
				t.Fatalf("size %d shift %d: Len after drain = %d", size, shift, l)
			}
			if _, ok := rb.PopN(1); ok {
				t.Fatalf("size %d shift %d: PopN on empty queue reported true", size, shift)
			}
		}
	}
}
