package actor

import (
	"fmt"
	"sync"
	"testing"
	"time"
)

type mut7cLog struct {
	mu      sync.Mutex
	entries []string
	after   int
}

func (l *mut7cLog) add(where string, c *Context) {
	if s, ok := c.Message().(string); ok {
		l.mu.Lock()
		l.entries = append(l.entries, fmt.Sprintf("%s: %q from %v", where, s, c.Sender()))
		if where == "receiver" && s == "after" {
			l.after++
		}
		l.mu.Unlock()
	}
}

// History: a client actor sends "after" to a worker while the worker is busy;
// the message in front of it ("boom") crashes the worker, so "after" is
// buffered over the restart. The client is stopped in the meantime.
// When "after" is finally delivered, middleware and receiver must still see
// the sender that delivery was made with.
func TestMut7ReplayedDeliveryKeepsSender(t *testing.T) {
	e, err := NewEngine(NewEngineConfig())
	if err != nil {
		t.Fatal(err)
	}
	var (
		log     = &mut7cLog{}
		release = make(chan struct{})
		busy    = make(chan struct{}, 1)
	)
	mw := func(next ReceiveFunc) ReceiveFunc {
		return func(c *Context) {
			log.add("middleware in", c)
			next(c)
			log.add("middleware out", c)
		}
	}
	worker := e.SpawnFunc(func(c *Context) {
		log.add("receiver", c)
		switch c.Message() {
		case "block":
			busy <- struct{}{}
			<-release
		case "boom":
			panic("boom")
		}
	}, "mut7c-worker", WithMiddleware(mw), WithRestartDelay(50*time.Millisecond))
	client := e.SpawnFunc(func(c *Context) {}, "mut7c-client")

	e.Send(worker, "block")
	<-busy
	// both end up in the same batch behind "block"
	e.Send(worker, "boom")
	e.SendWithSender(worker, "after", client)
	// the client goes away before the worker gets round to its message
	select {
	case <-e.Poison(client).Done():
	case <-time.After(5 * time.Second):
		t.Fatal("client did not stop")
	}
	close(release)

	deadline := time.Now().Add(10 * time.Second)
	for {
		log.mu.Lock()
		n := log.after
		log.mu.Unlock()
		if n > 0 {
			break
		}
		if time.Now().After(deadline) {
			t.Fatal("\"after\" was never delivered")
		}
		time.Sleep(10 * time.Millisecond)
	}
	time.Sleep(50 * time.Millisecond)

	log.mu.Lock()
	defer log.mu.Unlock()
	t.Logf("%q", log.entries)
	want := fmt.Sprintf("%v", client)
	for _, where := range []string{"middleware in", "receiver", "middleware out"} {
		exp := fmt.Sprintf("%s: %q from %s", where, "after", want)
		found := false
		for _, got := range log.entries {
			if got == exp {
				found = true
			}
		}
		if !found {
			t.Errorf("missing %q: the delivery of \"after\" did not show its sender inside the chain", exp)
		}
	}
}
