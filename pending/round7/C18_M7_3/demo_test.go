package cluster

import (
	"slices"
	"sync"
	"testing"
	"time"

	"github.com/anthdm/hollywood/actor"
)

// A provider that does nothing: the test plays the provider and feeds the
// snapshots to the agent itself.
const mut7cTimeout = 300 * time.Millisecond

type mut7cNopProvider struct{}

func (mut7cNopProvider) Receive(*actor.Context) {}

type mut7cLog struct {
	mu     sync.Mutex
	joined []string
	left   []string
}

func (l *mut7cLog) snapshot() (j, lv []string) {
	l.mu.Lock()
	defer l.mu.Unlock()
	return slices.Clone(l.joined), slices.Clone(l.left)
}

func mut7cCluster(t *testing.T, id string, kinds ...string) (*Cluster, *mut7cLog) {
	t.Helper()
	e, err := actor.NewEngine(actor.NewEngineConfig())
	if err != nil {
		t.Fatal(err)
	}
	cfg := NewConfig().
		WithID(id).
		WithEngine(e).
		WithRequestTimeout(mut7cTimeout).
		WithProvider(func(*Cluster) actor.Producer {
			return func() actor.Receiver { return mut7cNopProvider{} }
		})
	c, err := New(cfg)
	if err != nil {
		t.Fatal(err)
	}
	for _, k := range kinds {
		c.RegisterKind(k, func() actor.Receiver { return mut7cNopProvider{} }, NewKindConfig())
	}
	log := &mut7cLog{}
	sub := e.SpawnFunc(func(ctx *actor.Context) {
		switch ev := ctx.Message().(type) {
		case MemberJoinEvent:
			log.mu.Lock()
			log.joined = append(log.joined, ev.Member.ID)
			log.mu.Unlock()
		case MemberLeaveEvent:
			log.mu.Lock()
			log.left = append(log.left, ev.Member.ID)
			log.mu.Unlock()
		}
	}, "mut7events")
	e.Subscribe(sub)
	c.Start()
	return c, log
}

func mut7cIDs(ms []*Member) []string {
	ids := make([]string, 0, len(ms))
	for _, m := range ms {
		ids = append(ids, m.ID)
	}
	slices.Sort(ids)
	return ids
}

// feed sends the snapshot to the agent and returns the view after it has been processed
// (the agent handles its inbox in order, so the Members() request is answered after the snapshot).
func mut7cFeed(c *Cluster, snap ...*Member) []string {
	c.engine.Send(c.PID(), &Members{Members: snap})
	return mut7cIDs(c.Members())
}

func mut7cWaitEvents(log *mut7cLog, nj, nl int) (j, l []string) {
	deadline := time.Now().Add(3 * time.Second)
	for {
		j, l = log.snapshot()
		if (len(j) >= nj && len(l) >= nl) || time.Now().After(deadline) {
			// give stragglers (unexpected extra events) a moment
			time.Sleep(50 * time.Millisecond)
			j, l = log.snapshot()
			slices.Sort(j)
			slices.Sort(l)
			return
		}
		time.Sleep(5 * time.Millisecond)
	}
}

// An activation is routed to a member that does not answer (the request runs into the
// timeout). The provider has not reported any change, so the view must still equal the
// last snapshot and no leave / second join event may be published for that member.
func TestMut7ViewUnchangedByFailedActivation(t *testing.T) {
	c, log := mut7cCluster(t, "self", "base")
	defer c.Stop()

	self := c.Member()
	a := &Member{ID: "A", Host: "10.0.0.1:4000", Kinds: []string{"player"}}
	b := &Member{ID: "B", Host: "10.0.0.2:4000", Kinds: []string{"inventory"}}

	snap := []*Member{self, a, b}
	want := []string{"A", "B", "self"}
	if got := mut7cFeed(c, snap...); !slices.Equal(got, want) {
		t.Fatalf("Members() = %v, snapshot = %v", got, want)
	}
	if !c.HasKind("player") {
		t.Fatalf("HasKind(player) = false, member A advertises it")
	}

	// A is the only member with kind player, it is not reachable: the activation fails.
	if pid := c.Activate("player", NewActivationConfig().WithID("1")); pid != nil {
		t.Fatalf("activation on an unreachable member returned %v", pid)
	}
	// let the agent finish the (timed out) activation before we look at it again.
	time.Sleep(2 * mut7cTimeout)

	if got := mut7cIDs(c.Members()); !slices.Equal(got, want) {
		t.Errorf("after a failed activation Members() = %v, last snapshot = %v", got, want)
	}
	if !c.HasKind("player") {
		t.Errorf("after a failed activation HasKind(player) = false, member A of the snapshot advertises it")
	}

	// the provider repeats its snapshot: nobody joined, nobody left.
	if got := mut7cFeed(c, snap...); !slices.Equal(got, want) {
		t.Errorf("repeated snapshot: Members() = %v, snapshot = %v", got, want)
	}
	j, l := mut7cWaitEvents(log, 3, 0)
	if !slices.Equal(j, want) {
		t.Errorf("join events %v, want exactly one for each of %v", j, want)
	}
	if len(l) != 0 {
		t.Errorf("leave events %v, want none: no member dropped out of the snapshots", l)
	}
}
