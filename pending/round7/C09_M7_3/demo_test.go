package actor

import (
	"sync"
	"testing"
	"time"
)

// A minimal in-memory Remoter (the interface is public): it records what the
// engine hands over for delivery to other nodes.
type mut7Remote struct {
	addr string
	mu   sync.Mutex
	sent []mut7Sent
}

type mut7Sent struct {
	to, from *PID
	msg      any
}

func (r *mut7Remote) Address() string       { return r.addr }
func (r *mut7Remote) Start(*Engine) error   { return nil }
func (r *mut7Remote) Stop() *sync.WaitGroup { return &sync.WaitGroup{} }
func (r *mut7Remote) Send(to *PID, msg any, from *PID) {
	r.mu.Lock()
	defer r.mu.Unlock()
	r.sent = append(r.sent, mut7Sent{to: to, from: from, msg: msg})
}

func (r *mut7Remote) deadLettersFor(sub, target *PID) []DeadLetterEvent {
	r.mu.Lock()
	defer r.mu.Unlock()
	var out []DeadLetterEvent
	for _, s := range r.sent {
		if dl, ok := s.msg.(DeadLetterEvent); ok && s.to.Equals(sub) && dl.Target.Equals(target) {
			out = append(out, dl)
		}
	}
	return out
}

// Every subscriber of the event stream gets the dead letter: the local monitor
// and the monitor that lives on another node.
func TestMut7RemoteSubscriberGetsDeadLetter(t *testing.T) {
	r := &mut7Remote{addr: "127.0.0.1:4000"}
	e, err := NewEngine(NewEngineConfig().WithRemote(r))
	if err != nil {
		t.Fatal(err)
	}
	local := make(chan DeadLetterEvent, 16)
	mon := e.SpawnFunc(func(c *Context) {
		if dl, ok := c.Message().(DeadLetterEvent); ok {
			local <- dl
		}
	}, "mon")
	remoteMon := NewPID("127.0.0.1:5000", "mon/1")
	e.Subscribe(mon)
	e.Subscribe(remoteMon)

	target := NewPID(e.Address(), "nobody/1")
	sender := NewPID(e.Address(), "me/1")
	e.SendWithSender(target, "hello", sender)

	select {
	case dl := <-local:
		if !dl.Target.Equals(target) || dl.Message != "hello" || !dl.Sender.Equals(sender) {
			t.Fatalf("local monitor: wrong dead letter %+v", dl)
		}
	case <-time.After(2 * time.Second):
		t.Fatal("local monitor saw no dead letter")
	}
	// the event stream forwards to all subscribers in one go; give it a moment
	var got []DeadLetterEvent
	for i := 0; i < 50; i++ {
		if got = r.deadLettersFor(remoteMon, target); len(got) > 0 {
			break
		}
		time.Sleep(10 * time.Millisecond)
	}
	time.Sleep(50 * time.Millisecond)
	got = r.deadLettersFor(remoteMon, target)
	if len(got) != 1 {
		t.Fatalf("subscriber %v was handed %d DeadLetterEvents for one undeliverable message, want 1", remoteMon, len(got))
	}
	if got[0].Message != "hello" || !got[0].Sender.Equals(sender) {
		t.Fatalf("remote monitor: wrong dead letter %+v", got[0])
	}
}
