package actor

import (
	"fmt"
	"testing"
	"time"

	"github.com/stretchr/testify/require"
)

// An actor that crashes is started again: its receiver gets Started a second
// time. Every start has to be announced with an ActorStartedEvent, the one
// after the restart included.
func TestMut7StartedEventAfterRestart(t *testing.T) {
	e, err := NewEngine(NewEngineConfig())
	require.NoError(t, err)

	const id = "mut7crasher/1"
	events := make(chan string, 64)
	mon := e.SpawnFunc(func(c *Context) {
		switch m := c.Message().(type) {
		case ActorStartedEvent:
			if m.PID.ID == id {
				events <- "started"
			}
		case ActorRestartedEvent:
			if m.PID.ID == id {
				events <- fmt.Sprintf("restarted#%d", m.Restarts)
			}
		case ActorStoppedEvent:
			if m.PID.ID == id {
				events <- "stopped"
			}
		}
	}, "mut7mon")
	e.Subscribe(mon)

	starts := make(chan struct{}, 8)
	pid := e.SpawnFunc(func(c *Context) {
		switch m := c.Message().(type) {
		case Started:
			starts <- struct{}{}
		case string:
			if m == "boom" {
				panic("boom")
			}
		}
	}, "mut7crasher", WithID("1"), WithRestartDelay(time.Millisecond), WithMaxRestarts(5))

	e.Send(pid, "boom")
	e.Send(pid, "boom")

	// the receiver itself is started three times.
	for i := 0; i < 3; i++ {
		select {
		case <-starts:
		case <-time.After(3 * time.Second):
			t.Fatalf("receiver got Started only %d times", i)
		}
	}
	<-e.Poison(pid).Done()

	want := []string{"started", "restarted#1", "started", "restarted#2", "started", "stopped"}
	var got []string
	timeout := time.After(3 * time.Second)
	for len(got) < len(want) {
		select {
		case ev := <-events:
			got = append(got, ev)
			if ev == "stopped" {
				require.Equal(t, want, got)
				return
			}
		case <-timeout:
			t.Fatalf("lifecycle events: want %v, got %v", want, got)
		}
	}
	require.Equal(t, want, got)
}
