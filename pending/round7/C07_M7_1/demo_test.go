package actor

import (
	"sync/atomic"
	"testing"
	"time"
)

// A process is registered before Start() runs Initialized/Started, and its
// inbox is only opened afterwards. A Poison/Stop that arrives in that window
// (from another goroutine, or from the actor itself in Started) must still
// behave like any other: the context is done only after the actor has handled
// Stopped and is unregistered - and the actor does stop.
func mut7PoisonWhileStarting(t *testing.T, graceful bool) {
	e, err := NewEngine(NewEngineConfig())
	if err != nil {
		t.Fatal(err)
	}
	var (
		inStarted  = make(chan struct{})
		release    = make(chan struct{})
		stoppedCnt atomic.Int32
		gotWork    atomic.Int32
	)
	spawned := make(chan *PID, 1)
	go func() {
		spawned <- e.SpawnFunc(func(c *Context) {
			switch c.Message().(type) {
			case Started:
				close(inStarted)
				<-release
			case string:
				gotWork.Add(1)
			case Stopped:
				stoppedCnt.Add(1)
			}
		}, "slowstarter", WithID("1"))
	}()
	select {
	case <-inStarted:
	case <-time.After(2 * time.Second):
		t.Fatal("actor never reached Started")
	}
	pid := e.Registry.GetPID("slowstarter", "1")
	if pid == nil {
		t.Fatal("a starting actor must be registered")
	}
	e.Send(pid, "work") // sent before the pill: a Poison has to drain it
	var ctx interface{ Done() <-chan struct{} }
	if graceful {
		ctx = e.Poison(pid)
	} else {
		ctx = e.Stop(pid)
	}
	// The actor sits in Started: it has not handled Stopped and is registered.
	select {
	case <-ctx.Done():
		t.Fatalf("context done while the target is still starting: Stopped handled=%d registered=%v",
			stoppedCnt.Load(), e.Registry.get(pid) != nil)
	case <-time.After(200 * time.Millisecond):
	}
	close(release)
	<-spawned
	select {
	case <-ctx.Done():
	case <-time.After(3 * time.Second):
		t.Fatal("context never done")
	}
	if n := stoppedCnt.Load(); n != 1 {
		t.Fatalf("context done but Stopped was handled %d times", n)
	}
	if e.Registry.get(pid) != nil {
		t.Fatal("context done but the target is still registered")
	}
	if graceful && gotWork.Load() != 1 {
		t.Fatalf("Poison done but the message sent before it was handled %d times", gotWork.Load())
	}
}

func TestMut7PoisonWhileStarting(t *testing.T) { mut7PoisonWhileStarting(t, true) }
func TestMut7StopWhileStarting(t *testing.T)   { mut7PoisonWhileStarting(t, false) }

// The self-poisoning worker: an actor that decides in Started that it has
// nothing to do. The caller-visible contract is the same.
func TestMut7SelfPoisonInStarted(t *testing.T) {
	e, err := NewEngine(NewEngineConfig())
	if err != nil {
		t.Fatal(err)
	}
	var stoppedCnt atomic.Int32
	early := make(chan bool, 1)
	done := make(chan struct{})
	pid := e.SpawnFunc(func(c *Context) {
		switch c.Message().(type) {
		case Started:
			ctx := c.Engine().Poison(c.PID())
			select {
			case <-ctx.Done():
				early <- true // done while we are still inside Started
			case <-time.After(100 * time.Millisecond):
				early <- false
			}
			go func() { <-ctx.Done(); close(done) }()
		case Stopped:
			stoppedCnt.Add(1)
		}
	}, "selfpoison")
	if <-early {
		t.Fatalf("Poison context done from inside Started: Stopped handled=%d registered=%v",
			stoppedCnt.Load(), e.Registry.get(pid) != nil)
	}
	select {
	case <-done:
	case <-time.After(3 * time.Second):
		t.Fatal("context never done")
	}
	if stoppedCnt.Load() != 1 || e.Registry.get(pid) != nil {
		t.Fatalf("done but Stopped=%d registered=%v", stoppedCnt.Load(), e.Registry.get(pid) != nil)
	}
}
