package remote

import (
	"bytes"
	"context"
	"fmt"
	"net"
	"sync"
	"testing"
	"time"

	"github.com/anthdm/hollywood/actor"
	"google.golang.org/protobuf/proto"
	"storj.io/drpc"
)

// ---- harness -------------------------------------------------------------

type mut7Delivery struct {
	target  string
	sender  *actor.PID
	payload any
}

type mut7Recorder struct {
	mu  *sync.Mutex
	log *[]mut7Delivery
	pid *actor.PID
}

func (r *mut7Recorder) Start()          {}
func (r *mut7Recorder) PID() *actor.PID { return r.pid }
func (r *mut7Recorder) Send(to *actor.PID, msg any, sender *actor.PID) {
	r.mu.Lock()
	defer r.mu.Unlock()
	*r.log = append(*r.log, mut7Delivery{target: to.String(), sender: sender, payload: msg})
}
func (r *mut7Recorder) Invoke([]actor.Envelope) {}
func (r *mut7Recorder) Shutdown()               {}

type mut7OutStream struct {
	drpc.Stream
	envs [][]byte
}

func (s *mut7OutStream) Send(e *Envelope) error {
	// the codec the generated DRPC client uses on the wire
	b, err := drpcEncoding_File_remote_proto{}.Marshal(e)
	if err != nil {
		return err
	}
	s.envs = append(s.envs, b)
	return nil
}
func (s *mut7OutStream) Recv() (*Envelope, error) { return nil, context.Canceled }
func (s *mut7OutStream) Close() error             { return nil }

type mut7InStream struct {
	drpc.Stream
	envs [][]byte
}

func (s *mut7InStream) Send(*Envelope) error { return nil }
func (s *mut7InStream) Recv() (*Envelope, error) {
	if len(s.envs) == 0 {
		return nil, context.Canceled
	}
	b := s.envs[0]
	s.envs = s.envs[1:]
	e := &Envelope{}
	if err := (drpcEncoding_File_remote_proto{}).Unmarshal(b, e); err != nil {
		return nil, err
	}
	return e, nil
}

type mut7Msg struct {
	target *actor.PID
	sender *actor.PID
	msg    any
}

// mut7RoundTrip encodes every batch with a real streamWriter, carries the bytes
// over to a real streamReader and returns what the receiving engine delivered.
func mut7RoundTrip(t *testing.T, recvIDs []string, batches ...[]mut7Msg) ([]mut7Delivery, error) {
	t.Helper()
	return mut7RoundTripBuf(t, 0, recvIDs, batches...)
}

// mut7RoundTripBuf does the same for a sending node that was configured with
// Config.WithBufferSize(buffSize).
func mut7RoundTripBuf(t *testing.T, buffSize int, recvIDs []string, batches ...[]mut7Msg) ([]mut7Delivery, error) {
	t.Helper()
	se, err := actor.NewEngine(actor.NewEngineConfig())
	if err != nil {
		t.Fatal(err)
	}
	re, err := actor.NewEngine(actor.NewEngineConfig())
	if err != nil {
		t.Fatal(err)
	}
	var (
		mu  sync.Mutex
		log []mut7Delivery
	)
	for _, id := range recvIDs {
		re.SpawnProc(&mut7Recorder{mu: &mu, log: &log, pid: actor.NewPID(re.Address(), id)})
	}
	c1, c2 := net.Pipe()
	defer c1.Close()
	defer c2.Close()
	out := &mut7OutStream{}
	sw := newStreamWriter(se, actor.NewPID("local", "router"), "peer:1", nil, buffSize).(*streamWriter)
	sw.stream = out
	sw.rawconn = c1
	for _, batch := range batches {
		envs := make([]actor.Envelope, 0, len(batch))
		for _, m := range batch {
			envs = append(envs, actor.Envelope{Msg: &streamDeliver{target: m.target, sender: m.sender, msg: m.msg}})
		}
		sw.Invoke(envs)
	}
	sr := newStreamReader(&Remote{engine: re})
	rerr := sr.Receive(&mut7InStream{envs: out.envs})
	mu.Lock()
	defer mu.Unlock()
	return append([]mut7Delivery(nil), log...), rerr
}

func mut7Check(t *testing.T, got []mut7Delivery, want []mut7Msg) {
	t.Helper()
	if len(got) != len(want) {
		t.Fatalf("delivered %d messages, want %d: %+v", len(got), len(want), got)
	}
	for i := range want {
		g, w := got[i], want[i]
		if g.target != w.target.String() {
			t.Errorf("message %d: delivered to %s, want %s", i, g.target, w.target)
		}
		if (g.sender == nil) != (w.sender == nil) || (g.sender != nil && !g.sender.Equals(w.sender)) {
			t.Errorf("message %d: sender %v, want %v", i, g.sender, w.sender)
		}
		gp, ok := g.payload.(proto.Message)
		if !ok || !proto.Equal(gp, w.msg.(proto.Message)) {
			t.Errorf("message %d: payload %v, want %v", i, g.payload, w.msg)
		}
	}
}

// ---- demo ----------------------------------------------------------------

func mut7FreeAddr(t *testing.T) string {
	t.Helper()
	ln, err := net.Listen("tcp", "127.0.0.1:0")
	if err != nil {
		t.Fatal(err)
	}
	defer ln.Close()
	return ln.Addr().String()
}

func mut7Engine(t *testing.T, cfg Config) (*actor.Engine, *Remote) {
	t.Helper()
	r := New(mut7FreeAddr(t), cfg)
	e, err := actor.NewEngine(actor.NewEngineConfig().WithRemote(r))
	if err != nil {
		t.Fatal(err)
	}
	return e, r
}

// Two real nodes. The sending node only ever receives small messages and was
// given a small read buffer (WithBufferSize(128 KiB)); the receiving node runs
// with the default (4 MiB). Three messages go out back to back: a small one, one
// of 512 KiB, a small one. All three have to arrive, in that order.
func TestMut7PayloadLargerThanSendersOwnBuffer(t *testing.T) {
	recv, rr := mut7Engine(t, NewConfig())
	defer rr.Stop()
	send, rs := mut7Engine(t, NewConfig().WithBufferSize(128<<10))
	defer rs.Stop()

	var (
		mu   sync.Mutex
		got  [][]byte
		done = make(chan struct{})
		up   = make(chan struct{})
	)
	pid := recv.SpawnFunc(func(c *actor.Context) {
		switch m := c.Message().(type) {
		case actor.Started:
			close(up)
		case *TestMessage:
			mu.Lock()
			got = append(got, m.Data)
			n := len(got)
			mu.Unlock()
			if n == 3 {
				close(done)
			}
		}
	}, "sink")
	<-up

	big := bytes.Repeat([]byte{0xab}, 512<<10)
	want := [][]byte{[]byte("first"), big, []byte("last")}
	for _, d := range want {
		send.Send(pid, &TestMessage{Data: d})
	}

	select {
	case <-done:
	case <-time.After(6 * time.Second):
	}
	mu.Lock()
	defer mu.Unlock()
	if len(got) != len(want) {
		sizes := []string{}
		for _, g := range got {
			sizes = append(sizes, fmt.Sprint(len(g)))
		}
		t.Fatalf("delivered %d messages (sizes %v), want %d", len(got), sizes, len(want))
	}
	for i := range want {
		if !bytes.Equal(got[i], want[i]) {
			t.Errorf("message %d: payload of %d bytes, want %d bytes", i, len(got[i]), len(want[i]))
		}
	}
}

// The same batch through the encoder and the decoder alone (no network, no
// timing): what the writer of such a node puts on the wire for the batch.
func TestMut7PayloadLargerThanSendersOwnBufferEncoded(t *testing.T) {
	a := actor.NewPID("local", "a")
	s := actor.NewPID("n1:1", "s")
	batch := []mut7Msg{
		{a, s, &TestMessage{Data: []byte("first")}},
		{a, s, &TestMessage{Data: bytes.Repeat([]byte{0xab}, 512<<10)}},
		{a, s, &TestMessage{Data: []byte("last")}},
	}
	got, err := mut7RoundTripBuf(t, 128<<10, []string{"a"}, batch)
	if err != nil {
		t.Fatalf("stream reader gave up: %v", err)
	}
	if len(got) != len(batch) {
		t.Fatalf("delivered %d messages, want %d", len(got), len(batch))
	}
	for i := range batch {
		if !proto.Equal(got[i].payload.(proto.Message), batch[i].msg.(proto.Message)) {
			t.Errorf("message %d: payload differs", i)
		}
	}
}
