package cluster

import (
	"testing"
	"time"

	"github.com/anthdm/hollywood/actor"
	"github.com/anthdm/hollywood/remote"
)

// Helpers (bootstrap members instead of relying on mDNS timing; unique ids and
// kinds so that nodes of other tests in the same process cannot interfere).

type m7aNode struct {
	c *Cluster
	r *remote.Remote
}

func m7aMakeNode(t *testing.T, id, region string, boot []*m7aNode, kinds ...string) *m7aNode {
	t.Helper()
	addr := getRandomLocalhostAddr()
	pc := NewSelfManagedConfig()
	for _, b := range boot {
		pc = pc.WithBootstrapMember(MemberAddr{ListenAddr: b.c.engine.Address(), ID: b.c.ID()})
	}
	r := remote.New(addr, remote.NewConfig())
	e, err := actor.NewEngine(actor.NewEngineConfig().WithRemote(r))
	if err != nil {
		t.Fatal(err)
	}
	c, err := New(NewConfig().WithID(id).WithRegion(region).WithEngine(e).WithListenAddr(addr).
		WithProvider(NewSelfManagedProvider(pc)))
	if err != nil {
		t.Fatal(err)
	}
	for _, k := range kinds {
		c.RegisterKind(k, NewPlayer, NewKindConfig())
	}
	return &m7aNode{c: c, r: r}
}

func (n *m7aNode) stop() {
	n.c.Stop()
	n.r.Stop().Wait()
}

func m7aWaitMembers(t *testing.T, nodes ...*m7aNode) {
	t.Helper()
	deadline := time.Now().Add(8 * time.Second)
	for time.Now().Before(deadline) {
		ok := true
		for _, nd := range nodes {
			have := map[string]bool{}
			for _, m := range nd.c.Members() {
				have[m.ID] = true
			}
			for _, other := range nodes {
				if !have[other.c.ID()] {
					ok = false
				}
			}
		}
		if ok {
			return
		}
		time.Sleep(20 * time.Millisecond)
	}
	t.Fatalf("members did not converge")
}

// A select function that only accepts members of one region and declines (nil) otherwise.
func m7aOnlyRegion(region string) SelectMemberFunc {
	return func(d ActivationDetails) *Member {
		for _, m := range d.Members {
			if m.Region == region {
				return m
			}
		}
		return nil
	}
}

// Two members, only one of them (in region "eu") advertises the kind. The caller's select
// function declines every member that is not in region "us": the activation must return
// nil and nothing may be spawned anywhere.
func TestMut7SelectDeclinesSingleCandidateRemote(t *testing.T) {
	const kind = "m7akindr"
	a := m7aMakeNode(t, "m7aRA", "us", nil)
	b := m7aMakeNode(t, "m7aRB", "eu", []*m7aNode{a}, kind)
	a.c.Start()
	b.c.Start()
	defer a.stop()
	defer b.stop()
	m7aWaitMembers(t, a, b)

	pid := a.c.Activate(kind, NewActivationConfig().WithID("1").WithSelectMemberFunc(m7aOnlyRegion("us")))
	time.Sleep(300 * time.Millisecond)
	if pid != nil {
		t.Errorf("select function declined the only candidate, Activate must return nil, got %v", pid)
	}
	if p := b.c.engine.Registry.GetPID(kind, "1"); p != nil {
		t.Errorf("nothing may be spawned when the select function declines, found %v on B", p)
	}
	if p := a.c.GetActiveByID(kind + "/1"); p != nil {
		t.Errorf("A lists %v as active although the activation was declined", p)
	}
	if p := b.c.GetActiveByID(kind + "/1"); p != nil {
		t.Errorf("B lists %v as active although the activation was declined", p)
	}

	// sanity: a select function that accepts the candidate activates on B (a few tries, the
	// remote request has a 1s budget and the machine may be loaded).
	for _, id := range []string{"2", "3", "4"} {
		pid = a.c.Activate(kind, NewActivationConfig().WithID(id).WithSelectMemberFunc(m7aOnlyRegion("eu")))
		if pid != nil {
			break
		}
	}
	if pid == nil || pid.Address != b.c.engine.Address() {
		t.Errorf("expected activation on B, got %v", pid)
	}
}

// Same on a single member cluster (local activation path).
func TestMut7SelectDeclinesSingleCandidateLocal(t *testing.T) {
	const kind = "m7akindl"
	a := m7aMakeNode(t, "m7aLA", "eu", nil, kind)
	a.c.Start()
	defer a.stop()
	m7aWaitMembers(t, a)

	pid := a.c.Activate(kind, NewActivationConfig().WithID("1").WithSelectMemberFunc(m7aOnlyRegion("us")))
	time.Sleep(200 * time.Millisecond)
	if pid != nil {
		t.Errorf("select function declined the only candidate, Activate must return nil, got %v", pid)
	}
	if p := a.c.engine.Registry.GetPID(kind, "1"); p != nil {
		t.Errorf("nothing may be spawned when the select function declines, found %v", p)
	}
	if p := a.c.GetActiveByID(kind + "/1"); p != nil {
		t.Errorf("A lists %v as active although the activation was declined", p)
	}
}
