package remote

import (
	"context"
	"net"
	"sync"
	"testing"

	"github.com/anthdm/hollywood/actor"
	"google.golang.org/protobuf/proto"
	"google.golang.org/protobuf/types/known/durationpb"
	"google.golang.org/protobuf/types/known/emptypb"
	"google.golang.org/protobuf/types/known/timestamppb"
	"google.golang.org/protobuf/types/known/wrapperspb"
	"storj.io/drpc"
)

// ---- harness -------------------------------------------------------------

type mut7Delivery struct {
	target  string
	sender  *actor.PID
	payload any
}

type mut7Recorder struct {
	mu  *sync.Mutex
	log *[]mut7Delivery
	pid *actor.PID
}

func (r *mut7Recorder) Start()          {}
func (r *mut7Recorder) PID() *actor.PID { return r.pid }
func (r *mut7Recorder) Send(to *actor.PID, msg any, sender *actor.PID) {
	r.mu.Lock()
	defer r.mu.Unlock()
	*r.log = append(*r.log, mut7Delivery{target: to.String(), sender: sender, payload: msg})
}
func (r *mut7Recorder) Invoke([]actor.Envelope) {}
func (r *mut7Recorder) Shutdown()               {}

type mut7OutStream struct {
	drpc.Stream
	envs [][]byte
}

func (s *mut7OutStream) Send(e *Envelope) error {
	// the codec the generated DRPC client uses on the wire
	b, err := drpcEncoding_File_remote_proto{}.Marshal(e)
	if err != nil {
		return err
	}
	s.envs = append(s.envs, b)
	return nil
}
func (s *mut7OutStream) Recv() (*Envelope, error) { return nil, context.Canceled }
func (s *mut7OutStream) Close() error             { return nil }

type mut7InStream struct {
	drpc.Stream
	envs [][]byte
}

func (s *mut7InStream) Send(*Envelope) error { return nil }
func (s *mut7InStream) Recv() (*Envelope, error) {
	if len(s.envs) == 0 {
		return nil, context.Canceled
	}
	b := s.envs[0]
	s.envs = s.envs[1:]
	e := &Envelope{}
	if err := (drpcEncoding_File_remote_proto{}).Unmarshal(b, e); err != nil {
		return nil, err
	}
	return e, nil
}

type mut7Msg struct {
	target *actor.PID
	sender *actor.PID
	msg    any
}

// mut7RoundTrip encodes every batch with a real streamWriter, carries the bytes
// over to a real streamReader and returns what the receiving engine delivered.
func mut7RoundTrip(t *testing.T, recvIDs []string, batches ...[]mut7Msg) ([]mut7Delivery, error) {
	t.Helper()
	se, err := actor.NewEngine(actor.NewEngineConfig())
	if err != nil {
		t.Fatal(err)
	}
	re, err := actor.NewEngine(actor.NewEngineConfig())
	if err != nil {
		t.Fatal(err)
	}
	var (
		mu  sync.Mutex
		log []mut7Delivery
	)
	for _, id := range recvIDs {
		re.SpawnProc(&mut7Recorder{mu: &mu, log: &log, pid: actor.NewPID(re.Address(), id)})
	}
	c1, c2 := net.Pipe()
	defer c1.Close()
	defer c2.Close()
	out := &mut7OutStream{}
	sw := newStreamWriter(se, actor.NewPID("local", "router"), "peer:1", nil, 0).(*streamWriter)
	sw.stream = out
	sw.rawconn = c1
	for _, batch := range batches {
		envs := make([]actor.Envelope, 0, len(batch))
		for _, m := range batch {
			envs = append(envs, actor.Envelope{Msg: &streamDeliver{target: m.target, sender: m.sender, msg: m.msg}})
		}
		sw.Invoke(envs)
	}
	sr := newStreamReader(&Remote{engine: re})
	rerr := sr.Receive(&mut7InStream{envs: out.envs})
	mu.Lock()
	defer mu.Unlock()
	return append([]mut7Delivery(nil), log...), rerr
}

func mut7Check(t *testing.T, got []mut7Delivery, want []mut7Msg) {
	t.Helper()
	if len(got) != len(want) {
		t.Fatalf("delivered %d messages, want %d: %+v", len(got), len(want), got)
	}
	for i := range want {
		g, w := got[i], want[i]
		if g.target != w.target.String() {
			t.Errorf("message %d: delivered to %s, want %s", i, g.target, w.target)
		}
		if (g.sender == nil) != (w.sender == nil) || (g.sender != nil && !g.sender.Equals(w.sender)) {
			t.Errorf("message %d: sender %v, want %v", i, g.sender, w.sender)
		}
		gp, ok := g.payload.(proto.Message)
		if !ok || !proto.Equal(gp, w.msg.(proto.Message)) {
			t.Errorf("message %d: payload %v, want %v", i, g.payload, w.msg)
		}
	}
}

// ---- demo ----------------------------------------------------------------

// mut7Kinds returns n messages of n different registered protobuf types.
func mut7Kinds(n int) []proto.Message {
	all := []proto.Message{
		&TestMessage{Data: []byte("t")},
		&actor.PID{Address: "x:1", ID: "pid"},
		&actor.Ping{From: &actor.PID{Address: "x:1", ID: "ping"}},
		&actor.Pong{From: &actor.PID{Address: "x:1", ID: "pong"}},
		wrapperspb.String("string"),
		wrapperspb.Int64(64),
		wrapperspb.Bool(true),
		wrapperspb.Bytes([]byte("bytes")),
		durationpb.New(90 * 1e9),
		&timestamppb.Timestamp{Seconds: 1700000000, Nanos: 7},
		wrapperspb.Double(2.5),
		wrapperspb.UInt32(32),
		&emptypb.Empty{},
	}
	return all[:n]
}

func mut7CheckNames(t *testing.T, got []mut7Delivery, want []mut7Msg) {
	t.Helper()
	for i := range want {
		if i >= len(got) {
			return
		}
		gp, ok := got[i].payload.(proto.Message)
		if !ok {
			continue
		}
		if g, w := proto.MessageName(gp), proto.MessageName(want[i].msg.(proto.Message)); g != w {
			t.Errorf("message %d: arrived as a %s, was sent as a %s", i, g, w)
		}
	}
}

// One batch to one target that carries k different message types, every type
// once and then every type a second time in the opposite order.
func mut7TypesBatch(t *testing.T, k int) {
	a := actor.NewPID("local", "a")
	s := actor.NewPID("n1:1", "s")
	kinds := mut7Kinds(k)
	var batch []mut7Msg
	for _, m := range kinds {
		batch = append(batch, mut7Msg{a, s, m})
	}
	for i := len(kinds) - 1; i >= 0; i-- {
		batch = append(batch, mut7Msg{a, s, kinds[i]})
	}
	got, err := mut7RoundTrip(t, []string{"a"}, batch)
	if err != nil {
		t.Fatalf("%d types: stream reader gave up: %v", k, err)
	}
	mut7CheckNames(t, got, batch)
	mut7Check(t, got, batch)
}

func TestMut7ManyTypesInOneBatch(t *testing.T) {
	for _, k := range []int{1, 2, 7, 8, 9, 10, 13} {
		k := k
		t.Run("", func(t *testing.T) { mut7TypesBatch(t, k) })
	}
}
