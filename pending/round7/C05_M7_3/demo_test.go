package actor

import (
	"testing"
	"time"
)

// Repeated failures inside the restart budget, with the actor running fine
// for a while between them: every ActorRestartedEvent has to carry the
// incremented (lifetime) restart count 1, 2, 3.
func TestMut7RestartCountIncrementsAcrossQuietPeriods(t *testing.T) {
	e, err := NewEngine(NewEngineConfig())
	if err != nil {
		t.Fatal(err)
	}

	events := make(chan ActorRestartedEvent, 16)
	subReady := make(chan struct{})
	e.SpawnFunc(func(c *Context) {
		switch m := c.Message().(type) {
		case Started:
			c.Engine().Subscribe(c.PID())
			close(subReady)
		case ActorRestartedEvent:
			events <- m
		}
	}, "mut7watch3")
	<-subReady
	time.Sleep(20 * time.Millisecond) // let the subscription reach the event stream

	ok := make(chan string, 16)
	pid := e.SpawnFunc(func(c *Context) {
		if s, isStr := c.Message().(string); isStr {
			if s == "crash" {
				panic("boom")
			}
			ok <- s
		}
	}, "mut7count", WithRestartDelay(2*time.Millisecond), WithMaxRestarts(3))

	for want := int32(1); want <= 3; want++ {
		e.Send(pid, "crash")
		select {
		case ev := <-events:
			if !ev.PID.Equals(pid) {
				t.Fatalf("event for unexpected pid %v", ev.PID)
			}
			if ev.Restarts != want {
				t.Fatalf("failure #%d: ActorRestartedEvent.Restarts = %d, want %d", want, ev.Restarts, want)
			}
		case <-time.After(3 * time.Second):
			t.Fatalf("failure #%d: no ActorRestartedEvent", want)
		}
		// the actor is back and healthy ...
		e.Send(pid, "ping")
		select {
		case <-ok:
		case <-time.After(3 * time.Second):
			t.Fatalf("actor did not resume after failure #%d", want)
		}
		// ... and stays so for a while before the next failure.
		time.Sleep(150 * time.Millisecond)
	}
}
