package actor

import (
	"sync"
	"testing"
	"time"

	"github.com/stretchr/testify/require"
)

type mut7SwapEvent struct{ n int }

// One subscriber leaves and another one joins between two consecutive
// broadcasts. The event broadcast after that must reach the new subscriber
// (it was broadcast after its Subscribe) and must not reach the old one (it
// was broadcast after its Unsubscribe).
func TestMut7SwapSubscriberBetweenBroadcasts(t *testing.T) {
	e, err := NewEngine(NewEngineConfig())
	require.NoError(t, err)

	var (
		mu  sync.Mutex
		got = map[string][]int{}
	)
	spawn := func(name string) *PID {
		return e.SpawnFunc(func(c *Context) {
			if m, ok := c.Message().(mut7SwapEvent); ok {
				mu.Lock()
				got[name] = append(got[name], m.n)
				mu.Unlock()
			}
		}, name, WithID("1"))
	}
	snapshot := func() (a, b, c []int) {
		mu.Lock()
		defer mu.Unlock()
		return append([]int(nil), got["a"]...), append([]int(nil), got["b"]...), append([]int(nil), got["c"]...)
	}
	a, b, c := spawn("a"), spawn("b"), spawn("c")

	e.Subscribe(a)
	e.Subscribe(c)
	e.BroadcastEvent(mut7SwapEvent{1})
	e.Unsubscribe(NewPID(a.Address, a.ID)) // equal PID, distinct object
	e.Subscribe(b)
	e.BroadcastEvent(mut7SwapEvent{2})
	e.BroadcastEvent(mut7SwapEvent{3})

	// c is subscribed all along: once it has seen 3, the event stream is done with 1..3.
	deadline := time.Now().Add(5 * time.Second)
	for time.Now().Before(deadline) {
		if _, _, gc := snapshot(); len(gc) >= 3 {
			break
		}
		time.Sleep(time.Millisecond)
	}
	time.Sleep(50 * time.Millisecond) // let the forwarded copies drain
	ga, gb, gc := snapshot()
	require.Equal(t, []int{1, 2, 3}, gc, "the permanent subscriber sees everything once, in order")
	require.Equal(t, []int{1}, ga, "a was unsubscribed before 2 and 3 were broadcast")
	require.Equal(t, []int{2, 3}, gb, "b was subscribed before 2 and 3 were broadcast")
}
