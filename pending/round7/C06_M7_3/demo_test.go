package actor

import (
	"testing"
	"time"
)

// An actor that exhausts its restart budget takes its children with it: they
// are stopped and unregistered, and sends to them dead-letter afterwards.
func TestMut7ChildrenGoDownWithBudgetExhaustedParent(t *testing.T) {
	e, err := NewEngine(NewEngineConfig())
	if err != nil {
		t.Fatal(err)
	}
	type bad struct{}
	type hello struct{}

	exceeded := make(chan *PID, 4)
	deadLetters := make(chan DeadLetterEvent, 64)
	monReady := make(chan struct{})
	e.SpawnFunc(func(c *Context) {
		switch m := c.Message().(type) {
		case Started:
			c.Engine().Subscribe(c.PID())
			close(monReady)
		case ActorMaxRestartsExceededEvent:
			exceeded <- m.PID
		case DeadLetterEvent:
			select {
			case deadLetters <- m:
			default:
			}
		}
	}, "monitor")
	<-monReady
	time.Sleep(50 * time.Millisecond)

	childStopped := make(chan struct{}, 4)
	var childPID *PID
	parent := e.SpawnFunc(func(c *Context) {
		switch c.Message().(type) {
		case Started:
			childPID = c.SpawnChildFunc(func(cc *Context) {
				if _, ok := cc.Message().(Stopped); ok {
					childStopped <- struct{}{}
				}
			}, "child", WithID("c"))
		case bad:
			panic("boom")
		}
	}, "parent", WithID("p"), WithMaxRestarts(0))

	e.Send(parent, bad{})
	select {
	case p := <-exceeded:
		if !p.Equals(parent) {
			t.Fatalf("exceeded event for %v", p)
		}
	case <-time.After(3 * time.Second):
		t.Fatal("no ActorMaxRestartsExceededEvent")
	}

	deadline := time.Now().Add(2 * time.Second)
	for e.Registry.GetPID("parent", "p") != nil {
		if time.Now().After(deadline) {
			t.Fatal("parent still registered after exhausting its budget")
		}
		time.Sleep(10 * time.Millisecond)
	}
	select {
	case <-childStopped:
	case <-time.After(2 * time.Second):
		t.Errorf("child %v of the terminated parent never received Stopped", childPID)
	}
	if e.Registry.get(childPID) != nil {
		t.Errorf("child %v of the terminated parent is still registered", childPID)
	}
	e.Send(childPID, hello{})
	timeout := time.After(2 * time.Second)
	for {
		select {
		case dl := <-deadLetters:
			if _, ok := dl.Message.(hello); ok && dl.Target.Equals(childPID) {
				return
			}
		case <-timeout:
			t.Fatal("send to the child of a terminated parent did not dead-letter")
		}
	}
}
