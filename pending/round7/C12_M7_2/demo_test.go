package actor

import (
	"testing"
	"time"

	"github.com/stretchr/testify/require"
)

// A Request times out, its Response is taken out of the registry, and the slow
// actor replies afterwards. That reply is a message for a PID that has no
// process: a dead letter, which has to be published on the event stream like
// every other one.
func TestMut7LateReplyIsADeadLetter(t *testing.T) {
	e, err := NewEngine(NewEngineConfig())
	require.NoError(t, err)

	dl := make(chan DeadLetterEvent, 64)
	mon := e.SpawnFunc(func(c *Context) {
		if m, ok := c.Message().(DeadLetterEvent); ok {
			dl <- m
		}
	}, "mut7mon")
	e.Subscribe(mon)

	release := make(chan struct{})
	slow := e.SpawnFunc(func(c *Context) {
		if _, ok := c.Message().(string); ok {
			<-release
			c.Respond("late")
		}
	}, "mut7slow")

	resp := e.Request(slow, "ping", 20*time.Millisecond)
	_, err = resp.Result()
	require.Error(t, err, "the request has to time out")
	require.Nil(t, e.Registry.get(resp.PID()))
	close(release)

	timeout := time.After(3 * time.Second)
	for {
		select {
		case m := <-dl:
			if m.Target.Equals(resp.PID()) {
				require.Equal(t, "late", m.Message)
				return
			}
		case <-timeout:
			t.Fatal("no DeadLetterEvent was published for the reply to the expired request")
		}
	}
}
