package cluster

import (
	"fmt"
	"math/rand"
	"sort"
	"strings"
	"sync"
	"testing"
	"time"

	"github.com/anthdm/hollywood/actor"
)

// mut7aRemote is a Remoter that never touches the network: it only records what the
// engine wanted to send to other nodes (handshake answers, pings).
type mut7aRemote struct {
	addr string
	mu   sync.Mutex
	sent []mut7aSent
}

type mut7aSent struct {
	to  *actor.PID
	msg any
}

func (r *mut7aRemote) Address() string { return r.addr }
func (r *mut7aRemote) Send(pid *actor.PID, msg any, _ *actor.PID) {
	r.mu.Lock()
	r.sent = append(r.sent, mut7aSent{to: pid, msg: msg})
	r.mu.Unlock()
}
func (r *mut7aRemote) Start(*actor.Engine) error { return nil }
func (r *mut7aRemote) Stop() *sync.WaitGroup     { return &sync.WaitGroup{} }

// lastMembersTo returns the ids of the last member list that was sent to the given address.
func (r *mut7aRemote) lastMembersTo(addr string) []string {
	r.mu.Lock()
	defer r.mu.Unlock()
	for i := len(r.sent) - 1; i >= 0; i-- {
		if m, ok := r.sent[i].msg.(*Members); ok && r.sent[i].to.Address == addr {
			return mut7aIDs(m.Members)
		}
	}
	return nil
}

func mut7aIDs(members []*Member) []string {
	ids := make([]string, 0, len(members))
	for _, m := range members {
		ids = append(ids, m.ID)
	}
	sort.Strings(ids)
	return ids
}

type mut7aNode struct {
	t        *testing.T
	c        *Cluster
	e        *actor.Engine
	rem      *mut7aRemote
	provider *actor.PID
	reports  chan []string
}

// mut7aStart runs a real self managed provider next to a stub agent that records
// every member list the provider reports.
func mut7aStart(t *testing.T) *mut7aNode {
	rem := &mut7aRemote{addr: fmt.Sprintf("127.0.0.1:%d", 20000+rand.Intn(30000))}
	e, err := actor.NewEngine(actor.NewEngineConfig().WithRemote(rem))
	if err != nil {
		t.Fatal(err)
	}
	id := fmt.Sprintf("mut7a%d", rand.Int63())
	c, err := New(NewConfig().WithID(id).WithEngine(e))
	if err != nil {
		t.Fatal(err)
	}
	n := &mut7aNode{t: t, c: c, e: e, rem: rem, reports: make(chan []string, 256)}
	c.agentPID = e.SpawnFunc(func(ctx *actor.Context) {
		if m, ok := ctx.Message().(*Members); ok {
			n.reports <- mut7aIDs(m.Members)
		}
	}, "cluster", actor.WithID(id))
	c.providerPID = e.Spawn(c.config.provider(c), "provider", actor.WithID(id))
	n.provider = c.providerPID
	t.Cleanup(func() { <-e.Poison(c.providerPID).Done() })
	// the first report is the node itself.
	n.waitReport("initial report", func(ids []string) bool { return len(ids) == 1 && ids[0] == id })
	return n
}

// waitReport waits for a report that satisfies ok and returns it.
func (n *mut7aNode) waitReport(what string, ok func(ids []string) bool) []string {
	n.t.Helper()
	var last []string
	deadline := time.After(4 * time.Second)
	for {
		select {
		case ids := <-n.reports:
			last = ids
			if ok(ids) {
				return ids
			}
		case <-deadline:
			n.t.Fatalf("%s: the agent was never told; last report [%s]", what, strings.Join(last, ","))
			return nil
		}
	}
}

func mut7aHas(ids []string, id string) bool {
	for _, x := range ids {
		if x == id {
			return true
		}
	}
	return false
}

func (n *mut7aNode) handshake(m *Member) {
	n.e.SendWithSender(n.provider, &Handshake{Member: m}, memberToProviderPID(m))
}

// A node went away without anybody noticing (nothing was sent to it, so nothing reported
// its address unreachable) and a fresh node - new id, same listen address, which is what
// the default config produces after a restart - hands itself in.
func TestMut7SameAddressNewPeerIsAdded(t *testing.T) {
	n := mut7aStart(t)
	host := "127.0.0.1:7301"
	old := &Member{ID: "B-old", Host: host, Region: "eu"}
	fresh := &Member{ID: "B-new", Host: host, Region: "eu"}

	n.handshake(old)
	n.waitReport("handshake of B-old", func(ids []string) bool { return mut7aHas(ids, "B-old") })

	n.handshake(fresh)
	// every handshake is followed by a report of the (new) list.
	ids := n.waitReport("handshake of B-new", func(ids []string) bool { return true })
	if !mut7aHas(ids, "B-new") {
		t.Fatalf("a handshake from B-new@%s did not add it: agent was told [%s]", host, strings.Join(ids, ","))
	}
	// and the answer to the peer is the complete list, the peer included.
	time.Sleep(50 * time.Millisecond)
	answer := n.rem.lastMembersTo(host)
	if !mut7aHas(answer, "B-new") || !mut7aHas(answer, n.c.ID()) {
		t.Fatalf("answer to B-new is not the complete list: [%s]", strings.Join(answer, ","))
	}

	// the address becomes unreachable: whoever lives there has to go, the node itself stays.
	n.e.BroadcastEvent(actor.RemoteUnreachableEvent{ListenAddr: host})
	n.waitReport("unreachable "+host, func(ids []string) bool { return len(ids) < 3 })
	n.e.BroadcastEvent(actor.RemoteUnreachableEvent{ListenAddr: host})
	ids = n.waitReport("second unreachable "+host, func(ids []string) bool { return len(ids) < 2 })
	if !mut7aHas(ids, n.c.ID()) {
		t.Fatalf("the node lost itself: [%s]", strings.Join(ids, ","))
	}
}
