package actor

import (
	"fmt"
	"io"
	"log/slog"
	"math/rand"
	"runtime"
	"sync/atomic"
	"testing"
	"time"

	"github.com/zeebo/xxh3"
)

type mut7Gate struct{}
type mut7Noise struct{}
type mut7Probe struct{ n int }

// slot of a registry key in a 256-entry direct-mapped table keyed by xxh3 of the id.
func mut7Slot(id string) uint64 { return xxh3.HashString(id) & 255 }

// History per round:
//
//	spawn actor A (id X) and actor B (id Y, Y hashes to the same slot as X)
//	send A a message that parks it inside Receive
//	Stop(A)                     (poison pill queued behind the parked message)
//	Send(B, noise)              (B now owns the shared slot)
//	release A; Send(A, noise)   races with A's cleanup -> Registry.Remove
//	wait until A is stopped
//	spawn a NEW actor with id X, send it one probe message
//
// The new actor is live, so the probe must be handed to its Receive exactly once.
func TestMut7RespawnSameIDAfterRacingSend(t *testing.T) {
	old := slog.Default()
	slog.SetDefault(slog.New(slog.NewTextHandler(io.Discard, nil)))
	defer slog.SetDefault(old)

	e, err := NewEngine(NewEngineConfig())
	if err != nil {
		t.Fatal(err)
	}
	esSlot := mut7Slot(e.eventStream.ID)
	rng := rand.New(rand.NewSource(7))
	deadline := time.Now().Add(7 * time.Second)
	rounds := 0
	for iter := 0; iter < 300000 && time.Now().Before(deadline); iter++ {
		idA := fmt.Sprintf("a%d", iter)
		slotA := mut7Slot("k" + pidSeparator + idA)
		if slotA == esSlot {
			continue
		}
		idB := ""
		for j := 0; ; j++ {
			c := fmt.Sprintf("b%d_%d", iter, j)
			if mut7Slot("k"+pidSeparator+c) == slotA {
				idB = c
				break
			}
		}
		rounds++

		var flagA, flagB atomic.Int32
		other := e.SpawnFunc(func(*Context) {}, "k", WithID(idB))
		pid := e.SpawnFunc(func(c *Context) {
			if _, ok := c.Message().(mut7Gate); ok {
				flagA.Store(1)
				for flagB.Load() == 0 {
				}
			}
		}, "k", WithID(idA))

		e.Send(pid, mut7Gate{})
		for flagA.Load() == 0 {
			runtime.Gosched()
		}
		stopped := e.Stop(pid)
		e.Send(other, mut7Noise{})

		spin := rng.Intn(1500)
		flagB.Store(1)
		for i := 0; i < spin; i++ {
			_ = flagA.Load()
		}
		e.Send(pid, mut7Noise{}) // races with the cleanup of the stopping actor

		select {
		case <-stopped.Done():
		case <-time.After(5 * time.Second):
			t.Fatalf("round %d: actor did not stop", rounds)
		}

		// A new, live actor under the same id.
		var got atomic.Int32
		done := make(chan struct{}, 4)
		pid2 := e.SpawnFunc(func(c *Context) {
			if p, ok := c.Message().(mut7Probe); ok {
				if p.n != iter {
					t.Errorf("round %d: probe carries %d want %d", rounds, p.n, iter)
				}
				got.Add(1)
				done <- struct{}{}
			}
		}, "k", WithID(idA))
		e.Send(pid2, mut7Probe{n: iter})
		select {
		case <-done:
		case <-time.After(3 * time.Second):
			t.Fatalf("round %d (spin %d): probe sent to the live, freshly spawned actor %s was never handed to its Receive", rounds, spin, pid2)
		}
		if n := got.Load(); n != 1 {
			t.Fatalf("round %d: probe delivered %d times", rounds, n)
		}
		<-e.Stop(pid2).Done()
		<-e.Stop(other).Done()
	}
	t.Logf("%d rounds without loss", rounds)
}
