package cluster

import (
	"fmt"
	"math/rand"
	"sort"
	"strings"
	"sync"
	"testing"
	"time"

	"github.com/anthdm/hollywood/actor"
)

// mut7eRemote is a Remoter that never touches the network: it only records what the
// engine wanted to send to other nodes (handshake answers, pings).
type mut7eRemote struct {
	addr string
	mu   sync.Mutex
	sent []mut7eSent
}

type mut7eSent struct {
	to  *actor.PID
	msg any
}

func (r *mut7eRemote) Address() string { return r.addr }
func (r *mut7eRemote) Send(pid *actor.PID, msg any, _ *actor.PID) {
	r.mu.Lock()
	r.sent = append(r.sent, mut7eSent{to: pid, msg: msg})
	r.mu.Unlock()
}
func (r *mut7eRemote) Start(*actor.Engine) error { return nil }
func (r *mut7eRemote) Stop() *sync.WaitGroup     { return &sync.WaitGroup{} }

// lastMembersTo returns the ids of the last member list that was sent to the given address.
func (r *mut7eRemote) lastMembersTo(addr string) []string {
	r.mu.Lock()
	defer r.mu.Unlock()
	for i := len(r.sent) - 1; i >= 0; i-- {
		if m, ok := r.sent[i].msg.(*Members); ok && r.sent[i].to.Address == addr {
			return mut7eIDs(m.Members)
		}
	}
	return nil
}

func mut7eIDs(members []*Member) []string {
	ids := make([]string, 0, len(members))
	for _, m := range members {
		ids = append(ids, m.ID)
	}
	sort.Strings(ids)
	return ids
}

type mut7eNode struct {
	t        *testing.T
	c        *Cluster
	e        *actor.Engine
	rem      *mut7eRemote
	provider *actor.PID
	reports  chan []string
}

// mut7eStart runs a real self managed provider next to a stub agent that records
// every member list the provider reports.
func mut7eStart(t *testing.T) *mut7eNode {
	rem := &mut7eRemote{addr: fmt.Sprintf("127.0.0.1:%d", 20000+rand.Intn(30000))}
	e, err := actor.NewEngine(actor.NewEngineConfig().WithRemote(rem))
	if err != nil {
		t.Fatal(err)
	}
	id := fmt.Sprintf("mut7e%d", rand.Int63())
	c, err := New(NewConfig().WithID(id).WithEngine(e))
	if err != nil {
		t.Fatal(err)
	}
	n := &mut7eNode{t: t, c: c, e: e, rem: rem, reports: make(chan []string, 256)}
	c.agentPID = e.SpawnFunc(func(ctx *actor.Context) {
		if m, ok := ctx.Message().(*Members); ok {
			n.reports <- mut7eIDs(m.Members)
		}
	}, "cluster", actor.WithID(id))
	c.providerPID = e.Spawn(c.config.provider(c), "provider", actor.WithID(id))
	n.provider = c.providerPID
	t.Cleanup(func() { <-e.Poison(c.providerPID).Done() })
	// the first report is the node itself.
	n.waitReport("initial report", func(ids []string) bool { return len(ids) == 1 && ids[0] == id })
	return n
}

// waitReport waits for a report that satisfies ok and returns it.
func (n *mut7eNode) waitReport(what string, ok func(ids []string) bool) []string {
	n.t.Helper()
	var last []string
	deadline := time.After(4 * time.Second)
	for {
		select {
		case ids := <-n.reports:
			last = ids
			if ok(ids) {
				return ids
			}
		case <-deadline:
			n.t.Fatalf("%s: the agent was never told; last report [%s]", what, strings.Join(last, ","))
			return nil
		}
	}
}

func mut7eHas(ids []string, id string) bool {
	for _, x := range ids {
		if x == id {
			return true
		}
	}
	return false
}

func (n *mut7eNode) handshake(m *Member) {
	n.e.SendWithSender(n.provider, &Handshake{Member: m}, memberToProviderPID(m))
}

// Same id, new address (a node that was restarted on another port before anybody noticed).
func TestMut7DefectSameIDNewAddress(t *testing.T) {
	n := mut7eStart(t)
	b1 := &Member{ID: "B", Host: "127.0.0.1:7511", Region: "eu"}
	b2 := &Member{ID: "B", Host: "127.0.0.1:7512", Region: "eu"}
	n.handshake(b1)
	n.waitReport("handshake of B@7511", func(ids []string) bool { return mut7eHas(ids, "B") })
	n.handshake(b2)
	n.waitReport("handshake of B@7512", func(ids []string) bool { return mut7eHas(ids, "B") })
	// the address B handshook from last becomes unreachable.
	n.e.BroadcastEvent(actor.RemoteUnreachableEvent{ListenAddr: b2.Host})
	select {
	case ids := <-n.reports:
		if mut7eHas(ids, "B") {
			t.Errorf("B still listed: [%s]", strings.Join(ids, ","))
		}
	case <-time.After(1500 * time.Millisecond):
		t.Errorf("B handshook from %s, that address was reported unreachable, and B was not removed (the list still has B@%s)", b2.Host, b1.Host)
	}
}
