package actor

import (
	"sync"
	"testing"
	"time"
)

// A supervisor that crashes and has no restarts left goes down for good: its
// subtree has to be taken down before the supervisor is told that it stopped.
// Whatever the supervisor is told on the way (the crash handler tells the
// crashed incarnation Stopped as well), the last thing it handles must be a
// Stopped that comes after the Stopped of every descendant.
func TestMut7CrashedSupervisorStopsAfterSubtree(t *testing.T) {
	for _, maxRestarts := range []int{0, 1} {
		e, err := NewEngine(NewEngineConfig())
		if err != nil {
			t.Fatal(err)
		}
		var (
			mu      sync.Mutex
			order   []string
			started sync.WaitGroup
		)
		rec := func(s string) {
			mu.Lock()
			order = append(order, s)
			mu.Unlock()
		}
		grandchild := func(c *Context) {
			switch c.Message().(type) {
			case Started:
				started.Done()
			case Stopped:
				rec("grandchild")
			}
		}
		child := func(c *Context) {
			switch c.Message().(type) {
			case Started:
				c.SpawnChildFunc(grandchild, "g", WithID("1"))
				started.Done()
			case Stopped:
				rec("child")
			}
		}
		started.Add(3)
		sup := e.SpawnFunc(func(c *Context) {
			switch c.Message().(type) {
			case Started:
				if len(c.Children()) == 0 {
					c.SpawnChildFunc(child, "c", WithID("1"))
					started.Done()
				}
			case string:
				panic("boom")
			case Stopped:
				rec("supervisor")
			}
		}, "sup", WithID("1"), WithMaxRestarts(maxRestarts), WithRestartDelay(time.Millisecond))
		started.Wait()

		for i := 0; i <= maxRestarts; i++ {
			e.Send(sup, "boom")
		}
		deadline := time.Now().Add(5 * time.Second)
		for e.Registry.get(sup) != nil || e.Registry.getByID("sup/1/c/1") != nil || e.Registry.getByID("sup/1/c/1/g/1") != nil {
			if time.Now().After(deadline) {
				t.Fatalf("maxRestarts=%d: tree still registered", maxRestarts)
			}
			time.Sleep(5 * time.Millisecond)
		}
		time.Sleep(50 * time.Millisecond) // let the last Stopped handler finish

		mu.Lock()
		got := append([]string(nil), order...)
		mu.Unlock()
		lastSup, lastDesc := -1, -1
		for i, s := range got {
			if s == "supervisor" {
				lastSup = i
			} else {
				lastDesc = i
			}
		}
		if lastDesc < 0 || lastSup < lastDesc {
			t.Fatalf("maxRestarts=%d: Stopped order = %v: the supervisor was not told Stopped after its subtree went down", maxRestarts, got)
		}
	}
}
