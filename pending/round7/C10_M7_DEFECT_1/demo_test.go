package actor

import (
	"sync/atomic"
	"testing"
	"time"
)

// A Stopped handler that panics makes the process run cleanup a second time
// (Invoke recovers, tryRestart finds the restart budget exhausted and calls
// cleanup(nil)). The second cleanup removes the registry entry BY ID. If the ID
// has been spawned again in the meantime (here: by the Stopped handler itself,
// the usual "respawn myself" pattern), the successor loses its registry entry
// although it is alive; a third spawn of the ID then starts a second live actor.
func TestMut7DefectStaleCleanupRemovesSuccessor(t *testing.T) {
	e, err := NewEngine(NewEngineConfig())
	if err != nil {
		t.Fatal(err)
	}
	var (
		succProducer int32
		succStarted  int32
		succStopped  int32
		oldStopped   int32
	)
	successor := func() Receiver {
		atomic.AddInt32(&succProducer, 1)
		return &funcReceiver{f: func(c *Context) {
			switch c.Message().(type) {
			case Started:
				atomic.AddInt32(&succStarted, 1)
			case Stopped:
				atomic.AddInt32(&succStopped, 1)
			}
		}}
	}
	started := make(chan struct{})
	pid := e.SpawnFunc(func(c *Context) {
		switch c.Message().(type) {
		case Started:
			close(started)
		case Stopped:
			if atomic.AddInt32(&oldStopped, 1) == 1 {
				// the ID is free at this point (cleanup removed it before delivering Stopped)
				c.Engine().Spawn(successor, "foo", WithID("1"))
				panic("stopped handler failed")
			}
		}
	}, "foo", WithID("1"), WithMaxRestarts(0))
	<-started

	<-e.Stop(pid).Done()
	time.Sleep(200 * time.Millisecond)

	if got := atomic.LoadInt32(&succStarted); got != 1 {
		t.Fatalf("successor should have been started once, got %d", got)
	}
	if got := atomic.LoadInt32(&succStopped); got != 0 {
		t.Fatalf("successor should still be alive, got %d Stopped", got)
	}
	// the successor is alive and nobody stopped it: it has to be registered
	if e.Registry.GetPID("foo", "1") == nil {
		t.Errorf("live successor foo/1 is not in the registry any more (old actor received Stopped %d times)", atomic.LoadInt32(&oldStopped))
	}
	// and a further spawn of the ID must be refused
	e.Spawn(successor, "foo", WithID("1"))
	if got := atomic.LoadInt32(&succProducer); got != 1 {
		t.Errorf("producer for foo/1 ran %d times while the first successor is still alive: two live actors foo/1", got)
	}
}

// Same trigger with restart budget left: the old process, already cleaned up and
// replaced in the registry by a successor, is restarted by tryRestart - its
// Producer runs again and it receives Initialized/Started although another live
// actor owns the ID. It never receives a Stopped for that incarnation.
func TestMut7DefectStoppedActorRestartedNextToSuccessor(t *testing.T) {
	e, err := NewEngine(NewEngineConfig())
	if err != nil {
		t.Fatal(err)
	}
	var (
		oldProducer, oldStarted, oldStopped int32
		succStarted, succStopped            int32
	)
	successor := func() Receiver {
		return &funcReceiver{f: func(c *Context) {
			switch c.Message().(type) {
			case Started:
				atomic.AddInt32(&succStarted, 1)
			case Stopped:
				atomic.AddInt32(&succStopped, 1)
			}
		}}
	}
	started := make(chan struct{}, 8)
	old := func() Receiver {
		atomic.AddInt32(&oldProducer, 1)
		return &funcReceiver{f: func(c *Context) {
			switch c.Message().(type) {
			case Started:
				atomic.AddInt32(&oldStarted, 1)
				started <- struct{}{}
			case Stopped:
				if atomic.AddInt32(&oldStopped, 1) == 1 {
					c.Engine().Spawn(successor, "foo", WithID("1"))
					panic("stopped handler failed")
				}
			}
		}}
	}
	pid := e.Spawn(old, "foo", WithID("1"), WithRestartDelay(10*time.Millisecond))
	<-started
	<-e.Stop(pid).Done()
	time.Sleep(300 * time.Millisecond)

	if atomic.LoadInt32(&succStarted) != 1 || atomic.LoadInt32(&succStopped) != 0 {
		t.Fatalf("successor should be alive: started=%d stopped=%d", succStarted, succStopped)
	}
	if p, s := atomic.LoadInt32(&oldProducer), atomic.LoadInt32(&oldStarted); p != 1 || s != 1 {
		t.Errorf("stopped actor foo/1 came back next to its live successor: producer ran %d times, Started delivered %d times", p, s)
	}
}
