package cluster

import (
	"slices"
	"sync"
	"testing"
	"time"

	"github.com/anthdm/hollywood/actor"
)

// A provider that does nothing: the test plays the provider and feeds the
// snapshots to the agent itself.
type mut7aNopProvider struct{}

func (mut7aNopProvider) Receive(*actor.Context) {}

type mut7aLog struct {
	mu     sync.Mutex
	joined []string
	left   []string
}

func (l *mut7aLog) snapshot() (j, lv []string) {
	l.mu.Lock()
	defer l.mu.Unlock()
	return slices.Clone(l.joined), slices.Clone(l.left)
}

func mut7aCluster(t *testing.T, id string, kinds ...string) (*Cluster, *mut7aLog) {
	t.Helper()
	e, err := actor.NewEngine(actor.NewEngineConfig())
	if err != nil {
		t.Fatal(err)
	}
	cfg := NewConfig().
		WithID(id).
		WithEngine(e).
		WithRequestTimeout(2 * time.Second).
		WithProvider(func(*Cluster) actor.Producer {
			return func() actor.Receiver { return mut7aNopProvider{} }
		})
	c, err := New(cfg)
	if err != nil {
		t.Fatal(err)
	}
	for _, k := range kinds {
		c.RegisterKind(k, func() actor.Receiver { return mut7aNopProvider{} }, NewKindConfig())
	}
	log := &mut7aLog{}
	sub := e.SpawnFunc(func(ctx *actor.Context) {
		switch ev := ctx.Message().(type) {
		case MemberJoinEvent:
			log.mu.Lock()
			log.joined = append(log.joined, ev.Member.ID)
			log.mu.Unlock()
		case MemberLeaveEvent:
			log.mu.Lock()
			log.left = append(log.left, ev.Member.ID)
			log.mu.Unlock()
		}
	}, "mut7events")
	e.Subscribe(sub)
	c.Start()
	return c, log
}

func mut7aIDs(ms []*Member) []string {
	ids := make([]string, 0, len(ms))
	for _, m := range ms {
		ids = append(ids, m.ID)
	}
	slices.Sort(ids)
	return ids
}

// feed sends the snapshot to the agent and returns the view after it has been processed
// (the agent handles its inbox in order, so the Members() request is answered after the snapshot).
func mut7aFeed(c *Cluster, snap ...*Member) []string {
	c.engine.Send(c.PID(), &Members{Members: snap})
	return mut7aIDs(c.Members())
}

func mut7aWaitEvents(log *mut7aLog, nj, nl int) (j, l []string) {
	deadline := time.Now().Add(3 * time.Second)
	for {
		j, l = log.snapshot()
		if (len(j) >= nj && len(l) >= nl) || time.Now().After(deadline) {
			// give stragglers (unexpected extra events) a moment
			time.Sleep(50 * time.Millisecond)
			j, l = log.snapshot()
			slices.Sort(j)
			slices.Sort(l)
			return
		}
		time.Sleep(5 * time.Millisecond)
	}
}

// The view shrinks from the front: first a member in the middle of the view leaves, then the
// member that joined right after it. After each snapshot the view must equal the snapshot.
func TestMut7ViewFollowsSuccessiveLeaves(t *testing.T) {
	c, log := mut7aCluster(t, "self", "base")
	defer c.Stop()

	self := c.Member()
	a := &Member{ID: "A", Host: "10.0.0.1:4000", Kinds: []string{"ka"}}
	b := &Member{ID: "B", Host: "10.0.0.2:4000", Kinds: []string{"kb"}}
	d := &Member{ID: "D", Host: "10.0.0.3:4000", Kinds: []string{"kd"}}

	// grow one by one, so the order in which the members entered the view is fixed.
	steps := []struct {
		snap []*Member
		want []string
	}{
		{[]*Member{self}, []string{"self"}},
		{[]*Member{self, a}, []string{"A", "self"}},
		{[]*Member{self, a, b}, []string{"A", "B", "self"}},
		{[]*Member{self, a, b, d}, []string{"A", "B", "D", "self"}},
		{[]*Member{self, b, d}, []string{"B", "D", "self"}}, // A leaves
		{[]*Member{self, d}, []string{"D", "self"}},         // B leaves
	}
	for i, st := range steps {
		got := mut7aFeed(c, st.snap...)
		if !slices.Equal(got, st.want) {
			t.Fatalf("step %d: Members() = %v, snapshot = %v", i, got, st.want)
		}
	}
	if c.HasKind("kb") || c.HasKind("ka") {
		t.Errorf("HasKind reports a kind of a member that left: ka=%v kb=%v", c.HasKind("ka"), c.HasKind("kb"))
	}
	if !c.HasKind("kd") || !c.HasKind("base") {
		t.Errorf("HasKind misses a kind of the view: kd=%v base=%v", c.HasKind("kd"), c.HasKind("base"))
	}
	j, l := mut7aWaitEvents(log, 4, 2)
	if want := []string{"A", "B", "D", "self"}; !slices.Equal(j, want) {
		t.Errorf("join events %v, want %v", j, want)
	}
	if want := []string{"A", "B"}; !slices.Equal(l, want) {
		t.Errorf("leave events %v, want %v", l, want)
	}

	// and the view keeps following: B comes back, D goes.
	if got, want := mut7aFeed(c, self, b), []string{"B", "self"}; !slices.Equal(got, want) {
		t.Fatalf("final step: Members() = %v, snapshot = %v", got, want)
	}
}
