package actor

import (
	"strconv"
	"sync"
	"sync/atomic"
	"testing"
	"time"
)

// UNMODIFIED TREE.  A child whose Stopped handler panics (once).  The panic
// unwinds cleanup(), whose deferred cancel() releases the parent; Invoke's
// recover then "restarts" the child although it is already unregistered: a
// new incarnation handles Initialized/Started after the parent has handled
// Stopped, and the grandchild it spawns in Started is registered, alive and
// never stopped (the zombie's inbox is never reopened, nobody owns it).
func TestMut7DefectPanickingStoppedHandlerLeavesZombieSubtree(t *testing.T) {
	e, err := NewEngine(NewEngineConfig())
	if err != nil {
		t.Fatal(err)
	}
	var (
		mu          sync.Mutex
		order       []string
		incarnation atomic.Int32
		panicked    atomic.Bool
		started     sync.WaitGroup
	)
	rec := func(s string) {
		mu.Lock()
		order = append(order, s)
		mu.Unlock()
	}
	grandchild := func(c *Context) {
		switch c.Message().(type) {
		case Started:
			rec("grandchild-started:" + c.PID().ID)
		case Stopped:
			rec("grandchild-stopped:" + c.PID().ID)
		}
	}
	child := func(c *Context) {
		switch c.Message().(type) {
		case Started:
			n := incarnation.Add(1)
			rec("child-started#" + strconv.Itoa(int(n)))
			c.SpawnChildFunc(grandchild, "g", WithID(strconv.Itoa(int(n))))
			if n == 1 {
				started.Done()
			}
		case Stopped:
			if panicked.CompareAndSwap(false, true) {
				panic("stopped handler failed")
			}
			rec("child-stopped")
		}
	}
	started.Add(2)
	parent := e.SpawnFunc(func(c *Context) {
		switch c.Message().(type) {
		case Started:
			c.SpawnChildFunc(child, "c", WithID("1"), WithRestartDelay(10*time.Millisecond))
			started.Done()
		case Stopped:
			rec("parent-stopped")
		}
	}, "parent", WithID("1"))
	started.Wait()

	select {
	case <-e.Poison(parent).Done():
	case <-time.After(5 * time.Second):
		t.Fatal("parent did not stop")
	}
	time.Sleep(300 * time.Millisecond)
	mu.Lock()
	got := append([]string(nil), order...)
	mu.Unlock()
	bad := false
	seenParent := false
	for _, s := range got {
		if s == "parent-stopped" {
			seenParent = true
		} else if seenParent {
			bad = true // a descendant is active after the parent handled Stopped
		}
	}
	if z := e.Registry.getByID("parent/1/c/1/g/2"); z != nil {
		t.Errorf("grandchild %s is registered and alive after the whole tree was stopped", z.PID().ID)
	}
	if bad {
		t.Errorf("descendants active after the parent's Stopped: %v", got)
	}
}
