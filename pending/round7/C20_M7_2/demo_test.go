package cluster

import (
	"fmt"
	"math/rand"
	"sort"
	"strings"
	"sync"
	"testing"
	"time"

	"github.com/anthdm/hollywood/actor"
)

// mut7bRemote is a Remoter that never touches the network: it only records what the
// engine wanted to send to other nodes (handshake answers, pings).
type mut7bRemote struct {
	addr string
	mu   sync.Mutex
	sent []mut7bSent
}

type mut7bSent struct {
	to  *actor.PID
	msg any
}

func (r *mut7bRemote) Address() string { return r.addr }
func (r *mut7bRemote) Send(pid *actor.PID, msg any, _ *actor.PID) {
	r.mu.Lock()
	r.sent = append(r.sent, mut7bSent{to: pid, msg: msg})
	r.mu.Unlock()
}
func (r *mut7bRemote) Start(*actor.Engine) error { return nil }
func (r *mut7bRemote) Stop() *sync.WaitGroup     { return &sync.WaitGroup{} }

// lastMembersTo returns the ids of the last member list that was sent to the given address.
func (r *mut7bRemote) lastMembersTo(addr string) []string {
	r.mu.Lock()
	defer r.mu.Unlock()
	for i := len(r.sent) - 1; i >= 0; i-- {
		if m, ok := r.sent[i].msg.(*Members); ok && r.sent[i].to.Address == addr {
			return mut7bIDs(m.Members)
		}
	}
	return nil
}

func mut7bIDs(members []*Member) []string {
	ids := make([]string, 0, len(members))
	for _, m := range members {
		ids = append(ids, m.ID)
	}
	sort.Strings(ids)
	return ids
}

type mut7bNode struct {
	t        *testing.T
	c        *Cluster
	e        *actor.Engine
	rem      *mut7bRemote
	provider *actor.PID
	reports  chan []string
}

// mut7bStart runs a real self managed provider next to a stub agent that records
// every member list the provider reports.
func mut7bStart(t *testing.T) *mut7bNode {
	rem := &mut7bRemote{addr: fmt.Sprintf("127.0.0.1:%d", 20000+rand.Intn(30000))}
	e, err := actor.NewEngine(actor.NewEngineConfig().WithRemote(rem))
	if err != nil {
		t.Fatal(err)
	}
	id := fmt.Sprintf("mut7b%d", rand.Int63())
	c, err := New(NewConfig().WithID(id).WithEngine(e))
	if err != nil {
		t.Fatal(err)
	}
	n := &mut7bNode{t: t, c: c, e: e, rem: rem, reports: make(chan []string, 256)}
	c.agentPID = e.SpawnFunc(func(ctx *actor.Context) {
		if m, ok := ctx.Message().(*Members); ok {
			n.reports <- mut7bIDs(m.Members)
		}
	}, "cluster", actor.WithID(id))
	c.providerPID = e.Spawn(c.config.provider(c), "provider", actor.WithID(id))
	n.provider = c.providerPID
	t.Cleanup(func() { <-e.Poison(c.providerPID).Done() })
	// the first report is the node itself.
	n.waitReport("initial report", func(ids []string) bool { return len(ids) == 1 && ids[0] == id })
	return n
}

// waitReport waits for a report that satisfies ok and returns it.
func (n *mut7bNode) waitReport(what string, ok func(ids []string) bool) []string {
	n.t.Helper()
	var last []string
	deadline := time.After(4 * time.Second)
	for {
		select {
		case ids := <-n.reports:
			last = ids
			if ok(ids) {
				return ids
			}
		case <-deadline:
			n.t.Fatalf("%s: the agent was never told; last report [%s]", what, strings.Join(last, ","))
			return nil
		}
	}
}

func mut7bHas(ids []string, id string) bool {
	for _, x := range ids {
		if x == id {
			return true
		}
	}
	return false
}

func (n *mut7bNode) handshake(m *Member) {
	n.e.SendWithSender(n.provider, &Handshake{Member: m}, memberToProviderPID(m))
}

func (n *mut7bNode) membersFrom(sender *actor.PID, members ...*Member) {
	n.e.SendWithSender(n.provider, &Members{Members: members}, sender)
}

// The bootstrap case without a working multicast discovery: the node has sent its handshake
// to a seed (that leaves no trace in its own member list) and the seed answers with the list
// it has. Nothing but that list tells the node who is in the cluster.
func TestMut7MemberListFromNotYetKnownSenderIsMerged(t *testing.T) {
	n := mut7bStart(t)
	seed := &Member{ID: "P", Host: "127.0.0.1:7201", Region: "eu"}
	other := &Member{ID: "Q", Host: "127.0.0.1:7202", Region: "eu"}
	self := n.c.Member()

	n.membersFrom(memberToProviderPID(seed), seed, other, self)
	ids := n.waitReport("member list [P Q self] sent by P", func(ids []string) bool { return len(ids) > 1 })
	if !mut7bHas(ids, "P") || !mut7bHas(ids, "Q") || !mut7bHas(ids, n.c.ID()) || len(ids) != 3 {
		t.Fatalf("member list was not merged completely: agent was told [%s]", strings.Join(ids, ","))
	}
}

// Same thing for a list that is relayed by a node that is not (or no longer) a member: P was
// a member, its address was reported unreachable, and the answer it had already put on the
// wire arrives afterwards.
func TestMut7MemberListFromDepartedSenderIsMerged(t *testing.T) {
	n := mut7bStart(t)
	p := &Member{ID: "P", Host: "127.0.0.1:7211", Region: "eu"}
	q := &Member{ID: "Q", Host: "127.0.0.1:7212", Region: "eu"}

	n.handshake(p)
	n.waitReport("handshake of P", func(ids []string) bool { return mut7bHas(ids, "P") })
	n.e.BroadcastEvent(actor.RemoteUnreachableEvent{ListenAddr: p.Host})
	ids := n.waitReport("unreachable P", func(ids []string) bool { return !mut7bHas(ids, "P") })
	if len(ids) != 1 || ids[0] != n.c.ID() {
		t.Fatalf("after P left the list should be the node alone: [%s]", strings.Join(ids, ","))
	}

	n.membersFrom(memberToProviderPID(p), q)
	ids = n.waitReport("member list [Q] sent by P", func(ids []string) bool { return true })
	if !mut7bHas(ids, "Q") || len(ids) != 2 {
		t.Fatalf("member list was not merged: agent was told [%s]", strings.Join(ids, ","))
	}
}
