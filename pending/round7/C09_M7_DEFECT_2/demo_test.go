package actor

import (
	"runtime/debug"
	"testing"
	"time"
)

// UNMODIFIED TREE: once the event stream actor itself is no longer registered,
// every undeliverable message (and every lifecycle event) recurses without
// bound in the *caller's* goroutine:
//
//	SendLocal(miss) -> BroadcastEvent -> send(eventStream) -> SendLocal(miss) -> BroadcastEvent -> ...
//
// The process dies with "fatal error: stack overflow" (not recoverable).
// The event stream's PID is public knowledge: it is the Sender() of every
// event a subscriber receives.
func TestMut7DefectEventStreamGone(t *testing.T) {
	// make the overflow quick; the default 1 GB limit only makes it slower.
	debug.SetMaxStack(32 << 20)
	e, _ := NewEngine(NewEngineConfig())
	got := make(chan *PID, 1)
	mon := e.SpawnFunc(func(c *Context) {
		switch c.Message().(type) {
		case DeadLetterEvent:
			select {
			case got <- c.Sender():
			default:
			}
		}
	}, "mon")
	e.Subscribe(mon)
	e.Send(NewPID(LocalLookupAddr, "nobody/1"), "x")
	var es *PID
	select {
	case es = <-got:
	case <-time.After(2 * time.Second):
		t.Fatal("no dead letter")
	}
	// Stop the event stream like any other actor. Its own cleanup already
	// recurses (ActorStoppedEvent is broadcast after Registry.Remove); if that
	// were survived, the Send below would do the same in this goroutine.
	e.Poison(es)
	time.Sleep(200 * time.Millisecond)
	done := make(chan struct{})
	go func() {
		e.Send(NewPID(LocalLookupAddr, "nobody/2"), "y")
		close(done)
	}()
	select {
	case <-done:
	case <-time.After(10 * time.Second):
		t.Fatal("send blocked")
	}
}
