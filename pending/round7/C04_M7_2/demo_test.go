package actor

import (
	"fmt"
	"sync"
	"testing"
	"time"
)

type mut7bTrace struct {
	mu     sync.Mutex
	traces [][]string
}

type mut7bRecv struct {
	t   *mut7bTrace
	idx int
}

func (r *mut7bRecv) Receive(c *Context) {
	r.t.mu.Lock()
	r.t.traces[r.idx] = append(r.t.traces[r.idx], fmt.Sprintf("%T", c.Message()))
	r.t.mu.Unlock()
	switch m := c.Message().(type) {
	case chan struct{}:
		<-m
	case string:
		if m == "boom" {
			panic("boom")
		}
	}
}

// A stop request sits in the same inbox batch behind a message that crashes the
// actor: the pill is replayed from the restart buffer to the next incarnation.
// Every incarnation must see exactly one Stopped, as its last message.
func mut7bRun(t *testing.T, stop func(e *Engine, pid *PID) <-chan struct{}) {
	e, err := NewEngine(NewEngineConfig())
	if err != nil {
		t.Fatal(err)
	}
	tr := &mut7bTrace{}
	pid := e.Spawn(func() Receiver {
		tr.mu.Lock()
		defer tr.mu.Unlock()
		tr.traces = append(tr.traces, nil)
		return &mut7bRecv{t: tr, idx: len(tr.traces) - 1}
	}, "m7b", WithMaxRestarts(3), WithRestartDelay(time.Millisecond))
	gate := make(chan struct{})
	e.Send(pid, gate)
	time.Sleep(30 * time.Millisecond)
	e.Send(pid, "boom")
	e.Send(pid, "x")
	done := stop(e, pid)
	close(gate)
	select {
	case <-done:
	case <-time.After(5 * time.Second):
		t.Fatal("actor did not stop")
	}
	time.Sleep(100 * time.Millisecond)
	tr.mu.Lock()
	defer tr.mu.Unlock()
	if len(tr.traces) != 2 {
		t.Fatalf("expected 2 incarnations, got %v", tr.traces)
	}
	for i, inc := range tr.traces {
		n := 0
		for _, m := range inc {
			if m == "actor.Stopped" {
				n++
			}
		}
		if n != 1 || inc[len(inc)-1] != "actor.Stopped" {
			t.Errorf("incarnation %d: Stopped delivered %d times, trace %v", i, n, inc)
		}
	}
}

func TestMut7ReplayedStopDeliversStopped(t *testing.T) {
	mut7bRun(t, func(e *Engine, pid *PID) <-chan struct{} { return e.Stop(pid).Done() })
}

func TestMut7ReplayedPoisonDeliversStopped(t *testing.T) {
	mut7bRun(t, func(e *Engine, pid *PID) <-chan struct{} { return e.Poison(pid).Done() })
}
