package actor

import (
	"sync/atomic"
	"testing"
	"time"
)

// An actor that keeps itself busy by sending to itself from inside its handler
// makes one worker activation pop exactly (throughput+1) non-empty batches and
// then find the queue empty. After that the senders fall silent; one more
// message sent from outside must still be processed.
func TestMut7ThroughputSliceEndsOnEmptyQueue(t *testing.T) {
	inbox := NewInbox(16)
	var (
		seen  int64
		chain = int64(defaultThroughput + 1)
		last  = make(chan struct{}, 1)
	)
	proc := MockProcesser{
		processFunc: func(envs []Envelope) {
			for range envs {
				n := atomic.AddInt64(&seen, 1)
				if n < chain {
					// self-send from inside the handler: picked up by the same worker's next PopN
					inbox.Send(Envelope{Msg: n})
				}
				if n == chain+1 {
					last <- struct{}{}
				}
			}
		},
	}
	inbox.Start(proc)
	inbox.Send(Envelope{Msg: int64(0)})

	// wait until the self-sustained chain is through and the actor is quiet
	deadline := time.Now().Add(5 * time.Second)
	for atomic.LoadInt64(&seen) < chain {
		if time.Now().After(deadline) {
			t.Fatalf("chain did not finish: %d/%d", atomic.LoadInt64(&seen), chain)
		}
		time.Sleep(time.Millisecond)
	}
	time.Sleep(50 * time.Millisecond)

	// senders were silent; now a single message from outside
	inbox.Send(Envelope{Msg: "late"})
	select {
	case <-last:
	case <-time.After(3 * time.Second):
		t.Fatalf("accepted message never processed: status=%d len=%d (3=running, no worker alive)",
			atomic.LoadInt32(&inbox.procStatus), inbox.rb.Len())
	}
	inbox.Stop()
}

// Same through the public engine API: an actor that re-arms itself.
func TestMut7ThroughputSliceEngine(t *testing.T) {
	e, err := NewEngine(NewEngineConfig())
	if err != nil {
		t.Fatal(err)
	}
	type step struct{ n int }
	type late struct{}
	got := make(chan struct{}, 1)
	quiet := make(chan struct{}, 1)
	pid := e.SpawnFunc(func(c *Context) {
		switch m := c.Message().(type) {
		case step:
			if m.n < defaultThroughput {
				c.Send(c.PID(), step{m.n + 1})
			} else {
				quiet <- struct{}{}
			}
		case late:
			got <- struct{}{}
		}
	}, "selfarm")
	e.Send(pid, step{0})
	select {
	case <-quiet:
	case <-time.After(5 * time.Second):
		t.Fatal("chain did not finish")
	}
	time.Sleep(50 * time.Millisecond)
	e.Send(pid, late{})
	select {
	case <-got:
	case <-time.After(3 * time.Second):
		t.Fatal("message sent to a quiet actor was never processed")
	}
}
