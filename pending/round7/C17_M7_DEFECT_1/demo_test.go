package remote

import (
	"fmt"
	"strings"
	"sync"
	"testing"
	"time"

	"github.com/anthdm/hollywood/actor"
)

// A message sent WITHOUT a sender that happens to share an outbound batch with a
// message that has a sender is delivered WITH that other message's sender.
func TestMut7DefectNilSenderInMixedBatch(t *testing.T) {
	a, ra, err := makeRemoteEngine(getRandomLocalhostAddr())
	if err != nil {
		t.Fatal(err)
	}
	defer ra.Stop()
	b, rb, err := makeRemoteEngine(getRandomLocalhostAddr())
	if err != nil {
		t.Fatal(err)
	}
	defer rb.Stop()

	const n = 400
	var (
		mu   sync.Mutex
		bad  []string
		got  int
		done = make(chan struct{})
	)
	pid := a.SpawnFunc(func(c *actor.Context) {
		msg, ok := c.Message().(*TestMessage)
		if !ok {
			return
		}
		mu.Lock()
		defer mu.Unlock()
		s := string(msg.Data)
		if strings.HasPrefix(s, "anon") && c.Sender() != nil {
			bad = append(bad, fmt.Sprintf("%s delivered with sender %s", s, c.Sender()))
		}
		if strings.HasPrefix(s, "from") && c.Sender() == nil {
			bad = append(bad, fmt.Sprintf("%s delivered without sender", s))
		}
		got++
		if got == 2*n {
			close(done)
		}
	}, "sink")

	sender := actor.NewPID(b.Address(), "somebody/1")
	for i := 0; i < n; i++ {
		b.SendWithSender(pid, &TestMessage{Data: []byte(fmt.Sprintf("from%d", i))}, sender)
		b.Send(pid, &TestMessage{Data: []byte(fmt.Sprintf("anon%d", i))})
	}
	select {
	case <-done:
	case <-time.After(10 * time.Second):
		t.Fatalf("timeout: got %d of %d", got, 2*n)
	}
	mu.Lock()
	defer mu.Unlock()
	if len(bad) > 0 {
		t.Fatalf("%d messages delivered with the wrong sender, first: %s", len(bad), bad[0])
	}
}
