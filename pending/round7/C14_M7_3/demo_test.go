package ringbuffer

import "testing"

// Pop must report false exactly when the queue is empty - in particular it
// must hand out the oldest element when the number of queued elements equals
// the number of slots of the backing array.
func TestMut7PopWhenLenEqualsSlots(t *testing.T) {
	for _, size := range []int64{1, 2, 3, 4, 8, 1024} {
		for shift := int64(0); shift < size && shift < 9; shift++ {
			rb := New[int](size)
			for i := int64(0); i < shift; i++ {
				rb.Push(-1)
				if v, ok := rb.Pop(); !ok || v != -1 {
					t.Fatalf("size %d shift %d: warm-up Pop = (%d, %v)", size, shift, v, ok)
				}
			}
			for i := int64(0); i < size; i++ {
				rb.Push(int(i))
			}
			if l := rb.Len(); l != size {
				t.Fatalf("size %d shift %d: Len = %d, want %d", size, shift, l, size)
			}
			for i := int64(0); i < size; i++ {
				v, ok := rb.Pop()
				if !ok {
					t.Fatalf("size %d shift %d: Pop reported empty although Len = %d", size, shift, rb.Len())
				}
				if v != int(i) {
					t.Fatalf("size %d shift %d: Pop = %d, want %d", size, shift, v, i)
				}
			}
			if _, ok := rb.Pop(); ok {
				t.Fatalf("size %d shift %d: Pop on empty queue reported true", size, shift)
			}
		}
	}
}
