package actor

import (
	"sync/atomic"
	"testing"
	"time"
)

// UNMODIFIED TREE: a subscriber that stops without unsubscribing turns one
// event into an unbounded stream of dead letters.
//
// The event stream forwards the subscriber's own ActorStoppedEvent to the
// (now deregistered) subscriber; SendLocal misses and broadcasts a
// DeadLetterEvent; the event stream forwards that one to the dead subscriber
// as well; and so on, for ever. No message at all has been sent by the user.
func TestMut7DefectDeadSubscriberFeedback(t *testing.T) {
	e, _ := NewEngine(NewEngineConfig())
	var n int64
	mon := e.SpawnFunc(func(c *Context) {
		switch c.Message().(type) {
		case DeadLetterEvent:
			atomic.AddInt64(&n, 1)
		}
	}, "mon")
	e.Subscribe(mon)
	gone := e.SpawnFunc(func(c *Context) {}, "gone")
	e.Subscribe(gone)
	time.Sleep(50 * time.Millisecond)
	<-e.Poison(gone).Done()

	// quiescence: the number of dead letters seen by the live monitor must
	// stop growing.
	time.Sleep(300 * time.Millisecond)
	a := atomic.LoadInt64(&n)
	time.Sleep(500 * time.Millisecond)
	b := atomic.LoadInt64(&n)
	t.Logf("dead letters seen by the live monitor: %d, half a second later: %d", a, b)
	if b != a {
		t.Fatalf("zero user sends, yet the number of DeadLetterEvents keeps growing (%d -> %d)", a, b)
	}
}
