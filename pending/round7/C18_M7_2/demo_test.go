package cluster

import (
	"slices"
	"sync"
	"testing"
	"time"

	"github.com/anthdm/hollywood/actor"
)

// A provider that does nothing: the test plays the provider and feeds the
// snapshots to the agent itself.
type mut7bNopProvider struct{}

func (mut7bNopProvider) Receive(*actor.Context) {}

type mut7bLog struct {
	mu     sync.Mutex
	joined []string
	left   []string
}

func (l *mut7bLog) snapshot() (j, lv []string) {
	l.mu.Lock()
	defer l.mu.Unlock()
	return slices.Clone(l.joined), slices.Clone(l.left)
}

func mut7bCluster(t *testing.T, id string, kinds ...string) (*Cluster, *mut7bLog) {
	t.Helper()
	e, err := actor.NewEngine(actor.NewEngineConfig())
	if err != nil {
		t.Fatal(err)
	}
	cfg := NewConfig().
		WithID(id).
		WithEngine(e).
		WithRequestTimeout(2 * time.Second).
		WithProvider(func(*Cluster) actor.Producer {
			return func() actor.Receiver { return mut7bNopProvider{} }
		})
	c, err := New(cfg)
	if err != nil {
		t.Fatal(err)
	}
	for _, k := range kinds {
		c.RegisterKind(k, func() actor.Receiver { return mut7bNopProvider{} }, NewKindConfig())
	}
	log := &mut7bLog{}
	sub := e.SpawnFunc(func(ctx *actor.Context) {
		switch ev := ctx.Message().(type) {
		case MemberJoinEvent:
			log.mu.Lock()
			log.joined = append(log.joined, ev.Member.ID)
			log.mu.Unlock()
		case MemberLeaveEvent:
			log.mu.Lock()
			log.left = append(log.left, ev.Member.ID)
			log.mu.Unlock()
		}
	}, "mut7events")
	e.Subscribe(sub)
	c.Start()
	return c, log
}

func mut7bIDs(ms []*Member) []string {
	ids := make([]string, 0, len(ms))
	for _, m := range ms {
		ids = append(ids, m.ID)
	}
	slices.Sort(ids)
	return ids
}

// feed sends the snapshot to the agent and returns the view after it has been processed
// (the agent handles its inbox in order, so the Members() request is answered after the snapshot).
func mut7bFeed(c *Cluster, snap ...*Member) []string {
	c.engine.Send(c.PID(), &Members{Members: snap})
	return mut7bIDs(c.Members())
}

func mut7bWaitEvents(log *mut7bLog, nj, nl int) (j, l []string) {
	deadline := time.Now().Add(3 * time.Second)
	for {
		j, l = log.snapshot()
		if (len(j) >= nj && len(l) >= nl) || time.Now().After(deadline) {
			// give stragglers (unexpected extra events) a moment
			time.Sleep(50 * time.Millisecond)
			j, l = log.snapshot()
			slices.Sort(j)
			slices.Sort(l)
			return
		}
		time.Sleep(5 * time.Millisecond)
	}
}

// HasKind must follow the kinds advertised by the members of the view and nothing else:
// actors that are announced as active (Activation / ActorTopology traffic between the
// agents, Cluster.Spawn) do not make a kind available.
func TestMut7HasKindOnlyFromMembers(t *testing.T) {
	c, _ := mut7bCluster(t, "self", "base")
	defer c.Stop()

	self := c.Member()
	a := &Member{ID: "A", Host: "10.0.0.1:4000", Kinds: []string{"player"}}
	b := &Member{ID: "B", Host: "10.0.0.2:4000", Kinds: []string{"inventory"}}

	if got, want := mut7bFeed(c, self, a, b), []string{"A", "B", "self"}; !slices.Equal(got, want) {
		t.Fatalf("Members() = %v, snapshot = %v", got, want)
	}
	if !c.HasKind("player") || !c.HasKind("inventory") || !c.HasKind("base") {
		t.Fatalf("HasKind misses a kind of the view")
	}

	// A plain actor spawned through the cluster is announced to all members (us included).
	// "worker" is not a kind any member advertises.
	c.Spawn(func() actor.Receiver { return mut7bNopProvider{} }, "worker", actor.WithID("1"))
	if got, want := mut7bFeed(c, self, a, b), []string{"A", "B", "self"}; !slices.Equal(got, want) {
		t.Fatalf("Members() = %v, snapshot = %v", got, want)
	}
	if c.HasKind("worker") {
		t.Errorf("HasKind(worker) = true, but no member of the view %v advertises it", mut7bIDs(c.Members()))
	}

	// A (the only member with kind player) leaves.
	if got, want := mut7bFeed(c, self, b), []string{"B", "self"}; !slices.Equal(got, want) {
		t.Fatalf("Members() = %v, snapshot = %v", got, want)
	}
	if c.HasKind("player") {
		t.Fatalf("HasKind(player) = true right after its only member left")
	}
	// B has not noticed yet and still tells us about a player it activated on A.
	c.engine.Send(c.PID(), &Activation{PID: actor.NewPID(a.Host, "player/7")})
	c.engine.Send(c.PID(), &ActorTopology{Actors: []*ActorInfo{{PID: actor.NewPID(a.Host, "player/8")}}})
	// the provider repeats the snapshot, the view is still {self, B}.
	if got, want := mut7bFeed(c, self, b), []string{"B", "self"}; !slices.Equal(got, want) {
		t.Fatalf("Members() = %v, snapshot = %v", got, want)
	}
	if c.HasKind("player") {
		t.Errorf("HasKind(player) = true, but no member of the view %v advertises it", mut7bIDs(c.Members()))
	}
	if !c.HasKind("inventory") || !c.HasKind("base") {
		t.Errorf("HasKind misses a kind of the view")
	}
}
