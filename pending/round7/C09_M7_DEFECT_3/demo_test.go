package remote

import (
	"sync"
	"testing"
	"time"

	"github.com/anthdm/hollywood/actor"
)

// dead letters raised on B for messages that came in over the wire.
// Messages without a sender are interleaved with messages with a sender.
func TestMut7DefectRemoteAnonymousSender(t *testing.T) {
	a, _, err := makeRemoteEngine(getRandomLocalhostAddr())
	if err != nil {
		t.Fatal(err)
	}
	bAddr := getRandomLocalhostAddr()
	b, _, err := makeRemoteEngine(bAddr)
	if err != nil {
		t.Fatal(err)
	}
	const n = 200
	var (
		mu      sync.Mutex
		withS   int
		without int
		total   int
	)
	mon := b.SpawnFunc(func(c *actor.Context) {
		switch ev := c.Message().(type) {
		case actor.DeadLetterEvent:
			tm, ok := ev.Message.(*TestMessage)
			if !ok {
				return
			}
			mu.Lock()
			defer mu.Unlock()
			total++
			if string(tm.Data) == "anon" && ev.Sender != nil {
				withS++
			}
			if string(tm.Data) == "signed" && ev.Sender == nil {
				without++
			}
		}
	}, "mon")
	b.Subscribe(mon)
	time.Sleep(50 * time.Millisecond)
	target := actor.NewPID(bAddr, "nobody/1")
	sender := actor.NewPID(a.Address(), "me/1")
	for i := 0; i < n; i++ {
		a.SendWithSender(target, &TestMessage{Data: []byte("signed")}, sender)
		a.Send(target, &TestMessage{Data: []byte("anon")})
	}
	deadline := time.Now().Add(5 * time.Second)
	for time.Now().Before(deadline) {
		mu.Lock()
		tt := total
		mu.Unlock()
		if tt >= 2*n {
			break
		}
		time.Sleep(20 * time.Millisecond)
	}
	mu.Lock()
	defer mu.Unlock()
	t.Logf("total=%d anonymous-with-sender=%d signed-without-sender=%d", total, withS, without)
	if total != 2*n || withS != 0 || without != 0 {
		t.Fatalf("dead letters do not carry the original sender")
	}
}
