package actor

import (
	"fmt"
	"reflect"
	"sync"
	"sync/atomic"
	"testing"
	"time"
)

type mut7Delivery struct {
	Incarnation int
	Msg         string
}

type mut7Trace struct {
	mu  sync.Mutex
	log []mut7Delivery
}

func (tr *mut7Trace) add(inc int, msg string) {
	tr.mu.Lock()
	tr.log = append(tr.log, mut7Delivery{inc, msg})
	tr.mu.Unlock()
}

func (tr *mut7Trace) snapshot() []mut7Delivery {
	tr.mu.Lock()
	defer tr.mu.Unlock()
	return append([]mut7Delivery(nil), tr.log...)
}

type mut7Recv struct {
	inc     int
	trace   *mut7Trace
	release chan struct{}
	done    chan struct{}
}

func (r *mut7Recv) Receive(c *Context) {
	switch m := c.Message().(type) {
	case Initialized:
		r.trace.add(r.inc, "Initialized")
	case Started:
		r.trace.add(r.inc, "Started")
		if r.inc == 2 {
			// the second incarnation fails to come up, once.
			panic("boom in Started of incarnation 2")
		}
	case Stopped:
		r.trace.add(r.inc, "Stopped")
	case string:
		r.trace.add(r.inc, m)
		switch m {
		case "m0":
			<-r.release // keep the worker busy so that m1..m3 end up in one batch
		case "m1":
			panic("boom in m1")
		case "m4":
			close(r.done)
		}
	}
}

// Fault sequence: m1 fails with m2,m3 queued behind it in the same batch; the
// fresh receiver then fails in Started (still inside the restart budget);
// meanwhile a sender delivers m4 during the restart delay.
// Required: m2,m3 (the buffered tail) and then m4 are delivered, in that order
// and exactly once, to the incarnation that finally comes up (the third), and
// nothing is handed to an incarnation that was already told Stopped.
func TestMut7LifecycleFailureDuringRestartKeepsOrder(t *testing.T) {
	e, err := NewEngine(NewEngineConfig())
	if err != nil {
		t.Fatal(err)
	}
	var (
		incs    atomic.Int32
		trace   = &mut7Trace{}
		release = make(chan struct{})
		done    = make(chan struct{})
	)
	pid := e.Spawn(func() Receiver {
		return &mut7Recv{inc: int(incs.Add(1)), trace: trace, release: release, done: done}
	}, "mut7order", WithRestartDelay(150*time.Millisecond), WithMaxRestarts(5))

	e.Send(pid, "m0")
	time.Sleep(30 * time.Millisecond) // m0 is being processed (blocked) now
	e.Send(pid, "m1")
	e.Send(pid, "m2")
	e.Send(pid, "m3")
	close(release)
	// m1 crashes right away; the worker now sits in the first restart delay.
	time.Sleep(50 * time.Millisecond)
	e.Send(pid, "m4") // "sent later", waits in the ring

	select {
	case <-done:
	case <-time.After(5 * time.Second):
		t.Fatalf("m4 never delivered; trace: %v", trace.snapshot())
	}
	// give a detached restart, if any, the time to finish
	time.Sleep(400 * time.Millisecond)

	log := trace.snapshot()
	perInc := map[int][]string{}
	stoppedSeen := map[int]bool{}
	for _, d := range log {
		if stoppedSeen[d.Incarnation] {
			t.Errorf("incarnation %d received %q after it was told Stopped", d.Incarnation, d.Msg)
		}
		if d.Msg == "Stopped" {
			stoppedSeen[d.Incarnation] = true
		}
		perInc[d.Incarnation] = append(perInc[d.Incarnation], d.Msg)
	}
	want := map[int][]string{
		1: {"Initialized", "Started", "m0", "m1", "Stopped"},
		2: {"Initialized", "Started", "Stopped"},
		3: {"Initialized", "Started", "m2", "m3", "m4"},
	}
	if !reflect.DeepEqual(perInc, want) {
		t.Errorf("per-incarnation delivery trace differs\n got: %s\nwant: %s\nfull: %v",
			fmt.Sprint(perInc), fmt.Sprint(want), log)
	}
}
