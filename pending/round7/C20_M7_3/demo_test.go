package cluster

import (
	"fmt"
	"math/rand"
	"sort"
	"strings"
	"sync"
	"testing"
	"time"

	"github.com/anthdm/hollywood/actor"
)

// mut7cRemote is a Remoter that never touches the network: it only records what the
// engine wanted to send to other nodes (handshake answers, pings).
type mut7cRemote struct {
	addr string
	mu   sync.Mutex
	sent []mut7cSent
}

type mut7cSent struct {
	to  *actor.PID
	msg any
}

func (r *mut7cRemote) Address() string { return r.addr }
func (r *mut7cRemote) Send(pid *actor.PID, msg any, _ *actor.PID) {
	r.mu.Lock()
	r.sent = append(r.sent, mut7cSent{to: pid, msg: msg})
	r.mu.Unlock()
}
func (r *mut7cRemote) Start(*actor.Engine) error { return nil }
func (r *mut7cRemote) Stop() *sync.WaitGroup     { return &sync.WaitGroup{} }

// lastMembersTo returns the ids of the last member list that was sent to the given address.
func (r *mut7cRemote) lastMembersTo(addr string) []string {
	r.mu.Lock()
	defer r.mu.Unlock()
	for i := len(r.sent) - 1; i >= 0; i-- {
		if m, ok := r.sent[i].msg.(*Members); ok && r.sent[i].to.Address == addr {
			return mut7cIDs(m.Members)
		}
	}
	return nil
}

func mut7cIDs(members []*Member) []string {
	ids := make([]string, 0, len(members))
	for _, m := range members {
		ids = append(ids, m.ID)
	}
	sort.Strings(ids)
	return ids
}

type mut7cNode struct {
	t        *testing.T
	c        *Cluster
	e        *actor.Engine
	rem      *mut7cRemote
	provider *actor.PID
	reports  chan []string
}

// mut7cStart runs a real self managed provider next to a stub agent that records
// every member list the provider reports.
func mut7cStart(t *testing.T, cfg SelfManagedConfig) *mut7cNode {
	rem := &mut7cRemote{addr: fmt.Sprintf("127.0.0.1:%d", 20000+rand.Intn(30000))}
	e, err := actor.NewEngine(actor.NewEngineConfig().WithRemote(rem))
	if err != nil {
		t.Fatal(err)
	}
	id := fmt.Sprintf("mut7c%d", rand.Int63())
	c, err := New(NewConfig().WithID(id).WithEngine(e).WithProvider(NewSelfManagedProvider(cfg)))
	if err != nil {
		t.Fatal(err)
	}
	n := &mut7cNode{t: t, c: c, e: e, rem: rem, reports: make(chan []string, 256)}
	c.agentPID = e.SpawnFunc(func(ctx *actor.Context) {
		if m, ok := ctx.Message().(*Members); ok {
			n.reports <- mut7cIDs(m.Members)
		}
	}, "cluster", actor.WithID(id))
	c.providerPID = e.Spawn(c.config.provider(c), "provider", actor.WithID(id))
	n.provider = c.providerPID
	t.Cleanup(func() { <-e.Poison(c.providerPID).Done() })
	// the first report is the node itself.
	n.waitReport("initial report", func(ids []string) bool { return len(ids) == 1 && ids[0] == id })
	return n
}

// waitReport waits for a report that satisfies ok and returns it.
func (n *mut7cNode) waitReport(what string, ok func(ids []string) bool) []string {
	n.t.Helper()
	var last []string
	deadline := time.After(4 * time.Second)
	for {
		select {
		case ids := <-n.reports:
			last = ids
			if ok(ids) {
				return ids
			}
		case <-deadline:
			n.t.Fatalf("%s: the agent was never told; last report [%s]", what, strings.Join(last, ","))
			return nil
		}
	}
}

func mut7cHas(ids []string, id string) bool {
	for _, x := range ids {
		if x == id {
			return true
		}
	}
	return false
}

func (n *mut7cNode) handshake(m *Member) {
	n.e.SendWithSender(n.provider, &Handshake{Member: m}, memberToProviderPID(m))
}

// handshakesTo counts the handshakes this node has sent to the given address.
func (r *mut7cRemote) handshakesTo(addr string) int {
	r.mu.Lock()
	defer r.mu.Unlock()
	n := 0
	for _, s := range r.sent {
		if _, ok := s.msg.(*Handshake); ok && s.to.Address == addr {
			n++
		}
	}
	return n
}

// A node that was configured with a seed. The seed joins (its handshake arrives), later its
// address is reported unreachable: it has to leave the list like any other member.
func TestMut7UnreachableBootstrapMemberIsRemoved(t *testing.T) {
	seed := &Member{ID: "S", Host: "127.0.0.1:7401", Region: "eu"}
	peer := &Member{ID: "P", Host: "127.0.0.1:7402", Region: "eu"}
	cfg := NewSelfManagedConfig().WithBootstrapMember(MemberAddr{ListenAddr: seed.Host, ID: seed.ID})
	n := mut7cStart(t, cfg)
	if got := n.rem.handshakesTo(seed.Host); got != 1 {
		t.Fatalf("expected one bootstrap handshake to the seed, got %d", got)
	}

	n.handshake(seed)
	n.waitReport("handshake of S", func(ids []string) bool { return mut7cHas(ids, "S") })
	n.handshake(peer)
	ids := n.waitReport("handshake of P", func(ids []string) bool { return mut7cHas(ids, "P") })
	if len(ids) != 3 {
		t.Fatalf("expected self, S and P: [%s]", strings.Join(ids, ","))
	}

	// an address nobody lives at: nothing happens (no report is sent for it).
	n.e.BroadcastEvent(actor.RemoteUnreachableEvent{ListenAddr: "127.0.0.1:7499"})
	// the ordinary peer leaves.
	n.e.BroadcastEvent(actor.RemoteUnreachableEvent{ListenAddr: peer.Host})
	ids = n.waitReport("unreachable P", func(ids []string) bool { return true })
	if mut7cHas(ids, "P") || !mut7cHas(ids, "S") || len(ids) != 2 {
		t.Fatalf("after P left expected self and S: [%s]", strings.Join(ids, ","))
	}

	// the seed leaves.
	n.e.BroadcastEvent(actor.RemoteUnreachableEvent{ListenAddr: seed.Host})
	ids = n.waitReport("unreachable S", func(ids []string) bool { return !mut7cHas(ids, "S") })
	if len(ids) != 1 || ids[0] != n.c.ID() {
		t.Fatalf("after S left the list should be the node alone: [%s]", strings.Join(ids, ","))
	}
}
