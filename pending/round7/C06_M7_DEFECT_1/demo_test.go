package actor

import (
	"testing"
	"time"
)

// A parent exhausts its restart budget while its child is exhausting its own
// budget at the same moment. The parent's cleanup poisons the child and waits
// for the pill to be honoured; the child terminates through tryRestart ->
// cleanup(nil), which stops its inbox with the pill still in it. Nobody ever
// cancels the pill's context, so the parent's cleanup blocks forever: the
// parent is never unregistered and later sends to it never dead-letter.
func TestMut7DefectParentHangsOnChildThatDiedOfMaxRestarts(t *testing.T) {
	e, err := NewEngine(NewEngineConfig())
	if err != nil {
		t.Fatal(err)
	}
	type bad struct{}
	type goMsg struct{}

	exceeded := make(chan *PID, 16)
	monReady := make(chan struct{})
	mon := e.SpawnFunc(func(c *Context) {
		switch m := c.Message().(type) {
		case Started:
			c.Engine().Subscribe(c.PID())
			close(monReady)
		case ActorMaxRestartsExceededEvent:
			exceeded <- m.PID
		}
	}, "monitor")
	<-monReady
	time.Sleep(50 * time.Millisecond)
	_ = mon

	entered := make(chan struct{})
	release := make(chan struct{})
	var childPID *PID
	parent := e.SpawnFunc(func(c *Context) {
		switch c.Message().(type) {
		case Started:
			childPID = c.SpawnChildFunc(func(cc *Context) {
				switch cc.Message().(type) {
				case bad:
					close(entered)
					<-release
					panic("child fails")
				}
			}, "child", WithMaxRestarts(0), WithID("c"))
		case goMsg:
			c.Send(childPID, bad{})
			<-entered
			panic("parent fails")
		}
	}, "parent", WithMaxRestarts(0), WithID("p"))

	e.Send(parent, goMsg{})

	// the parent's budget is exhausted: the event is published before cleanup.
	select {
	case pid := <-exceeded:
		if !pid.Equals(parent) {
			t.Fatalf("unexpected exceeded event for %v", pid)
		}
	case <-time.After(2 * time.Second):
		t.Fatal("parent did not exhaust its budget")
	}
	// give the parent's cleanup time to put the pill into the child's inbox,
	// then let the child crash (its budget is 0 as well).
	time.Sleep(200 * time.Millisecond)
	close(release)

	select {
	case pid := <-exceeded:
		if !pid.Equals(childPID) {
			t.Fatalf("unexpected exceeded event for %v", pid)
		}
	case <-time.After(2 * time.Second):
		t.Fatal("child did not exhaust its budget")
	}

	deadline := time.Now().Add(3 * time.Second)
	for time.Now().Before(deadline) {
		if e.Registry.GetPID("parent", "p") == nil {
			return // parent terminated cleanly
		}
		time.Sleep(20 * time.Millisecond)
	}
	t.Fatalf("parent %v is still registered 3s after ActorMaxRestartsExceededEvent: its cleanup is blocked on a poison pill the dead child will never honour (child registered: %v)",
		parent, e.Registry.get(childPID) != nil)
}
