package actor

import (
	"fmt"
	"sync"
	"testing"
	"time"
)

type mut7aRecv struct {
	mu    *sync.Mutex
	trace *[]string
}

func (r *mut7aRecv) Receive(c *Context) {
	r.mu.Lock()
	*r.trace = append(*r.trace, fmt.Sprintf("%T", c.Message()))
	r.mu.Unlock()
	if gate, ok := c.Message().(chan struct{}); ok {
		<-gate
	}
}

// More than one inbox batch (messageBatchSize) is queued behind a stop request
// while the actor is busy. Stopped has to be the last thing the receiver sees.
func mut7aRun(t *testing.T, stop func(e *Engine, pid *PID) <-chan struct{}) {
	e, err := NewEngine(NewEngineConfig())
	if err != nil {
		t.Fatal(err)
	}
	var (
		mu    sync.Mutex
		trace []string
	)
	pid := e.Spawn(func() Receiver { return &mut7aRecv{mu: &mu, trace: &trace} }, "m7a")
	gate := make(chan struct{})
	e.Send(pid, gate)
	time.Sleep(30 * time.Millisecond) // the actor now sits in the gate message
	e.Send(pid, 0)
	done := stop(e, pid)
	for i := 1; i <= messageBatchSize+500; i++ {
		e.Send(pid, i)
	}
	close(gate)
	select {
	case <-done:
	case <-time.After(5 * time.Second):
		t.Fatal("actor did not stop")
	}
	time.Sleep(200 * time.Millisecond)
	mu.Lock()
	defer mu.Unlock()
	nStopped, after := 0, 0
	for _, m := range trace {
		if m == "actor.Stopped" {
			nStopped++
		} else if nStopped > 0 {
			after++
		}
	}
	if nStopped != 1 || after != 0 {
		t.Fatalf("Stopped delivered %d times, %d messages delivered after the first Stopped (trace len %d)", nStopped, after, len(trace))
	}
}

func TestMut7InboxStopLongQueue(t *testing.T) {
	mut7aRun(t, func(e *Engine, pid *PID) <-chan struct{} { return e.Stop(pid).Done() })
}

func TestMut7InboxPoisonLongQueue(t *testing.T) {
	mut7aRun(t, func(e *Engine, pid *PID) <-chan struct{} { return e.Poison(pid).Done() })
}
