package actor

import (
	"sync/atomic"
	"testing"
	"time"
)

// A self-healing dead-letter watcher: it subscribes itself when it starts, and
// when it is stopped it puts a fresh incarnation in its place under the same
// id (the registry entry is free again by the time Stopped is delivered, so
// this is allowed and works).
type mut7Watcher struct {
	gen      *int32
	letters  chan DeadLetterEvent
	started  chan int32
	myGen    int32
	producer func() Producer
}

func (w *mut7Watcher) Receive(c *Context) {
	switch ev := c.Message().(type) {
	case Started:
		w.myGen = atomic.AddInt32(w.gen, 1)
		c.Engine().Subscribe(c.PID())
		w.started <- w.myGen
	case Stopped:
		if w.myGen == 1 {
			c.Engine().Spawn(w.producer(), "watch", WithID("1"))
		}
	case DeadLetterEvent:
		w.letters <- ev
	}
}

func TestMut7RespawnedSubscriberStillGetsDeadLetters(t *testing.T) {
	e, err := NewEngine(NewEngineConfig())
	if err != nil {
		t.Fatal(err)
	}
	var (
		gen     int32
		letters = make(chan DeadLetterEvent, 64)
		started = make(chan int32, 4)
	)
	var producer func() Producer
	producer = func() Producer {
		return func() Receiver {
			return &mut7Watcher{gen: &gen, letters: letters, started: started, producer: producer}
		}
	}
	pid := e.Spawn(producer(), "watch", WithID("1"))
	if g := <-started; g != 1 {
		t.Fatalf("generation %d", g)
	}
	// make sure the first subscription is in place and the stream is quiet
	time.Sleep(100 * time.Millisecond)

	<-e.Poison(pid).Done()
	select {
	case g := <-started:
		if g != 2 {
			t.Fatalf("generation %d", g)
		}
	case <-time.After(2 * time.Second):
		t.Fatal("replacement did not start")
	}
	if e.Registry.get(pid) == nil {
		t.Fatal("replacement is not registered")
	}
	// let the event stream work through subscribe / stopped / started events
	time.Sleep(200 * time.Millisecond)

	target := NewPID(LocalLookupAddr, "nobody/1")
	sender := NewPID(LocalLookupAddr, "me/1")
	e.SendWithSender(target, "hello", sender)

	seen := 0
	deadline := time.After(1500 * time.Millisecond)
loop:
	for {
		select {
		case ev := <-letters:
			if ev.Target.Equals(target) {
				if ev.Message != "hello" || ev.Sender == nil || !ev.Sender.Equals(sender) {
					t.Fatalf("dead letter does not carry the original message/sender: %+v", ev)
				}
				seen++
			}
		case <-deadline:
			break loop
		}
	}
	if seen != 1 {
		t.Fatalf("the running, subscribed watcher (second incarnation of %v) saw %d dead letters for one undeliverable message, want 1", pid, seen)
	}
}
