package remote

import (
	"context"
	"net"
	"sync"
	"testing"

	"github.com/anthdm/hollywood/actor"
	"google.golang.org/protobuf/proto"
	"google.golang.org/protobuf/reflect/protodesc"
	"google.golang.org/protobuf/reflect/protoreflect"
	"google.golang.org/protobuf/reflect/protoregistry"
	"google.golang.org/protobuf/types/descriptorpb"
	"google.golang.org/protobuf/types/dynamicpb"
	"storj.io/drpc"
)

// ---- harness -------------------------------------------------------------

type mut7Delivery struct {
	target  string
	sender  *actor.PID
	payload any
}

type mut7Recorder struct {
	mu  *sync.Mutex
	log *[]mut7Delivery
	pid *actor.PID
}

func (r *mut7Recorder) Start()          {}
func (r *mut7Recorder) PID() *actor.PID { return r.pid }
func (r *mut7Recorder) Send(to *actor.PID, msg any, sender *actor.PID) {
	r.mu.Lock()
	defer r.mu.Unlock()
	*r.log = append(*r.log, mut7Delivery{target: to.String(), sender: sender, payload: msg})
}
func (r *mut7Recorder) Invoke([]actor.Envelope) {}
func (r *mut7Recorder) Shutdown()               {}

type mut7OutStream struct {
	drpc.Stream
	envs [][]byte
}

func (s *mut7OutStream) Send(e *Envelope) error {
	// the codec the generated DRPC client uses on the wire
	b, err := drpcEncoding_File_remote_proto{}.Marshal(e)
	if err != nil {
		return err
	}
	s.envs = append(s.envs, b)
	return nil
}
func (s *mut7OutStream) Recv() (*Envelope, error) { return nil, context.Canceled }
func (s *mut7OutStream) Close() error             { return nil }

type mut7InStream struct {
	drpc.Stream
	envs [][]byte
}

func (s *mut7InStream) Send(*Envelope) error { return nil }
func (s *mut7InStream) Recv() (*Envelope, error) {
	if len(s.envs) == 0 {
		return nil, context.Canceled
	}
	b := s.envs[0]
	s.envs = s.envs[1:]
	e := &Envelope{}
	if err := (drpcEncoding_File_remote_proto{}).Unmarshal(b, e); err != nil {
		return nil, err
	}
	return e, nil
}

type mut7Msg struct {
	target *actor.PID
	sender *actor.PID
	msg    any
}

// mut7RoundTrip encodes every batch with a real streamWriter, carries the bytes
// over to a real streamReader and returns what the receiving engine delivered.
func mut7RoundTrip(t *testing.T, recvIDs []string, batches ...[]mut7Msg) ([]mut7Delivery, error) {
	t.Helper()
	se, err := actor.NewEngine(actor.NewEngineConfig())
	if err != nil {
		t.Fatal(err)
	}
	re, err := actor.NewEngine(actor.NewEngineConfig())
	if err != nil {
		t.Fatal(err)
	}
	var (
		mu  sync.Mutex
		log []mut7Delivery
	)
	for _, id := range recvIDs {
		re.SpawnProc(&mut7Recorder{mu: &mu, log: &log, pid: actor.NewPID(re.Address(), id)})
	}
	c1, c2 := net.Pipe()
	defer c1.Close()
	defer c2.Close()
	out := &mut7OutStream{}
	sw := newStreamWriter(se, actor.NewPID("local", "router"), "peer:1", nil, 0).(*streamWriter)
	sw.stream = out
	sw.rawconn = c1
	for _, batch := range batches {
		envs := make([]actor.Envelope, 0, len(batch))
		for _, m := range batch {
			envs = append(envs, actor.Envelope{Msg: &streamDeliver{target: m.target, sender: m.sender, msg: m.msg}})
		}
		sw.Invoke(envs)
	}
	sr := newStreamReader(&Remote{engine: re})
	rerr := sr.Receive(&mut7InStream{envs: out.envs})
	mu.Lock()
	defer mu.Unlock()
	return append([]mut7Delivery(nil), log...), rerr
}

func mut7Check(t *testing.T, got []mut7Delivery, want []mut7Msg) {
	t.Helper()
	if len(got) != len(want) {
		t.Fatalf("delivered %d messages, want %d: %+v", len(got), len(want), got)
	}
	for i := range want {
		g, w := got[i], want[i]
		if g.target != w.target.String() {
			t.Errorf("message %d: delivered to %s, want %s", i, g.target, w.target)
		}
		if (g.sender == nil) != (w.sender == nil) || (g.sender != nil && !g.sender.Equals(w.sender)) {
			t.Errorf("message %d: sender %v, want %v", i, g.sender, w.sender)
		}
		gp, ok := g.payload.(proto.Message)
		if !ok || !proto.Equal(gp, w.msg.(proto.Message)) {
			t.Errorf("message %d: payload %v, want %v", i, g.payload, w.msg)
		}
	}
}

// ---- demo ----------------------------------------------------------------

// Two message types that are registered at run time (dynamicpb): they are
// perfectly good registered protobuf types with different full names, but their
// values share one Go type, *dynamicpb.Message.
var (
	mut7DynOnce  sync.Once
	mut7DynAlpha protoreflect.MessageType
	mut7DynBeta  protoreflect.MessageType
)

func mut7DynTypes(t *testing.T) (protoreflect.MessageType, protoreflect.MessageType) {
	t.Helper()
	mut7DynOnce.Do(func() {
		str := descriptorpb.FieldDescriptorProto_TYPE_STRING
		i64 := descriptorpb.FieldDescriptorProto_TYPE_INT64
		opt := descriptorpb.FieldDescriptorProto_LABEL_OPTIONAL
		fdp := &descriptorpb.FileDescriptorProto{
			Name:    proto.String("mut7dyn.proto"),
			Package: proto.String("mut7dyn"),
			Syntax:  proto.String("proto3"),
			MessageType: []*descriptorpb.DescriptorProto{
				{Name: proto.String("Alpha"), Field: []*descriptorpb.FieldDescriptorProto{
					{Name: proto.String("text"), JsonName: proto.String("text"), Number: proto.Int32(1), Type: &str, Label: &opt},
				}},
				{Name: proto.String("Beta"), Field: []*descriptorpb.FieldDescriptorProto{
					{Name: proto.String("count"), JsonName: proto.String("count"), Number: proto.Int32(1), Type: &i64, Label: &opt},
				}},
			},
		}
		fd, err := protodesc.NewFile(fdp, protoregistry.GlobalFiles)
		if err != nil {
			t.Fatal(err)
		}
		if err := protoregistry.GlobalFiles.RegisterFile(fd); err != nil {
			t.Fatal(err)
		}
		mut7DynAlpha = dynamicpb.NewMessageType(fd.Messages().ByName("Alpha"))
		mut7DynBeta = dynamicpb.NewMessageType(fd.Messages().ByName("Beta"))
		if err := protoregistry.GlobalTypes.RegisterMessage(mut7DynAlpha); err != nil {
			t.Fatal(err)
		}
		if err := protoregistry.GlobalTypes.RegisterMessage(mut7DynBeta); err != nil {
			t.Fatal(err)
		}
	})
	if mut7DynAlpha == nil || mut7DynBeta == nil {
		t.Fatal("dynamic types were not registered")
	}
	return mut7DynAlpha, mut7DynBeta
}

func mut7Alpha(t *testing.T, s string) proto.Message {
	at, _ := mut7DynTypes(t)
	m := at.New()
	m.Set(at.Descriptor().Fields().ByName("text"), protoreflect.ValueOfString(s))
	return m.Interface()
}

func mut7Beta(t *testing.T, n int64) proto.Message {
	_, bt := mut7DynTypes(t)
	m := bt.New()
	m.Set(bt.Descriptor().Fields().ByName("count"), protoreflect.ValueOfInt64(n))
	return m.Interface()
}

func mut7CheckNames(t *testing.T, got []mut7Delivery, want []mut7Msg) {
	t.Helper()
	for i := range want {
		if i >= len(got) {
			return
		}
		gp, ok := got[i].payload.(proto.Message)
		if !ok {
			continue
		}
		if g, w := proto.MessageName(gp), proto.MessageName(want[i].msg.(proto.Message)); g != w {
			t.Errorf("message %d: arrived as a %s, was sent as a %s", i, g, w)
		}
	}
}

// One batch, one target, one sender, two registered message types.
func TestMut7DynamicTypesInOneBatch(t *testing.T) {
	a := actor.NewPID("local", "a")
	s := actor.NewPID("n1:1", "s")
	batch := []mut7Msg{
		{a, s, mut7Alpha(t, "hello")},
		{a, s, mut7Beta(t, 42)},
		{a, s, &TestMessage{Data: []byte("x")}},
		{a, s, mut7Beta(t, 7)},
		{a, s, mut7Alpha(t, "bye")},
	}
	got, err := mut7RoundTrip(t, []string{"a"}, batch)
	if err != nil {
		t.Fatalf("stream reader gave up: %v", err)
	}
	mut7CheckNames(t, got, batch)
	mut7Check(t, got, batch)
}

// The same with every message in a batch of its own, second type first.
func TestMut7DynamicTypesInSuccessiveBatches(t *testing.T) {
	a := actor.NewPID("local", "a")
	b1 := []mut7Msg{{a, nil, mut7Beta(t, 1)}}
	b2 := []mut7Msg{{a, nil, mut7Alpha(t, "two")}}
	got, err := mut7RoundTrip(t, []string{"a"}, b1, b2)
	if err != nil {
		t.Fatalf("stream reader gave up: %v", err)
	}
	want := append(append([]mut7Msg(nil), b1...), b2...)
	mut7CheckNames(t, got, want)
	mut7Check(t, got, want)
}
