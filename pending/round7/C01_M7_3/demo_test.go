package actor

import (
	"sync/atomic"
	"testing"
	"time"
)

type mut7Park struct{}
type mut7Item struct{ n int }

// One goroutine sends #1 #2 #3 (they end up in one batch because the actor is
// parked meanwhile), the actor crashes on #1, and while it waits for its restart
// the same goroutine sends #4. The actor is live for #2, #3 and #4 and does not
// crash on them: it has to receive them exactly once and in the order 2, 3, 4.
func TestMut7SendWhileRestartingKeepsOrder(t *testing.T) {
	e, err := NewEngine(NewEngineConfig())
	if err != nil {
		t.Fatal(err)
	}
	var (
		parked  = make(chan struct{})
		unpark  = make(chan struct{})
		crashed = make(chan struct{}, 1)
		got     = make(chan int, 32)
		once    atomic.Bool
	)
	pid := e.SpawnFunc(func(c *Context) {
		switch m := c.Message().(type) {
		case mut7Park:
			close(parked)
			<-unpark
		case mut7Item:
			if m.n == 1 && !once.Swap(true) {
				crashed <- struct{}{}
				panic("cannot digest #1")
			}
			if c.Sender() != nil {
				t.Errorf("#%d: sender %v, want nil", m.n, c.Sender())
			}
			got <- m.n
		}
	}, "replay", WithRestartDelay(300*time.Millisecond))

	e.Send(pid, mut7Park{})
	<-parked
	e.Send(pid, mut7Item{1})
	e.Send(pid, mut7Item{2})
	e.Send(pid, mut7Item{3})
	close(unpark)
	select {
	case <-crashed:
	case <-time.After(3 * time.Second):
		t.Fatal("actor never got #1")
	}
	// the actor is now waiting for its restart, #2 and #3 are still due.
	e.Send(pid, mut7Item{4})
	e.Send(pid, mut7Item{5})

	var order []int
	for len(order) < 4 {
		select {
		case n := <-got:
			order = append(order, n)
		case <-time.After(5 * time.Second):
			t.Fatalf("received only %v of #2..#5", order)
		}
	}
	for i, w := range []int{2, 3, 4, 5} {
		if order[i] != w {
			t.Fatalf("one goroutine sent #2 #3 #4 #5 in this order, the actor received %v", order)
		}
	}
	select {
	case n := <-got:
		t.Fatalf("extra delivery of #%d after %v", n, order)
	case <-time.After(100 * time.Millisecond):
	}
}

// Same thing with two crashes: the second one happens while the rest of the first
// batch is being replayed.
func TestMut7TwoCrashesKeepOrder(t *testing.T) {
	e, err := NewEngine(NewEngineConfig())
	if err != nil {
		t.Fatal(err)
	}
	var (
		parked  = make(chan struct{})
		unpark  = make(chan struct{})
		crashed = make(chan int, 4)
		got     = make(chan int, 32)
		seen    [8]atomic.Bool
	)
	pid := e.SpawnFunc(func(c *Context) {
		switch m := c.Message().(type) {
		case mut7Park:
			close(parked)
			<-unpark
		case mut7Item:
			if (m.n == 1 || m.n == 3) && !seen[m.n].Swap(true) {
				crashed <- m.n
				panic("cannot digest this one")
			}
			got <- m.n
		}
	}, "replay2", WithRestartDelay(150*time.Millisecond))

	e.Send(pid, mut7Park{})
	<-parked
	for n := 1; n <= 5; n++ {
		e.Send(pid, mut7Item{n})
	}
	close(unpark)
	next := 6
	for k := 0; k < 2; k++ {
		select {
		case <-crashed:
		case <-time.After(3 * time.Second):
			t.Fatal("expected crash did not happen")
		}
		e.Send(pid, mut7Item{next})
		next++
	}
	var order []int
	want := []int{2, 4, 5, 6, 7}
	for len(order) < len(want) {
		select {
		case n := <-got:
			order = append(order, n)
		case <-time.After(5 * time.Second):
			t.Fatalf("received only %v, want %v", order, want)
		}
	}
	for i, w := range want {
		if order[i] != w {
			t.Fatalf("sent in order #1..#7 by one goroutine (crashes on #1 and #3), received %v, want %v", order, want)
		}
	}
}
