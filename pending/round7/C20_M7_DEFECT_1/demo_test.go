package cluster

import (
	"fmt"
	"math/rand"
	"sort"
	"strings"
	"sync"
	"testing"
	"time"

	"github.com/anthdm/hollywood/actor"
)

// mut7dRemote is a Remoter that never touches the network: it only records what the
// engine wanted to send to other nodes (handshake answers, pings).
type mut7dRemote struct {
	addr string
	mu   sync.Mutex
	sent []mut7dSent
}

type mut7dSent struct {
	to  *actor.PID
	msg any
}

func (r *mut7dRemote) Address() string { return r.addr }
func (r *mut7dRemote) Send(pid *actor.PID, msg any, _ *actor.PID) {
	r.mu.Lock()
	r.sent = append(r.sent, mut7dSent{to: pid, msg: msg})
	r.mu.Unlock()
}
func (r *mut7dRemote) Start(*actor.Engine) error { return nil }
func (r *mut7dRemote) Stop() *sync.WaitGroup     { return &sync.WaitGroup{} }

// lastMembersTo returns the ids of the last member list that was sent to the given address.
func (r *mut7dRemote) lastMembersTo(addr string) []string {
	r.mu.Lock()
	defer r.mu.Unlock()
	for i := len(r.sent) - 1; i >= 0; i-- {
		if m, ok := r.sent[i].msg.(*Members); ok && r.sent[i].to.Address == addr {
			return mut7dIDs(m.Members)
		}
	}
	return nil
}

func mut7dIDs(members []*Member) []string {
	ids := make([]string, 0, len(members))
	for _, m := range members {
		ids = append(ids, m.ID)
	}
	sort.Strings(ids)
	return ids
}

type mut7dNode struct {
	t        *testing.T
	c        *Cluster
	e        *actor.Engine
	rem      *mut7dRemote
	provider *actor.PID
	reports  chan []string
}

// mut7dStart runs a real self managed provider next to a stub agent that records
// every member list the provider reports.
func mut7dStart(t *testing.T) *mut7dNode {
	rem := &mut7dRemote{addr: fmt.Sprintf("127.0.0.1:%d", 20000+rand.Intn(30000))}
	e, err := actor.NewEngine(actor.NewEngineConfig().WithRemote(rem))
	if err != nil {
		t.Fatal(err)
	}
	id := fmt.Sprintf("mut7d%d", rand.Int63())
	c, err := New(NewConfig().WithID(id).WithEngine(e))
	if err != nil {
		t.Fatal(err)
	}
	n := &mut7dNode{t: t, c: c, e: e, rem: rem, reports: make(chan []string, 256)}
	c.agentPID = e.SpawnFunc(func(ctx *actor.Context) {
		if m, ok := ctx.Message().(*Members); ok {
			n.reports <- mut7dIDs(m.Members)
		}
	}, "cluster", actor.WithID(id))
	c.providerPID = e.Spawn(c.config.provider(c), "provider", actor.WithID(id))
	n.provider = c.providerPID
	t.Cleanup(func() { <-e.Poison(c.providerPID).Done() })
	// the first report is the node itself.
	n.waitReport("initial report", func(ids []string) bool { return len(ids) == 1 && ids[0] == id })
	return n
}

// waitReport waits for a report that satisfies ok and returns it.
func (n *mut7dNode) waitReport(what string, ok func(ids []string) bool) []string {
	n.t.Helper()
	var last []string
	deadline := time.After(4 * time.Second)
	for {
		select {
		case ids := <-n.reports:
			last = ids
			if ok(ids) {
				return ids
			}
		case <-deadline:
			n.t.Fatalf("%s: the agent was never told; last report [%s]", what, strings.Join(last, ","))
			return nil
		}
	}
}

func mut7dHas(ids []string, id string) bool {
	for _, x := range ids {
		if x == id {
			return true
		}
	}
	return false
}

func (n *mut7dNode) handshake(m *Member) {
	n.e.SendWithSender(n.provider, &Handshake{Member: m}, memberToProviderPID(m))
}

// A handshake that carries no member (over the wire: a Handshake message whose member field
// is not set decodes to Member == nil) makes the provider panic; the actor is restarted with a
// fresh receiver and the member list it had is gone.
func TestMut7DefectHandshakeWithoutMemberResetsTheList(t *testing.T) {
	n := mut7dStart(t)
	restarted := make(chan actor.ActorRestartedEvent, 8)
	sub := n.e.SpawnFunc(func(c *actor.Context) {
		if ev, ok := c.Message().(actor.ActorRestartedEvent); ok && ev.PID.Equals(n.provider) {
			restarted <- ev
		}
	}, "mut7dwatch")
	n.e.Subscribe(sub)
	time.Sleep(50 * time.Millisecond)

	b := &Member{ID: "B", Host: "127.0.0.1:7501", Region: "eu"}
	n.handshake(b)
	n.waitReport("handshake of B", func(ids []string) bool { return mut7dHas(ids, "B") })

	n.e.SendWithSender(n.provider, &Handshake{}, actor.NewPID("127.0.0.1:7502", "provider/X"))

	select {
	case ev := <-restarted:
		t.Errorf("provider was restarted by a handshake without member: %v", ev.Reason)
	case <-time.After(1500 * time.Millisecond):
	}
	// what does the provider know now? ask with one more handshake.
	c := &Member{ID: "C", Host: "127.0.0.1:7503", Region: "eu"}
	n.handshake(c)
	ids := n.waitReport("handshake of C", func(ids []string) bool { return mut7dHas(ids, "C") })
	if !mut7dHas(ids, "B") {
		t.Errorf("member B was lost although nothing reported it unreachable: [%s]", strings.Join(ids, ","))
	}
}

