package actor

import (
	"fmt"
	"strings"
	"sync"
	"testing"
	"time"
)

// mut7bTrace keeps, per actor (keyed by PID id), the middlewares that are
// currently active around a delivery to that actor.
type mut7bTrace struct {
	mu     sync.Mutex
	active map[string][]string
	seen   map[string][]string // role -> entries
	bad    []string
}

func (tr *mut7bTrace) mw(name string) MiddlewareFunc {
	return func(next ReceiveFunc) ReceiveFunc {
		return func(c *Context) {
			id := c.PID().GetID()
			tr.mu.Lock()
			tr.active[id] = append(tr.active[id], name)
			tr.mu.Unlock()
			defer func() {
				tr.mu.Lock()
				tr.active[id] = tr.active[id][:len(tr.active[id])-1]
				tr.mu.Unlock()
			}()
			next(c)
		}
	}
}

// observe is called by every receiver: the middlewares active around this
// delivery must be exactly the chain that actor was spawned with.
func (tr *mut7bTrace) observe(role string, want []string, c *Context) {
	tr.mu.Lock()
	defer tr.mu.Unlock()
	got := tr.active[c.PID().GetID()]
	entry := fmt.Sprintf("%s: %T via %v", role, c.Message(), got)
	tr.seen[role] = append(tr.seen[role], entry)
	if strings.Join(got, ",") != strings.Join(want, ",") {
		tr.bad = append(tr.bad, entry+fmt.Sprintf(" (want %v)", want))
	}
}

func TestMut7ChildChainIsItsOwn(t *testing.T) {
	e, err := NewEngine(NewEngineConfig())
	if err != nil {
		t.Fatal(err)
	}
	tr := &mut7bTrace{active: map[string][]string{}, seen: map[string][]string{}}
	var (
		mu         sync.Mutex
		plain, own *PID
	)
	parent := e.SpawnFunc(func(c *Context) {
		tr.observe("parent", []string{"audit", "metrics"}, c)
		if _, ok := c.Message().(Started); ok {
			mu.Lock()
			// a child without middleware, and a child with a chain of its own
			plain = c.SpawnChildFunc(func(c *Context) {
				tr.observe("plain", nil, c)
			}, "plain")
			own = c.SpawnChildFunc(func(c *Context) {
				tr.observe("own", []string{"kid"}, c)
			}, "own", WithMiddleware(tr.mw("kid")))
			mu.Unlock()
		}
	}, "mut7b", WithMiddleware(tr.mw("audit")), WithMiddleware(tr.mw("metrics")))

	mu.Lock()
	e.Send(plain, "to plain")
	e.Send(own, "to own")
	mu.Unlock()
	e.Send(parent, "to parent")
	time.Sleep(50 * time.Millisecond)
	select {
	case <-e.Poison(parent).Done():
	case <-time.After(5 * time.Second):
		t.Fatal("poison did not complete")
	}

	tr.mu.Lock()
	defer tr.mu.Unlock()
	for _, role := range []string{"parent", "plain", "own"} {
		t.Logf("%q", tr.seen[role])
		if len(tr.seen[role]) < 3 {
			t.Fatalf("%s saw too little: %q", role, tr.seen[role])
		}
	}
	if len(tr.bad) > 0 {
		t.Fatalf("deliveries that did not go through exactly the chain given at spawn:\n%s", strings.Join(tr.bad, "\n"))
	}
}
