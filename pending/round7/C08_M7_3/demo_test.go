package actor

import (
	"sync"
	"testing"
	"time"
)

// A gracefully poisoned actor still handles what sits behind the poison pill
// in its inbox.  If one of those late messages makes it spawn a child (a
// per-job worker), that child is part of the subtree as well: it has to be
// stopped and unregistered before the parent handles Stopped and before the
// poisoner's context is done.
func TestMut7ChildSpawnedWhileDraining(t *testing.T) {
	e, err := NewEngine(NewEngineConfig())
	if err != nil {
		t.Fatal(err)
	}
	var (
		mu      sync.Mutex
		order   []string
		busy    = make(chan struct{})
		release = make(chan struct{})
	)
	rec := func(s string) {
		mu.Lock()
		order = append(order, s)
		mu.Unlock()
	}
	worker := func(name string) func(*Context) {
		return func(c *Context) {
			if _, ok := c.Message().(Stopped); ok {
				rec(name)
			}
		}
	}
	type job struct{ id string }
	parent := e.SpawnFunc(func(c *Context) {
		switch m := c.Message().(type) {
		case Started:
			c.SpawnChildFunc(worker("w0"), "worker", WithID("0"))
		case string: // a slow message, the inbox fills up behind it
			close(busy)
			<-release
		case job:
			c.SpawnChildFunc(worker("w"+m.id), "worker", WithID(m.id))
		case Stopped:
			if n := len(c.Children()); n != 0 {
				rec("parent-with-children")
			} else {
				rec("parent")
			}
		}
	}, "parent", WithID("1"))

	e.Send(parent, "slow")
	<-busy
	done := e.Poison(parent) // the pill ...
	e.Send(parent, job{"1"}) // ... and a job queued right behind it
	close(release)

	select {
	case <-done.Done():
	case <-time.After(5 * time.Second):
		t.Fatal("parent did not stop")
	}
	if e.Registry.get(parent) != nil {
		t.Fatal("parent still registered")
	}
	for _, id := range []string{"parent/1/worker/0", "parent/1/worker/1"} {
		if e.Registry.getByID(id) != nil {
			t.Errorf("child %s is still registered after its parent stopped", id)
		}
	}
	mu.Lock()
	got := append([]string(nil), order...)
	mu.Unlock()
	if len(got) != 3 || got[2] != "parent" {
		t.Fatalf("Stopped order = %v, want w0 and w1 (any order) and then parent", got)
	}
}
