package actor

import (
	"testing"
	"time"
)

// DEFECT (unmodified tree): only the pill that actually runs cleanup() has its
// cancel func called. Every other pill that reaches the same process - behind
// the first one in the same batch, or pushed into the inbox while cleanup() is
// already running - is never looked at again, so the context handed to that
// caller never becomes done.

// Two Poison calls while the actor is busy: both pills are popped in one batch.
func TestMut7DefectSecondPillSameBatchNeverSignalled(t *testing.T) {
	e, err := NewEngine(NewEngineConfig())
	if err != nil {
		t.Fatal(err)
	}
	entered := make(chan struct{})
	release := make(chan struct{})
	pid := e.SpawnFunc(func(c *Context) {
		switch c.Message().(type) {
		case string:
			close(entered)
			<-release
		}
	}, "probe")
	e.Send(pid, "block")
	<-entered
	c1 := e.Poison(pid)
	c2 := e.Poison(pid)
	close(release)
	select {
	case <-c1.Done():
	case <-time.After(2 * time.Second):
		t.Fatal("first poison ctx never done")
	}
	select {
	case <-c2.Done():
	case <-time.After(2 * time.Second):
		t.Fatal("second poison ctx never done (pill behind the first one in the same batch is dropped)")
	}
}

// Same with the non-graceful Stop.
func TestMut7DefectSecondStopSameBatchNeverSignalled(t *testing.T) {
	e, err := NewEngine(NewEngineConfig())
	if err != nil {
		t.Fatal(err)
	}
	entered := make(chan struct{})
	release := make(chan struct{})
	pid := e.SpawnFunc(func(c *Context) {
		switch c.Message().(type) {
		case string:
			close(entered)
			<-release
		}
	}, "probe")
	e.Send(pid, "block")
	<-entered
	c1 := e.Stop(pid)
	c2 := e.Stop(pid)
	close(release)
	select {
	case <-c1.Done():
	case <-time.After(2 * time.Second):
		t.Fatal("first stop ctx never done")
	}
	select {
	case <-c2.Done():
	case <-time.After(2 * time.Second):
		t.Fatal("second stop ctx never done")
	}
}

// The second Poison arrives while the target is inside cleanup() (waiting for
// its child): it is still registered, so the pill is queued into an inbox that
// is stopped a moment later and never drained.
func TestMut7DefectPillDuringCleanupNeverSignalled(t *testing.T) {
	e, err := NewEngine(NewEngineConfig())
	if err != nil {
		t.Fatal(err)
	}
	entered := make(chan struct{})
	release := make(chan struct{})
	pid := e.SpawnFunc(func(c *Context) {
		switch c.Message().(type) {
		case Started:
			c.SpawnChildFunc(func(c *Context) {
				switch c.Message().(type) {
				case Stopped:
					close(entered)
					<-release
				}
			}, "child")
		}
	}, "probe")
	c1 := e.Poison(pid)
	<-entered
	// the parent is in cleanup(), waiting for the child; it is still registered.
	c2 := e.Poison(pid)
	close(release)
	select {
	case <-c1.Done():
	case <-time.After(2 * time.Second):
		t.Fatal("first ctx never done")
	}
	select {
	case <-c2.Done():
	case <-time.After(2 * time.Second):
		t.Fatal("second ctx (pill sent while the target was cleaning up) never done")
	}
}
