package actor

import (
	"sync/atomic"
	"testing"
	"time"
)

type mut7Respawn struct{ done chan struct{} }
type mut7Query struct {
	id    string
	reply chan *PID
}

// A parent asks for its child again while the child is in the middle of
// stopping (it waits for a grandchild). The spawn is - correctly - rejected as
// a duplicate. Once the child is gone, Context.GetPID must say so, exactly like
// Registry.GetPID does.
func TestMut7GetPIDAfterChildStoppedDuringDuplicateSpawn(t *testing.T) {
	e, err := NewEngine(NewEngineConfig())
	if err != nil {
		t.Fatal(err)
	}
	var (
		kidProducers int32
		kidStopped   int32
		gStarted     = make(chan struct{})
		gStopping    = make(chan struct{})
		release      = make(chan struct{})
	)
	grandchild := func(c *Context) {
		switch c.Message().(type) {
		case Started:
			close(gStarted)
		case Stopped:
			close(gStopping)
			<-release
		}
	}
	kid := func() Receiver {
		atomic.AddInt32(&kidProducers, 1)
		return &funcReceiver{f: func(c *Context) {
			switch c.Message().(type) {
			case Started:
				c.SpawnChildFunc(grandchild, "g", WithID("1"))
			case Stopped:
				atomic.AddInt32(&kidStopped, 1)
			}
		}}
	}
	parent := e.SpawnFunc(func(c *Context) {
		switch msg := c.Message().(type) {
		case Started:
			c.SpawnChild(kid, "kid", WithID("1"))
		case mut7Respawn:
			c.SpawnChild(kid, "kid", WithID("1"))
			close(msg.done)
		case mut7Query:
			msg.reply <- c.GetPID(msg.id)
		}
	}, "par", WithID("1"))
	<-gStarted

	const kidID = "par/1/kid/1"
	kidPID := e.Registry.GetPID("par/1/kid", "1")
	if kidPID == nil {
		t.Fatal("kid not registered")
	}
	ask := func() *PID {
		q := mut7Query{id: kidID, reply: make(chan *PID, 1)}
		e.Send(parent, q)
		select {
		case pid := <-q.reply:
			return pid
		case <-time.After(5 * time.Second):
			t.Fatal("parent did not answer")
			return nil
		}
	}
	if ask() == nil {
		t.Fatal("Context.GetPID does not know the live kid")
	}

	// stop the kid; it blocks in its cleanup until the grandchild is released
	stopCtx := e.Poison(kidPID)
	<-gStopping
	// the parent wants its kid (again): duplicate, the incumbent is still registered
	r := mut7Respawn{done: make(chan struct{})}
	e.Send(parent, r)
	<-r.done
	if got := atomic.LoadInt32(&kidProducers); got != 1 {
		t.Fatalf("duplicate kid was built (%d producers)", got)
	}
	close(release)
	select {
	case <-stopCtx.Done():
	case <-time.After(5 * time.Second):
		t.Fatal("kid did not stop")
	}
	if atomic.LoadInt32(&kidStopped) != 1 {
		t.Fatal("kid should have received Stopped")
	}

	if pid := e.Registry.GetPID("par/1/kid", "1"); pid != nil {
		t.Fatalf("Registry.GetPID still returns the stopped kid: %v", pid)
	}
	if pid := ask(); pid != nil {
		t.Errorf("Context.GetPID(%q) = %v although the actor has stopped and is not registered", kidID, pid)
	}
}
