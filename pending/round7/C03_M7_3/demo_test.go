package actor

import (
	"runtime"
	"sync/atomic"
	"testing"
	"time"
)

// An inbox of the default size receives a burst before it is started (the ring buffer grows), is
// started, drains the burst and goes idle. One more message is sent right at the
// moment the worker goes to rest. Whatever the interleaving, that message has been
// accepted and must be processed without any further send.
func TestMut7BurstThenOneMoreMessage(t *testing.T) {
	const burst = 1500
	deadline := time.Now().Add(10 * time.Second)
	for try := 0; time.Now().Before(deadline); try++ {
		inbox := NewInbox(1024)
		var seen, late int64
		proc := MockProcesser{
			processFunc: func(envs []Envelope) {
				for _, e := range envs {
					if s, ok := e.Msg.(string); ok && s == "late" {
						atomic.StoreInt64(&late, 1)
					}
				}
				atomic.AddInt64(&seen, int64(len(envs)))
			},
		}
		for i := 0; i < burst; i++ {
			inbox.Send(Envelope{Msg: i})
		}
		inbox.Start(proc)
		for atomic.LoadInt64(&seen) < burst {
			runtime.Gosched()
		}
		// sweep the window between the worker's last empty pop and its rest
		for spin := 0; spin < (try%64)*8; spin++ {
			_ = atomic.LoadInt64(&seen)
		}
		inbox.Send(Envelope{Msg: "late"})
		// senders are silent from here on

		ok := false
		for wait := time.Now().Add(3 * time.Second); time.Now().Before(wait); {
			if atomic.LoadInt64(&late) == 1 {
				ok = true
				break
			}
			runtime.Gosched()
		}
		if !ok {
			t.Fatalf("try %d: accepted message never processed: status=%d len=%d seen=%d",
				try, atomic.LoadInt32(&inbox.procStatus), inbox.rb.Len(), atomic.LoadInt64(&seen))
		}
		inbox.Stop()
	}
}
