package actor

import (
	"sync/atomic"
	"testing"
	"time"
)

type mut7WorkC02c struct{}

// One round: a parent with one (slowly stopping) child is poisoned while a
// producer keeps sending it work. Every Receive of the parent, lifecycle
// messages included, counts how many invocations are in flight at once.
func mut7C02cRound(t *testing.T, e *Engine, round int) int32 {
	var (
		inflight atomic.Int32
		overlap  atomic.Int32
	)
	child := func(c *Context) {
		if _, ok := c.Message().(Stopped); ok {
			time.Sleep(2 * time.Millisecond)
		}
	}
	parent := func(c *Context) {
		if inflight.Add(1) > 1 {
			overlap.Add(1)
		}
		defer inflight.Add(-1)
		switch c.Message().(type) {
		case Started:
			c.SpawnChildFunc(child, "kid")
		case mut7WorkC02c:
			for t0 := time.Now(); time.Since(t0) < 100*time.Microsecond; {
			}
		case Stopped:
			time.Sleep(3 * time.Millisecond)
		}
	}
	pid := e.SpawnFunc(parent, "mut7c02c-parent")

	stop := make(chan struct{})
	fed := make(chan struct{})
	go func() {
		defer close(fed)
		for {
			select {
			case <-stop:
				return
			default:
				e.Send(pid, mut7WorkC02c{})
				time.Sleep(20 * time.Microsecond)
			}
		}
	}()
	time.Sleep(2 * time.Millisecond)
	select {
	case <-e.Poison(pid).Done():
	case <-time.After(5 * time.Second):
		t.Fatalf("round %d: parent did not stop", round)
	}
	close(stop)
	<-fed
	time.Sleep(5 * time.Millisecond)
	return overlap.Load()
}

func TestMut7C02ParentPoisonedUnderLoad(t *testing.T) {
	e, err := NewEngine(NewEngineConfig())
	if err != nil {
		t.Fatal(err)
	}
	for round := 0; round < 10; round++ {
		if n := mut7C02cRound(t, e, round); n > 0 {
			t.Fatalf("round %d: Receive of the parent ran concurrently with itself %d times", round, n)
		}
	}
}
