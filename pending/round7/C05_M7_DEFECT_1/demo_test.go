package actor

import (
	"sync"
	"testing"
	"time"
)

// UNMODIFIED TREE. A message that sits behind a graceful poison pill in the
// same batch panics while the pill's "drain" loop is running. Invoke's
// book-keeping (nproc) was only advanced up to the pill, so the retry buffer
// becomes msgs[pill+1:]: it contains the messages the drain loop had already
// delivered AND the message that caused the panic, and the pill is gone.
func TestMut7DefectPanicDuringGracefulDrain(t *testing.T) {
	e, err := NewEngine(NewEngineConfig())
	if err != nil {
		t.Fatal(err)
	}
	var (
		mu      sync.Mutex
		count   = map[string]int{}
		order   []string
		release = make(chan struct{})
		gotM4   = make(chan struct{}, 4)
	)
	pid := e.SpawnFunc(func(c *Context) {
		s, ok := c.Message().(string)
		if !ok {
			return
		}
		mu.Lock()
		count[s]++
		order = append(order, s)
		mu.Unlock()
		switch s {
		case "m0":
			<-release // keep the worker busy so the rest forms one batch
		case "m3":
			panic("boom in m3")
		case "m4":
			gotM4 <- struct{}{}
		}
	}, "mut7drain", WithRestartDelay(5*time.Millisecond), WithMaxRestarts(5))

	e.Send(pid, "m0")
	time.Sleep(30 * time.Millisecond)
	e.Send(pid, "m1")
	poisoned := e.Poison(pid) // graceful pill, sits between m1 and m2
	e.Send(pid, "m2")
	e.Send(pid, "m3") // panics
	e.Send(pid, "m4")
	close(release)

	select {
	case <-gotM4:
	case <-time.After(3 * time.Second):
		t.Fatal("m4 never delivered")
	}
	time.Sleep(200 * time.Millisecond)

	mu.Lock()
	defer mu.Unlock()
	t.Logf("delivery order: %v", order)
	if count["m3"] != 1 {
		t.Errorf("the message that caused the panic was delivered %d times (must not be redelivered)", count["m3"])
	}
	if count["m2"] != 1 {
		t.Errorf("m2 was delivered %d times, want exactly once", count["m2"])
	}
	select {
	case <-poisoned.Done():
	default:
		t.Errorf("the graceful poison pill was lost: the actor is still alive and Poison().Done() never fires")
	}
}
