package actor

import (
	"fmt"
	"sync"
	"testing"
	"time"
)

// Poison pills are private to the engine: whatever the callers do, Receive (and
// the middleware in front of it) only ever sees user messages and the lifecycle
// messages. Here a busy actor is poisoned by two callers (say: its supervisor
// and a shutdown hook), so that the second pill sits behind the first one in the
// batch the first pill drains.
func mut7TwoPills(t *testing.T, second func(e *Engine, pid *PID), opts ...OptFunc) []string {
	t.Helper()
	e, err := NewEngine(NewEngineConfig())
	if err != nil {
		t.Fatal(err)
	}
	var (
		mu      sync.Mutex
		seen    []string
		entered = make(chan struct{})
		release = make(chan struct{})
	)
	pid := e.SpawnFunc(func(c *Context) {
		mu.Lock()
		seen = append(seen, fmt.Sprintf("%T", c.Message()))
		mu.Unlock()
		if s, ok := c.Message().(string); ok && s == "block" {
			close(entered)
			<-release
		}
	}, "twopills", opts...)
	e.Send(pid, "block")
	<-entered
	e.Send(pid, "before")
	ctx := e.Poison(pid)
	e.Send(pid, "between")
	second(e, pid)
	e.Send(pid, "after")
	close(release)
	select {
	case <-ctx.Done():
	case <-time.After(3 * time.Second):
		t.Fatal("first Poison context never done")
	}
	mu.Lock()
	defer mu.Unlock()
	return append([]string(nil), seen...)
}

func mut7CheckNoPill(t *testing.T, seen []string) {
	t.Helper()
	for i, s := range seen {
		if s == fmt.Sprintf("%T", poisonPill{}) {
			t.Fatalf("Receive saw a poison pill (message #%d of %v)", i, seen)
		}
	}
	if seen[len(seen)-1] != "actor.Stopped" {
		t.Fatalf("Poison context done but the last message handled is %s: %v", seen[len(seen)-1], seen)
	}
}

func TestMut7SecondPoisonInvisible(t *testing.T) {
	seen := mut7TwoPills(t, func(e *Engine, pid *PID) { e.Poison(pid) })
	mut7CheckNoPill(t, seen)
}

func TestMut7StopBehindPoisonInvisible(t *testing.T) {
	seen := mut7TwoPills(t, func(e *Engine, pid *PID) { e.Stop(pid) })
	mut7CheckNoPill(t, seen)
}

func TestMut7SecondPoisonInvisibleToMiddleware(t *testing.T) {
	var (
		mu  sync.Mutex
		bad []string
	)
	mw := func(next ReceiveFunc) ReceiveFunc {
		return func(c *Context) {
			if _, ok := c.Message().(poisonPill); ok {
				mu.Lock()
				bad = append(bad, fmt.Sprintf("%T", c.Message()))
				mu.Unlock()
			}
			next(c)
		}
	}
	seen := mut7TwoPills(t, func(e *Engine, pid *PID) { e.Poison(pid) }, WithMiddleware(mw))
	mu.Lock()
	defer mu.Unlock()
	if len(bad) > 0 {
		t.Fatalf("middleware saw a poison pill: %v (receiver trace %v)", bad, seen)
	}
	mut7CheckNoPill(t, seen)
}
