package remote

import (
	"context"
	"fmt"
	"testing"
	"time"

	"github.com/anthdm/hollywood/actor"
	"storj.io/drpc"
)

type mut7SeqStream struct {
	drpc.Stream
	envs []*Envelope
}

func (s *mut7SeqStream) Context() context.Context { return context.Background() }
func (s *mut7SeqStream) Send(*Envelope) error     { return nil }
func (s *mut7SeqStream) Recv() (*Envelope, error) {
	if len(s.envs) == 0 {
		return nil, context.Canceled
	}
	e := s.envs[0]
	s.envs = s.envs[1:]
	return e, nil
}

// mut7Feed runs the envelopes through ONE inbound stream of a fresh node and returns the
// Go types of the messages the addressed actor saw, in order, plus Receive's result.
func mut7Feed(t *testing.T, mk func(target *actor.PID) []*Envelope) ([]string, error) {
	t.Helper()
	e, err := actor.NewEngine(actor.NewEngineConfig())
	if err != nil {
		t.Fatal(err)
	}
	seen := make(chan string, 16)
	pid := e.SpawnFunc(func(c *actor.Context) {
		switch c.Message().(type) {
		case actor.Initialized, actor.Started, actor.Stopped:
		default:
			seen <- fmt.Sprintf("%T", c.Message())
		}
	}, "rec", actor.WithID("1"))
	time.Sleep(20 * time.Millisecond)

	rerr := newStreamReader(&Remote{engine: e}).Receive(&mut7SeqStream{envs: mk(pid)})

	var types []string
	for {
		select {
		case s := <-seen:
			types = append(types, s)
			continue
		case <-time.After(300 * time.Millisecond):
		}
		return types, rerr
	}
}

func mut7One(tname string, data []byte, target *actor.PID) *Envelope {
	return &Envelope{
		TypeNames: []string{tname},
		Targets:   []*actor.PID{target},
		Messages:  []*Message{{Data: data, TypeNameIndex: 0, TargetIndex: 0}},
	}
}

// Two batches on one stream. Both use type index 0 and carry the same bytes, but the
// type table of the second batch names another type at index 0.
func TestMut7SameBytesOtherTypeNextBatch(t *testing.T) {
	data, _ := ProtoSerializer{}.Serialize(&TestMessage{Data: []byte("hello")}) // 0a 05 "hello": also a valid actor.PID{Address:"hello"}
	types, err := mut7Feed(t, func(p *actor.PID) []*Envelope {
		return []*Envelope{mut7One("remote.TestMessage", data, p), mut7One("actor.PID", data, p)}
	})
	if err != nil {
		t.Fatalf("valid envelopes ended the stream: %v", err)
	}
	want := []string{"*remote.TestMessage", "*actor.PID"}
	if fmt.Sprint(types) != fmt.Sprint(want) {
		t.Fatalf("delivered types %v, the envelopes name %v", types, want)
	}
}

// The same with empty payloads (messages without set fields).
func TestMut7EmptyPayloadOtherTypeNextBatch(t *testing.T) {
	types, err := mut7Feed(t, func(p *actor.PID) []*Envelope {
		return []*Envelope{mut7One("actor.Ping", nil, p), mut7One("actor.Pong", []byte{}, p)}
	})
	if err != nil {
		t.Fatalf("valid envelopes ended the stream: %v", err)
	}
	want := []string{"*actor.Ping", "*actor.Pong"}
	if fmt.Sprint(types) != fmt.Sprint(want) {
		t.Fatalf("delivered types %v, the envelopes name %v", types, want)
	}
}

// The second batch names a type this node does not know: that must end the stream, and
// nothing may be delivered for it.
func TestMut7SameBytesUnknownTypeNextBatch(t *testing.T) {
	data, _ := ProtoSerializer{}.Serialize(&TestMessage{Data: []byte("hello")})
	types, err := mut7Feed(t, func(p *actor.PID) []*Envelope {
		return []*Envelope{mut7One("remote.TestMessage", data, p), mut7One("no.such.Type", data, p)}
	})
	if err == nil {
		t.Errorf("unknown type name did not end the stream")
	}
	if len(types) != 1 || types[0] != "*remote.TestMessage" {
		t.Fatalf("delivered types %v, want only [*remote.TestMessage]", types)
	}
}
