package actor

import (
	"fmt"
	"sync"
	"testing"
	"time"
)

// mut7aTrace records, for every message the receiver sees, which middlewares
// were active (entered and not yet left) at that moment, in entry order.
type mut7aTrace struct {
	mu     sync.Mutex
	active []string
	seen   []string // "<msg type> via [<active middlewares>]"
	bad    []string
}

func (tr *mut7aTrace) mw(name string, flaky bool) MiddlewareFunc {
	tripped := false
	return func(next ReceiveFunc) ReceiveFunc {
		return func(c *Context) {
			tr.mu.Lock()
			tr.active = append(tr.active, name)
			tr.mu.Unlock()
			defer func() {
				tr.mu.Lock()
				tr.active = tr.active[:len(tr.active)-1]
				tr.mu.Unlock()
			}()
			if _, ok := c.Message().(Stopped); ok && flaky && !tripped {
				// e.g. a metrics / persistence hook that fails once while
				// flushing on shutdown.
				tripped = true
				panic("flush failed")
			}
			next(c)
		}
	}
}

type mut7aReceiver struct{ tr *mut7aTrace }

func (r *mut7aReceiver) Receive(c *Context) {
	tr := r.tr
	tr.mu.Lock()
	defer tr.mu.Unlock()
	entry := fmt.Sprintf("%T via %v", c.Message(), tr.active)
	tr.seen = append(tr.seen, entry)
	if len(tr.active) != 2 || tr.active[0] != "outer" || tr.active[1] != "inner" {
		tr.bad = append(tr.bad, entry)
	}
}

// A middleware fails (once) while the actor is being stopped. Whatever the
// engine does about that, the receiver must never be handed a message outside
// of the chain [outer, inner] it was spawned with.
func TestMut7StoppedFaultKeepsChain(t *testing.T) {
	e, err := NewEngine(NewEngineConfig())
	if err != nil {
		t.Fatal(err)
	}
	tr := &mut7aTrace{}
	pid := e.Spawn(func() Receiver { return &mut7aReceiver{tr: tr} }, "mut7a",
		WithMiddleware(tr.mw("outer", false), tr.mw("inner", true)),
		WithRestartDelay(time.Millisecond))
	e.Send(pid, "hello")
	select {
	case <-e.Poison(pid).Done():
	case <-time.After(5 * time.Second):
		t.Fatal("poison did not complete")
	}
	// give the engine time to finish whatever it does after the fault
	deadline := time.Now().Add(5 * time.Second)
	for time.Now().Before(deadline) {
		tr.mu.Lock()
		n := len(tr.seen)
		tr.mu.Unlock()
		if n >= 4 {
			break
		}
		time.Sleep(10 * time.Millisecond)
	}
	time.Sleep(300 * time.Millisecond)

	tr.mu.Lock()
	defer tr.mu.Unlock()
	t.Logf("receiver saw: %q", tr.seen)
	if len(tr.seen) < 3 {
		t.Fatalf("receiver saw too little: %q", tr.seen)
	}
	if len(tr.bad) > 0 {
		t.Fatalf("receiver got messages outside of its middleware chain: %q", tr.bad)
	}
}
