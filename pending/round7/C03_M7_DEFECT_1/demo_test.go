package actor

import (
	"runtime"
	"sync/atomic"
	"testing"
	"time"
)

// UNMODIFIED tree: a receiver that leaves its goroutine with runtime.Goexit (which is what
// t.FailNow / t.Fatal / require.* do when they are called from inside a handler) takes the
// inbox worker with it. recover() returns nil for Goexit, so process.Invoke neither restarts
// nor stops the actor, and Inbox.process never reaches its running->idle transition: the
// status stays "running" with no worker alive. The actor is started, not stopped, still
// registered, and every later message is accepted (pushed) and never processed.
func TestMut7DefectGoexitInHandlerWedgesInbox(t *testing.T) {
	e, err := NewEngine(NewEngineConfig())
	if err != nil {
		t.Fatal(err)
	}
	var got int32
	pid := e.SpawnFunc(func(c *Context) {
		switch c.Message().(type) {
		case int:
			runtime.Goexit()
		case string:
			atomic.AddInt32(&got, 1)
		}
	}, "goexit")
	e.Send(pid, 1)
	time.Sleep(100 * time.Millisecond)
	e.Send(pid, "after")
	deadline := time.Now().Add(2 * time.Second)
	for atomic.LoadInt32(&got) == 0 && time.Now().Before(deadline) {
		time.Sleep(5 * time.Millisecond)
	}
	proc := e.Registry.get(pid).(*process)
	in := proc.inbox.(*Inbox)
	if atomic.LoadInt32(&got) == 0 {
		t.Fatalf("message accepted by a started, not-stopped actor was never processed: status=%d (3=running) len=%d stopped=%v",
			atomic.LoadInt32(&in.procStatus), in.rb.Len(), proc.stopped)
	}
}
