package remote

import (
	"encoding/binary"
	"math"
	"testing"
)

// An unknown length-delimited field whose declared length is so large that
// "offset of the field + bytes to skip" overflows int. The decoder must answer
// with an error (the stream ends), never with a panic: it runs on the drpc
// handler goroutine, which has no recover.
func mut7HugeUnknownField(prefix []byte, fieldNum int) []byte {
	buf := append([]byte{}, prefix...)
	buf = append(buf, byte(fieldNum<<3|2)) // unknown field, wire type 2 (bytes)
	// skip() counts 1 tag byte + 9 length bytes + length. Make that MaxInt64-1, so
	// that it is itself a valid int but overflows once the field offset is added.
	length := uint64(math.MaxInt64 - 1 - 10)
	buf = binary.AppendUvarint(buf, length)
	return buf
}

func mut7Decode(t *testing.T, name string, buf []byte, decode func([]byte) error) {
	t.Helper()
	defer func() {
		if v := recover(); v != nil {
			t.Fatalf("%s: decoder panicked on peer supplied bytes: %v", name, v)
		}
	}()
	if err := decode(buf); err == nil {
		t.Fatalf("%s: decoder accepted a truncated envelope", name)
	}
}

func TestMut7HugeUnknownFieldEnvelope(t *testing.T) {
	// typeNames = ["x"], then the unknown field 15.
	buf := mut7HugeUnknownField([]byte{0x0a, 0x01, 'x'}, 15)
	mut7Decode(t, "Envelope.UnmarshalVT", buf, func(b []byte) error { return new(Envelope).UnmarshalVT(b) })
	// the exact call the drpc stream makes for every inbound frame
	mut7Decode(t, "drpc encoding", buf, func(b []byte) error {
		return drpcEncoding_File_remote_proto{}.Unmarshal(b, new(Envelope))
	})
}

func TestMut7HugeUnknownFieldMessage(t *testing.T) {
	// a Message{targetIndex: 0 (explicit), typeNameIndex: 0 (explicit)} followed by the unknown field 9
	msg := mut7HugeUnknownField([]byte{0x10, 0x00, 0x20, 0x00}, 9)
	mut7Decode(t, "Message.UnmarshalVT", msg, func(b []byte) error { return new(Message).UnmarshalVT(b) })
	// the same message embedded in an envelope (field 4)
	env := []byte{0x0a, 0x01, 'x', 0x22, byte(len(msg))}
	env = append(env, msg...)
	mut7Decode(t, "Envelope.UnmarshalVT(nested)", env, func(b []byte) error { return new(Envelope).UnmarshalVT(b) })
}
