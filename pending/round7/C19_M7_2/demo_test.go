package cluster

import (
	"testing"
	"time"

	"github.com/anthdm/hollywood/actor"
	"github.com/anthdm/hollywood/remote"
)

// Helpers (bootstrap members instead of relying on mDNS timing; unique ids and
// kinds so that nodes of other tests in the same process cannot interfere).

type m7bNode struct {
	c *Cluster
	r *remote.Remote
}

func m7bMakeNode(t *testing.T, id, region string, boot []*m7bNode, kinds ...string) *m7bNode {
	t.Helper()
	addr := getRandomLocalhostAddr()
	pc := NewSelfManagedConfig()
	for _, b := range boot {
		pc = pc.WithBootstrapMember(MemberAddr{ListenAddr: b.c.engine.Address(), ID: b.c.ID()})
	}
	r := remote.New(addr, remote.NewConfig())
	e, err := actor.NewEngine(actor.NewEngineConfig().WithRemote(r))
	if err != nil {
		t.Fatal(err)
	}
	c, err := New(NewConfig().WithID(id).WithRegion(region).WithEngine(e).WithListenAddr(addr).
		WithProvider(NewSelfManagedProvider(pc)))
	if err != nil {
		t.Fatal(err)
	}
	for _, k := range kinds {
		c.RegisterKind(k, NewPlayer, NewKindConfig())
	}
	return &m7bNode{c: c, r: r}
}

func (n *m7bNode) stop() {
	n.c.Stop()
	n.r.Stop().Wait()
}

func m7bWaitMembers(t *testing.T, nodes ...*m7bNode) {
	t.Helper()
	deadline := time.Now().Add(8 * time.Second)
	for time.Now().Before(deadline) {
		ok := true
		for _, nd := range nodes {
			have := map[string]bool{}
			for _, m := range nd.c.Members() {
				have[m.ID] = true
			}
			for _, other := range nodes {
				if !have[other.c.ID()] {
					ok = false
				}
			}
		}
		if ok {
			return
		}
		time.Sleep(20 * time.Millisecond)
	}
	t.Fatalf("members did not converge")
}

// A member in region "us" without the kind activates with WithRegion("us"); the only member
// advertising the kind lives in region "eu". A member advertises the kind, so exactly one
// actor must be spawned there (the default select function picks among the capable members)
// and every member must resolve it.
func TestMut7RegionPinnedActivationStillPlaced(t *testing.T) {
	const kind = "m7bkindp"
	a := m7bMakeNode(t, "m7bPA", "eu", nil, kind)
	b := m7bMakeNode(t, "m7bPB", "us", []*m7bNode{a})
	a.c.Start()
	b.c.Start()
	defer a.stop()
	defer b.stop()
	m7bWaitMembers(t, a, b)

	// a few tries with fresh ids: the remote request has a 1s budget and the machine may be loaded.
	var (
		pid *actor.PID
		id  string
	)
	for _, id = range []string{"1", "2", "3"} {
		if pid = b.c.Activate(kind, NewActivationConfig().WithID(id).WithRegion("us")); pid != nil {
			break
		}
	}
	if pid == nil {
		t.Fatalf("a member advertises kind %q, Activate must not return nil", kind)
	}
	if pid.Address != a.c.engine.Address() {
		t.Errorf("expected the actor on the only capable member %s, got %v", a.c.engine.Address(), pid)
	}
	time.Sleep(300 * time.Millisecond)
	if p := a.c.engine.Registry.GetPID(kind, id); p == nil {
		t.Errorf("no actor was spawned on the capable member")
	}
	for _, n := range []*m7bNode{a, b} {
		if p := n.c.GetActiveByID(kind + "/" + id); p == nil || !p.Equals(pid) {
			t.Errorf("member %s resolves %v, want %v", n.c.ID(), p, pid)
		}
	}
}

// Both members advertise the kind. The select function picks member "m7bSA" by id; it must be
// offered every capable member (ActivationDetails.Members is filtered by kind only), and the
// actor has to end up on the member it chose, whatever region the config mentions.
func TestMut7RegionDoesNotOverrideSelectFunc(t *testing.T) {
	const kind = "m7bkinds"
	a := m7bMakeNode(t, "m7bSA", "eu", nil, kind)
	b := m7bMakeNode(t, "m7bSB", "us", []*m7bNode{a}, kind)
	a.c.Start()
	b.c.Start()
	defer a.stop()
	defer b.stop()
	m7bWaitMembers(t, a, b)

	var offered int
	pick := func(d ActivationDetails) *Member {
		offered = len(d.Members)
		for _, m := range d.Members {
			if m.ID == "m7bSA" {
				return m
			}
		}
		return nil
	}
	var pid *actor.PID
	for _, id := range []string{"1", "2", "3"} {
		pid = b.c.Activate(kind, NewActivationConfig().WithID(id).WithRegion("us").WithSelectMemberFunc(pick))
		if pid != nil {
			break
		}
	}
	if offered != 2 {
		t.Errorf("select function was offered %d members, want the 2 that advertise the kind", offered)
	}
	if pid == nil || pid.Address != a.c.engine.Address() {
		t.Fatalf("expected the actor on the member chosen by the select function (%s), got %v", a.c.engine.Address(), pid)
	}
}
