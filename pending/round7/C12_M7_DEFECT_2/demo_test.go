package actor

import (
	"errors"
	"testing"
	"time"

	"github.com/stretchr/testify/require"
)

// An actor that panics with an *InternalError is restarted (its receiver is
// produced again and gets Started again), but no ActorRestartedEvent is
// published for that restart.
func TestMut7DefectInternalErrorRestartHasNoRestartedEvent(t *testing.T) {
	e, err := NewEngine(NewEngineConfig())
	require.NoError(t, err)

	const id = "mut7ie/1"
	restarted := make(chan struct{}, 8)
	mon := e.SpawnFunc(func(c *Context) {
		if m, ok := c.Message().(ActorRestartedEvent); ok && m.PID.ID == id {
			restarted <- struct{}{}
		}
	}, "mut7mon")
	e.Subscribe(mon)

	starts := make(chan struct{}, 8)
	pid := e.SpawnFunc(func(c *Context) {
		switch m := c.Message().(type) {
		case Started:
			starts <- struct{}{}
		case string:
			if m == "boom" {
				panic(&InternalError{From: "mut7", Err: errors.New("boom")})
			}
		}
	}, "mut7ie", WithID("1"), WithRestartDelay(time.Millisecond))
	<-starts
	e.Send(pid, "boom")
	select {
	case <-starts: // the actor has been restarted
	case <-time.After(3 * time.Second):
		t.Fatal("actor was not restarted")
	}
	select {
	case <-restarted:
	case <-time.After(time.Second):
		t.Fatal("the actor was restarted but no ActorRestartedEvent was published")
	}
}
