package actor

import (
	"fmt"
	"math/rand"
	"runtime"
	"sync"
	"sync/atomic"
	"testing"
	"time"
)

type mut7Seq struct{ n int64 }
type mut7Hold struct{}

// One sender goroutine, one actor with the default inbox size (1024).
// Every round:
//   - the actor is parked inside Receive while 1100 numbered messages are sent,
//     so the inbox has to grow past its initial size;
//   - the actor is released and drains the backlog while the same sender keeps
//     sending numbered messages one by one with small random gaps, so the actor
//     repeatedly finds its inbox empty between two sends.
//
// All sends come from one goroutine, so the actor must see 0,1,2,... exactly once
// each, in order, and nothing else.
func TestMut7BurstThenTrickleKeepsEveryMessage(t *testing.T) {
	e, err := NewEngine(NewEngineConfig())
	if err != nil {
		t.Fatal(err)
	}
	var (
		next    int64
		holding atomic.Int32
		release atomic.Int32
		badMu   sync.Mutex
		bad     string
	)
	fail := func(s string) {
		badMu.Lock()
		if bad == "" {
			bad = s
		}
		badMu.Unlock()
	}
	getBad := func() string {
		badMu.Lock()
		defer badMu.Unlock()
		return bad
	}
	pid := e.SpawnFunc(func(c *Context) {
		switch m := c.Message().(type) {
		case Initialized, Started, Stopped:
		case mut7Hold:
			holding.Store(1)
			for release.Load() == 0 {
			}
			release.Store(0)
		case mut7Seq:
			exp := atomic.LoadInt64(&next)
			if m.n != exp {
				fail(fmt.Sprintf("received message #%d where #%d was due", m.n, exp))
			}
			if c.Sender() != nil {
				fail(fmt.Sprintf("message #%d carries sender %v, sent with nil", m.n, c.Sender()))
			}
			atomic.StoreInt64(&next, exp+1)
		default:
			fail(fmt.Sprintf("Receive was handed %#v (sender %v), which nobody sent; %d messages received so far", c.Message(), c.Sender(), atomic.LoadInt64(&next)))
		}
	}, "burst")

	rng := rand.New(rand.NewSource(11))
	deadline := time.Now().Add(7 * time.Second)
	var sent int64
	rounds := 0
	for time.Now().Before(deadline) && rounds < 20000 {
		rounds++
		holding.Store(0)
		e.Send(pid, mut7Hold{})
		for holding.Load() == 0 {
			runtime.Gosched()
		}
		for i := 0; i < 1100; i++ {
			e.Send(pid, mut7Seq{n: sent})
			sent++
		}
		release.Store(1)
		for i := 0; i < 300; i++ {
			for k, n := 0, rng.Intn(1500); k < n; k++ {
				_ = holding.Load()
			}
			e.Send(pid, mut7Seq{n: sent})
			sent++
		}
		waitUntil := time.Now().Add(3 * time.Second)
		for atomic.LoadInt64(&next) != sent {
			if b := getBad(); b != "" {
				t.Fatalf("round %d: %s", rounds, b)
			}
			if time.Now().After(waitUntil) {
				t.Fatalf("round %d: %d messages sent to the live actor, only %d handed to Receive", rounds, sent, atomic.LoadInt64(&next))
			}
			runtime.Gosched()
		}
		if b := getBad(); b != "" {
			t.Fatalf("round %d: %s", rounds, b)
		}
	}
	t.Logf("%d rounds, %d messages, all delivered once and in order", rounds, sent)
}
