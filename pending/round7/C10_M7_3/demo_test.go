package actor

import (
	"sync/atomic"
	"testing"
	"time"
)

type mut7SpawnKid struct{ done chan struct{} }

// A parent spawns a child under an ID that one of its children already holds.
// Like for Engine.Spawn the duplicate must not be built, the incumbent stays
// and an ActorDuplicateIdEvent is published.
func TestMut7DuplicateSpawnChildPublishesEvent(t *testing.T) {
	e, err := NewEngine(NewEngineConfig())
	if err != nil {
		t.Fatal(err)
	}
	var (
		kidProducers int32
		dup          = make(chan ActorDuplicateIdEvent, 8)
		subscribed   = make(chan struct{})
	)
	e.SpawnFunc(func(c *Context) {
		switch msg := c.Message().(type) {
		case Started:
			c.Engine().Subscribe(c.PID())
			close(subscribed)
		case ActorDuplicateIdEvent:
			dup <- msg
		}
	}, "monitor")
	<-subscribed

	kid := func() Receiver {
		atomic.AddInt32(&kidProducers, 1)
		return &funcReceiver{f: func(*Context) {}}
	}
	ready := make(chan struct{})
	parent := e.SpawnFunc(func(c *Context) {
		switch msg := c.Message().(type) {
		case Started:
			c.SpawnChild(kid, "kid", WithID("1"))
			close(ready)
		case mut7SpawnKid:
			c.SpawnChild(kid, "kid", WithID("1"))
			close(msg.done)
		}
	}, "par", WithID("1"))
	<-ready

	// control: the top-level sibling implementation reports its duplicates
	e.Spawn(kid, "par", WithID("1"))
	select {
	case ev := <-dup:
		if ev.PID.ID != "par/1" {
			t.Fatalf("unexpected duplicate event for %s", ev.PID.ID)
		}
	case <-time.After(10 * time.Second):
		t.Fatal("no ActorDuplicateIdEvent for a duplicate Engine.Spawn")
	}

	m := mut7SpawnKid{done: make(chan struct{})}
	e.Send(parent, m)
	<-m.done
	if got := atomic.LoadInt32(&kidProducers); got != 1 {
		t.Fatalf("kid producers: %d, want 1", got)
	}
	select {
	case ev := <-dup:
		if ev.PID.ID != "par/1/kid/1" {
			t.Errorf("duplicate event for %s, want par/1/kid/1", ev.PID.ID)
		}
	case <-time.After(5 * time.Second):
		t.Errorf("duplicate SpawnChild of par/1/kid/1 was refused but no ActorDuplicateIdEvent was published")
	}
}
