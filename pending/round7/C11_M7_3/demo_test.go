package actor

import (
	"errors"
	"fmt"
	"sync"
	"testing"
	"time"
)

type mut7Failure struct{ Code int }

func (f mut7Failure) Error() string { return fmt.Sprintf("failure %d", f.Code) }

// Whatever value the target sends in reply is what Result() has to hand back, together
// with a nil error: a reply arrived, nothing timed out. That also holds for reply values
// whose type happens to implement the error interface.
func TestMut7ReplyValueIsReturnedVerbatim(t *testing.T) {
	e, err := NewEngine(NewEngineConfig())
	if err != nil {
		t.Fatal(err)
	}
	type ask struct{ reply any }
	echo := e.SpawnFunc(func(c *Context) {
		if m, ok := c.Message().(ask); ok {
			c.Respond(m.reply)
		}
	}, "mut7echo")

	sentinel := errors.New("sentinel")
	payloads := []any{
		1, "two", 3.0, struct{ A int }{4},
		mut7Failure{Code: 5},
		sentinel,
	}
	var wg sync.WaitGroup
	for round := 0; round < 5; round++ {
		for _, p := range payloads {
			wg.Add(1)
			go func(p any) {
				defer wg.Done()
				resp := e.Request(echo, ask{reply: p}, 5*time.Second)
				got, err := resp.Result()
				if err != nil {
					t.Errorf("reply %#v arrived in time, but Result() returned error %v", p, err)
					return
				}
				if got != p {
					t.Errorf("Result() = %#v, want the reply %#v", got, p)
				}
				if e.Registry.get(resp.PID()) != nil {
					t.Errorf("response pid still registered")
				}
			}(p)
		}
	}
	wg.Wait()
}
