#!/bin/bash
# usage: try_one.sh <abs patch> <prop> [grep pattern]  -- full checker output for one patch on a scratch copy
export GOFLAGS=-mod=mod GOPROXY=off GOSUMDB=off GOTOOLCHAIN=local
S=/tmp/scratch-one
rm -rf $S; mkdir -p $S; rsync -a --exclude .git /repo/ $S/
(cd $S && patch -s -p1 < "$1") || exit 2
mkdir -p /tmp/verif-scratch; cp /verif/known_findings.json /tmp/verif-scratch/
/verif/bin/hwcheck -repo $S -verif /tmp/verif-scratch -p "$2" -tier quick 2>&1 | grep -v "^  ok\|^OK" | grep -E "${3:-.}" | head -${4:-40}
rm -rf $S
