#!/bin/bash
# usage: try_mut.sh <patch> <prop...>   apply patch to /repo, run checks, undo
P="$1"; shift
cd /repo && git apply "$P" || { echo "PATCH DOES NOT APPLY"; exit 2; }
cd /verif
for p in "$@"; do ./bin/hwcheck -p $p -verif /tmp/verif-scratch 2>&1 | grep -E "^  (violated|undecided)|quick:" | cut -c1-230; done
git -C /repo checkout -- . ; git -C /repo status --short | grep -v '^??'
