# every property is claimed (clause-level limits are stated in level_note and DESIGN.md section 9)
