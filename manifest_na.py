for p in ALL:
    NA[p] = "check under construction in this round; see DESIGN.md section 4 for the planned rules"
