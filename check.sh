#!/bin/bash
# ./check.sh <Cnn|all> <quick|thorough>      run one property check against /repo's working tree
# ./check.sh --replay <file>                  re-evaluate one reported obligation
# ./check.sh --build                          (re)build the analyser
set -u
cd "$(dirname "$0")"
export GOFLAGS=-mod=mod GOPROXY=off GOSUMDB=off GOTOOLCHAIN=local GONOSUMDB='*' GONOSUMCHECK=1 GOWORK=off
unset GOROOT
BIN=./bin/hwcheck
build() {
  mkdir -p bin
  (cd checker && go build -o ../bin/hwcheck . ) || { echo "VIOLATION property=${1:-build} replay=/verif/out/build-failed"; exit 1; }
}
needs_build() {
  [ ! -x "$BIN" ] && return 0
  [ -n "$(find checker -newer "$BIN" \( -name '*.go' -o -name go.mod \) -print -quit)" ] && return 0
  return 1
}
if [ "${1:-}" = "--build" ]; then build; exit 0; fi
needs_build && build "${1:-}"
if [ "${1:-}" = "--replay" ]; then exec "$BIN" -verif "$(pwd)" -replay "$2"; fi
PROP="$1"; TIER="${2:-quick}"
if [ "$TIER" = "thorough" ]; then
  exec ./thorough.sh "$PROP"
fi
exec "$BIN" -verif "$(pwd)" -p "$PROP" -tier quick
