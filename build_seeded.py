#!/usr/bin/env python3
"""Builds /verif/seeded/<name>/ from confirmed sub-agent mutations (development tool).
usage: build_seeded.py <confirm log> ...   (lines 'RESULT <name> prop=<id> demo_base_exit=.. suite_pass=a/2 demo_mut_exit=.. check_exit=.. :: ...')"""
import sys, os, re, json, shutil, glob
ROOT = "/verif/seeded"
os.makedirs(ROOT, exist_ok=True)
for log in sys.argv[1:]:
    for line in open(log):
        m = re.match(r"RESULT (\S+) prop=(\S+) (.*?) :: (.*)", line)
        if not m:
            continue
        name, prop, kv, viol = m.groups()
        f = dict(x.split("=") for x in kv.split() if "=" in x)
        if "demo_base_exit" not in f:
            print("skip", name, kv); continue
        src = None
        mm = re.match(r"(C\d+)_M([234567])_(\d+)", name)
        if mm:
            src = "/tmp/wt-%s/MUT%s/%s" % mm.groups()
            if mm.group(2) in ("5", "6", "7"):
                src = "/tmp/wt%s-%s/MUT%s/%s" % (mm.group(2), mm.group(1), mm.group(2), mm.group(3))
        else:
            mm = re.match(r"(C\d+)_(\d+)", name)
            src = "/tmp/wt-%s/MUT/%s" % mm.groups()
        ok = f["demo_base_exit"] == "0" and f["demo_mut_exit"] != "0" and int(f["suite_pass"].split("/")[0]) >= 1
        if not ok:
            print("NOT CONFIRMED", name, kv); continue
        dst = os.path.join(ROOT, name)
        os.makedirs(dst, exist_ok=True)
        shutil.copy(os.path.join(src, "patch.diff"), dst)
        for t in glob.glob(os.path.join(src, "*_test.go")):
            shutil.copy(t, os.path.join(dst, "demo_test.go"))
        meta = {}
        if os.path.exists(os.path.join(src, "meta.json")):
            try: meta = json.load(open(os.path.join(src, "meta.json")))
            except Exception: meta = {}
        meta["property"] = prop
        meta["confirmed_here"] = {
            "how": "scratch worktree of /repo HEAD; suite = go test -vet=off -count=1 ./actor ./remote ./cluster ./ringbuffer ./safemap inside `unshare -n` (twice); demo run with and without the patch",
            "demo_passes_without_patch": True, "demo_fails_with_patch": True, "suite_passes_with_patch": f["suite_pass"],
            "note": "suite runs were made under heavy machine load; failures in the non-clean run were the timing tests TestInboxSendAndProcess / TestGetActiveByID / TestGetActiveByKind, which also fail on the unmodified tree under load",
        }
        meta["static_check"] = {"exit": int(f["check_exit"]), "first_reports": [v.strip() for v in viol.split(";") if v.strip()][:3]}
        json.dump(meta, open(os.path.join(dst, "meta.json"), "w"), indent=1)
        print("kept", name)

# INDEX.md
rows = []
for d in sorted(glob.glob(os.path.join(ROOT, "*", "meta.json"))):
    m = json.load(open(d))
    name = os.path.basename(os.path.dirname(d))
    rep = "; ".join(x.split(":")[0].replace("violated ", "").replace("undecided ", "").strip() for x in m.get("static_check", {}).get("first_reports", []))
    rows.append((name, m.get("property", "?"), (m.get("summary") or m.get("breaks") or "").replace("|", "/").replace("\n", " ")[:170], (m.get("needs") or "").replace("|", "/").replace("\n", " ")[:120], "yes" if m.get("static_check", {}).get("exit") == 1 else "NO", rep[:150]))
with open(os.path.join(ROOT, "INDEX.md"), "w") as f:
    f.write("# Seeded changes (each breaks one property, compiles, passes the existing suite)\n\n| name | property | change | needs to manifest | flagged by its check | first obligations reported |\n|---|---|---|---|---|---|\n")
    for r in rows:
        f.write("| %s | %s | %s | %s | %s | %s |\n" % r)
print(len(rows), "seeded entries")
