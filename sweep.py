#!/usr/bin/env python3
"""Sensitivity sweep (development aid, also used by the thorough tier in --analyse-only mode):
every single-edit variant of the library is type-checked and analysed by all twenty checks in a scratch copy
outside /repo and /verif; optionally the repository's own tests are run on it (triage only: it tells which
variants a user would not notice). Output: one JSON line per variant."""
import json, os, shutil, subprocess, sys, concurrent.futures as cf, tempfile

REPO = os.environ.get("SWEEP_REPO", "/repo")
VAR = sys.argv[1]
OUT = sys.argv[2]
RUN_TESTS = "--tests" in sys.argv
WORKERS = int(os.environ.get("SWEEP_WORKERS", "8"))
known = {k["key"] for k in json.load(open("/verif/known_findings.json")) if k["status"] == "known"}
ENV = dict(os.environ, GOFLAGS="-mod=mod", GOPROXY="off", GOWORK="off")

def one(n):
    vdir = os.path.join(VAR, n)
    desc, rel = open(os.path.join(vdir, "desc.txt")).read().split("\n")[:2]
    work = tempfile.mkdtemp(prefix="hw-sweep-")
    try:
        for p in ["actor", "remote", "cluster", "ringbuffer", "safemap", "go.mod", "go.sum"]:
            s = os.path.join(REPO, p)
            (shutil.copytree if os.path.isdir(s) else shutil.copy)(s, os.path.join(work, p))
        shutil.copy(os.path.join(vdir, rel), os.path.join(work, rel))
        res = {"n": n, "desc": desc, "file": rel}
        p = subprocess.run(["/verif/bin/hwcheck", "-p", "all", "-repo", work, "-no-evidence", "-json"], capture_output=True, text=True, env=dict(ENV, GOTOOLCHAIN="local", GOSUMDB="off", GOMAXPROCS="2"))
        fired = {}
        compiles = True
        for line in p.stdout.splitlines():
            if not line.startswith("["):
                continue
            for o in json.loads(line):
                if o["rule"].endswith(".load"):
                    compiles = False
                if o["verdict"] != "discharged" and o["key"] not in known:
                    fired.setdefault(o["rule"].split(".")[0], []).append(o["key"])
        res["compiles"] = compiles
        res["fired"] = sorted(fired)
        res["keys"] = sorted(k for v in fired.values() for k in v)[:6]
        if compiles and RUN_TESTS:
            cmd = "ip link set lo up; ip link set lo multicast on; ip route add 224.0.0.0/4 dev lo; cd %s && go test -vet=off -count=1 ./actor ./remote ./cluster ./ringbuffer ./safemap" % work
            try:
                t = subprocess.run(["unshare", "-n", "sh", "-c", cmd], capture_output=True, text=True, env=ENV, timeout=150)
                res["suite"] = "pass" if t.returncode == 0 else "fail"
            except subprocess.TimeoutExpired:
                res["suite"] = "timeout"
        return res
    finally:
        shutil.rmtree(work, ignore_errors=True)

names = sorted(os.listdir(VAR), key=int)
if len(sys.argv) > 3 and sys.argv[3].isdigit():
    names = names[: int(sys.argv[3])]
with cf.ThreadPoolExecutor(WORKERS) as ex, open(OUT, "w") as out:
    for r in ex.map(one, names):
        out.write(json.dumps(r) + "\n")
        out.flush()
