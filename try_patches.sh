#!/bin/bash
# try_patches.sh <dir with */patch.diff> : overlays each patch on /repo in-process and prints what all checks report
D="$1"; T=$(mktemp -d /tmp/hw-try-XXXX); mkdir -p $T/c
for p in "$D"/*/patch.diff; do
  n=$(basename $(dirname $p)); w=$T/w; rm -rf $w; mkdir -p $w
  for x in actor remote cluster ringbuffer safemap; do cp -r /repo/$x $w/; done
  if ! patch -p1 -s -f -d $w -i $p >/dev/null 2>&1; then echo "$n: patch does not apply"; continue; fi
  mkdir -p $T/c/$n; echo "$n" > $T/c/$n/desc.txt
  for rel in $(grep -E '^\+\+\+ b/' $p | sed 's|+++ b/||'); do case $rel in *_test.go) ;; actor/*|remote/*|cluster/*|ringbuffer/*|safemap/*) mkdir -p $T/c/$n/$(dirname $rel); cp $w/$rel $T/c/$n/$rel;; esac; done
done
/verif/bin/hwcheck -verif /verif -sweep $T/c -p all | python3 -c "
import sys,json
for l in sys.stdin:
    r=json.loads(l)
    if not r.get('compiles'): print(r['n'],'DOES NOT COMPILE', r.get('error','')[:200]); continue
    f=r.get('fired',{})
    print(r['n'], 'silent' if not f else '')
    for k,v in f.items():
        for x in v[:4]: print('    ',x[:230])
"
rm -rf $T
