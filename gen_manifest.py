#!/usr/bin/env python3
"""Regenerates MANIFEST.json from the table below (kept in one place so that it stays valid)."""
import json, os, subprocess

CLAIMED = {
 # id: (technique, level text, level note, design ref)
}
def claim(pid, technique, text, note, ref):
    CLAIMED[pid] = (technique, text, note, ref)

exec(open(os.path.join(os.path.dirname(__file__), 'manifest_claims.py')).read())

ALL = ["C%02d" % i for i in range(1, 21)]
NA = {}
exec(open(os.path.join(os.path.dirname(__file__), 'manifest_na.py')).read())

checks = []
for pid in ALL:
    if pid not in CLAIMED:
        continue
    tech, text, note, ref = CLAIMED[pid]
    checks.append({
        "property_id": pid,
        "quick_cmd": "./check.sh %s quick" % pid,
        "thorough_cmd": "./check.sh %s thorough" % pid,
        "evidence_file": "/verif/evidence/%s.json" % pid,
        "replay_cmd_template": "./check.sh --replay {path}",
        "engine": "hwcheck",
        "level_claimed": {"category": "other", "text": text, "design_ref": ref},
        "level_note": note,
        "technique": tech,
    })
na = [{"property_id": p, "reason": NA[p]} for p in ALL if p not in CLAIMED]
m = {
 "version": 1,
 "setup_cmd": "./check.sh --build",
 "hooks": {"guard": "verif", "enable": "none: static analysis needs no instrumentation; checks read /repo's working tree as it is",
           "baseline_off_cmd": "cd /repo && GOFLAGS=-mod=mod GOPROXY=off go test -vet=off -count=1 ./...",
           "source_commits": [], "add_only": True},
 "engines": [{"name": "hwcheck", "path": "/verif/checker", "serves_properties": sorted(CLAIMED),
              "kind_free_text": "repository-specific static analyser over go/packages + go/ssa (x/tools v0.29.0): path-order queries on the instruction CFG, value provenance, who-may-call/write, lockset and atomic discipline, status-word protocol extraction, lifecycle typestate abstract interpretation, nil flow, guarded index, table agreement"}],
 "checks": checks,
 "notes": "Technique family: static analysis only. Every check type-checks /repo's current working tree, builds SSA and decides rule instances (obligations); nothing from /repo is executed. Known genuine defects are listed in /verif/known_findings.json and print KNOWN-FINDING lines.",
 "not_applicable": na,
}
json.dump(m, open(os.path.join(os.path.dirname(__file__), 'MANIFEST.json'), 'w'), indent=1)
print("claimed", len(checks), "not_applicable", len(na))
