package main

// Inlining of freshly extracted private helpers.
//
// The rules anchor on the functions of the pinned tree (by role, by signature or by name). When a
// block of such a function is moved verbatim into a new private helper ("extract method"), the
// behaviour does not change but the construct a rule looks for is no longer in the anchored
// function. FGI gives rules the anchored function's graph with such helpers spliced back in:
//
//   - a helper is a library function that no rule knows (its name is not one of the pinned
//     tree's function names and no role resolved to it), that has exactly one static call site
//     in the library, is never used as a value, go'ed or deferred, and has no defer of its own;
//   - the call node stays in the graph as a no-op (FG.inl), its successor is the helper's entry,
//     the helper's returns continue at the call's successors;
//   - access paths of the helper's parameters are those of the arguments at the call site
//     (World.paramSub), and the path of the call's result is the returned value's
//     (World.callSub), so the spliced instructions read as if they were written in the caller.
//
// This changes nothing on a tree without such helpers (FGI == FG). It is a robustness device,
// never a source of findings: which functions are spliced only decides where a rule looks.

import (
	_ "embed"
	"fmt"
	"go/token"
	"go/types"
	"regexp"
	"sort"
	"strings"

	"golang.org/x/tools/go/ssa"
)

//go:embed pinned_funcs.txt
var pinnedFuncsTxt string

var pinnedFuncs = func() map[string]bool {
	m := map[string]bool{}
	for _, l := range strings.Split(pinnedFuncsTxt, "\n") {
		if l = strings.TrimSpace(l); l != "" {
			m[l] = true
		}
	}
	return m
}()

func rawName(fn *ssa.Function) string {
	if a, ok := fnAlias[fn]; ok {
		delete(fnAlias, fn)
		n := fname(fn)
		fnAlias[fn] = a
		return n
	}
	return fname(fn)
}

// libFuncNames lists the names of all library functions (without closures); -dump-funcs prints it.
func (w *World) libFuncNames() []string {
	var out []string
	for _, fn := range w.Funcs {
		if w.isLib(fn) && fn.Parent() == nil && fn.Synthetic == "" {
			out = append(out, rawName(fn))
		}
	}
	sort.Strings(out)
	return dedup(out)
}

// inlineCandidates: new helpers (see the file comment), helper -> its call sites.
func (w *World) inlineCandidates() map[*ssa.Function][]*ssa.Call {
	cand := map[*ssa.Function]bool{}
	for _, fn := range w.Funcs {
		if !w.isLib(fn) || fn.Parent() != nil || fn.Synthetic != "" || fn.Blocks == nil || pinnedFuncs[rawName(fn)] {
			continue
		}
		if fn.Origin() != nil || fn.TypeParams() != nil && fn.TypeParams().Len() > 0 {
			continue
		}
		if strings.HasSuffix(w.Fset.Position(fn.Pos()).Filename, ".pb.go") {
			continue
		}
		ok := true
		for _, b := range fn.Blocks {
			for _, in := range b.Instrs {
				switch in.(type) {
				case *ssa.Defer, *ssa.RunDefers:
					ok = false
				}
			}
		}
		if fn.Recover != nil {
			ok = false
		}
		if ok {
			cand[fn] = true
		}
	}
	if len(cand) == 0 {
		return nil
	}
	sites := map[*ssa.Function][]*ssa.Call{}
	bad := map[*ssa.Function]bool{}
	for _, fn := range w.Funcs {
		for _, b := range fn.Blocks {
			for _, in := range b.Instrs {
				var callee *ssa.Function
				if ci, ok := in.(ssa.CallInstruction); ok {
					callee = ci.Common().StaticCallee()
					if callee != nil && cand[callee] {
						if c, isCall := in.(*ssa.Call); isCall && w.isLib(fn) && fn != callee {
							sites[callee] = append(sites[callee], c)
						} else if w.isLib(fn) {
							bad[callee] = true
						}
					}
				}
				for _, op := range in.Operands(nil) {
					if f, ok := (*op).(*ssa.Function); ok && cand[f] {
						if ci, isCI := in.(ssa.CallInstruction); isCI && ci.Common().Value == ssa.Value(f) {
							continue
						}
						bad[f] = true // used as a value
					}
				}
			}
		}
	}
	out := map[*ssa.Function][]*ssa.Call{}
	for fn := range cand {
		if !bad[fn] && len(sites[fn]) >= 1 {
			out[fn] = sites[fn]
		}
	}
	// no cycles among helpers
	var cyc func(fn *ssa.Function, seen map[*ssa.Function]bool) bool
	cyc = func(fn *ssa.Function, seen map[*ssa.Function]bool) bool {
		if seen[fn] {
			return true
		}
		seen[fn] = true
		defer delete(seen, fn)
		for _, c := range out[fn] {
			if _, isH := out[c.Parent()]; isH && cyc(c.Parent(), seen) {
				return true
			}
		}
		return false
	}
	for fn := range out {
		if cyc(fn, map[*ssa.Function]bool{}) {
			delete(out, fn)
		}
	}
	return out
}

// prepareInlining decides which helpers are spliced. Roles are resolved first on the plain graphs
// (a renamed anchor is not a fresh helper), by running every check once with a discarded report.
func prepareInlining(w *World) {
	resolveTypeRenames(w)
	w.inlSites, w.cur, w.gsub, w.fgflat, w.virt, w.virtOf = nil, nil, nil, nil, nil, nil
	w.fgis = map[*ssa.Function]*FG{}
	cands := w.inlineCandidates()
	if len(cands) == 0 {
		return
	}
	var ids []string
	for id := range props {
		ids = append(ids, id)
	}
	sort.Strings(ids)
	for _, id := range ids {
		runGuarded(w, newReport(id), props[id])
	}
	w.inlSites = map[*ssa.Function][]*ssa.Call{}
	for fn, cs := range cands {
		if _, aliased := fnAlias[fn]; aliased {
			continue
		}
		ok := true
		for _, c := range cs {
			if len(c.Call.Args) != len(fn.Params) {
				ok = false
			}
		}
		if ok {
			w.inlSites[fn] = cs
		}
	}
	// a helper with one call site reads the same in every graph: substitute unconditionally
	w.gsub = &FG{psub: map[*ssa.Parameter]ssa.Value{}, csub: map[*ssa.Call][]ssa.Value{}}
	for fn, cs := range w.inlSites {
		if len(cs) != 1 {
			continue
		}
		c := cs[0]
		for i, p := range fn.Params {
			w.gsub.psub[p] = c.Call.Args[i]
		}
		var ret *ssa.Return
		n := 0
		for _, b := range fn.Blocks {
			for _, in := range b.Instrs {
				if r, ok := in.(*ssa.Return); ok {
					ret = r
					n++
				}
			}
		}
		if n == 1 && len(ret.Results) > 0 {
			w.gsub.csub[c] = ret.Results
		}
	}
	w.fgis = map[*ssa.Function]*FG{}
	w.fgflat = nil
	// summaries and role caches stay: they were computed on the plain graphs and remain valid
}

// inlineRoots returns the non-helper functions a spliced helper's instructions are attributed to
// (the function itself when it is not a helper).
func (w *World) inlineRoots(fn *ssa.Function) []*ssa.Function {
	cs, ok := w.inlSites[fn]
	if !ok {
		return []*ssa.Function{fn}
	}
	var out []*ssa.Function
	for _, c := range cs {
		out = append(out, w.inlineRoots(c.Parent())...)
	}
	return out
}

// noCtx suspends the access-path context of spliced helpers (engines that analyse functions one by
// one on the plain graphs call it on entry: defer w.noCtx()()).
func (w *World) noCtx() func() {
	old, oldG := w.cur, w.gsub
	w.cur, w.gsub = nil, nil
	return func() { w.cur, w.gsub = old, oldG }
}

// subParam / subCall: what a spliced helper's parameter or call reads as in the current context.
func (w *World) subParam(p *ssa.Parameter) (ssa.Value, bool) {
	if w.cur != nil {
		if a, ok := w.cur.psub[p]; ok {
			return a, true
		}
	}
	if w.gsub != nil {
		if a, ok := w.gsub.psub[p]; ok {
			return a, true
		}
	}
	return nil, false
}

// subCallMulti: the result tuples of a spliced helper with several returns.
func (w *World) subCallMulti(c *ssa.Call) [][]ssa.Value {
	if w.cur != nil && w.cur.csubM != nil {
		return w.cur.csubM[c]
	}
	return nil
}

func (w *World) subCall(c *ssa.Call) ([]ssa.Value, bool) {
	if w.cur != nil {
		if rs, ok := w.cur.csub[c]; ok {
			return rs, true
		}
	}
	if w.gsub != nil {
		if rs, ok := w.gsub.csub[c]; ok {
			return rs, true
		}
	}
	return nil, false
}

func (w *World) isInlSite(c *ssa.Call) bool {
	h := c.Call.StaticCallee()
	if h == nil {
		return false
	}
	for _, s := range w.inlSites[h] {
		if s == c {
			return true
		}
	}
	return false
}

// FGI is FG with the fresh helpers spliced in (the same graph when there are none). A helper
// called more than once within one graph is not spliced there. FGI also makes its result the
// current context for access paths (parameters of spliced helpers read as the arguments).
func (w *World) FGI(fn *ssa.Function) *FG {
	if g, ok := w.virt[fn]; ok {
		if w.curLock == 0 {
			w.cur = g
		}
		return g
	}
	if len(w.inlSites) == 0 {
		if w.curLock == 0 {
			w.cur = nil
		}
		return w.FG(fn)
	}
	return w.spliced(fn, w.fgis, w.isInlSite)
}

// FGFlat is fn's graph with every private helper of its package spliced in (fresh or not), as long
// as it is called once in the graph, statically, and has no defer/go of its own. Rules that follow
// one message through a Receive function use it: whether a case body is written in place, in a
// handler method, or split between the two does not change the flattened graph.
func (w *World) FGFlat(fn *ssa.Function) *FG {
	if w.fgflat == nil {
		w.fgflat = map[*ssa.Function]*FG{}
	}
	pkg := fnPkgPath(fn)
	return w.spliced(fn, w.fgflat, func(c *ssa.Call) bool {
		h := c.Call.StaticCallee()
		if h == nil || h.Blocks == nil || h.Synthetic != "" || !w.isLib(h) || fnPkgPath(h) != pkg || h == fn || c.Call.IsInvoke() {
			return false
		}
		if h.Object() != nil && h.Object().Exported() {
			return false
		}
		if h.Recover != nil || len(c.Call.Args) != len(h.Params) {
			return false
		}
		for _, b := range h.Blocks {
			for _, in := range b.Instrs {
				switch in.(type) {
				case *ssa.Defer, *ssa.RunDefers:
					return false
				}
			}
		}
		return true
	})
}

func (w *World) spliced(fn *ssa.Function, cache map[*ssa.Function]*FG, isSite func(*ssa.Call) bool) *FG {
	if g, ok := cache[fn]; ok {
		if w.curLock == 0 {
			w.cur = g
			if g.inl == nil {
				w.cur = nil
			}
		}
		return g
	}
	// which helpers are (transitively) called from fn, each at most once
	excluded := map[*ssa.Function]bool{}
	var calls []*ssa.Call
	for {
		calls = nil
		count := map[*ssa.Function]int{}
		var collect func(f *ssa.Function)
		collect = func(f *ssa.Function) {
			for _, b := range f.Blocks {
				for _, in := range b.Instrs {
					if c, ok := in.(*ssa.Call); ok && isSite(c) && !excluded[c.Call.StaticCallee()] && c.Call.StaticCallee() != fn {
						h := c.Call.StaticCallee()
						count[h]++
						if count[h] == 1 {
							calls = append(calls, c)
							collect(h)
						}
					}
				}
			}
		}
		collect(fn)
		again := false
		for h, n := range count {
			if n > 1 {
				excluded[h] = true
				again = true
			}
		}
		if !again {
			break
		}
	}
	if len(calls) == 0 {
		g := w.FG(fn)
		cache[fn] = g
		if w.curLock == 0 {
			w.cur = nil
		}
		return g
	}
	g := &FG{fn: fn, idx: map[ssa.Instruction]int{}, first: map[*ssa.BasicBlock]int{}, inl: map[int]bool{},
		psub: map[*ssa.Parameter]ssa.Value{}, csub: map[*ssa.Call][]ssa.Value{}}
	all := []*ssa.Function{fn}
	for _, c := range calls {
		all = append(all, c.Call.StaticCallee())
	}
	for _, f := range all {
		for _, b := range f.Blocks {
			g.first[b] = len(g.ins)
			for _, in := range b.Instrs {
				g.idx[in] = len(g.ins)
				g.ins = append(g.ins, in)
			}
		}
	}
	g.succ = make([][]int, len(g.ins))
	g.pred = make([][]int, len(g.ins))
	// plain successors first
	for _, f := range all {
		for _, b := range f.Blocks {
			base := g.first[b]
			for i, in := range b.Instrs {
				n := base + i
				if f == fn {
					switch in.(type) {
					case *ssa.Return:
						g.returns = append(g.returns, n)
					case *ssa.Defer:
						g.defers = append(g.defers, n)
					case *ssa.RunDefers:
						g.rundef = append(g.rundef, n)
					}
				}
				if _, ok := in.(*ssa.Panic); ok {
					g.panics = append(g.panics, n)
				}
				if i+1 < len(b.Instrs) {
					g.succ[n] = append(g.succ[n], n+1)
				} else {
					for _, s := range b.Succs {
						g.succ[n] = append(g.succ[n], g.first[s])
					}
				}
			}
		}
	}
	// splice: call -> helper entry; helper returns -> the call's successors
	for _, c := range calls {
		h := c.Call.StaticCallee()
		n := g.idx[c]
		after := g.succ[n]
		g.succ[n] = []int{g.first[h.Blocks[0]]}
		g.inl[n] = true
		var ret *ssa.Return
		var rets [][]ssa.Value
		nret := 0
		onNil, onNonNil, threaded := w.nilTestAfter(g, c)
		onTrue, onFalse, bthreaded := w.boolTestAfter(g, c)
		for _, b := range h.Blocks {
			for _, in := range b.Instrs {
				if r, ok := in.(*ssa.Return); ok {
					g.succ[g.idx[in]] = append([]int(nil), after...)
					if bthreaded && len(r.Results) == 1 {
						// the caller branches on the boolean result right away: a constant result takes its branch only
						if k, isK := r.Results[0].(*ssa.Const); isK && k.Value != nil {
							switch k.Value.ExactString() {
							case "true":
								g.succ[g.idx[in]] = []int{onTrue}
							case "false":
								g.succ[g.idx[in]] = []int{onFalse}
							}
						}
					}
					if threaded && len(r.Results) == 1 {
						// the caller tests the result against nil right away: a return whose
						// value is known nil / non-nil continues on that branch only
						switch w.nilness(h, r) {
						case 1:
							g.succ[g.idx[in]] = []int{onNil}
						case 2:
							g.succ[g.idx[in]] = []int{onNonNil}
						}
					}
					ret = r
					rets = append(rets, r.Results)
					nret++
				}
			}
		}
		for i, p := range h.Params {
			g.psub[p] = c.Call.Args[i]
		}
		if nret == 1 && len(ret.Results) > 0 {
			g.csub[c] = ret.Results
		} else if nret > 1 && len(ret.Results) > 0 {
			if g.csubM == nil {
				g.csubM = map[*ssa.Call][][]ssa.Value{}
			}
			g.csubM[c] = rets
		}
	}
	for n, ss := range g.succ {
		for _, s := range ss {
			g.pred[s] = append(g.pred[s], n)
		}
	}
	cache[fn] = g
	if w.curLock == 0 {
		w.cur = g
	}
	return g
}

// insOf lists the instructions of fn, spliced helpers included.
func (w *World) insOf(fn *ssa.Function) []ssa.Instruction {
	if fn == nil {
		return nil
	}
	g := w.FGI(fn)
	if g.inl == nil {
		return g.ins
	}
	// the returns of spliced helpers are jumps back into fn, not returns of fn
	var out []ssa.Instruction
	for _, in := range g.ins {
		if _, isRet := in.(*ssa.Return); isRet && in.Parent() != fn {
			continue
		}
		out = append(out, in)
	}
	return out
}

// resolve looks through a call to a spliced helper: the value the helper returns.
func (w *World) resolve(v ssa.Value) ssa.Value {
	for i := 0; i < 4; i++ {
		c, ok := v.(*ssa.Call)
		if !ok {
			break
		}
		rs, ok := w.subCall(c)
		if !ok || len(rs) != 1 {
			break
		}
		v = rs[0]
	}
	return v
}


// nilTestAfter: when the instructions between call c and the end of its block only compare c's
// (single) result with nil and branch on it, the targets of the nil and the non-nil branch.
func (w *World) nilTestAfter(g *FG, c *ssa.Call) (onNil, onNonNil int, ok bool) {
	b := c.Block()
	pos := -1
	for i, in := range b.Instrs {
		if in == ssa.Instruction(c) {
			pos = i
		}
	}
	if pos < 0 || len(b.Succs) != 2 {
		return 0, 0, false
	}
	iff, isIf := b.Instrs[len(b.Instrs)-1].(*ssa.If)
	if !isIf {
		return 0, 0, false
	}
	for _, in := range b.Instrs[pos+1 : len(b.Instrs)-1] {
		switch in.(type) {
		case *ssa.BinOp, *ssa.DebugRef:
		default:
			return 0, 0, false
		}
	}
	bo, isB := iff.Cond.(*ssa.BinOp)
	if !isB || (bo.Op != token.EQL && bo.Op != token.NEQ) {
		return 0, 0, false
	}
	var other ssa.Value
	if k, isK := bo.Y.(*ssa.Const); isK && k.IsNil() {
		other = bo.X
	} else if k, isK := bo.X.(*ssa.Const); isK && k.IsNil() {
		other = bo.Y
	}
	if other != ssa.Value(c) {
		return 0, 0, false
	}
	t, f := g.first[b.Succs[0]], g.first[b.Succs[1]]
	if bo.Op == token.EQL {
		return t, f, true
	}
	return f, t, true
}

// nilness of the single value returned at r: 1 nil, 2 non-nil, 0 unknown.
func (w *World) nilness(h *ssa.Function, r *ssa.Return) int {
	v := r.Results[0]
	switch x := v.(type) {
	case *ssa.Const:
		if x.IsNil() {
			return 1
		}
		return 0
	case *ssa.MakeInterface:
		if _, isPtr := x.X.Type().Underlying().(*types.Pointer); !isPtr {
			return 2
		}
		if _, isAlloc := x.X.(*ssa.Alloc); isAlloc {
			return 2
		}
		return 0
	case *ssa.UnOp:
		// a package-level sentinel initialised once with errors.New / fmt.Errorf and never reassigned
		if gl, isG := x.X.(*ssa.Global); isG && x.Op == token.MUL && w.sentinelError(gl) {
			return 2
		}
	}
	hg := w.FG(h)
	for _, f := range hg.FactsAt(hg.idx[r]) {
		b, ok := f.Cond.(*ssa.BinOp)
		if !ok || (b.Op != token.EQL && b.Op != token.NEQ) {
			continue
		}
		var other ssa.Value
		if k, isK := b.Y.(*ssa.Const); isK && k.IsNil() {
			other = b.X
		} else if k, isK := b.X.(*ssa.Const); isK && k.IsNil() {
			other = b.Y
		}
		if other != v {
			continue
		}
		if (b.Op == token.EQL) == f.Val {
			return 1
		}
		return 2
	}
	return 0
}

func (w *World) sentinelError(gl *ssa.Global) bool {
	stores := 0
	good := false
	for _, fn := range w.Funcs {
		for _, b := range fn.Blocks {
			for _, in := range b.Instrs {
				if st, ok := in.(*ssa.Store); ok && st.Addr == ssa.Value(gl) {
					stores++
					if c, isC := st.Val.(*ssa.Call); isC && c.Call.StaticCallee() != nil {
						switch c.Call.StaticCallee().String() {
						case "errors.New", "fmt.Errorf":
							good = fn.Name() == "init"
						}
					}
				}
			}
		}
	}
	if stores == 0 && gl.Pkg != nil {
		// the init function is not among the module's analysed functions: look it up
		if init := gl.Pkg.Func("init"); init != nil {
			for _, b := range init.Blocks {
				for _, in := range b.Instrs {
					if st, ok := in.(*ssa.Store); ok && st.Addr == ssa.Value(gl) {
						stores++
						if c, isC := st.Val.(*ssa.Call); isC && c.Call.StaticCallee() != nil {
							switch c.Call.StaticCallee().String() {
							case "errors.New", "fmt.Errorf":
								good = true
							}
						}
					}
				}
			}
		}
	}
	return stores == 1 && good
}


// keepCtx restores the access-path context on return (helpers that look at other functions in the
// middle of a rule: defer w.keepCtx()()).
func (w *World) keepCtx() func() {
	old := w.cur
	return func() { w.cur = old }
}

// ---- renamed private struct fields ------------------------------------------------------------
//
// Rules name struct fields (process.mbuffer, Agent.kinds, Inbox.procStatus ...). A private field that
// was merely renamed keeps its position or at least its type: pinned_fields.txt lists the fields of the
// module's structs on the pinned tree; a field of today's struct whose name is not in that list reads
// under the pinned name of the field it replaces (same position and type, or the only added/removed
// pair of that type). Like the function table this only decides how a construct is *named*.

//go:embed pinned_fields.txt
var pinnedFieldsTxt string

type pinnedField struct{ name, typ string }

var pinnedFields = func() map[string][]pinnedField {
	m := map[string][]pinnedField{}
	for _, l := range strings.Split(pinnedFieldsTxt, "\n") {
		f := strings.SplitN(strings.TrimSpace(l), "\t", 3)
		if len(f) == 3 {
			m[f[0]] = append(m[f[0]], pinnedField{f[1], f[2]})
		}
	}
	return m
}()

var fieldAliasCache = map[*types.Struct]map[int]string{}

func structKey(n *types.Named) string {
	if n == nil || n.Obj() == nil || n.Obj().Pkg() == nil {
		return ""
	}
	name := n.Obj().Name()
	if to, ok := typeRenameTo[n.Obj().Pkg().Name()+"."+name]; ok {
		name = to[strings.Index(to, ".")+1:]
	}
	return n.Obj().Pkg().Path() + "." + name
}

// pinnedFieldName: the name of field i of struct s (named n) as rules know it.
func pinnedFieldName(n *types.Named, s *types.Struct, i int) string {
	name := s.Field(i).Name()
	key := structKey(n)
	pf, ok := pinnedFields[key]
	if !ok {
		return name
	}
	al, done := fieldAliasCache[s]
	if !done {
		al = map[int]string{}
		cur := map[string]bool{}
		for j := 0; j < s.NumFields(); j++ {
			cur[s.Field(j).Name()] = true
		}
		old := map[string]bool{}
		for _, f := range pf {
			old[f.name] = true
		}
		ts := func(j int) string { return types.TypeString(s.Field(j).Type(), shortQ) }
		// same position, same type, both names unknown to the other side
		if s.NumFields() == len(pf) {
			for j := 0; j < s.NumFields(); j++ {
				if nm := s.Field(j).Name(); !old[nm] && !cur[pf[j].name] && ts(j) == pf[j].typ {
					al[j] = pf[j].name
				}
			}
		}
		// otherwise: the only added and the only removed field of one type
		addedByType, removedByType := map[string][]int{}, map[string][]string{}
		for j := 0; j < s.NumFields(); j++ {
			if _, has := al[j]; !has && !old[s.Field(j).Name()] {
				addedByType[ts(j)] = append(addedByType[ts(j)], j)
			}
		}
		taken := map[string]bool{}
		for _, v := range al {
			taken[v] = true
		}
		for _, f := range pf {
			if !cur[f.name] && !taken[f.name] {
				removedByType[f.typ] = append(removedByType[f.typ], f.name)
			}
		}
		for t, js := range addedByType {
			if rs := removedByType[t]; len(js) == 1 && len(rs) == 1 {
				al[js[0]] = rs[0]
			}
		}
		fieldAliasCache[s] = al
	}
	if a, ok := al[i]; ok {
		return a
	}
	return name
}

// libStructFields lists the fields of the module's named struct types (-dump-fields prints it).
func (w *World) libStructFields() []string {
	var out []string
	for _, l := range libPkgs {
		sp := w.SP[l]
		if sp == nil {
			continue
		}
		for _, mem := range sp.Members {
			t, ok := mem.(*ssa.Type)
			if !ok {
				continue
			}
			n, ok := t.Type().(*types.Named)
			if !ok {
				continue
			}
			s, ok := n.Underlying().(*types.Struct)
			if !ok {
				continue
			}
			pos := w.Fset.Position(n.Obj().Pos()).Filename
			if strings.HasSuffix(pos, ".pb.go") {
				continue
			}
			for j := 0; j < s.NumFields(); j++ {
				out = append(out, structKey(n)+"\t"+s.Field(j).Name()+"\t"+types.TypeString(s.Field(j).Type(), shortQ))
			}
		}
	}
	sort.SliceStable(out, func(a, b int) bool { return strings.SplitN(out[a], "\t", 2)[0] < strings.SplitN(out[b], "\t", 2)[0] })
	return out
}

// ---- renamed private types ----------------------------------------------------------------------
//
// Same idea for unexported named types (process, streamWriter, poisonPill, ...): pinned_types.txt lists
// them with their method names and field count; a pinned type that is gone and a new unexported type of
// the same package with the same methods and field count are the same type under a new name. Access
// paths, function names and type lookups then use the pinned name.

//go:embed pinned_types.txt
var pinnedTypesTxt string

type pinnedType struct {
	pkg, name, methods string
	nfields            int
}

var pinnedTypes = func() []pinnedType {
	var out []pinnedType
	for _, l := range strings.Split(pinnedTypesTxt, "\n") {
		f := strings.Split(strings.TrimSpace(l), "\t")
		if len(f) == 4 {
			n := 0
			fmt.Sscanf(f[3], "%d", &n)
			out = append(out, pinnedType{f[0], f[1], f[2], n})
		}
	}
	return out
}()

var typeRename *regexp.Regexp          // matches "pkg.newName" of renamed types
var typeRenameTo = map[string]string{} // "pkg.newName" -> "pkg.pinnedName"
var typeRenameFrom = map[string]string{} // "pkg.pinnedName" -> "newName"

func typeSig(n *types.Named) (methods string, nfields int) {
	var ms []string
	priv := 0
	for i := 0; i < n.NumMethods(); i++ {
		if n.Method(i).Exported() {
			ms = append(ms, n.Method(i).Name())
		} else {
			priv++ // private methods may be renamed along with the type: only their number counts
		}
	}
	sort.Strings(ms)
	ms = append(ms, fmt.Sprintf("+%d", priv))
	if s, ok := n.Underlying().(*types.Struct); ok {
		nfields = s.NumFields()
	} else {
		nfields = -1
	}
	return strings.Join(ms, ","), nfields
}

func (w *World) libPrivateTypes(l string) []*types.Named {
	sp := w.SP[l]
	if sp == nil {
		return nil
	}
	var out []*types.Named
	for _, mem := range sp.Members {
		t, ok := mem.(*ssa.Type)
		if !ok {
			continue
		}
		n, ok := t.Type().(*types.Named)
		if !ok || n.Obj().Exported() || n.TypeParams().Len() > 0 {
			continue
		}
		if strings.HasSuffix(w.Fset.Position(n.Obj().Pos()).Filename, ".pb.go") {
			continue
		}
		out = append(out, n)
	}
	sort.Slice(out, func(a, b int) bool { return out[a].Obj().Name() < out[b].Obj().Name() })
	return out
}

// libTypeTable: -dump-types
func (w *World) libTypeTable() []string {
	var out []string
	for _, l := range libPkgs {
		for _, n := range w.libPrivateTypes(l) {
			ms, nf := typeSig(n)
			out = append(out, fmt.Sprintf("%s\t%s\t%s\t%d", l, n.Obj().Name(), ms, nf))
		}
	}
	return out
}

// resolveTypeRenames fills the rename tables for this world.
func resolveTypeRenames(w *World) {
	typeRename, typeRenameTo, typeRenameFrom = nil, map[string]string{}, map[string]string{}
	var alts []string
	for _, l := range libPkgs {
		cur := map[string]*types.Named{}
		for _, n := range w.libPrivateTypes(l) {
			cur[n.Obj().Name()] = n
		}
		pinnedNames := map[string]bool{}
		for _, pt := range pinnedTypes {
			if pt.pkg == l {
				pinnedNames[pt.name] = true
			}
		}
		for _, pt := range pinnedTypes {
			if pt.pkg != l || cur[pt.name] != nil {
				continue
			}
			var cands []*types.Named
			for name, n := range cur {
				if pinnedNames[name] {
					continue
				}
				if ms, nf := typeSig(n); ms == pt.methods && nf == pt.nfields {
					cands = append(cands, n)
				}
			}
			if len(cands) == 1 {
				nn := cands[0].Obj().Name()
				typeRenameTo[l+"."+nn] = l + "." + pt.name
				typeRenameFrom[l+"."+pt.name] = nn
				alts = append(alts, regexp.QuoteMeta(l+"."+nn))
			}
		}
	}
	if len(alts) > 0 {
		sort.Strings(alts)
		typeRename = regexp.MustCompile(`\b(` + strings.Join(alts, "|") + `)\b`)
	}
}

// pinnedTypeNames rewrites the names of renamed private types in s to their pinned names.
func pinnedTypeNames(s string) string {
	if typeRename == nil {
		return s
	}
	return typeRename.ReplaceAllStringFunc(s, func(m string) string { return typeRenameTo[m] })
}


// pinnedShortName: the unqualified name of a named type as rules know it.
func pinnedShortName(n *types.Named) string {
	if n == nil || n.Obj() == nil {
		return ""
	}
	name := n.Obj().Name()
	if n.Obj().Pkg() != nil {
		if to, ok := typeRenameTo[n.Obj().Pkg().Name()+"."+name]; ok {
			return to[strings.Index(to, ".")+1:]
		}
	}
	return name
}


// boolTestAfter: call c's (single, boolean) result is what the rest of its block branches on (`if f()` / `if !f()`).
func (w *World) boolTestAfter(g *FG, c *ssa.Call) (onTrue, onFalse int, ok bool) {
	b := c.Block()
	pos := -1
	for i, in := range b.Instrs {
		if in == ssa.Instruction(c) {
			pos = i
		}
	}
	if pos < 0 || len(b.Succs) != 2 {
		return 0, 0, false
	}
	iff, isIf := b.Instrs[len(b.Instrs)-1].(*ssa.If)
	if !isIf {
		return 0, 0, false
	}
	for _, in := range b.Instrs[pos+1 : len(b.Instrs)-1] {
		switch in.(type) {
		case *ssa.UnOp, *ssa.DebugRef:
		default:
			return 0, 0, false
		}
	}
	t, f := g.first[b.Succs[0]], g.first[b.Succs[1]]
	cond := iff.Cond
	neg := false
	for {
		if u, isU := cond.(*ssa.UnOp); isU && u.Op == token.NOT {
			cond, neg = u.X, !neg
			continue
		}
		break
	}
	if cond != ssa.Value(c) {
		return 0, 0, false
	}
	if neg {
		return f, t, true
	}
	return t, f, true
}

// isPinnedFunc: fn existed under this name on the pinned tree.
func isPinnedFunc(fn *ssa.Function) bool { return fn != nil && pinnedFuncs[rawName(fn)] }
