package main

import (
	"encoding/json"
	"fmt"
	"go/ast"
	"go/parser"
	"go/token"
	"go/types"
	"os"
	"path/filepath"
	"sort"
	"strings"

	"golang.org/x/tools/go/packages"
	"golang.org/x/tools/go/ssa"
	"golang.org/x/tools/go/ssa/ssautil"
)

// In-process variant analysis: the dependencies' type information is loaded once (export data), each
// variant re-parses and re-type-checks only the five library packages from source (with the variant's
// files laid over /repo's) and builds a fresh SSA program. No `go list`, no compilation, nothing executed.

type depCache struct {
	deps  map[string]*types.Package
	extra map[string]bool // imports added by variants, already part of deps
	dirs map[string]string // library package -> directory
	base *World
}

func loadDeps(repo string) (*depCache, error) {
	w, err := loadWorld(repo, "quick")
	if err != nil {
		return nil, err
	}
	dc := &depCache{deps: map[string]*types.Package{}, dirs: map[string]string{}, base: w}
	packages.Visit(w.Pkgs, nil, func(p *packages.Package) {
		if p.Types != nil && !strings.HasPrefix(p.PkgPath, modPath) {
			dc.deps[p.PkgPath] = p.Types
		}
	})
	// packages.Visit only walks Imports that were loaded; make sure direct imports are present
	for _, p := range w.Pkgs {
		for path, ip := range p.Imports {
			if ip.Types != nil && !strings.HasPrefix(path, modPath) {
				dc.deps[path] = ip.Types
			}
		}
	}
	for _, l := range libPkgs {
		dc.dirs[l] = filepath.Join(repo, l)
	}
	return dc, nil
}

type variantImporter struct {
	dc    *depCache
	mods  map[string]*types.Package
	retry bool // the dependency universe was reloaded while this variant was being checked
}

func (vi *variantImporter) Import(path string) (*types.Package, error) {
	if p, ok := vi.mods[path]; ok {
		return p, nil
	}
	if p, ok := vi.dc.deps[path]; ok && p.Complete() && p.Name() != "" {
		return p, nil // (an indirect dependency is only a stub in the export data of its importers)
	}
	if path == "unsafe" {
		return types.Unsafe, nil
	}
	// an import the pinned tree does not have (a variant added one). Its types must come from the same universe as the
	// types the other dependencies mention (drpcmanager.Options has a field of type drpcstream.Options: loading
	// drpcstream on its own gives a second, incompatible drpcstream.Options). So all dependencies are loaded again in
	// one go, together with the new path, and the variant is type-checked again from the start.
	if !strings.HasPrefix(path, modPath) && !vi.dc.extra[path] {
		var paths []string
		for p := range vi.dc.deps {
			paths = append(paths, p)
		}
		sort.Strings(paths)
		paths = append(paths, path)
		cfg := &packages.Config{Mode: packages.NeedName | packages.NeedTypes | packages.NeedImports | packages.NeedDeps, Dir: vi.dc.base.Dir,
			Env: append(os.Environ(), "GOFLAGS=-mod=mod", "GOPROXY=off", "GOSUMDB=off", "GOTOOLCHAIN=local", "GOWORK=off")}
		if ps, err := packages.Load(cfg, paths...); err == nil {
			fresh := map[string]*types.Package{}
			okAll := true
			packages.Visit(ps, nil, func(p *packages.Package) {
				if p.Types != nil && !strings.HasPrefix(p.PkgPath, modPath) {
					fresh[p.PkgPath] = p.Types
				}
				if len(p.Errors) > 0 && p.PkgPath == path {
					okAll = false
				}
			})
			if okAll && fresh[path] != nil {
				vi.dc.deps = fresh
				if vi.dc.extra == nil {
					vi.dc.extra = map[string]bool{}
				}
				vi.dc.extra[path] = true
				vi.retry = true
				return nil, fmt.Errorf("dependency universe reloaded for %q: retry", path)
			}
		}
	}
	return nil, fmt.Errorf("import %q not available in the dependency cache", path)
}

// worldFromOverlay builds a World for repo with the files under overlayDir (same relative paths) replacing /repo's.
func (dc *depCache) worldFromOverlay(repo, overlayDir string) (*World, error) {
	w, retry, err := dc.worldFromOverlayOnce(repo, overlayDir)
	if err != nil && retry {
		w, _, err = dc.worldFromOverlayOnce(repo, overlayDir)
	}
	return w, err
}

func (dc *depCache) worldFromOverlayOnce(repo, overlayDir string) (*World, bool, error) {
	fset := token.NewFileSet()
	order := []string{"ringbuffer", "safemap", "actor", "remote", "cluster"}
	vi := &variantImporter{dc: dc, mods: map[string]*types.Package{}}
	prog := ssa.NewProgram(fset, ssa.InstantiateGenerics)
	created := map[*types.Package]bool{}
	var createDeps func(p *types.Package)
	createDeps = func(p *types.Package) {
		if created[p] || p == types.Unsafe {
			return
		}
		created[p] = true
		for _, ip := range p.Imports() {
			createDeps(ip)
		}
		if prog.Package(p) == nil {
			prog.CreatePackage(p, nil, nil, true)
		}
	}
	w := &World{Dir: repo, Tier: "quick", SP: map[string]*ssa.Package{}, TP: map[string]*packages.Package{},
		inMod: map[*ssa.Function]bool{}, sumMust: map[string]bool{}, sumMay: map[string]bool{}, fgs: map[*ssa.Function]*FG{}}
	for _, l := range order {
		dir := dc.dirs[l]
		ents, err := os.ReadDir(dir)
		if err != nil {
			return nil, vi.retry, err
		}
		var files []*ast.File
		for _, e := range ents {
			n := e.Name()
			if e.IsDir() || !strings.HasSuffix(n, ".go") || strings.HasSuffix(n, "_test.go") {
				continue
			}
			path := filepath.Join(dir, n)
			src := path
			if overlayDir != "" {
				if o := filepath.Join(overlayDir, l, n); fileExists(o) {
					src = o
				}
			}
			b, err := os.ReadFile(src)
			if err != nil {
				return nil, vi.retry, err
			}
			f, err := parser.ParseFile(fset, path, b, parser.SkipObjectResolution)
			if err != nil {
				return nil, vi.retry, fmt.Errorf("parse: %w", err)
			}
			files = append(files, f)
		}
		info := &types.Info{Types: map[ast.Expr]types.TypeAndValue{}, Defs: map[*ast.Ident]types.Object{}, Uses: map[*ast.Ident]types.Object{},
			Implicits: map[ast.Node]types.Object{}, Scopes: map[ast.Node]*types.Scope{}, Selections: map[*ast.SelectorExpr]*types.Selection{},
			Instances: map[*ast.Ident]types.Instance{}, FileVersions: map[*ast.File]string{}}
		var terr error
		conf := types.Config{Importer: vi, Sizes: types.SizesFor("gc", "amd64"), GoVersion: "go1.22", Error: func(e error) {
			if os.Getenv("HWCHECK_DEBUG") != "" {
				fmt.Fprintln(os.Stderr, "TYPE-ERROR", e)
			}
			if terr == nil {
				terr = e
			}
		}}
		tp, _ := conf.Check(modPath+"/"+l, fset, files, info)
		if terr != nil {
			return nil, vi.retry, fmt.Errorf("type-check errors in module: %v", terr)
		}
		vi.mods[modPath+"/"+l] = tp
		for _, ip := range tp.Imports() {
			createDeps(ip)
		}
		sp := prog.CreatePackage(tp, files, info, false)
		w.SP[l] = sp
	}
	prog.Build()
	w.Prog = prog
	w.Fset = fset
	addFn := func(fn *ssa.Function) {
		if fn == nil || fn.Blocks == nil || w.inMod[fn] {
			return
		}
		if p := fnPkgPath(fn); strings.HasPrefix(p, modPath) {
			w.inMod[fn] = true
			w.Funcs = append(w.Funcs, fn)
		}
	}
	for fn := range ssautil.AllFunctions(prog) {
		addFn(fn)
		if o := fn.Origin(); o != nil {
			addFn(o)
			for _, a := range o.AnonFuncs {
				addFn(a)
			}
		}
	}
	sort.Slice(w.Funcs, func(i, j int) bool { return w.Funcs[i].String() < w.Funcs[j].String() })
	return w, false, nil
}

func fileExists(p string) bool {
	st, err := os.Stat(p)
	return err == nil && !st.IsDir()
}

func resetCaches() {
	procRolesCache = map[*World]*procRoles{}
	inboxRolesCache = map[*World]*inboxRoles{}
	corrOf = map[*FG][]ssa.Value{}
	corrDone = map[*FG]bool{}
	fnAlias = map[*ssa.Function]string{}
	fieldAliasCache = map[*types.Struct]map[int]string{}
}

// sweepInProcess analyses every variant directory under vroot (shard i of n) with the given properties and
// prints one JSON line per variant: {"n","desc","compiles","fired":{prop:[keys]}}.
func sweepInProcess(repo, vroot string, propIDs []string, shard, nshards int, known map[string]bool) error {
	dc, err := loadDeps(repo)
	if err != nil {
		return err
	}
	ents, err := os.ReadDir(vroot)
	if err != nil {
		return err
	}
	var names []string
	for _, e := range ents {
		if e.IsDir() {
			names = append(names, e.Name())
		}
	}
	sort.Slice(names, func(i, j int) bool {
		a, b := names[i], names[j]
		if len(a) != len(b) {
			return len(a) < len(b)
		}
		return a < b
	})
	enc := json.NewEncoder(os.Stdout)
	for i, n := range names {
		if nshards > 1 && i%nshards != shard {
			continue
		}
		vdir := filepath.Join(vroot, n)
		desc := ""
		if b, err := os.ReadFile(filepath.Join(vdir, "desc.txt")); err == nil {
			desc = strings.SplitN(string(b), "\n", 2)[0]
		}
		res := map[string]any{"n": n, "desc": desc}
		resetCaches()
		w, err := dc.worldFromOverlay(repo, vdir)
		if err != nil {
			res["compiles"] = false
			res["error"] = err.Error()
			enc.Encode(res)
			continue
		}
		res["compiles"] = true
		prepareInlining(w)
		fired := map[string][]string{}
		for _, id := range propIDs {
			r := newReport(id)
			runGuarded(w, r, props[id])
			// vacuity check as in finish()
			counts := map[string]int{}
			for _, o := range r.Obs {
				counts[o.Rule]++
			}
			for rule, min := range r.minCounts {
				if counts[rule] < min {
					fired[id] = append(fired[id], rule+"|instance-count")
				}
			}
			for _, o := range r.Obs {
				if o.Verdict != Discharged && !known[o.Key] {
					fired[id] = append(fired[id], o.Key)
				}
			}
		}
		res["fired"] = fired
		enc.Encode(res)
	}
	return nil
}
