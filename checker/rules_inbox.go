package main

import (
	"fmt"
	"go/token"
	"go/types"
	"strings"

	"golang.org/x/tools/go/ssa"
)

func init() {
	register("C02", checkC02)
	register("C03", checkC03)
}

func isProcessMethod(w *World, fn *ssa.Function) bool {
	for f := fn; f != nil; f = f.Parent() {
		if f.Signature.Recv() != nil {
			n, _ := structOf(f.Signature.Recv().Type())
			return sameNamed(n, w.Named("actor", "process"))
		}
	}
	return false
}

func roleProblems(r *Report, rule string, ir *inboxRoles) bool {
	if len(ir.problems) > 0 {
		for _, p := range ir.problems {
			if strings.HasPrefix(p, "no CAS(idle->running)") {
				r.Fail(rule, "Inbox:worker-token", "the worker hand-off (Scheduler.Schedule) is guarded by the success edge of one atomic CAS(idle->running)", "-",
					"no compare-and-swap guards the hand-off (e.g. a load followed by a store): two senders can both see 'idle' and start two workers; deliveries overlap and reorder")
			}
		}
		r.Unknown(rule, "roles", "resolve the inbox roles (status word, scheduling function, worker, loop)", "-", strings.Join(ir.problems, "; "))
		return true
	}
	return false
}

// ---------------------------------------------------------------------------
// C02 — one message at a time
// ---------------------------------------------------------------------------

func checkC02(w *World, r *Report) {
	r.Rule("C02.R1", "the inbox status word is touched only through sync/atomic", 6)
	r.Rule("C02.R2", "status transitions: running only by CAS(idle->running); idle only by CAS(running->idle) or after CAS(stopped->starting); starting only by that CAS", 5)
	r.Rule("C02.R3", "every hand-off of the worker is guarded by the success edge of CAS(idle->running); the worker has no synchronous caller; schedulers run fn once", 3)
	r.Rule("C02.R4", "after releasing the token (CAS running->idle) the worker activation never reaches Processer.Invoke synchronously", 1)
	r.Rule("C02.R5", "Inbox.proc is published only inside Inboxer.Start, on the success edge of CAS(stopped->starting), before idle is stored", 1)
	r.Rule("C02.R7", "confinement: Receiver.Receive is invoked only by the process machine; Processer.Invoke only by the worker loop and the restart replay; the ring has one consumer", 5)
	r.Rule("C02.R6", "lifecycle deliveries in Start happen before the inbox can spawn a worker; no inbox restart after cleanup (typestate)", 1)

	ir := w.findInboxRoles()
	if roleProblems(r, "C02.R1", ir) {
		return
	}
	// R1
	bad := w.nonAtomicAccesses(ir.inbox, ir.statusField)
	r.Check(len(bad) == 0, "C02.R1", "Inbox."+ir.statusField+":plain-access", "no plain (non-atomic) access to the status word", w.fnPos(ir.send),
		"plain accesses: "+strings.Join(bad, ", "))
	for _, op := range ir.ops {
		r.OK("C02.R1", fmt.Sprintf("%s:%s", fname(op.fn), op), "atomic operation on the status word", w.pos(op.call.Pos()))
	}

	// R2 transition table
	for _, op := range ir.ops {
		if op.kind == "Load" {
			continue
		}
		key := fmt.Sprintf("%s:%s", fname(op.fn), op)
		site := w.pos(op.call.Pos())
		what := "allowed status transition"
		switch {
		case op.kind == "Add" || op.new == "" || (op.kind == "CAS" && op.old == ""):
			r.Unknown("C02.R2", key, what, site, "status written with a non-constant or arithmetic operand")
		case op.new == ir.running:
			r.Check(op.kind == "CAS" && op.old == ir.idle, "C02.R2", key, what, site,
				"'running' (the worker token) may only be taken by CAS(idle->running); this write can create a second worker")
		case op.new == ir.idle:
			if op.kind == "CAS" {
				r.Check(op.old == ir.running, "C02.R2", key, what, site, "'idle' may only be entered from 'running' by the worker itself, or by Start")
				break
			}
			ok := false
			if ir.startCAS != nil && op.fn == ir.startCAS.fn && ir.startCAS.old == ir.stopped {
				ok = op.g.OnlyVia(ir.startCAS.successEdges(), op.node)
			}
			r.Check(ok, "C02.R2", key, what, site,
				"an unconditional write of 'idle' outside the success edge of CAS(stopped->starting) lets a sender schedule a second worker while one is running")
		case op.new == ir.starting:
			r.Check(op.kind == "CAS" && op.old == ir.stopped && op.fn == ir.start, "C02.R2", key, what, site,
				"'starting' may only be entered from 'stopped' by CAS in Inboxer.Start")
		case op.new == ir.stopped:
			r.OK("C02.R2", key, what, site)
		default:
			r.Unknown("C02.R2", key, what, site, "write of an unknown status value "+op.new)
		}
	}

	// R3 hand-offs
	evS, evI := w.evSchedule(), w.evInvokeBatch()
	for _, fn := range w.Funcs {
		if !w.isLib(fn) {
			continue
		}
		g := w.FGI(fn)
		for n, in := range g.ins {
			cc := callOf(in)
			if cc == nil {
				continue
			}
			_, isGo := in.(*ssa.Go)
			handoff := false
			if evS.M(in) {
				handoff = true
			} else if isGo {
				if f := cc.StaticCallee(); f != nil && w.mayDo(f, evI, 0) {
					handoff = true
				}
				if mc, ok := cc.Value.(*ssa.MakeClosure); ok {
					if f, ok := mc.Fn.(*ssa.Function); ok && w.mayDo(f, evI, 0) {
						handoff = true
					}
				}
			}
			if !handoff {
				continue
			}
			key := fname(fn) + ":handoff"
			ok := false
			for _, op := range ir.schedSites {
				if op.fn == fn && g.OnlyVia(op.successEdges(), n) {
					ok = true
				}
			}
			r.Check(ok, "C02.R3", key, "worker hand-off is guarded by the success of CAS(idle->running)", w.pos(in.Pos()),
				"a worker is started without winning the idle->running token: two workers can run Receive concurrently")
		}
	}
	// worker has no synchronous caller
	if ir.worker != nil {
		var callers []string
		for _, fn := range w.Funcs {
			if fn.Synthetic != "" || fn == ir.workerWrap {
				continue
			}
			for _, ci := range w.callsIn(fn, EvCall("worker", ir.worker)) {
				callers = append(callers, fname(fn)+" at "+w.pos(ci.Pos()))
			}
		}
		r.Check(len(callers) == 0, "C02.R3", fname(ir.worker)+":no-direct-caller", "the worker function is entered only through the scheduler hand-off", w.fnPos(ir.worker),
			"direct calls: "+strings.Join(callers, ", "))
	}
	// scheduler implementations run fn exactly once, asynchronously or not, but once
	schedM := w.IfaceMethod("actor", "Scheduler", "Schedule")
	for _, fn := range w.Funcs {
		if !w.isLib(fn) || fn.Signature.Recv() == nil || fn.Name() != "Schedule" || schedM == nil || fn.Synthetic != "" {
			continue
		}
		if !types.Identical(fn.Signature.Params(), schedM.Type().(*types.Signature).Params()) {
			continue
		}
		g := w.FGI(fn)
		runs := make([]bool, len(g.ins))
		for n, in := range g.ins {
			if cc := callOf(in); cc != nil && len(fn.Params) == 2 && cc.Value == ssa.Value(fn.Params[1]) {
				runs[n] = true
			}
		}
		r.Check(g.Once(runs), "C02.R3", fname(fn)+":runs-fn-once", "a Scheduler runs the function it is given exactly once", w.fnPos(fn),
			"the scheduled function is run zero times or more than once per hand-off")
	}

	// R4
	if ir.worker != nil {
		g := w.FGI(ir.worker)
		inv := w.Nodes(g, evI, false)
		found := false
		for _, op := range ir.ops {
			if op.fn != ir.worker || op.kind != "CAS" || op.old != ir.running || op.new != ir.idle {
				continue
			}
			found = true
			ok, x := g.Never(op.node, inv)
			d := ""
			if !ok {
				d = "Processer.Invoke is reachable at " + w.pos(g.ins[x].Pos()) + " after the token was released: it can overlap with the next worker"
			}
			r.Check(ok, "C02.R4", fname(ir.worker)+":no-invoke-after-release", "no batch is processed after CAS(running->idle)", w.pos(op.call.Pos()), d)
		}
		if !found {
			r.Unknown("C02.R4", fname(ir.worker)+":release", "the worker releases the token with CAS(running->idle)", w.fnPos(ir.worker), "no CAS(running->idle) in the worker function")
		}
	}

	// R5
	if ir.procField != "" && ir.startCAS != nil {
		evP := EvStoreField(ir.inbox, ir.procField)
		n := 0
		for _, fn := range w.Funcs {
			g := w.FGI(fn)
			for _, x := range members(w.Nodes(g, Ev{Name: evP.Name, M: evP.M, Shallow: true}, false)) {
				st := g.ins[x].(*ssa.Store)
				if fa, ok := st.Addr.(*ssa.FieldAddr); ok {
					if _, fresh := fa.X.(*ssa.Alloc); fresh {
						continue
					}
				}
				n++
				ok := fn == ir.start && g.OnlyVia(ir.startCAS.successEdges(), x)
				if ok {
					// before the idle store
					for _, op := range ir.ops {
						if op.fn == fn && op.new == ir.idle && op.kind != "CAS" {
							if !g.Before(setOf(len(g.ins), x), op.node) {
								ok = false
							}
						}
					}
				}
				r.Check(ok, "C02.R5", fname(fn)+":publish-proc", "Inbox.proc is written only between CAS(stopped->starting) and the store of idle", w.pos(st.Pos()),
					"the processer is published outside the starting window: a concurrent worker may read it unsynchronised or see nil")
			}
		}
		if n == 0 {
			r.Unknown("C02.R5", "publish-proc", "Inboxer.Start publishes the processer", w.fnPos(ir.start), "no store to Inbox."+ir.procField+" found")
		}
	}

	// R7 confinement
	recvM := w.IfaceMethod("actor", "Receiver", "Receive")
	evRecv := EvInvoke("Receiver.Receive", recvM)
	var outsiders []string
	nRecv := 0
	for _, fn := range w.Funcs {
		if !w.isLib(fn) {
			continue
		}
		uses := len(w.callsIn(fn, evRecv))
		for _, in := range w.insOf(fn) {
			{
				if mc, ok := in.(*ssa.MakeClosure); ok {
					if f, ok := mc.Fn.(*ssa.Function); ok && f.Synthetic != "" && strings.HasSuffix(f.Name(), "Receive$bound") {
						uses++
					}
				}
			}
		}
		if uses == 0 || fn.Synthetic != "" {
			continue
		}
		nRecv += uses
		if !isProcessMethod(w, fn) {
			outsiders = append(outsiders, fname(fn))
		}
	}
	r.Check(len(outsiders) == 0 && nRecv > 0, "C02.R7", "Receiver.Receive:callers", "only methods of actor.process deliver to a Receiver", w.fnPos(w.Method("actor", "process", "Start")),
		fmt.Sprintf("delivery sites outside the process machine: %v (sites=%d)", outsiders, nRecv))

	var invOut []string
	nInv := 0
	for _, fn := range w.Funcs {
		if !w.isLib(fn) {
			continue
		}
		for _, ci := range w.callsIn(fn, evI) {
			nInv++
			if fn != ir.loop || callKind(ci) != "call" {
				invOut = append(invOut, fname(fn)+"("+callKind(ci)+")")
			}
		}
		pinv := w.Method("actor", "process", "Invoke")
		for _, ci := range w.callsIn(fn, EvCall("process.Invoke", pinv)) {
			nInv++
			if fn != w.Method("actor", "process", "Start") || callKind(ci) != "call" {
				invOut = append(invOut, fname(fn)+"("+callKind(ci)+")")
			}
		}
	}
	r.Check(len(invOut) == 0 && nInv >= 2, "C02.R7", "Processer.Invoke:callers", "batches are processed only by the worker loop and by Start's replay, synchronously", w.fnPos(ir.loop),
		fmt.Sprintf("other callers: %v (sites=%d)", invOut, nInv))

	pstart := w.Method("actor", "process", "Start")
	var startOut []string
	nStart := 0
	for _, fn := range w.Funcs {
		if !w.isLib(fn) {
			continue
		}
		for _, ci := range w.callsIn(fn, EvCall("process.Start", pstart)) {
			nStart++
			if !isProcessMethod(w, fn) || callKind(ci) != "call" {
				startOut = append(startOut, fname(fn)+"("+callKind(ci)+")")
			}
		}
		for _, ci := range w.callsIn(fn, EvInvoke("Processer.Start", w.IfaceMethod("actor", "Processer", "Start"))) {
			nStart++
			if fn != w.Method("actor", "Registry", "add") || callKind(ci) != "call" {
				startOut = append(startOut, fname(fn)+"("+callKind(ci)+")")
			}
		}
	}
	r.Check(len(startOut) == 0 && nStart >= 2, "C02.R7", "Processer.Start:callers", "a process is started only by Registry.add and by its own restart path, synchronously", w.fnPos(pstart),
		fmt.Sprintf("other callers: %v (sites=%d)", startOut, nStart))

	var shut []string
	for _, fn := range w.Funcs {
		if !w.isLib(fn) {
			continue
		}
		for range w.callsIn(fn, EvInvoke("Processer.Shutdown", w.IfaceMethod("actor", "Processer", "Shutdown"))) {
			shut = append(shut, fname(fn))
		}
		for range w.callsIn(fn, EvCall("process.Shutdown", w.Method("actor", "process", "Shutdown"))) {
			shut = append(shut, fname(fn))
		}
	}
	r.Check(len(shut) == 0, "C02.R7", "Processer.Shutdown:callers", "no library code shuts a process down from a foreign goroutine", w.fnPos(w.Method("actor", "process", "Shutdown")),
		fmt.Sprintf("callers: %v", shut))

	// single consumer of the inbox ring
	var popOut []string
	nPop := 0
	for _, fn := range w.Funcs {
		if !w.isLib(fn) || fnPkgPath(fn) != modPath+"/actor" {
			continue
		}
		for _, in := range w.insOf(fn) {
			{
				if c := callOf(in); c != nil && c.StaticCallee() != nil {
					o := origin(c.StaticCallee())
					if (o.Name() == "PopN" || o.Name() == "Pop") && strings.Contains(o.String(), "ringbuffer") {
						nPop++
						if fn != ir.loop {
							popOut = append(popOut, fname(fn))
						}
					}
				}
			}
		}
	}
	r.Check(len(popOut) == 0 && nPop >= 1, "C02.R7", "Inbox.ring:consumers", "the inbox ring is consumed only by the worker loop", w.fnPos(ir.loop),
		fmt.Sprintf("other consumers: %v", popOut))

	// the scheduler field cannot be replaced after construction
	var schedW []string
	for _, fn := range w.Funcs {
		for _, in := range w.insOf(fn) {
			{
				if st, ok := in.(*ssa.Store); ok {
					if fa, ok := st.Addr.(*ssa.FieldAddr); ok && isFieldOf(fa, ir.inbox, "scheduler") {
						if _, fresh := fa.X.(*ssa.Alloc); !fresh {
							schedW = append(schedW, fname(fn))
						}
					}
				}
			}
		}
	}
	r.Check(len(schedW) == 0, "C02.R7", "Inbox.scheduler:writers", "the scheduler of an inbox is fixed at construction", w.fnPos(w.Func("actor", "NewInbox")),
		fmt.Sprintf("writers: %v", schedW))
	// ... and a process keeps the inbox it was built with: a worker that is inside the old inbox's loop when the field
	// is replaced goes on draining it, next to the worker of the new one
	{
		procT := w.Named("actor", "process")
		var inboxW []string
		for _, fn := range w.Funcs {
			if !w.isLib(fn) {
				continue
			}
			for _, in := range w.insOf(fn) {
				if st, ok := in.(*ssa.Store); ok {
					if fa, ok := st.Addr.(*ssa.FieldAddr); ok && procT != nil && isFieldOf(fa, procT, "inbox") {
						if _, fresh := fa.X.(*ssa.Alloc); !fresh {
							inboxW = append(inboxW, fname(fn)+" at "+w.pos(st.Pos()))
						}
					}
				}
			}
		}
		r.Check(len(inboxW) == 0, "C02.R7", "process.inbox:writers", "the inbox of a process is fixed at construction", w.fnPos(w.Func("actor", "NewInbox")),
			fmt.Sprintf("replaced by %v: two inboxes, two workers, one receiver", inboxW))
	}

	// R6 / R8 from the typestate engine
	r.Rule("C02.R8", "the worker loop re-reads the status before every batch (a stopped process gets no further batch); Inbox.Stop stores 'stopped'; the machine starts no goroutine", 4)
	checkLoopStatus(w, r, "C02.R8")
	checkInboxStopStores(w, r, "C02.R8")
	checkNoGoroutinesInMachine(w, r, "C02.R8")
	lta := w.findProcRoles().lta
	if lta == nil {
		r.Unknown("C02.R6", "lta", "typestate engine", "-", "actor.process not found")
		return
	}
	lta.export(r, "C02.R6", []string{"delivery-concurrent-with-worker", "inbox-started-after-cleanup", "inbox-reopened-by-worker", "spawn-leaves-inbox-closed"}, "no delivery on the spawning goroutine once the inbox is open; no inbox restart after cleanup")
}

// checkLoopStatus: the worker loop re-reads the status word before every batch and leaves when
// the inbox was stopped (by the batch it just processed): shared by C02, C04, C07.
func checkLoopStatus(w *World, r *Report, rule string) {
	ir := w.findInboxRoles()
	if roleProblems(r, rule, ir) {
		return
	}
	g := w.FGI(ir.loop)
	key := fname(ir.loop) + ":status-before-every-batch"
	what := "the worker loop loads the status before each Processer.Invoke and exits when it is 'stopped'"
	// edges on which the freshly loaded status is known to differ from 'stopped'
	var loads []bool = make([]bool, len(g.ins))
	alive, _ := g.CondEdges(func(v ssa.Value) (bool, bool) {
		b, ok := v.(*ssa.BinOp)
		if !ok {
			return false, false
		}
		for _, pair := range [][2]ssa.Value{{b.X, b.Y}, {b.Y, b.X}} {
			if c, ok := pair[0].(*ssa.Call); ok && constStr(pair[1]) == ir.stopped {
				for _, op := range ir.ops {
					if op.call == c && op.kind == "Load" {
						loads[op.node] = true
						switch b.Op {
						case token.NEQ:
							return true, true
						case token.EQL:
							return false, true
						}
					}
				}
			}
		}
		return false, false
	})
	inv := w.Nodes(g, Ev{Name: "inv", M: w.evInvokeBatch().M, Shallow: true}, false)
	ok := len(alive) > 0 && anyOf(inv)
	detail := "no status load compared with 'stopped' guards the batch hand-off"
	for _, v := range members(inv) {
		if !g.OnlyVia(alive, v) {
			ok = false
			detail = "a batch can be handed over without the not-stopped edge of a status load"
		}
		// between two hand-offs the status must be loaded again
		reach := g.reach(g.succ[v], loads, nil)
		for _, v2 := range members(inv) {
			if reach[v2] {
				ok = false
				detail = "a second batch can be handed to the process without re-reading the status: after a poison pill (or the exhausted restart budget) stopped the actor in one batch, the next batch is still delivered - user messages after Stopped, a second cleanup"
			}
		}
	}
	r.Check(ok, rule, key, what, w.fnPos(ir.loop), detail)
}

// ---------------------------------------------------------------------------
// C03 — no lost wake-up
// ---------------------------------------------------------------------------

// emptinessCheck recognises `Len() > 0` style conditions over a call of RingBuffer.Len and
// reports the polarity on which the ring is known to be NON-empty.
func emptinessCheck(v ssa.Value) (lenCall *ssa.Call, nonEmptyWhenTrue bool, ok bool) {
	b, isB := v.(*ssa.BinOp)
	if !isB {
		return nil, false, false
	}
	isLen := func(x ssa.Value) *ssa.Call {
		if cv, ok := x.(*ssa.Convert); ok {
			x = cv.X
		}
		c, ok := x.(*ssa.Call)
		if !ok || c.Call.StaticCallee() == nil {
			return nil
		}
		o := origin(c.Call.StaticCallee())
		if o.Name() == "Len" && strings.Contains(o.String(), "ringbuffer") {
			return c
		}
		return nil
	}
	op := b.Op
	x, y := b.X, b.Y
	if isLen(y) != nil && isLen(x) == nil {
		// k OP len  ->  len OP' k
		x, y = y, x
		switch op {
		case token.LSS:
			op = token.GTR
		case token.GTR:
			op = token.LSS
		case token.LEQ:
			op = token.GEQ
		case token.GEQ:
			op = token.LEQ
		}
	}
	c := isLen(x)
	k := constStr(y)
	if c == nil || k == "" {
		return nil, false, false
	}
	switch {
	case op == token.GTR && k == "0", op == token.NEQ && k == "0", op == token.GEQ && k == "1":
		return c, true, true
	case op == token.EQL && k == "0", op == token.LEQ && k == "0", op == token.LSS && k == "1":
		return c, false, true
	}
	return c, false, false
}

func checkC03(w *World, r *Report) {
	r.Rule("C03.R1", "Inbox.Send pushes first and then always tries to schedule", 2)
	r.Rule("C03.R2", "the worker re-checks the ring AFTER releasing the token and reschedules if it is not empty", 1)
	r.Rule("C03.R3", "Inboxer.Start schedules after storing idle (messages accepted before Start are not stranded)", 1)
	r.Rule("C03.R5", "RingBuffer.Push makes the element visible to Len before it returns", 1)

	ir := w.findInboxRoles()
	if roleProblems(r, "C03.R1", ir) {
		return
	}
	evSched := ir.evSched()
	push := w.Method("ringbuffer", "RingBuffer", "Push")
	evPush := EvCall("RingBuffer.Push", push)

	// R1
	{
		g := w.FGI(ir.send)
		P := w.Nodes(g, evPush, true)
		Smust := w.Nodes(g, evSched, true)
		Smay := w.Nodes(g, evSched, false)
		r.Check(g.AfterEntry(P), "C03.R1", fname(ir.send)+":push", "every Send pushes the envelope", w.fnPos(ir.send), "a path through Send does not push")
		ok := anyOf(P)
		for _, p := range members(P) {
			if !g.After(p, Smust) {
				ok = false
			}
		}
		for _, s := range members(Smay) {
			if !g.Before(P, s) {
				ok = false
			}
		}
		// hand-offs must be plain calls
		for _, ci := range w.callsIn(ir.send, EvOr("push|schedule", evPush, evSched)) {
			if callKind(ci) != "call" {
				ok = false
			}
		}
		r.Check(ok, "C03.R1", fname(ir.send)+":push-then-schedule", "after the push, every path tries to schedule; no schedule attempt precedes the push", w.fnPos(ir.send),
			"Send can return without a schedule attempt after its push, or schedules before pushing: a message can be stranded in an idle inbox")
	}

	// R2
	if ir.worker != nil {
		g := w.FGI(ir.worker)
		S := w.Nodes(g, evSched, true)
		var rel *atomicOp
		for i := range ir.ops {
			op := &ir.ops[i]
			if op.fn == ir.worker && op.kind == "CAS" && op.old == ir.running && op.new == ir.idle {
				rel = op
			}
		}
		key := fname(ir.worker) + ":recheck-after-release"
		what := "after CAS(running->idle) succeeds the ring is re-checked and a non-empty ring is rescheduled"
		if rel == nil {
			r.Unknown("C03.R2", key, what, w.fnPos(ir.worker), "the worker has no CAS(running->idle)")
		} else {
			se := rel.successEdges()
			ok := false
			detail := "no emptiness re-check (Len() > 0 / != 0 / >= 1) on the success edge of the release CAS that leads to a reschedule"
			if g.After(rel.node, S) {
				ok = true // unconditional reschedule
			}
			for n, in := range g.ins {
				iff, isIf := in.(*ssa.If)
				if !isIf {
					continue
				}
				lc, nonEmptyTrue, rec := emptinessCheck(iff.Cond)
				if lc == nil {
					continue
				}
				if !rec {
					detail = "unrecognised emptiness test " + w.pathOf(iff.Cond) + " at " + w.pos(iff.Cond.Pos())
					continue
				}
				lenNode := g.idx[lc]
				if !g.OnlyVia(se, n) || !g.OnlyVia(se, lenNode) {
					detail = "the ring is examined before the token is released (" + w.pos(lc.Pos()) + "): a message pushed in between is missed by both sides"
					continue
				}
				e, _ := g.EdgeOf(n, nonEmptyTrue)
				reach := g.reach([]int{e.to}, S, nil)
				stranded := false
				for _, x := range g.returns {
					if reach[x] {
						stranded = true
					}
				}
				if stranded {
					detail = "the non-empty edge of the re-check can return without rescheduling"
					continue
				}
				ok = true
			}
			r.Check(ok, "C03.R2", key, what, w.pos(rel.call.Pos()), detail)
		}
		// every hand-off gives the scheduler that worker: a goroutine started on anything else (the bare loop) never
		// releases the token, and no later Send can schedule again
		var odd []string
		for _, h := range ir.handed {
			if h.fn != ir.worker {
				n := "an unresolved function value"
				if h.fn != nil {
					n = fname(h.fn)
				}
				odd = append(odd, fmt.Sprintf("%s hands over %s", h.pos, n))
			}
		}
		r.Check(len(odd) == 0, "C03.R2", "Inbox:hand-off-target", "every hand-off to the scheduler starts the function that releases the token and re-checks the ring", w.fnPos(ir.worker),
			strings.Join(odd, "; ")+": that goroutine drains and returns with the status still running; nothing can schedule the inbox again")
	}

	// R3
	{
		g := w.FGI(ir.start)
		S := w.Nodes(g, evSched, true)
		found := false
		for _, op := range ir.ops {
			if op.fn == ir.start && op.new == ir.idle && op.kind != "Load" {
				found = true
				r.Check(g.After(op.node, S), "C03.R3", fname(ir.start)+":schedule-after-idle", "Start tries to schedule once the inbox is idle", w.pos(op.call.Pos()),
					"messages accepted before Start stay in the ring until some later Send")
			}
		}
		if !found {
			r.Unknown("C03.R3", fname(ir.start)+":schedule-after-idle", "Start stores idle and schedules", w.fnPos(ir.start), "no store of idle in Start")
		}
	}

	// R7: the inbox becomes idle only where a re-check follows: in the worker's epilogue (R2) and in Start (R3). Any
	// other transition to idle (a scheduler that "backs off", a reset) can strand a message pushed just before it.
	{
		r.Rule("C03.R7", "only the worker's release and Inboxer.Start make the inbox idle; the process machine opens the inbox on every successful (re)start", 2)
		var others []string
		for _, op := range ir.ops {
			if op.new != ir.idle || ir.idle == "" {
				continue
			}
			if (op.fn == ir.worker && op.kind == "CAS" && op.old == ir.running) || op.fn == ir.start {
				continue
			}
			others = append(others, fmt.Sprintf("%s at %s", op.String(), w.pos(op.call.Pos())))
		}
		r.Check(len(others) == 0, "C03.R7", "Inbox.status:idle-writers", "only the worker's release and Start make the inbox idle", w.fnPos(ir.send),
			"the status is also set to idle by "+strings.Join(others, "; ")+": no re-check of the ring follows that transition, a message pushed just before it stays in an idle inbox")
		if r.Prop == "C03" {
			if pr := w.findProcRoles(); !pr.fail(r, "C03.R7") && pr.lta != nil {
				pr.lta.export(r, "C03.R7", []string{"spawn-leaves-inbox-closed"}, "a process that finished Start has its inbox open, whatever happened on the way (crash in Initialized/Started, restart)")
			}
		}
	}
	if r.Prop == "C03" {
		// accepted messages that wait in the crash buffer (behind a failing message) are handed to the restarted actor
		r.Rule("C03.R8", "what was accepted and then set aside by a crash is processed after the restart: the crash buffer is neither dropped nor cleared before its replay (C05.R2)", 1)
		importRules(w, r, checkC05, "C05", "C03.R8", func(o *Obligation) bool {
			return o.Rule == "C05.R2" && (strings.HasPrefix(o.Key, "C05.R2|restart-buffer-dropped") || strings.HasSuffix(o.Key, ":clears-replayed-buffer") || strings.HasSuffix(o.Key, ":replay-before-inbox"))
		})
	}
	// R6: Len() is what the re-check reads: its accounting must be sound under concurrency
	if r.Prop == "C03" {
		r.Rule("C03.R6", "the ring's length accounting and locking are sound (C14.R1-R3): Len() never under-reports a pushed element", 8)
		importRules(w, r, checkC14, "C14", "C03.R6", func(o *Obligation) bool { return o.Rule == "C14.R1" || o.Rule == "C14.R2" || o.Rule == "C14.R3" })
	}
	// R5
	if push == nil {
		r.Unknown("C03.R5", "RingBuffer.Push:len", "Push increments len", "-", "RingBuffer.Push not found")
	} else {
		g := w.FGI(push)
		rb := w.Named("ringbuffer", "RingBuffer")
		inc := make([]bool, len(g.ins))
		for _, op := range w.atomicOpsOn(rb, "len") {
			if op.fn == push && op.kind == "Add" && op.new == "1" {
				inc[op.node] = true
			}
		}
		r.Check(g.AfterEntry(inc), "C03.R5", "RingBuffer.Push:len", "Push increments the atomic length before returning", w.fnPos(push),
			"a Push can return without Len() reflecting it: the worker's re-check misses the message")
	}
}

var _ = fmt.Sprint
