package main

import (
	"bytes"
	"fmt"
	"go/ast"
	"go/format"
	"go/parser"
	"go/token"
	"os"
	"path/filepath"
	"strings"
)

// genVariants writes single-edit variants of the hand-written library files of repo into out/<n>/.
// Each variant directory holds the replaced file (same relative path) and desc.txt.
// This only produces programs to be ANALYSED (the sensitivity sweep); nothing is executed here.
func genVariants(repo, out string) error {
	n := 0
	for _, pkg := range libPkgs {
		files, _ := filepath.Glob(filepath.Join(repo, pkg, "*.go"))
		for _, f := range files {
			base := filepath.Base(f)
			if strings.HasSuffix(base, "_test.go") || strings.Contains(base, ".pb.go") || base == "consul_provider.go" {
				continue
			}
			src, err := os.ReadFile(f)
			if err != nil {
				return err
			}
			rel, _ := filepath.Rel(repo, f)
			k, err := variantsOfFile(rel, src, out, &n)
			if err != nil {
				return err
			}
			_ = k
		}
	}
	fmt.Println("variants:", n)
	return nil
}

type edit struct {
	desc  string
	apply func() (undo func())
}

func variantsOfFile(rel string, src []byte, out string, counter *int) (int, error) {
	fset := token.NewFileSet()
	file, err := parser.ParseFile(fset, rel, src, parser.ParseComments)
	if err != nil {
		return 0, err
	}
	var edits []edit
	pos := func(n ast.Node) string { return fmt.Sprintf("%s:%d", rel, fset.Position(n.Pos()).Line) }
	isLog := func(s ast.Stmt) bool {
		es, ok := s.(*ast.ExprStmt)
		if !ok {
			return false
		}
		var b bytes.Buffer
		format.Node(&b, fset, es.X)
		return strings.HasPrefix(b.String(), "slog.") || strings.HasPrefix(b.String(), "fmt.Print") || strings.HasPrefix(b.String(), "log.")
	}
	for _, d := range file.Decls {
		fd, ok := d.(*ast.FuncDecl)
		if !ok || fd.Body == nil {
			continue
		}
		fname := fd.Name.Name
		ast.Inspect(fd.Body, func(nd ast.Node) bool {
			switch x := nd.(type) {
			case *ast.BlockStmt:
				list := x.List
				for i := range list {
					i := i
					s := list[i]
					if isLog(s) {
						continue
					}
					switch st := s.(type) {
					case *ast.ExprStmt, *ast.IncDecStmt, *ast.DeferStmt, *ast.GoStmt, *ast.SendStmt:
						edits = append(edits, edit{"delete-stmt " + fname + " " + pos(s), func() func() {
							old := x.List[i]
							x.List[i] = &ast.EmptyStmt{Semicolon: old.Pos()}
							return func() { x.List[i] = old }
						}})
					case *ast.AssignStmt:
						if st.Tok == token.ASSIGN || st.Tok == token.ADD_ASSIGN || st.Tok == token.SUB_ASSIGN {
							edits = append(edits, edit{"delete-assign " + fname + " " + pos(s), func() func() {
								old := x.List[i]
								x.List[i] = &ast.EmptyStmt{Semicolon: old.Pos()}
								return func() { x.List[i] = old }
							}})
						}
					case *ast.ReturnStmt:
						_ = st
					}
					// keyword edits
					switch st := s.(type) {
					case *ast.DeferStmt:
						edits = append(edits, edit{"defer->call " + fname + " " + pos(s), func() func() {
							old := x.List[i]
							x.List[i] = &ast.ExprStmt{X: st.Call}
							return func() { x.List[i] = old }
						}})
					case *ast.GoStmt:
						edits = append(edits, edit{"go->call " + fname + " " + pos(s), func() func() {
							old := x.List[i]
							x.List[i] = &ast.ExprStmt{X: st.Call}
							return func() { x.List[i] = old }
						}})
					case *ast.ExprStmt:
						if call, ok := st.X.(*ast.CallExpr); ok {
							edits = append(edits, edit{"call->go " + fname + " " + pos(s), func() func() {
								old := x.List[i]
								x.List[i] = &ast.GoStmt{Go: old.Pos(), Call: call}
								return func() { x.List[i] = old }
							}})
						}
					}
					// swap with next statement (both simple)
					if i+1 < len(list) && !isLog(list[i+1]) {
						simple := func(s ast.Stmt) bool {
							switch s.(type) {
							case *ast.ExprStmt, *ast.AssignStmt, *ast.IncDecStmt:
								return true
							}
							return false
						}
						if simple(list[i]) && simple(list[i+1]) {
							edits = append(edits, edit{"swap-stmts " + fname + " " + pos(s), func() func() {
								x.List[i], x.List[i+1] = x.List[i+1], x.List[i]
								return func() { x.List[i], x.List[i+1] = x.List[i+1], x.List[i] }
							}})
						}
					}
				}
			case *ast.IfStmt:
				edits = append(edits, edit{"negate-if " + fname + " " + pos(x), func() func() {
					old := x.Cond
					x.Cond = &ast.UnaryExpr{Op: token.NOT, X: &ast.ParenExpr{X: old}}
					return func() { x.Cond = old }
				}})
			case *ast.BinaryExpr:
				var alt token.Token
				switch x.Op {
				case token.LSS:
					alt = token.LEQ
				case token.LEQ:
					alt = token.LSS
				case token.GTR:
					alt = token.GEQ
				case token.GEQ:
					alt = token.GTR
				case token.LAND:
					alt = token.LOR
				case token.LOR:
					alt = token.LAND
				case token.ADD:
					if lit, ok := x.Y.(*ast.BasicLit); ok && lit.Kind == token.INT {
						alt = token.SUB
					}
				case token.SUB:
					if lit, ok := x.Y.(*ast.BasicLit); ok && lit.Kind == token.INT {
						alt = token.ADD
					}
				}
				if alt != token.ILLEGAL {
					edits = append(edits, edit{fmt.Sprintf("binop %s->%s %s %s", x.Op, alt, fname, pos(x)), func() func() {
						old := x.Op
						x.Op = alt
						return func() { x.Op = old }
					}})
				}
			}
			return true
		})
	}
	for _, e := range edits {
		undo := e.apply()
		var b bytes.Buffer
		err := format.Node(&b, fset, file)
		undo()
		if err != nil {
			continue
		}
		*counter++
		dir := filepath.Join(out, fmt.Sprint(*counter))
		os.MkdirAll(filepath.Join(dir, filepath.Dir(rel)), 0o755)
		os.WriteFile(filepath.Join(dir, rel), b.Bytes(), 0o644)
		os.WriteFile(filepath.Join(dir, "desc.txt"), []byte(e.desc+"\n"+rel+"\n"), 0o644)
	}
	return len(edits), nil
}
