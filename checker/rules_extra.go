package main

import (
	"fmt"
	"go/token"
	"go/types"
	"strings"

	"golang.org/x/tools/go/ssa"
)

// importRules runs another property's check and re-files selected rules under a rule of the
// current property (the same structural condition is necessary for both properties).
func importRules(w *World, r *Report, from propCheck, fromProp, toRule string, keep func(o *Obligation) bool) {
	r2 := newReport(fromProp)
	from(w, r2)
	for _, o := range r2.Obs {
		construct := o.Key
		if i := strings.Index(construct, "|"); i >= 0 {
			construct = construct[i+1:]
		}
		// a check that could not resolve its roles produced none of the obligations the filter would have kept: what is
		// imported from it is undecided as well
		unresolved := o.Verdict != "discharged" && (construct == "roles" || construct == "anchors")
		if keep != nil && !keep(o) && !unresolved {
			continue
		}
		r.add(toRule, o.Rule+":"+construct, o.What, o.Site, o.Verdict, o.Detail)
	}
}

// checkSenderFresh: the Context shows the sender of the message being delivered (not of an earlier one).
func checkSenderFresh(w *World, r *Report, rule string) {
	pr := w.findProcRoles()
	if pr.fail(r, rule) {
		return
	}
	g := w.FGI(pr.deliverFn)
	snd := make([]bool, len(g.ins))
	for i, in := range g.ins {
		if st, ok := in.(*ssa.Store); ok {
			if fa, ok := st.Addr.(*ssa.FieldAddr); ok && isFieldOf(fa, pr.ctxT, "sender") && w.pathOf(st.Val) == "P1.Sender" {
				snd[i] = true
			}
		}
	}
	D := w.Nodes(g, pr.evDeliver(), false)
	ok := anyOf(snd) && anyOf(D)
	for _, d := range members(D) {
		if !g.Before(snd, d) {
			ok = false
		}
	}
	r.Check(ok, rule, fname(pr.deliverFn)+":sender-of-this-delivery", "Context.sender is overwritten with the envelope's Sender (nil included) before every delivery", w.fnPos(pr.deliverFn),
		"a message without sender is handled with the previous message's sender: Respond answers somebody else's pending request")
	cr := w.Method("actor", "Context", "Respond")
	if cr != nil {
		okR := false
		for _, ci := range w.callsIn(cr, EvCall("Send", w.Method("actor", "Engine", "Send"), w.sendAnchors().esend)) {
			if w.pathOf(ci.Common().Args[1]) == "P0.sender" {
				okR = true
			}
		}
		r.Check(okR, rule, "Context.Respond:uses-context-sender", "Respond targets the Context's current sender", w.fnPos(cr), "Respond does not use c.sender")
	}
}

// checkDefaultOptsFresh: every spawn gets its own middleware slice.
func checkDefaultOptsFresh(w *World, r *Report, rule string) {
	fn := w.Func("actor", "DefaultOpts")
	optsT := w.Named("actor", "Opts")
	if fn == nil || optsT == nil {
		r.Unknown(rule, "DefaultOpts", "actor.DefaultOpts exists", "-", "not found")
		return
	}
	ok := false
	detail := "no Opts literal"
	for _, al := range w.allocsOf(fn, optsT) {
		fs, lit := w.litFields(al)
		if !lit {
			continue
		}
		p := w.pathOf(fs["Middleware"])
		if fs["Middleware"] == nil || p == "K:nil" || strings.HasPrefix(p, "&alloc:") || strings.HasPrefix(p, "makeslice(") {
			ok = true
		} else {
			detail = "Opts.Middleware starts from " + p + ", shared by every spawn: WithMiddleware appends into the same backing array, so one actor's chain is overwritten by the next spawn"
		}
	}
	r.Check(ok, rule, "DefaultOpts:fresh-middleware-slice", "each spawn starts from its own (fresh or nil) middleware slice", w.fnPos(fn), detail)
	// option functions only touch the Opts they are given
	var bad []string
	for _, f := range w.Funcs {
		if !w.isLib(f) || fnPkgPath(f) != modPath+"/actor" {
			continue
		}
		for _, in := range w.insOf(f) {
			{
				if st, isSt := in.(*ssa.Store); isSt {
					if fa, isFA := st.Addr.(*ssa.FieldAddr); isFA && isFieldOf(fa, optsT, "Middleware") {
						v := w.pathOf(st.Val)
						if strings.Contains(v, "G:") {
							bad = append(bad, fname(f)+": "+v)
						}
					}
				}
			}
		}
	}
	r.Check(len(bad) == 0, rule, "Opts.Middleware:no-global", "no option stores a package-level slice into Opts.Middleware", w.fnPos(fn), strings.Join(bad, "; "))
}

// checkSingleDeadLetter: on every path of the poison-pill sender at most one dead letter can be published.
func checkSingleDeadLetter(w *World, r *Report, rule string) {
	for _, fn := range []*ssa.Function{w.Method("actor", "Engine", "sendPoisonPill"), w.Method("actor", "Engine", "SendLocal"), w.sendAnchors().esend} {
		if fn == nil {
			continue
		}
		g := w.FGI(fn)
		DL := w.Nodes(g, w.evBroadcast("actor", "DeadLetterEvent"), false)
		ok, x := g.AtMostOnce(DL)
		d := ""
		if !ok {
			d = "a second DeadLetterEvent can follow at " + w.pos(g.ins[x].Pos()) + " on the same path (e.g. the miss branch falls through into SendLocal)"
		}
		r.Check(ok && anyOf(DL), rule, fname(fn)+":at-most-one-dead-letter", "no path publishes two DeadLetterEvents for one send", w.fnPos(fn), d)
	}
}

// checkContextFixed: a process keeps one Context for its whole life (children and parent link live in it).
func checkContextFixed(w *World, r *Report, rule string) {
	procT := w.Named("actor", "process")
	if procT == nil {
		r.Unknown(rule, "process.context:writers", "actor.process", "-", "not found")
		return
	}
	var writers []string
	for _, fn := range w.Funcs {
		if !w.isLib(fn) || fnPkgPath(fn) != modPath+"/actor" {
			continue
		}
		for _, in := range w.insOf(fn) {
			{
				if st, ok := in.(*ssa.Store); ok {
					if fa, ok := st.Addr.(*ssa.FieldAddr); ok && isFieldOf(fa, procT, "context") {
						if _, fresh := fa.X.(*ssa.Alloc); !fresh {
							writers = append(writers, fname(fn)+" at "+w.pos(st.Pos()))
						}
					}
				}
			}
		}
	}
	r.Check(len(writers) == 0, rule, "process.context:writers", "the process's Context (children map, parent link) is created once by the constructor and never replaced", w.fnPos(w.Func("actor", "newProcess")),
		"the Context is replaced at "+strings.Join(writers, ", ")+": after a restart the actor forgets its children (they are no longer stopped with it, Children() is empty) or its parent")
}

// checkCancelDeferred: the stop function's cancel runs even if the Stopped handler panics.
func checkCancelDeferred(w *World, r *Report, rule string) {
	pr := w.findProcRoles()
	if pr.fail(r, rule) {
		return
	}
	g := w.FGI(pr.stopFn)
	var cancelP *ssa.Parameter
	for _, p := range pr.stopFn.Params {
		if isCancelFunc(p.Type()) {
			cancelP = p
		}
	}
	if cancelP == nil {
		r.Unknown(rule, fname(pr.stopFn)+":cancel-deferred", "the stop function takes the caller's cancel", w.fnPos(pr.stopFn), "no CancelFunc parameter")
		return
	}
	def := make([]bool, len(g.ins))
	for _, d := range g.defers {
		if g.ins[d].(*ssa.Defer).Call.Value == ssa.Value(cancelP) {
			def[d] = true
		}
	}
	isNil, _ := w.nilEdges(g, "P1")
	cut := map[Edge]bool{}
	for _, e := range isNil {
		cut[e] = true
	}
	reach := g.reach(g.entry(), def, cut)
	ok := anyOf(def)
	for _, d := range members(w.Nodes(g, pr.evDeliver(), false)) {
		if reach[d] {
			ok = false
		}
	}
	// also nothing that can block or panic in user code before the defer: the children wait
	r.Check(ok, rule, fname(pr.stopFn)+":cancel-deferred", "a non-nil cancel is deferred before the Stopped delivery, so it also runs when the Stopped handler panics", w.fnPos(pr.stopFn),
		"cancel is called by a plain statement after the Stopped delivery: a panic in the Stopped handler unwinds past it and the Stop/Poison context (and a waiting parent) hangs forever")
}

// checkMaxRestartsOpt: the restart budget given at spawn is the one used, for every n >= 0.
func checkMaxRestartsOpt(w *World, r *Report, rule string) {
	fn := w.Func("actor", "WithMaxRestarts")
	if fn == nil || len(fn.AnonFuncs) != 1 {
		r.Unknown(rule, "WithMaxRestarts", "actor.WithMaxRestarts returns one option closure", "-", "not found")
		return
	}
	cf := fn.AnonFuncs[0]
	g := w.FGI(cf)
	st := make([]bool, len(g.ins))
	for i, in := range g.ins {
		if s, ok := in.(*ssa.Store); ok {
			if fa, ok := s.Addr.(*ssa.FieldAddr); ok {
				if name, _ := fieldName(fa); name == "MaxRestarts" && w.pathOf(s.Val) == "conv<int32>(FV:n)" {
					st[i] = true
				} else if name == "MaxRestarts" {
					// the conversion hoisted out of the closure: a captured variable that holds int32(n), assigned once
					if cell := capturedCell(cf, s.Val); cell != nil && storesTo(cell) == 1 && cell.Referrers() != nil {
						for _, ref := range *cell.Referrers() {
							if cs, isS := ref.(*ssa.Store); isS && cs.Addr == cell {
								restore := w.noCtx()
								w.FG(fn)
								if w.pathOf(cs.Val) == "conv<int32>(P0)" {
									st[i] = true
								}
								restore()
							}
						}
					}
				}
			}
		}
	}
	r.Check(g.Once(st), rule, "WithMaxRestarts:stores-n", "WithMaxRestarts(n) sets Opts.MaxRestarts = n on every path (0 included)", w.fnPos(fn),
		"some values of n (e.g. 0) are ignored and the default budget applies: an actor spawned with MaxRestarts(0) is restarted")
}

// role resolution (and the typestate run inside it) is cached per loaded program
var procRolesCache = map[*World]*procRoles{}
var inboxRolesCache = map[*World]*inboxRoles{}

func (w *World) findProcRoles() *procRoles {
	if p, ok := procRolesCache[w]; ok {
		return p
	}
	p := w.findProcRolesUncached()
	procRolesCache[w] = p
	return p
}

func (w *World) findInboxRoles() *inboxRoles {
	if p, ok := inboxRolesCache[w]; ok {
		return p
	}
	p := w.findInboxRolesUncached()
	inboxRolesCache[w] = p
	return p
}

// checkNoGoroutinesInMachine: the process machine and the inbox start no goroutine of their own (the only
// asynchronous hand-off is Scheduler.Schedule, guarded by the token), and funcReceiver calls its function inline.
func checkNoGoroutinesInMachine(w *World, r *Report, rule string) {
	var bad []string
	n := 0
	for _, typ := range []string{"process", "Inbox", "funcReceiver", "Registry", "eventStream"} {
		for _, fn := range w.MethodsOf("actor", typ) {
			n++
			for _, in := range w.insOf(fn) {
				{
					if g, ok := in.(*ssa.Go); ok {
						bad = append(bad, fname(fn)+" at "+w.pos(g.Pos()))
					}
				}
			}
		}
	}
	r.Check(len(bad) == 0 && n > 10, rule, "machine:no-go-statement", "no method of process, Inbox, funcReceiver, Registry or eventStream starts a goroutine", w.fnPos(w.Method("actor", "process", "Invoke")),
		"a `go` statement in the delivery machinery ("+strings.Join(bad, ", ")+"): deliveries of one actor can overlap and lose their order")
	fr := w.Method("actor", "funcReceiver", "Receive")
	if fr == nil {
		r.Unknown(rule, "funcReceiver.Receive", "function receivers", "-", "not found")
		return
	}
	g := w.FGI(fr)
	calls := make([]bool, len(g.ins))
	for i, in := range g.ins {
		if c, ok := in.(*ssa.Call); ok && c.Call.StaticCallee() == nil && !c.Call.IsInvoke() && w.pathOf(c.Call.Value) == "P0.f" && len(c.Call.Args) == 1 && w.pathOf(c.Call.Args[0]) == "P1" {
			calls[i] = true
		}
	}
	r.Check(g.Once(calls), rule, "funcReceiver.Receive:inline", "a function receiver calls its function once, synchronously, with the Context it was given", w.fnPos(fr),
		"SpawnFunc actors run their handler zero times, twice, or on another goroutine")
}

// checkInboxStopStores: Inboxer.Stop really closes the inbox.
func checkInboxStopStores(w *World, r *Report, rule string) {
	ir := w.findInboxRoles()
	if roleProblems(r, rule, ir) {
		return
	}
	g := w.FGI(ir.stop)
	st := make([]bool, len(g.ins))
	for _, op := range ir.ops {
		if op.fn == ir.stop && op.kind != "Load" && op.new == ir.stopped {
			st[op.node] = true
		}
	}
	r.Check(g.AfterEntry(st), rule, fname(ir.stop)+":stores-stopped", "Inbox.Stop stores the 'stopped' status on every path", w.fnPos(ir.stop),
		"Stop leaves the status untouched: the worker keeps consuming after the actor was cleaned up (messages after Stopped)")
}

// checkSchedulerAsync: the scheduler hands the worker to another goroutine.
func checkSchedulerAsync(w *World, r *Report, rule string) {
	n := 0
	for _, fn := range w.Funcs {
		if !w.isLib(fn) || fn.Signature.Recv() == nil || fn.Name() != "Schedule" || fn.Synthetic != "" || len(fn.Params) != 2 {
			continue
		}
		n++
		async := false
		sync := false
		for _, in := range w.insOf(fn) {
			{
				if c := callOf(in); c != nil && c.Value == ssa.Value(fn.Params[1]) {
					if _, isGo := in.(*ssa.Go); isGo {
						async = true
					} else {
						sync = true
					}
				}
			}
		}
		r.Check(async && !sync, rule, fname(fn)+":async", "the scheduler runs the worker on its own goroutine", w.fnPos(fn),
			"the worker runs on the sender's goroutine: Send does not return before the receiver's handlers have run (a handler that waits for the sender deadlocks)")
	}
	if n == 0 {
		r.Unknown(rule, "Scheduler:async", "a Scheduler implementation", "-", "none found")
	}
}

// checkOptionStores: option functions store what they are given.
func checkOptionStores(w *World, r *Report, rule, opt, field, want string) {
	fn := w.Func("actor", opt)
	if fn == nil || len(fn.AnonFuncs) != 1 {
		r.Unknown(rule, opt, "actor."+opt+" returns one option closure", "-", "not found")
		return
	}
	cf := fn.AnonFuncs[0]
	g := w.FGI(cf)
	st := make([]bool, len(g.ins))
	got := ""
	for i, in := range g.ins {
		if s, ok := in.(*ssa.Store); ok {
			if fa, ok := s.Addr.(*ssa.FieldAddr); ok {
				if name, _ := fieldName(fa); name == field {
					got = w.pathOf(s.Val)
					if matchArg(want, got) {
						st[i] = true
					}
				}
			}
		}
	}
	r.Check(g.Once(st), rule, opt+":stores", opt+" sets Opts."+field+" from its argument on every path", w.fnPos(fn), "Opts."+field+" is set to "+got+" (or not at all)")
}

// checkStartClearsBuffer: once replayed, the restart buffer is emptied (a later crash in Started must not replay it again).
func checkStartClearsBuffer(w *World, r *Report, rule string) {
	pr := w.findProcRoles()
	if pr.fail(r, rule) {
		return
	}
	g := w.FGI(pr.start)
	clr := make([]bool, len(g.ins))
	for i, in := range g.ins {
		if st, ok := in.(*ssa.Store); ok {
			if fa, ok := st.Addr.(*ssa.FieldAddr); ok && isFieldOf(fa, pr.procT, "mbuffer") {
				if c, isK := st.Val.(*ssa.Const); isK && c.IsNil() {
					clr[i] = true
				}
			}
		}
	}
	ok := anyOf(clr)
	for _, ci := range w.callsIn(pr.start, EvCall("Invoke", pr.invoke)) {
		if !g.After(g.idx[ci.(ssa.Instruction)], clr) {
			ok = false
		}
	}
	r.Check(ok, rule, fname(pr.start)+":clears-replayed-buffer", "after the replay Start empties the restart buffer on every path", w.fnPos(pr.start),
		"the replayed messages stay buffered: a later crash inside Initialized/Started replays them a second time")
}

// deferredFn: the function a defer statement runs (closure literal or named function/method).
func deferredFn(d *ssa.Defer) *ssa.Function {
	if mc, ok := d.Call.Value.(*ssa.MakeClosure); ok {
		f, _ := mc.Fn.(*ssa.Function)
		return f
	}
	return d.Call.StaticCallee()
}

// recoverHandlerOf: the function deferred by host that calls recover() (closure or named method).
func (pr *procRoles) recoverHandlerOf(host *ssa.Function) *ssa.Function {
	for _, b := range host.Blocks {
		for _, in := range b.Instrs {
			if d, ok := in.(*ssa.Defer); ok {
				f := deferredFn(d)
				for _, rf := range pr.recovers {
					if rf == f && f != nil {
						return f
					}
				}
			}
		}
	}
	return nil
}

// deliverySiteClass names a delivery site of the batch function by its role, not by its expression:
// "graceful-drain" (only reachable on the graceful edge of a recognised pill), "after-pill" (only reachable once a
// pill was recognised) or "batch-element".
func deliverySiteClass(w *World, g *FG, n int) string {
	graceful, _ := g.CondEdges(func(v ssa.Value) (bool, bool) {
		p := w.pathOf(v)
		return true, strings.HasPrefix(p, "assert<actor.poisonPill>(") && strings.HasSuffix(p, "#0.graceful")
	})
	pill, _ := g.CondEdges(func(v ssa.Value) (bool, bool) {
		p := w.pathOf(v)
		return true, strings.HasPrefix(p, "assert<actor.poisonPill>(") && strings.HasSuffix(p, "#1")
	})
	switch {
	case len(graceful) > 0 && g.OnlyVia(graceful, n):
		return "graceful-drain"
	case len(pill) > 0 && g.OnlyVia(pill, n):
		return "after-pill"
	}
	return "batch-element"
}

// valueSetter: a value-receiver "With…" method stores its argument into field of the copy it returns.
func valueSetter(w *World, fn *ssa.Function, field string) bool {
	if fn == nil || fn.Blocks == nil || len(fn.Params) != 2 {
		return false
	}
	g := w.FGI(fn)
	var copyA *ssa.Alloc
	for _, in := range g.ins {
		if st, ok := in.(*ssa.Store); ok && st.Val == ssa.Value(fn.Params[0]) {
			copyA, _ = st.Addr.(*ssa.Alloc)
		}
	}
	if copyA == nil {
		return false
	}
	set := make([]bool, len(g.ins))
	for i, in := range g.ins {
		if st, ok := in.(*ssa.Store); ok {
			if fa, ok := st.Addr.(*ssa.FieldAddr); ok && fa.X == ssa.Value(copyA) {
				if name, _ := fieldName(fa); name == field && (st.Val == ssa.Value(fn.Params[1]) || stripConv(st.Val) == ssa.Value(fn.Params[1])) {
					set[i] = true
				}
			}
		}
	}
	if !anyOf(set) {
		return false
	}
	for _, x := range g.returns {
		rv := g.ins[x].(*ssa.Return).Results[0]
		u, ok := rv.(*ssa.UnOp)
		if !ok || u.X != ssa.Value(copyA) || !g.Before(set, g.idx[u]) {
			return false
		}
	}
	return true
}

// checkDrainStart: the graceful drain starts at the pill (or at the number of elements already delivered),
// never earlier: otherwise a Poison re-delivers messages that were already handled.
func checkDrainStart(w *World, r *Report, rule string) {
	pr := w.findProcRoles()
	if pr.fail(r, rule) {
		return
	}
	g := w.FGI(pr.invoke)
	key := fname(pr.invoke) + ":drain-starts-at-pill"
	what := "the drained tail msgs[k:] starts at the pill's position (k = loop index, index+1, or a counter advanced once per delivered element)"
	var sl *ssa.Slice
	n := 0
	for _, in := range g.ins {
		if s, ok := in.(*ssa.Slice); ok && w.pathOf(s.X) == "P1" && s.High == nil {
			sl = s
			n++
		}
	}
	if n != 1 || sl.Low == nil {
		r.Unknown(rule, key, what, w.fnPos(pr.invoke), fmt.Sprintf("%d tail slices of the batch parameter found (unrecognised drain idiom)", n))
		return
	}
	// the loop index of the batch loop
	var idx ssa.Value
	for _, ci := range w.callsIn(pr.invoke, EvCall("deliver", pr.deliverFn)) {
		v := ci.Common().Args[1]
		if u, ok := v.(*ssa.UnOp); ok {
			if al, ok := u.X.(*ssa.Alloc); ok {
				if s := singleStore(al); s != nil {
					v = s
				}
			}
		}
		if u, ok := v.(*ssa.UnOp); ok {
			if ia, ok := u.X.(*ssa.IndexAddr); ok && w.pathOf(ia.X) == "P1" {
				idx = ia.Index
			}
		}
	}
	low := sl.Low
	ok := false
	detail := "the drain starts at " + w.pathOf(low)
	switch {
	case idx != nil && low == idx:
		ok = true
	case idx != nil:
		if b, isB := low.(*ssa.BinOp); isB && b.Op == token.ADD && b.X == idx && constStr(b.Y) == "1" {
			ok = true
		}
	}
	if !ok {
		// counter form: phi(0, phi+1) whose increment lies on every path from the element delivery back to the loop
		if ph, isPhi := low.(*ssa.Phi); isPhi && len(ph.Edges) == 2 {
			var inc ssa.Instruction
			zero := false
			for _, e := range ph.Edges {
				if constStr(e) == "0" {
					zero = true
				}
				if b, isB := e.(*ssa.BinOp); isB && b.Op == token.ADD && b.X == ssa.Value(ph) && constStr(b.Y) == "1" {
					inc = b
				}
			}
			if zero && inc != nil {
				ok = true
				incN := setOf(len(g.ins), g.idx[inc])
				for _, ci := range w.callsIn(pr.invoke, EvCall("deliver", pr.deliverFn)) {
					dn := g.idx[ci.(ssa.Instruction)]
					if deliverySiteClass(w, g, dn) != "batch-element" {
						continue
					}
					// from the delivery, the next arrival at the phi passes the increment
					rr := g.reach(g.succ[dn], incN, nil)
					if rr[g.idx[ph]] {
						ok = false
						detail = "the counter that marks the start of the drain is not advanced after every delivered element: a graceful Poison re-delivers messages that were already handled"
					}
				}
			} else {
				detail = "the drain's start is a value that is not advanced by one per delivered element: " + w.pathOf(low)
			}
		}
	}
	r.Check(ok, rule, key, what, w.pos(sl.Pos()), detail)
}

// family: fn plus the unexported same-package functions it reaches through static calls (depth <= 3).
// Rules that look for a construct "in function f" accept it in f's family, so that splitting f into
// private helpers does not hide the construct.
func (w *World) family(fn *ssa.Function) []*ssa.Function {
	defer w.keepCtx()()
	if fn == nil {
		return nil
	}
	seen := map[*ssa.Function]bool{fn: true}
	out := []*ssa.Function{fn}
	pkg := fnPkgPath(fn)
	var walk func(f *ssa.Function, d int)
	walk = func(f *ssa.Function, d int) {
		if d > 3 {
			return
		}
		for _, in := range w.insOf(f) {
			{
				c := callOf(in)
				if c == nil {
					if mc, ok := in.(*ssa.MakeClosure); ok {
						if cf, ok := mc.Fn.(*ssa.Function); ok && cf.Blocks != nil && !seen[cf] && cf.Synthetic == "" {
							seen[cf] = true
							out = append(out, cf)
							walk(cf, d+1)
						}
					}
					continue
				}
				callee := c.StaticCallee()
				if callee == nil || callee.Blocks == nil || seen[callee] || fnPkgPath(callee) != pkg || callee.Synthetic != "" {
					continue
				}
				if callee.Object() != nil && callee.Object().Exported() {
					continue
				}
				if g := w.FGI(f); g.inl[g.idx[in]] {
					continue // spliced into f's graph: its instructions are f's
				}
				seen[callee] = true
				out = append(out, callee)
				walk(callee, d+1)
			}
		}
	}
	walk(fn, 0)
	return out
}

// holder: the member of fn's family for which pred holds (exactly one), or nil.
func (w *World) holder(fn *ssa.Function, pred func(f *ssa.Function) bool) *ssa.Function {
	defer w.keepCtx()()
	var found *ssa.Function
	for _, f := range w.family(fn) {
		if pred(f) {
			if found != nil {
				return nil
			}
			found = f
		}
	}
	return found
}

// writesField reports whether fn stores to the named field of the struct type.
func writesField(fn *ssa.Function, named *types.Named, field string) bool {
	for _, b := range fn.Blocks {
		for _, in := range b.Instrs {
			if st, ok := in.(*ssa.Store); ok {
				if fa, ok := st.Addr.(*ssa.FieldAddr); ok && isFieldOf(fa, named, field) {
					return true
				}
			}
		}
	}
	return false
}

// factPos renders a decided branch condition as the relation that holds: `a != b` known false
// reads (a==b), `a < b` known false reads (a>=b); anything else false reads !(cond).
func (w *World) factPos(f Fact) string {
	if f.Val {
		return w.pathOf(f.Cond)
	}
	if b, ok := f.Cond.(*ssa.BinOp); ok {
		neg := map[token.Token]token.Token{token.EQL: token.NEQ, token.NEQ: token.EQL, token.LSS: token.GEQ, token.GEQ: token.LSS, token.GTR: token.LEQ, token.LEQ: token.GTR}
		if op, ok := neg[b.Op]; ok {
			return "(" + w.pathOf(b.X) + op.String() + w.pathOf(b.Y) + ")"
		}
	}
	return "!" + w.pathOf(f.Cond)
}

// rangeLoopEvery: in g there is a range loop over the value with access path `over`; the marked
// action happens exactly once in every iteration, the loop is reached on every path from the
// entry and is left only when the iteration is exhausted.
func (w *World) rangeLoopEvery(g *FG, over string, A []bool) bool {
	var nexts []int
	for i, in := range g.ins {
		if nx, ok := in.(*ssa.Next); ok && w.pathOf(nx) == "next(range("+over+"))" {
			nexts = append(nexts, i)
		}
	}
	if len(nexts) != 1 || !anyOf(A) {
		return false
	}
	nx := nexts[0]
	nxV := g.ins[nx].(*ssa.Next)
	body, _ := g.CondEdges(func(v ssa.Value) (bool, bool) {
		if e, ok := v.(*ssa.Extract); ok && e.Tuple == ssa.Value(nxV) && e.Index == 0 {
			return true, true
		}
		return false, false
	})
	if len(body) == 0 || !g.AfterEntry(setOf(len(g.ins), nx)) {
		return false
	}
	isNx := setOf(len(g.ins), nx)
	for _, e := range body {
		// every iteration performs the action before it comes back to the iterator or leaves
		rr := g.reach([]int{e.to}, A, nil)
		if rr[nx] {
			return false
		}
		for _, x := range g.returns {
			if rr[x] {
				return false
			}
		}
	}
	for _, a := range members(A) {
		if !g.OnlyVia(body, a) {
			return false
		}
		// after the action: no second action and no exit before the iterator is consulted again
		rr := g.reach(g.succ[a], isNx, nil)
		for _, b := range members(A) {
			if rr[b] {
				return false
			}
		}
		for _, x := range g.returns {
			if rr[x] {
				return false
			}
		}
		for _, x := range g.panics {
			if rr[x] {
				return false
			}
		}
	}
	return true
}

// appendAll: fn returns a slice that starts empty and gets exactly the marked appends (walks the
// phi/append chain from the returned value).
func (w *World) accumulates(g *FG, ret ssa.Value, A []bool) bool {
	seen := map[ssa.Value]bool{}
	ok := true
	var walk func(v ssa.Value)
	walk = func(v ssa.Value) {
		if seen[v] {
			return
		}
		seen[v] = true
		switch x := v.(type) {
		case *ssa.MakeInterface:
			walk(x.X)
		case *ssa.ChangeType:
			walk(x.X)
		case *ssa.Phi:
			for _, e := range x.Edges {
				walk(e)
			}
		case *ssa.Call:
			if args, isA := isBuiltinCall(x, "append"); isA && A[g.idx[x]] {
				walk(args[0])
				return
			}
			ok = false
		case *ssa.MakeSlice:
			if constStr(x.Len) != "0" {
				ok = false
			}
		case *ssa.Const:
			if !x.IsNil() {
				ok = false
			}
		case *ssa.Slice:
			// []T{} literal: slice of a fresh zero-length array
			if al, isAl := x.X.(*ssa.Alloc); !isAl || !strings.Contains(al.Type().String(), "[0]") {
				ok = false
			}
		default:
			ok = false
		}
	}
	walk(ret)
	return ok
}

// pathClass partitions the paths that lead to a node by the comma-ok type assertions they passed:
// one class per assertion whose success edge can reach the node (the paths continuing from that
// edge) and one class for the paths that avoid every such success edge. A finding keyed by its class
// does not depend on how branches share or duplicate their tails.
type pathClass struct {
	desc   string
	starts []int
	cut    map[Edge]bool
}

func pathClasses(w *World, g *FG, n int) []pathClass {
	byDesc := map[string][]Edge{}
	var order []string
	all := map[Edge]bool{}
	for i, in := range g.ins {
		iff, ok := in.(*ssa.If)
		if !ok {
			continue
		}
		ex, ok := iff.Cond.(*ssa.Extract)
		if !ok || ex.Index != 1 {
			continue
		}
		ta, ok := ex.Tuple.(*ssa.TypeAssert)
		if !ok || !ta.CommaOk {
			continue
		}
		e, ok := g.EdgeOf(i, true)
		if !ok {
			continue
		}
		d := w.pathOf(iff.Cond)
		if _, seen := byDesc[d]; !seen {
			order = append(order, d)
		}
		byDesc[d] = append(byDesc[d], e)
		all[e] = true
	}
	var out []pathClass
	if g.reach(g.entry(), nil, all)[n] {
		out = append(out, pathClass{desc: "", starts: g.entry(), cut: all})
	}
	for _, d := range order {
		var starts []int
		for _, e := range byDesc[d] {
			starts = append(starts, e.to)
		}
		if g.reach(starts, nil, nil)[n] {
			out = append(out, pathClass{desc: d, starts: starts})
		}
	}
	return out
}

// before: on every path of the class, one of the A nodes is passed before n.
func (c pathClass) before(g *FG, A []bool, n int) bool {
	if A[n] {
		return true
	}
	return !g.reach(c.starts, A, c.cut)[n]
}

// onlyVia: every path of the class to n crosses one of the edges.
func (c pathClass) onlyVia(g *FG, edges []Edge, n int) bool {
	cut := map[Edge]bool{}
	for e := range c.cut {
		cut[e] = true
	}
	for _, e := range edges {
		cut[e] = true
	}
	return !g.reach(c.starts, nil, cut)[n]
}

// retCase is one way a function returns: a Return instruction, or — when the function has a single
// exit whose results are phis of the exit block — one incoming edge of that block with the values the
// phis take on it. Rules that reason per `return x, true` / `return y, false` see the same cases
// whether the source has several returns or one.
type retCase struct {
	res []ssa.Value
	x   int   // the Return node
	via *Edge // the edge into the exit block that selects this case (nil: the Return itself)
}

// unspill: a function with defers returns through result slots (*t0 = v; rundefers; return *t0): the value stored
// into the slot in the return's own block is what this return yields.
func unspill(ret *ssa.Return, v ssa.Value) ssa.Value {
	ld, ok := v.(*ssa.UnOp)
	if !ok || ld.Op != token.MUL {
		return v
	}
	al, ok := ld.X.(*ssa.Alloc)
	if !ok || al.Heap {
		return v
	}
	var last ssa.Value
	for _, in := range ret.Block().Instrs {
		if in == ssa.Instruction(ret) {
			break
		}
		if st, isSt := in.(*ssa.Store); isSt && st.Addr == ssa.Value(al) {
			last = st.Val
		}
	}
	if last != nil {
		return last
	}
	return v
}

func (g *FG) retCases() []retCase {
	var out []retCase
	for _, x := range g.returns {
		ret := g.ins[x].(*ssa.Return)
		b := ret.Block()
		if ret.Parent() != nil && ret.Parent().Recover != nil && b == ret.Parent().Recover {
			continue // the recover block's return re-reads the slots; it is not a return statement of the source
		}
		res0 := make([]ssa.Value, len(ret.Results))
		for i, rv := range ret.Results {
			res0[i] = unspill(ret, rv)
		}
		if len(res0) > 0 {
			same := true
			for i := range res0 {
				if res0[i] != ret.Results[i] {
					same = false
				}
			}
			if !same {
				out = append(out, retCase{res: res0, x: x})
				continue
			}
		}
		split := false
		for _, rv := range ret.Results {
			if ph, ok := rv.(*ssa.Phi); ok && ph.Block() == b && len(ph.Edges) == len(b.Preds) {
				split = true
			}
		}
		if !split {
			out = append(out, retCase{res: ret.Results, x: x})
			continue
		}
		for j, p := range b.Preds {
			var res []ssa.Value
			for _, rv := range ret.Results {
				if ph, ok := rv.(*ssa.Phi); ok && ph.Block() == b && len(ph.Edges) == len(b.Preds) {
					res = append(res, ph.Edges[j])
				} else {
					res = append(res, rv)
				}
			}
			from := g.first[p] + len(p.Instrs) - 1
			e := Edge{from, g.first[b]}
			out = append(out, retCase{res: res, x: x, via: &e})
		}
	}
	return out
}

// onlyVia: every path to this return case crosses one of the edges.
func (rc retCase) onlyVia(g *FG, edges []Edge) bool {
	if rc.via == nil {
		return g.OnlyVia(edges, rc.x)
	}
	for _, e := range edges {
		if e == *rc.via {
			return true
		}
	}
	return g.OnlyVia(edges, rc.via.from)
}

// before: every path to this return case passes one of the A nodes.
func (rc retCase) before(g *FG, A []bool) bool {
	if rc.via == nil {
		return g.Before(A, rc.x)
	}
	return A[rc.via.from] || g.Before(A, rc.via.from)
}

// reachedFrom: the case can be reached from one of the edges.
func (rc retCase) reachedFrom(g *FG, edges []Edge) bool {
	rr := reachFromEdges(g, edges, nil)
	if rc.via == nil {
		return rr[rc.x]
	}
	for _, e := range edges {
		if e == *rc.via {
			return true
		}
	}
	return rr[rc.via.from]
}

// indexLoopEvery: the marked action happens exactly once for every element of the slice with access
// path `over`, in a loop `for i < len(over)` (index or range form) that is reached on every path and
// left only through its bound.
func (w *World) indexLoopEvery(g *FG, over string, A []bool) bool {
	bound, _ := g.CondEdges(func(v ssa.Value) (bool, bool) {
		b, ok := v.(*ssa.BinOp)
		return true, ok && b.Op == token.LSS && w.pathOf(b.Y) == "len("+over+")"
	})
	if len(bound) == 0 || !anyOf(A) {
		return false
	}
	hdr := make([]bool, len(g.ins))
	for _, e := range bound {
		hdr[e.from] = true
	}
	if !g.AfterEntry(hdr) {
		return false
	}
	for _, e := range bound {
		rr := g.reach([]int{e.to}, A, nil)
		if rr[e.from] {
			return false // an iteration without the action
		}
		for _, x := range g.returns {
			if rr[x] {
				return false
			}
		}
	}
	for _, a := range members(A) {
		if !g.OnlyVia(bound, a) {
			return false
		}
		rr := g.reach(g.succ[a], hdr, nil)
		for _, b := range members(A) {
			if rr[b] {
				return false
			}
		}
		for _, x := range g.returns {
			if rr[x] {
				return false
			}
		}
	}
	return true
}

// checkOptionsAppliedOnce: each spawn entry point applies the caller's option functions in one loop. Options
// are setters (applying them twice is idempotent) except WithMiddleware, which appends: a second pass over the
// same opts doubles the chain.
func checkOptionsAppliedOnce(w *World, r *Report, rule string) {
	n := 0
	for _, fn := range []*ssa.Function{w.Method("actor", "Engine", "Spawn"), w.Method("actor", "Context", "SpawnChild")} {
		if fn == nil || !fn.Signature.Variadic() {
			continue
		}
		n++
		g := w.FGI(fn)
		optsParam := fmt.Sprintf("P%d", len(fn.Params)-1)
		A := make([]bool, len(g.ins))
		for i, in := range g.ins {
			c, ok := in.(*ssa.Call)
			if !ok || g.inl[i] || c.Call.IsInvoke() || c.Call.StaticCallee() != nil {
				continue
			}
			if _, isB := c.Call.Value.(*ssa.Builtin); isB {
				continue
			}
			if p := w.pathOf(c.Call.Value); strings.HasPrefix(p, optsParam+"[") {
				A[i] = true
			}
		}
		ok := anyOf(A)
		detail := "the option functions are not applied"
		for _, a := range members(A) {
			after := g.reach(g.succ[a], nil, nil)
			for _, b := range members(A) {
				if b != a && after[b] {
					ok, detail = false, "the caller's options are applied at "+w.pos(g.ins[a].Pos())+" and again at "+w.pos(g.ins[b].Pos())+": appending options (WithMiddleware) take effect twice, every middleware wraps the receiver twice"
				}
			}
		}
		r.Check(ok, rule, fname(fn)+":options-applied-once", "the caller's option functions are applied by exactly one loop", w.fnPos(fn), detail)
	}
	if n == 0 {
		r.Unknown(rule, "spawn:options", "variadic spawn entry points", "-", "Engine.Spawn / Context.SpawnChild not found")
	}
}
