package main

import (
	"regexp"
	"fmt"
	"go/token"
	"go/types"
	"strconv"
	"strings"

	"golang.org/x/tools/go/ssa"
)

func init() {
	register("C15", checkC15)
	register("C16", checkC16)
	register("C17", checkC17)
}

type remoteAnchors struct {
	writer, reader, router          *types.Named
	wInvoke, wSend, wStart, wInit   *ssa.Function
	wShutdown, rReceive             *ssa.Function
	envT, msgT, deliverT            *types.Named
	sendLocal                       *ssa.Function
	problems                        []string
}

func (w *World) remoteAnchors() *remoteAnchors {
	a := &remoteAnchors{}
	a.writer = w.Named("remote", "streamWriter")
	a.reader = w.Named("remote", "streamReader")
	a.router = w.Named("remote", "streamRouter")
	a.envT = w.Named("remote", "Envelope")
	a.msgT = w.Named("remote", "Message")
	a.deliverT = w.Named("remote", "streamDeliver")
	a.wInvoke = w.Method("remote", "streamWriter", "Invoke")
	a.wSend = w.Method("remote", "streamWriter", "Send")
	a.wStart = w.Method("remote", "streamWriter", "Start")
	a.wShutdown = w.Method("remote", "streamWriter", "Shutdown")
	a.rReceive = w.Method("remote", "streamReader", "Receive")
	a.sendLocal = w.Method("actor", "Engine", "SendLocal")
	if a.wStart != nil {
		for _, in := range w.insOf(a.wStart) {
			{
				if c := callOf(in); c != nil && c.StaticCallee() != nil && c.StaticCallee().Signature.Recv() != nil {
					if n, _ := structOf(c.StaticCallee().Signature.Recv().Type()); sameNamed(n, a.writer) && dialsPeer(w, c.StaticCallee()) {
						a.wInit = c.StaticCallee()
					}
				}
			}
		}
	}
	if a.wInit == nil && a.wStart != nil && dialsPeer(w, a.wStart) {
		a.wInit = a.wStart // the dial is written out in Start itself
	}
	chk := func(name string, ok bool) {
		if !ok {
			a.problems = append(a.problems, name)
		}
	}
	if a.wInit != a.wStart {
		aliasRole(a.wInit, "(*remote.streamWriter).init")
	}
	chk("remote.streamWriter", a.writer != nil)
	chk("remote.streamReader", a.reader != nil)
	chk("remote.streamRouter", a.router != nil)
	chk("remote.Envelope", a.envT != nil)
	chk("remote.Message", a.msgT != nil)
	chk("remote.streamDeliver", a.deliverT != nil)
	chk("streamWriter.Invoke", a.wInvoke != nil)
	chk("streamWriter.Send", a.wSend != nil)
	chk("streamWriter.Start", a.wStart != nil)
	chk("streamWriter.init(role)", a.wInit != nil)
	chk("streamWriter.Shutdown", a.wShutdown != nil)
	chk("streamReader.Receive", a.rReceive != nil)
	chk("Engine.SendLocal", a.sendLocal != nil)
	return a
}

func (a *remoteAnchors) fail(r *Report, rule string) bool {
	if len(a.problems) > 0 {
		r.Unknown(rule, "anchors", "resolve the remote package", "-", "missing: "+strings.Join(a.problems, ", "))
		return true
	}
	return false
}

// allocsOf returns the struct literals of type named built in fn.
func (w *World) allocsOf(fn *ssa.Function, named *types.Named) []*ssa.Alloc {
	var out []*ssa.Alloc
	for _, in := range w.insOf(fn) {
		{
			if al, ok := in.(*ssa.Alloc); ok {
				if n, _ := structOf(al.Type()); sameNamed(n, named) {
					out = append(out, al)
				}
			}
		}
	}
	return out
}

// phiLeaves collects the non-phi values feeding v through phi nodes.
func phiLeaves(v ssa.Value, seen map[ssa.Value]bool, out *[]ssa.Value) {
	if seen[v] {
		return
	}
	seen[v] = true
	if p, ok := v.(*ssa.Phi); ok {
		for _, e := range p.Edges {
			phiLeaves(e, seen, out)
		}
		return
	}
	*out = append(*out, v)
}

type tableSpec struct {
	table, index string // Envelope field, Message field
	keyWant      func(p string) bool
	keyDesc      string
}

// ---------------------------------------------------------------------------
// C15 — wire encoding: writer/reader table agreement
// ---------------------------------------------------------------------------

func checkC15(w *World, r *Report) {
	r.Rule("C15.R1", "writer: each Message index comes from the lookup over the table that is shipped in the matching Envelope field, fed with the delivery's own target / sender / type name; distinct lookup maps per table", 4)
	r.Rule("C15.R2", "lookup helpers: a new entry gets index len(map) read before the insertion, and is appended to the table only on the miss edge; a hit returns the stored index and the unchanged table", 2)
	r.Rule("C15.R3", "a message without sender must not be encoded as a valid index of the Senders table", 1)
	r.Rule("C15.R4", "the PID tables are keyed by (address, id), not by a digest", 1)
	r.Rule("C15.R5", "a skipped message leaves no hole, no table entry and does not abort the batch", 3)
	r.Rule("C15.R6", "no unchecked type assertion on the user payload (serializers) or on the inbox envelope (writer)", 3)
	r.Rule("C15.R7", "reader: every message is delivered with Targets[TargetIndex], the payload deserialised as TypeNames[TypeNameIndex] and Senders[SenderIndex], synchronously and in order", 3)
	a := w.remoteAnchors()
	if a.fail(r, "C15.R1") {
		return
	}
	// the function that builds the outbound Envelope: Invoke itself or a private helper it calls
	W := a.wInvoke
	if b := w.holder(a.wInvoke, func(f *ssa.Function) bool { return len(w.allocsOf(f, a.envT)) == 1 }); b != nil {
		W = b
	}
	g := w.FGI(W)
	site := w.fnPos(W)
	envs := w.allocsOf(W, a.envT)
	msgs := w.allocsOf(W, a.msgT)
	if len(envs) != 1 || len(msgs) != 1 {
		r.Unknown("C15.R1", fname(W)+":literals", "the writer builds one Envelope and one Message literal", site, fmt.Sprintf("found %d Envelope and %d Message literals", len(envs), len(msgs)))
		return
	}
	envF, ok1 := w.litFields(envs[0])
	msgF, ok2 := w.litFields(msgs[0])
	if !ok1 || !ok2 {
		r.Unknown("C15.R1", fname(W)+":literals", "the Envelope / Message are plain struct literals", site, "fields assigned more than once")
		return
	}
	// the envelope is what is sent
	sent := false
	ig := w.FGI(a.wInvoke)
	for _, in := range ig.ins {
		if c := callOf(in); c != nil && c.IsInvoke() && c.Method.Name() == "Send" && len(c.Args) == 1 {
			if _, isCall := in.(*ssa.Call); !isCall {
				continue
			}
			if w.resolve(c.Args[0]) == ssa.Value(envs[0]) {
				sent = true
			}
			if bc, isC := c.Args[0].(*ssa.Call); isC && W != a.wInvoke && bc.Call.StaticCallee() == W {
				// built by the helper: every return of the helper yields the literal
				sent = true
				for _, x := range g.returns {
					if len(g.ins[x].(*ssa.Return).Results) != 1 || g.ins[x].(*ssa.Return).Results[0] != ssa.Value(envs[0]) {
						sent = false
					}
				}
			}
		}
	}
	r.Check(sent, "C15.R1", fname(W)+":sends-envelope", "the Envelope literal is what is written to the stream", site, "the built envelope is not the one sent")

	specs := []tableSpec{
		{"Targets", "TargetIndex", func(p string) bool { return strings.HasSuffix(p, ".target") }, "the delivery's target"},
		{"Senders", "SenderIndex", func(p string) bool { return strings.HasSuffix(p, ".sender") }, "the delivery's sender"},
		{"TypeNames", "TypeNameIndex", func(p string) bool {
			return strings.HasPrefix(p, "call:Serializer.TypeName(") && strings.HasSuffix(p, ".msg)")
		}, "TypeName(delivery's msg)"},
	}
	maps := map[ssa.Value]string{}
	var lookups, lookups4 []*ssa.Function
	deliverRoots := map[string]bool{}
	for _, sp := range specs {
		key := fmt.Sprintf("%s:%s<->%s", fname(W), sp.index, sp.table)
		what := fmt.Sprintf("Message.%s is the index returned by the lookup whose table is shipped as Envelope.%s, keyed by %s", sp.index, sp.table, sp.keyDesc)
		iv := msgF[sp.index]
		tv := envF[sp.table]
		if iv == nil || tv == nil {
			r.Fail("C15.R1", key, what, site, "field not set in the literal (zero index for every message)")
			continue
		}
		ex, ok := stripConv(iv).(*ssa.Extract)
		var call *ssa.Call
		if ok && ex.Index == 0 {
			call, _ = ex.Tuple.(*ssa.Call)
		}
		if call != nil && call.Call.StaticCallee() != nil && len(call.Call.Args) == 4 && (w.inMod[call.Call.StaticCallee()] || w.inMod[origin(call.Call.StaticCallee())]) {
			// one helper for all tables: lookup(m, key, table, value) with the key made by the caller
			if okG, detail := lookup4(w, r, g, call, tv, sp, maps, deliverRoots, iv); okG {
				lookups4 = append(lookups4, call.Call.StaticCallee())
				r.OK("C15.R1", key, what, w.pos(call.Pos()))
			} else {
				r.Fail("C15.R1", key, what, w.pos(call.Pos()), detail)
			}
			continue
		}
		if call == nil || call.Call.StaticCallee() == nil || !w.inMod[call.Call.StaticCallee()] || len(call.Call.Args) != 3 {
			// no helper: the idiom written out in the loop
			m, kp, okI, detail := inlineLookup(w, g, iv, tv, sp.keyWant, sp.keyDesc)
			if okI {
				if other, dup := maps[m]; dup {
					okI, detail = false, "the lookup map is shared with "+other+": indices of two tables are mixed"
				}
			}
			if !okI {
				r.Fail("C15.R1", key, what, w.pos(iv.Pos()), detail)
				continue
			}
			maps[m] = sp.table
			if i := strings.Index(kp, "assert<*remote.streamDeliver>("); i >= 0 {
				deliverRoots[kp[i:strings.LastIndex(kp, ".")]] = true
			}
			r.OK("C15.R1", key, what, w.pos(iv.Pos()))
			r.OK("C15.R2", fname(W)+":"+sp.table+"-lookup-inline", "miss: m[key] = len(m) (read before the insert) and the item is appended; hit: stored index, table unchanged", w.pos(iv.Pos()))
			continue
		}
		// table shipped = phi over (initial empty table, second result of the same call)
		var leaves []ssa.Value
		phiLeaves(tv, map[ssa.Value]bool{}, &leaves)
		okTab := false
		bad := ""
		for _, l := range leaves {
			if e, ok := l.(*ssa.Extract); ok {
				if e.Tuple == ssa.Value(call) && e.Index == 1 {
					okTab = true
				} else {
					bad = "Envelope." + sp.table + " also receives " + w.pathOf(l)
				}
			}
		}
		if !okTab || bad != "" {
			r.Fail("C15.R1", key, what, w.pos(call.Pos()), "the table shipped as Envelope."+sp.table+" is not the one the index was computed against. "+bad)
			continue
		}
		// the table argument threaded through the call is the same loop-carried table
		var argLeaves []ssa.Value
		phiLeaves(call.Call.Args[2], map[ssa.Value]bool{}, &argLeaves)
		okArg := false
		for _, l := range argLeaves {
			if e, ok := l.(*ssa.Extract); ok && e.Tuple == ssa.Value(call) && e.Index == 1 {
				okArg = true
			}
		}
		kp := w.pathOf(call.Call.Args[1])
		if !sp.keyWant(kp) {
			r.Fail("C15.R1", key, what, w.pos(call.Pos()), "the lookup is fed with "+kp+" instead of "+sp.keyDesc)
			continue
		}
		if i := strings.Index(kp, "assert<*remote.streamDeliver>("); i >= 0 {
			deliverRoots[kp[i:strings.LastIndex(kp, ".")]] = true
		}
		if _, isMap := call.Call.Args[0].(*ssa.MakeMap); !isMap || !okArg {
			r.Fail("C15.R1", key, what, w.pos(call.Pos()), "the lookup map is not a per-batch map, or the table is not threaded through the loop")
			continue
		}
		if other, dup := maps[call.Call.Args[0]]; dup {
			r.Fail("C15.R1", key, what, w.pos(call.Pos()), "the lookup map is shared with "+other+": indices of two tables are mixed")
			continue
		}
		maps[call.Call.Args[0]] = sp.table
		lookups = append(lookups, call.Call.StaticCallee())
		if sp.table == "TypeNames" {
			aliasRole(call.Call.StaticCallee(), "remote.lookupTypeName")
		} else {
			aliasRole(call.Call.StaticCallee(), "remote.lookupPIDs")
		}
		r.OK("C15.R1", key, what, w.pos(call.Pos()))
	}
	// Data is Serialize(delivery's msg)
	{
		p := w.pathOf(msgF["Data"])
		ok := strings.HasPrefix(p, "call:Serializer.Serialize(") && strings.HasSuffix(p, ".msg)#0")
		if i := strings.Index(p, "assert<*remote.streamDeliver>("); i >= 0 && ok {
			deliverRoots[p[i:strings.LastIndex(p, ".")]] = true
		}
		r.Check(ok && len(deliverRoots) == 1, "C15.R1", fname(W)+":Data", "Message.Data is the serialised payload of the same delivery whose target, sender and type were looked up", site,
			"payload "+p+"; deliveries referenced: "+fmt.Sprint(len(deliverRoots)))
	}

	// R2 / R3 / R4 lookup helpers
	seenL := map[*ssa.Function]bool{}
	for _, L := range lookups {
		if seenL[L] {
			continue
		}
		seenL[L] = true
		checkLookupHelper(w, r, L)
	}
	for _, L := range lookups4 {
		if seenL[origin(L)] {
			continue
		}
		seenL[origin(L)] = true
		checkLookupHelper4(w, r, L)
	}

	// R5 no holes
	{
		mv := envF["Messages"]
		var leaves []ssa.Value
		seen := map[ssa.Value]bool{}
		var walk func(v ssa.Value)
		walk = func(v ssa.Value) {
			if seen[v] {
				return
			}
			seen[v] = true
			switch x := v.(type) {
			case *ssa.Phi:
				for _, e := range x.Edges {
					walk(e)
				}
			case *ssa.Call:
				if args, ok := isBuiltinCall(x, "append"); ok {
					walk(args[0])
					return
				}
				leaves = append(leaves, v)
			default:
				leaves = append(leaves, v)
			}
		}
		if mv != nil {
			walk(mv)
		}
		ok := mv != nil && len(leaves) > 0
		detail := ""
		for _, l := range leaves {
			switch x := l.(type) {
			case *ssa.MakeSlice:
				if constStr(x.Len) != "0" {
					// pre-sized: every iteration must store
					ok = false
					detail = "Messages is pre-sized (make(len)) and filled by index: an iteration that skips its message (serialisation error) leaves a nil hole that the peer decodes as an empty message for the first target"
				}
			case *ssa.Const:
				if !x.IsNil() {
					ok = false
				}
			case *ssa.Slice:
				// []T{}[:0]
			default:
				ok = false
				detail = "Messages is built from " + w.pathOf(l)
			}
		}
		// the append of the Message literal happens only after a successful Serialize
		if ok {
			for _, in := range g.ins {
				if c, isC := in.(*ssa.Call); isC {
					if args, isA := isBuiltinCall(c, "append"); isA && seen[c] {
						_ = args
						facts := g.FactsAt(g.idx[in])
						good := false
						for _, f := range facts {
							p := w.pathOf(f.Cond)
							if strings.HasPrefix(p, "(call:Serializer.Serialize(") && (strings.HasSuffix(p, "#1!=K:nil)") && !f.Val || strings.HasSuffix(p, "#1==K:nil)") && f.Val) {
								good = true
							}
						}
						if !good {
							ok = false
							detail = "a Message is appended although its payload failed to serialise"
						}
					}
				}
			}
		}
		// a rejected message must leave no trace in the lookup tables, and must not take the batch with it
		okTables := true
		serOK := func(n int) bool {
			for _, f := range g.FactsAt(n) {
				p := w.pathOf(f.Cond)
				if strings.HasPrefix(p, "(call:Serializer.Serialize(") && (strings.HasSuffix(p, "#1!=K:nil)") && !f.Val || strings.HasSuffix(p, "#1==K:nil)") && f.Val) {
					return true
				}
			}
			return false
		}
		for _, in := range g.ins {
			if c, isC := in.(*ssa.Call); isC && c.Call.StaticCallee() != nil {
				for _, L := range lookups {
					if c.Call.StaticCallee() == L && !serOK(g.idx[in]) {
						okTables = false
					}
				}
			}
		}
		r.Check(okTables, "C15.R5", fname(W)+":tables-only-for-shipped-messages", "a lookup table entry is created only for a message whose payload serialised", site,
			"a message that is dropped still leaves its sender/target/type in the tables: with only sender-less survivors the peer attributes them to the dropped message's sender")
		okCont := true
		var sendNode []bool = make([]bool, len(g.ins))
		for i, in := range g.ins {
			if c := callOf(in); c != nil && c.IsInvoke() && c.Method.Name() == "Send" && len(c.Args) == 1 && w.resolve(c.Args[0]) == ssa.Value(envs[0]) {
				sendNode[i] = true
			}
		}
		if W != a.wInvoke {
			// in a builder helper "the batch survives" means: the envelope literal is still built
			sendNode[g.idx[envs[0]]] = true
		}
		skip, _ := g.CondEdges(func(v ssa.Value) (bool, bool) {
			p := w.pathOf(v)
			if strings.HasPrefix(p, "(call:Serializer.Serialize(") && strings.HasSuffix(p, "#1!=K:nil)") {
				return true, true
			}
			if strings.HasPrefix(p, "(call:Serializer.Serialize(") && strings.HasSuffix(p, "#1==K:nil)") {
				return false, true
			}
			if strings.HasPrefix(p, "assert<*remote.streamDeliver>(") && strings.HasSuffix(p, "#1") {
				return false, true
			}
			return false, false
		})
		// (returning without a write is fine when not a single message of the batch was accepted)
		emptyCut := map[Edge]bool{}
		if em, _ := batchEmptyEdges(w, g, envF["Messages"], envs[0]); true {
			for _, e := range em {
				emptyCut[e] = true
			}
		}
		for _, e := range skip {
			rr := g.reach([]int{e.to}, sendNode, emptyCut)
			for _, x := range g.returns {
				if rr[x] {
					okCont = false
				}
			}
		}
		r.Check(okCont && len(skip) > 0, "C15.R5", fname(W)+":skip-keeps-the-batch", "after skipping a message the rest of the batch is still sent", site,
			"one unserialisable (or foreign) message makes Invoke return: every other message of the batch is silently lost")
		r.Check(ok, "C15.R5", fname(W)+":Messages-no-holes", "Envelope.Messages is grown by append, only for messages whose payload serialised", site, detail)
	}

	// R6 unchecked assertions
	{
		serM := w.IfaceMethod("remote", "Serializer", "Serialize")
		n := 0
		for _, fn := range w.Funcs {
			if !w.isLib(fn) || fn.Signature.Recv() == nil || fnPkgPath(fn) != modPath+"/remote" || fn.Synthetic != "" {
				continue
			}
			if fn.Name() != "Serialize" && fn.Name() != "TypeName" {
				continue
			}
			if serM == nil || len(fn.Params) != 2 {
				continue
			}
			n++
			bad := ""
			for _, in := range w.insOf(fn) {
				{
					if ta, ok := in.(*ssa.TypeAssert); ok && !ta.CommaOk && w.pathOf(ta.X) == "P1" {
						bad = w.pos(ta.Pos())
					}
				}
			}
			r.Check(bad == "", "C15.R6", fname(fn)+":checked-assertion", "the payload is type-asserted with the comma-ok form", w.fnPos(fn),
				"unchecked assertion on the user payload at "+bad+": sending a non-protobuf value to a remote PID panics on the writer's inbox goroutine and kills the node")
		}
		if n == 0 {
			r.Unknown("C15.R6", "serializers", "Serializer implementations exist", "-", "no Serialize/TypeName methods found in remote")
		}
		bad := ""
		for _, ff := range w.family(a.wInvoke) {
			for _, bb := range ff.Blocks {
				for _, in := range bb.Instrs {
					if ta, ok := in.(*ssa.TypeAssert); ok && !ta.CommaOk {
						bad = w.pos(ta.Pos()) + " " + w.pathOf(ta.X)
					}
				}
			}
		}
		r.Check(bad == "", "C15.R6", fname(a.wInvoke)+":checked-assertion", "the writer asserts *streamDeliver with the comma-ok form", site,
			"unchecked assertion at "+bad+": any message addressed to the writer's PID kills the node")
	}
	checkReaderDelivery(w, r, a, "C15.R7")
	if r.Prop == "C15" {
		checkSenderFresh(w, r, "C15.R7") // "with its sender": the receiving actor's Context shows the sender of this delivery, nil included
	}
	checkReaderStateless(w, r, a, "C15.R7")
	checkPeerIndexGuards(w, r, a, "C15.R7") // (each index is checked against its own table: an honest batch is never rejected)
	// the reader resolves targets by ID alone (the address in a PID may be another spelling of this node)
	if get := w.Method("actor", "Registry", "get"); get != nil {
		gg := w.FGI(get)
		nilPid, _ := w.nilEdges(gg, "P1")
		miss, _ := gg.CondEdges(func(v ssa.Value) (bool, bool) {
			if e, ok := v.(*ssa.Extract); ok && e.Index == 1 {
				if _, isL := e.Tuple.(*ssa.Lookup); isL {
					return false, true // the !ok edge of the comma-ok lookup
				}
			}
			return false, false
		})
		okG := true
		where := ""
		for _, rc := range gg.retCases() {
			if len(rc.res) != 1 {
				continue
			}
			if k, isK := rc.res[0].(*ssa.Const); isK && k.IsNil() {
				if !rc.onlyVia(gg, append(append([]Edge{}, nilPid...), miss...)) {
					okG, where = false, w.pos(gg.ins[rc.x].Pos())
				}
			}
		}
		r.Check(okG, "C15.R7", "(*actor.Registry).get:by-id-only", "Registry.get answers nil only for a nil PID or an unknown ID", w.fnPos(get),
			"a nil answer at "+where+" depends on something else (e.g. the address): an inbound message whose target spells this node's address differently is dead-lettered although the actor exists")
	}
	// the writer may hold deliveries without sender: their *PID is used only through nil-safe methods
	{
		wg := w.FGI(a.wInvoke)
		okN := true
		whereN := ""
		for i, in := range wg.ins {
			c, isC := in.(*ssa.Call)
			if !isC || wg.inl[i] {
				continue
			}
			cal := c.Call.StaticCallee()
			if cal == nil || cal.Signature.Recv() == nil || len(c.Call.Args) == 0 {
				continue
			}
			rp := w.pathOf(c.Call.Args[0])
			if !strings.HasSuffix(rp, ".sender") {
				continue
			}
			if w.nonNilAt(wg, i, c.Call.Args[0]) || w.derefsParam(cal, 0, 0, map[string]bool{}) == nil {
				continue
			}
			okN, whereN = false, fname(cal)+" at "+w.pos(in.Pos())
		}
		r.Check(okN, "C15.R7", fname(a.wInvoke)+":sender-may-be-nil", "the writer uses a delivery's sender only through nil-safe methods", w.fnPos(a.wInvoke),
			"the sender of a delivery is dereferenced through "+whereN+": a message without sender panics on the writer's inbox goroutine and takes the batch (and the node) with it")
	}
	r.Rule("C15.R8", "writer and reader use one codec family, and a decoded message is created by the decoding call (not shared package state)", 2)
	checkCodec(w, r, "C15.R8")
}

func checkLookupHelper(w *World, r *Report, L *ssa.Function) {
	g := w.FGI(L)
	site := w.fnPos(L)
	name := fname(L)
	var lk *ssa.Lookup
	var mu *ssa.MapUpdate
	var app *ssa.Call
	for _, in := range g.ins {
		switch x := in.(type) {
		case *ssa.Lookup:
			if x.CommaOk && w.pathOf(x.X) == "P0" {
				lk = x
			}
		case *ssa.MapUpdate:
			if w.pathOf(x.Map) == "P0" {
				mu = x
			}
		case *ssa.Call:
			if args, ok := isBuiltinCall(x, "append"); ok && w.pathOf(args[0]) == "P2" {
				app = x
			}
		}
	}
	what := "miss: m[key] = len(m) (read before the insert) and the item is appended; hit: stored index, table unchanged"
	if lk == nil || mu == nil || app == nil {
		r.Unknown("C15.R2", name+":shape", what, site, "lookup / insert / append not found (unrecognised idiom)")
		return
	}
	hit, miss := g.CondEdges(func(v ssa.Value) (bool, bool) {
		if e, ok := v.(*ssa.Extract); ok && e.Tuple == ssa.Value(lk) && e.Index == 1 {
			return true, true
		}
		return false, false
	})
	ok := len(miss) > 0 && len(hit) > 0
	detail := ""
	mun, appn := g.idx[mu], g.idx[app]
	if ok && (!g.OnlyVia(miss, mun) || !g.OnlyVia(miss, appn)) {
		ok, detail = false, "the insert / append is not confined to the miss edge: a repeated key gets a second table entry, indices drift from the table"
	}
	if ok && w.pathOf(mu.Key) != w.pathOf(lk.Index) {
		ok, detail = false, "looked-up key "+w.pathOf(lk.Index)+" differs from inserted key "+w.pathOf(mu.Key)
	}
	if ok && w.pathOf(mu.Value) != "conv<int32>(len(P0))" && w.pathOf(mu.Value) != "len(P0)" {
		ok, detail = false, "the new index is "+w.pathOf(mu.Value)+", not len(map)"
	}
	if ok {
		// len(m) is evaluated before the insertion
		if lc, isI := stripConv(mu.Value).(ssa.Instruction); isI {
			if ok2, _ := g.Never(mun, setOf(len(g.ins), g.idx[lc])); !ok2 || !g.Before(setOf(len(g.ins), g.idx[lc]), mun) {
				ok, detail = false, "len(map) is read after the insertion: indices start at 1 and the last one is out of range"
			}
		}
	}
	if ok {
		// appended item is the key's subject (P1) ; returns
		ap := w.pathOf(app)
		for _, x := range g.returns {
			rs := g.ins[x].(*ssa.Return).Results
			p0, p1 := w.pathOf(rs[0]), w.pathOf(rs[1])
			if g.OnlyVia(hit, x) || g.OnlyVia(miss, x) {
				continue
			}
			if strings.HasPrefix(p0, "K:") && p1 == "P2" {
				continue // the nil-key early exit, judged by R3
			}
			want0a := "phi(" + w.pathOf(lk) + "#0|" + w.pathOf(mu.Value) + ")"
			want0b := "phi(" + w.pathOf(mu.Value) + "|" + w.pathOf(lk) + "#0)"
			if p0 != want0a && p0 != want0b {
				ok, detail = false, "returned index is "+p0
			}
			if p1 != "phi(P2|"+ap+")" && p1 != "phi("+ap+"|P2)" {
				ok, detail = false, "returned table is "+p1
			}
		}
	}
	r.Check(ok, "C15.R2", name+":shape", what, site, detail)

	// R3 / R4 only for PID tables (second parameter is *actor.PID)
	if pt, isP := L.Params[1].Type().(*types.Pointer); isP {
		if n, _ := pt.Elem().(*types.Named); n != nil && n.Obj().Name() == "PID" {
			isNil, _ := w.nilEdges(g, "P1")
			nilIdx := ""
			for _, x := range g.returns {
				if len(isNil) > 0 && g.OnlyVia(isNil, x) {
					nilIdx = constStr(g.ins[x].(*ssa.Return).Results[0])
				}
			}
			v, err := strconv.Atoi(nilIdx)
			r.Check(err == nil && v < 0, "C15.R3", name+":nil-index-collides", "a nil PID is encoded as an index that cannot name a table entry", site,
				"a message without sender gets index "+nilIdx+", a valid index as soon as another message of the batch has a sender: it arrives with that sender")
			mt, _ := L.Params[0].Type().Underlying().(*types.Map)
			okKey := false
			kd := "?"
			if mt != nil {
				kd = mt.Key().String()
				if _, isBasic := mt.Key().Underlying().(*types.Basic); !isBasic {
					kp := w.pathOf(lk.Index)
					okKey = strings.Contains(kp, "P1.Address") && strings.Contains(kp, "P1.ID")
				} else if b := mt.Key().Underlying().(*types.Basic); b.Kind() == types.String {
					okKey = false // a concatenation cannot tell the split apart
				}
			}
			r.Check(okKey, "C15.R4", name+":key", "the PID table key keeps address and id apart", site,
				"PIDs are keyed by "+kd+" ("+w.pathOf(lk.Index)+"): two PIDs whose address+id concatenate equally share a slot, the second is delivered to the first")
		}
	}
}

// checkReaderDelivery: C15.R7 / C16.R3.
func checkReaderDelivery(w *World, r *Report, a *remoteAnchors, rule string) {
	// the function that delivers one message: Receive itself or a private helper it calls per message
	R := a.rReceive
	if d := w.holder(a.rReceive, func(f *ssa.Function) bool { return len(w.callsIn(f, EvCall("SendLocal", a.sendLocal))) > 0 }); d != nil {
		R = d
	}
	g := w.FGI(R)
	site := w.fnPos(R)
	pairs := map[string]string{}
	for _, in := range g.ins {
		ia, ok := in.(*ssa.IndexAddr)
		if !ok {
			continue
		}
		tp := w.pathOf(ia.X)
		ip := w.pathOf(ia.Index)
		for _, t := range []string{"TypeNames", "Targets", "Senders"} {
			if strings.HasSuffix(tp, "."+t) {
				for _, ix := range []string{"TypeNameIndex", "TargetIndex", "SenderIndex"} {
					if strings.HasSuffix(ip, "."+ix) || strings.HasSuffix(ip, "."+ix+")") {
						pairs[t] = ix
					}
				}
			}
		}
	}
	want := map[string]string{"TypeNames": "TypeNameIndex", "Targets": "TargetIndex", "Senders": "SenderIndex"}
	for _, t := range []string{"Senders", "Targets", "TypeNames"} {
		r.Check(pairs[t] == want[t], rule, fname(a.rReceive)+":"+t+"["+want[t]+"]", "the reader indexes Envelope."+t+" with Message."+want[t], site,
			"Envelope."+t+" is indexed with Message."+pairs[t])
	}
	sites := w.callsIn(R, EvCall("SendLocal", a.sendLocal))
	ok := len(sites) == 1
	detail := fmt.Sprintf("%d SendLocal call sites", len(sites))
	if ok {
		ci := sites[0]
		c := ci.Common()
		tgt, pay, snd := w.pathOf(c.Args[1]), w.pathOf(c.Args[2]), w.pathOf(c.Args[3])
		switch {
		case callKind(ci) != "call":
			ok, detail = false, "delivery is not a plain synchronous call: per-stream order is lost"
		case !strings.Contains(tgt, ".Targets[") || !strings.Contains(tgt, ".TargetIndex"):
			ok, detail = false, "target is "+tgt
		case !strings.HasPrefix(pay, "call:Deserializer.Deserialize(") || !strings.Contains(pay, ".Data,") || !strings.Contains(pay, ".TypeNames[") || !strings.HasSuffix(pay, "#0"):
			ok, detail = false, "payload is "+pay
		case !strings.HasPrefix(snd, "phi(K:nil|") || !strings.Contains(snd, ".Senders[") || !strings.Contains(snd, ".SenderIndex"):
			ok, detail = false, "sender is "+snd
		case !strings.HasSuffix(w.pathOf(c.Args[0]), ".engine"):
			ok, detail = false, "engine is "+w.pathOf(c.Args[0])
		}
		// the message delivered is the one ranged over: all three index loads use the same Message
		if ok {
			base := func(p, ix string) string {
				i := strings.Index(p, "."+ix)
				if i < 0 {
					return ""
				}
				j := strings.LastIndex(p[:i], ".Targets[")
				if j < 0 {
					return ""
				}
				b := p[j+len(".Targets["):i]
				// the index may be converted first: Targets[int(msg.TargetIndex)]
				for strings.HasPrefix(b, "conv<") {
					k := strings.Index(b, ">(")
					if k < 0 {
						break
					}
					b = b[k+2:]
				}
				return b
			}
			if base(tgt, "TargetIndex") == "" || !strings.Contains(pay, base(tgt, "TargetIndex")+".Data") {
				ok, detail = false, "target and payload belong to different messages"
			}
		}
	}
	{
		okS := false
		for i, in := range g.ins {
			ia, isIA := in.(*ssa.IndexAddr)
			if !isIA || !strings.HasSuffix(w.pathOf(ia.X), ".Senders") {
				continue
			}
			for _, f := range g.FactsAt(i) {
				b, isB := f.Cond.(*ssa.BinOp)
				if !isB {
					continue
				}
				x, y := w.pathOf(b.X), w.pathOf(b.Y)
				if x == "len("+w.pathOf(ia.X)+")" && y == "K:0" {
					switch {
					case (b.Op == token.GTR || b.Op == token.NEQ) && f.Val, (b.Op == token.EQL || b.Op == token.LEQ) && !f.Val:
						okS = true
					}
				}
			}
		}
		r.Check(okS, rule, fname(a.rReceive)+":sender-iff-table", "the sender is read from Senders exactly when the envelope carries senders, and is nil otherwise", site,
			"the sender table is consulted on the wrong edge of len(Senders) > 0: messages lose their sender, or a sender-less envelope ends the stream")
	}
	r.Check(ok, rule, fname(a.rReceive)+":delivers", "SendLocal(Targets[TargetIndex], Deserialize(Data, TypeNames[TypeNameIndex]), Senders[SenderIndex] or nil), one plain call per message", site, detail)
}

// ---------------------------------------------------------------------------
// C16 — hostile envelopes
// ---------------------------------------------------------------------------

// validIndexHelper recognises func(i intN, n int) bool { return i >= 0 && int(i) < n }.
func (w *World) validIndexHelper(fn *ssa.Function) bool {
	defer w.keepCtx()()
	if fn == nil || fn.Blocks == nil || len(fn.Params) != 2 {
		return false
	}
	g := w.FGI(fn)
	nonNeg, _ := g.CondEdges(func(v ssa.Value) (bool, bool) {
		b, ok := v.(*ssa.BinOp)
		if !ok {
			return false, false
		}
		x, y := w.pathOf(b.X), w.pathOf(b.Y)
		switch {
		case x == "P0" && y == "K:0" && b.Op == token.GEQ, x == "P0" && y == "K:-1" && b.Op == token.GTR, x == "K:0" && y == "P0" && b.Op == token.LEQ:
			return true, true
		case x == "P0" && y == "K:0" && b.Op == token.LSS:
			return false, true
		}
		return false, false
	})
	for _, x := range g.returns {
		v := g.ins[x].(*ssa.Return).Results[0]
		var leaves []ssa.Value
		phiLeaves(v, map[ssa.Value]bool{}, &leaves)
		hasUpper := false
		for _, l := range leaves {
			switch p := w.pathOf(l); p {
			case "K:false":
			case "(conv<int>(P0)<P1)", "(P1>conv<int>(P0))":
				hasUpper = true
				if in, ok := l.(ssa.Instruction); ok && (len(nonNeg) == 0 || !g.OnlyVia(nonNeg, g.idx[in])) {
					return false
				}
			default:
				return false
			}
		}
		if !hasUpper {
			return false
		}
	}
	return len(g.returns) > 0
}

// peerIndex reports whether v is (a conversion of) a load of one of the peer-controlled index fields.
func (w *World) peerIndex(v ssa.Value, msgT *types.Named) (string, bool) {
	v = stripConv(v)
	u, ok := v.(*ssa.UnOp)
	if !ok || u.Op != token.MUL {
		return "", false
	}
	fa, ok := u.X.(*ssa.FieldAddr)
	if !ok {
		return "", false
	}
	name, n := fieldName(fa)
	if !sameNamed(n, msgT) {
		return "", false
	}
	if b, ok := fa.Type().(*types.Pointer).Elem().Underlying().(*types.Basic); ok && b.Info()&types.IsInteger != 0 {
		return name, true
	}
	return "", false
}

func checkC16(w *World, r *Report) {
	r.Rule("C16.R1", "every index taken from a received Message is range-checked (0 <= i < len(table)) on all paths before it indexes that table", 3)
	r.Rule("C16.R2", "nothing reachable from the stream handler panics, exits or asserts unchecked; every decode error ends the stream with that error", 4)
	r.Rule("C16.R3", "delivery uses the message's own valid indices", 4)
	r.Rule("C16.R4", "registered processes that a peer can address (custom Processers) take any message type without an unchecked assertion", 2)
	a := w.remoteAnchors()
	if a.fail(r, "C16.R1") {
		return
	}
	R := a.rReceive
	reach := checkPeerIndexGuards(w, r, a, "C16.R1")
	// R2
	for _, fn := range sortedFuncs(reach) {
		g := w.FGI(fn)
		var bad []string
		for _, in := range g.ins {
			switch x := in.(type) {
			case *ssa.Panic:
				bad = append(bad, "panic at "+w.pos(x.Pos()))
			case *ssa.TypeAssert:
				if !x.CommaOk {
					bad = append(bad, "unchecked assertion at "+w.pos(x.Pos()))
				}
			case ssa.CallInstruction:
				if f := x.Common().StaticCallee(); f != nil && f.Pkg != nil {
					full := f.Pkg.Pkg.Path() + "." + f.Name()
					if strings.HasPrefix(full, "log.Fatal") || strings.HasPrefix(full, "log.Panic") || full == "os.Exit" {
						bad = append(bad, full+" at "+w.pos(x.Pos()))
					}
				}
				if _, isGo := x.(*ssa.Go); isGo {
					bad = append(bad, "goroutine at "+w.pos(x.Pos()))
				}
			}
		}
		// a value that comes with an error is used (invoked, dereferenced) only where the error is known to be nil
		for i, in := range g.ins {
			var recvV ssa.Value
			switch x := in.(type) {
			case ssa.CallInstruction:
				if x.Common().IsInvoke() {
					recvV = x.Common().Value
				}
			case *ssa.FieldAddr:
				recvV = x.X
			case *ssa.UnOp:
				if x.Op == token.MUL {
					recvV = x.X
				}
			}
			ex, isEx := recvV.(*ssa.Extract)
			if !isEx || ex.Index != 0 {
				continue
			}
			call, isCall := ex.Tuple.(*ssa.Call)
			if !isCall {
				continue
			}
			sig := call.Call.Signature()
			if sig.Results().Len() != 2 || sig.Results().At(1).Type().String() != "error" {
				continue
			}
			var errV ssa.Value
			if call.Referrers() != nil {
				for _, rf := range *call.Referrers() {
					if e2, ok := rf.(*ssa.Extract); ok && e2.Index == 1 {
						errV = e2
					}
				}
			}
			checked := false
			for _, f := range g.FactsAt(i) {
				b, isB := f.Cond.(*ssa.BinOp)
				if !isB || errV == nil {
					continue
				}
				var other ssa.Value
				if k, isK := b.Y.(*ssa.Const); isK && k.IsNil() {
					other = b.X
				} else if k, isK := b.X.(*ssa.Const); isK && k.IsNil() {
					other = b.Y
				}
				if other != errV {
					continue
				}
				if (b.Op == token.EQL && f.Val) || (b.Op == token.NEQ && !f.Val) {
					checked = true
				}
			}
			if !checked {
				bad = append(bad, "the result of "+w.pathOf(call)+" is used at "+w.pos(in.Pos())+" on a path where its error was not found nil (a nil result panics)")
			}
		}
		r.Check(len(bad) == 0, "C16.R2", fname(fn)+":no-panic", "no panic, fatal exit, unchecked assertion or detached goroutine on peer data; results that come with an error are used only after the error was found nil", w.fnPos(fn), strings.Join(bad, "; "))
	}
	// error edges of the handler return the error
	{
		okAll := true
		nEdges := 0
		cands := []*ssa.Function{R}
		if d := w.holder(R, func(f *ssa.Function) bool { return len(w.callsIn(f, EvCall("SendLocal", a.sendLocal))) > 0 }); d != nil && d != R {
			cands = append(cands, d)
		}
		for _, F := range cands {
		g := w.FGI(F)
		errEdges, _ := g.CondEdges(func(v ssa.Value) (bool, bool) {
			b, ok := v.(*ssa.BinOp)
			if !ok || (b.Op != token.NEQ && b.Op != token.EQL) {
				return false, false
			}
			x, y := w.pathOf(b.X), w.pathOf(b.Y)
			if y == "K:nil" && strings.HasSuffix(x, "#1") && (strings.HasPrefix(x, "call:Deserializer.Deserialize(") || strings.HasPrefix(x, "call:DRPCRemote_ReceiveStream.Recv(")) {
				return b.Op == token.NEQ, true
			}
			return false, false
		})
		ok := true
		nEdges += len(errEdges)
		sl := w.Nodes(g, EvCall("SendLocal", a.sendLocal), false)
		for _, e := range errEdges {
			// no delivery of this message on an error edge before the loop continues with a fresh Recv
			rr := g.reach([]int{e.to}, nil, nil)
			_ = rr
			reachNoRecv := g.reach([]int{e.to}, recvNodes(w, g), nil)
			for _, s := range members(sl) {
				if reachNoRecv[s] {
					ok = false
				}
			}
		}
		if !ok {
			okAll = false
		}
		}
		ok := okAll && nEdges >= 2
		r.Check(ok, "C16.R2", fname(R)+":errors-end-the-message", "after a Recv or Deserialize error nothing of that envelope is delivered", w.fnPos(R), "a message whose payload failed to decode (or a failed Recv) can still reach SendLocal")
	}
	checkReaderDelivery(w, r, a, "C16.R3")
	r.Rule("C16.R5", "a decoded message is created by the decoding call (C15.R8); the reader keeps nothing of one stream where another stream can see it", 2)
	importRules(w, r, checkC15, "C15", "C16.R5", func(o *Obligation) bool { return o.Rule == "C15.R8" })
	checkReaderStateless(w, r, a, "C16.R5")
	// R6: the stream handler goroutine has no recover above it: what it calls to deliver must not be able to panic or
	// throw for reasons of its own. The registry map it reads is only written under the write lock (C10.R1: a concurrent
	// map read and write is a fatal error), the inbox ring it pushes into keeps its invariants (C14), and the channel
	// of a response process is never closed under a late reply.
	if r.Prop == "C16" {
		r.Rule("C16.R6", "what the reader calls to deliver cannot crash for reasons of its own: registry lock discipline (C10.R1), ring invariants (C14.R1-R5), response channels never closed (C11.R4)", 12)
		importRules(w, r, checkC10, "C10", "C16.R6", func(o *Obligation) bool { return o.Rule == "C10.R1" })
		importRules(w, r, checkC14, "C14", "C16.R6", func(o *Obligation) bool {
			return o.Rule == "C14.R1" || o.Rule == "C14.R2" || o.Rule == "C14.R3" || o.Rule == "C14.R4" || o.Rule == "C14.R5"
		})
		checkResponseChanOpen(w, r, "C16.R6")
		// the inbox keeps its processer while a worker may still be inside the loop (C02.R5: the processer is published in the
		// starting window and by nobody else): a connection that drops stops the writer's inbox from another goroutine
		importRules(w, r, checkC02, "C02", "C16.R6", func(o *Obligation) bool { return o.Rule == "C02.R5" })
		// an inbound message for an id nobody holds becomes one dead letter through BroadcastEvent (which tolerates an
		// event stream that does not exist yet), not a recursion (C09.R1, C09.R6)
		importRules(w, r, checkC09, "C09", "C16.R6", func(o *Obligation) bool { return o.Rule == "C09.R1" || o.Rule == "C09.R6" })
		// a response process is registered like any other: a peer can answer a pending request with any type. What comes
		// out of Response.Result is asserted with comma-ok everywhere in the library.
		{
			var bad []string
			n := 0
			for _, fn := range w.Funcs {
				if !w.isLib(fn) {
					continue
				}
				for _, in := range w.insOf(fn) {
					ta, ok := in.(*ssa.TypeAssert)
					if !ok {
						continue
					}
					p := w.pathOf(ta.X)
					if !strings.HasPrefix(p, "call:(*actor.Response).Result(") {
						continue
					}
					n++
					if !ta.CommaOk {
						bad = append(bad, fname(fn)+" at "+w.pos(ta.Pos()))
					}
				}
			}
			r.Check(len(bad) == 0, "C16.R6", "Response.Result:checked-assertions", "the reply of a request is type-asserted with comma-ok wherever the library reads one", "-",
				"unchecked assertion on a reply in "+strings.Join(bad, "; ")+": a peer that sends any other registered type to the response PID of a pending request makes the caller's goroutine panic")
			_ = n
		}
	}
	// R4 custom processers
	procI, _ := w.Named("actor", "Processer").Underlying().(*types.Interface)
	n := 0
	for _, fn := range w.Funcs {
		if !w.isLib(fn) || fn.Signature.Recv() == nil || fn.Synthetic != "" || (fn.Name() != "Invoke" && fn.Name() != "Send") {
			continue
		}
		rt := fn.Signature.Recv().Type()
		if procI == nil || !types.Implements(rt, procI) {
			continue
		}
		if nn, _ := structOf(rt); sameNamed(nn, w.Named("actor", "process")) {
			continue
		}
		n++
		bad := ""
		for _, ff := range w.family(fn) {
			for _, in := range w.insOf(ff) {
				{
					if ta, ok := in.(*ssa.TypeAssert); ok && !ta.CommaOk {
						bad = w.pos(ta.Pos())
					}
				}
			}
		}
		r.Check(bad == "", "C16.R4", fname(fn)+":any-message", "a custom Processer handles foreign message types without panicking", w.fnPos(fn),
			"unchecked assertion at "+bad+" on a bare inbox goroutine: a peer that addresses this process by its PID kills the node")
	}
	if n == 0 {
		r.Unknown("C16.R4", "processers", "custom Processer implementations", "-", "none found")
	}
	// the stream writer is registered (and addressable by anybody) before its stream exists: it may use
	// the stream only once a delivery of the router was accepted into the batch, or after a nil check
	if a.wInvoke != nil {
		W := a.wInvoke
		wg := w.FGI(W)
		var nonEmpty []Edge
		for _, al := range w.allocsOf(W, a.envT) {
			if fs, okF := w.litFields(al); okF && fs["Messages"] != nil {
				_, ne := batchEmptyEdges(w, wg, fs["Messages"], al)
				nonEmpty = append(nonEmpty, ne...)
			}
		}
		_, streamSet := w.nilEdges(wg, "P0.stream")
		guard := append(nonEmpty, streamSet...)
		okS := true
		used := 0
		where := ""
		// what the dial sets up (the fields the init function stores: raw connection, drpc connection, stream) is nil
		// until the dial has finished
		late := map[string]bool{"stream": true}
		if a.wInit != nil {
			for _, in := range w.insOf(a.wInit) {
				if st, isSt := in.(*ssa.Store); isSt {
					if fa, isFA := st.Addr.(*ssa.FieldAddr); isFA && w.pathOf(fa.X) == "P0" {
						if nm, _ := fieldName(fa); nm != "" {
							late[nm] = true
						}
					}
				}
			}
		}
		for i, in := range wg.ins {
			c := callOf(in)
			if c == nil {
				continue
			}
			var recvV ssa.Value
			if c.IsInvoke() {
				recvV = c.Value
			} else if f := c.StaticCallee(); f != nil && f.Signature.Recv() != nil && len(c.Args) > 0 {
				recvV = c.Args[0]
			}
			if recvV == nil {
				continue
			}
			rp := w.pathOf(recvV)
			if !strings.HasPrefix(rp, "P0.") || !late[strings.TrimPrefix(rp, "P0.")] {
				continue
			}
			if rp == "P0.stream" {
				used++
			}
			_, set := w.nilEdges(wg, rp)
			gd := append(append([]Edge{}, guard...), set...)
			if len(gd) == 0 || !wg.OnlyVia(gd, i) {
				okS = false
				where = w.pos(in.Pos()) + " (" + rp + ")"
			}
		}
		r.Check(okS && used > 0, "C16.R4", fname(W)+":stream-only-with-accepted-deliveries", "the writer touches its stream and connection only when the batch holds an accepted delivery (or they were checked for nil)", w.fnPos(W),
			"used at "+where+" although every message of the batch may have been rejected: a message addressed to the writer's PID while it is still dialling dereferences the nil stream on the inbox goroutine and kills the node")
	}
	// comma-ok discipline: the asserted value is only used where ok holds
	for _, fn := range w.Funcs {
		if !w.isLib(fn) || fnPkgPath(fn) != modPath+"/remote" || strings.Contains(w.Fset.Position(fn.Pos()).Filename, ".pb.go") {
			continue
		}
		g := w.FGI(fn)
		for _, in := range g.ins {
			ta, ok := in.(*ssa.TypeAssert)
			if !ok || !ta.CommaOk || ta.Referrers() == nil {
				continue
			}
			if _, isPtr := ta.AssertedType.Underlying().(*types.Pointer); !isPtr {
				continue
			}
			var val, okv ssa.Value
			for _, rf := range *ta.Referrers() {
				if e, isE := rf.(*ssa.Extract); isE {
					if e.Index == 0 {
						val = e
					} else {
						okv = e
					}
				}
			}
			if val == nil || val.Referrers() == nil {
				continue
			}
			bad := ""
			for _, rf := range *val.Referrers() {
				fa, isFA := rf.(*ssa.FieldAddr)
				if !isFA || fa.Referrers() == nil {
					continue
				}
				for _, use := range *fa.Referrers() {
					un, has := g.idx[use]
					if !has {
						continue
					}
					guarded := false
					for _, f := range g.FactsAt(un) {
						if f.Cond == okv && f.Val {
							guarded = true
						}
					}
					if !guarded {
						bad = w.pos(use.Pos())
					}
				}
			}
			r.Check(bad == "", "C16.R4", fname(fn)+":comma-ok["+types.TypeString(ta.AssertedType, shortQ)+"]", "the result of a comma-ok assertion is dereferenced only where ok holds", w.pos(ta.Pos()),
				"the asserted pointer is dereferenced at "+bad+" on a path where the assertion failed (nil): a foreign message type crashes the node")
		}
	}
}

func recvNodes(w *World, g *FG) []bool {
	out := make([]bool, len(g.ins))
	for i, in := range g.ins {
		if c := callOf(in); c != nil && c.IsInvoke() && c.Method.Name() == "Recv" {
			out[i] = true
		}
	}
	return out
}

func sortedFuncs(m map[*ssa.Function]bool) []*ssa.Function {
	var out []*ssa.Function
	for f := range m {
		out = append(out, f)
	}
	for i := range out {
		for j := i + 1; j < len(out); j++ {
			if out[j].String() < out[i].String() {
				out[i], out[j] = out[j], out[i]
			}
		}
	}
	return out
}

// ---------------------------------------------------------------------------
// C17 — remote transport: failure reporting and re-dial structure
// ---------------------------------------------------------------------------

func checkC17(w *World, r *Report) {
	r.Rule("C17.R1", "Remote.Send wraps (target, sender, message) unchanged into a streamDeliver for the router; the writer enqueues envelopes unchanged", 2)
	r.Rule("C17.R2", "router: one writer per target address, spawned and recorded on the miss edge only; every delivery is forwarded once to that writer", 3)
	r.Rule("C17.R3", "writer: the inbox is opened before dialling; a failed dial, a failed stream open and a lost connection all reach Shutdown, which tells the router, publishes RemoteUnreachableEvent, stops the inbox and unregisters", 7)
	r.Rule("C17.R4", "router: RemoteUnreachableEvent removes the writer of that address, so the next send dials afresh", 2)
	r.Rule("C17.R5", "Remote.Start proceeds only from 'initialized', Remote.Stop only from 'running'; the other edges touch nothing and Stop still returns a usable WaitGroup", 4)
	a := w.remoteAnchors()
	if a.fail(r, "C17.R1") {
		return
	}
	eSend := w.Method("actor", "Engine", "Send")
	rsend := w.Method("remote", "Remote", "Send")
	w.checkRow(r, row{rule: "C17.R1", fn: rsend, callee: EvCall("Engine.Send", eSend), name: "Engine.Send",
		args: []string{"P0.engine", "P0.streamRouterPID", "&lit:streamDeliver{msg=P2,sender=P3,target=P1}"},
		why:  "The message, its target or its sender is altered before it reaches the router."})
	w.checkRow(r, row{rule: "C17.R1", fn: a.wSend, callee: EvInvoke("Inboxer.Send", w.IfaceMethod("actor", "Inboxer", "Send")), name: "Inboxer.Send",
		args: []string{"P0.inbox", "lit:Envelope{Msg=P2,Sender=P3}"}, why: "The writer drops or alters queued deliveries."})

	// the writer's inbox is fed by its Send alone: a writer that puts part of a batch back into its own inbox sends it
	// behind whatever arrived meanwhile (order between two sends of one goroutine to one target is lost)
	{
		evIS := EvInvoke("Inboxer.Send", w.IfaceMethod("actor", "Inboxer", "Send"))
		var others []string
		for _, fn := range w.MethodsOf("remote", "streamWriter") {
			if fn == a.wSend {
				continue
			}
			for _, ci := range w.callsIn(fn, Ev{Name: evIS.Name, M: evIS.M, Shallow: true}) {
				if len(w.inlineRoots(fn)) == 1 && w.inlineRoots(fn)[0] == a.wSend {
					continue
				}
				others = append(others, fname(fn)+" at "+w.pos(ci.Pos()))
			}
		}
		r.Check(len(others) == 0, "C17.R1", "streamWriter.inbox:fed-by-Send-only", "only streamWriter.Send enqueues into the writer's inbox", w.fnPos(a.wSend),
			"also enqueued by "+strings.Join(others, "; ")+": deliveries put back into the inbox travel behind later ones")
	}
	// the configured buffer size bounds what a peer may send in one packet, on both ends of a connection: the server
	// side (Remote.Start) and the client side (the writer's dial) hand it to the same drpc option, the reader's maximum
	{
		type site struct {
			fn   *ssa.Function
			ctor string
			want string
		}
		okB := true
		detail := ""
		n := 0
		// every place in package remote that sets a MaximumBufferSize sets the one of drpcwire.ReaderOptions (the inbound
		// packet limit), from the configured size (directly, or through a parameter of a shared options helper)
		for _, fn := range w.Funcs {
			if !w.isLib(fn) || fnPkgPath(fn) != modPath+"/remote" {
				continue
			}
			for _, in := range w.insOf(fn) {
				sto, ok := in.(*ssa.Store)
				if !ok {
					continue
				}
				fa, ok := sto.Addr.(*ssa.FieldAddr)
				if !ok {
					continue
				}
				nN, sN := structOf(fa.X.Type())
				if sN == nil || fa.Field >= sN.NumFields() || sN.Field(fa.Field).Name() != "MaximumBufferSize" {
					continue
				}
				n++
				vp := w.pathOf(sto.Val)
				okV := vp == "P0.config.BuffSize" || vp == "P0.buffSize" || regexp.MustCompile(`^P[0-9]+$`).MatchString(vp) || strings.HasSuffix(vp, ".BuffSize") || strings.HasSuffix(vp, ".buffSize")
				if nN == nil || nN.Obj().Name() != "ReaderOptions" || nN.Obj().Pkg() == nil || nN.Obj().Pkg().Name() != "drpcwire" || !okV {
					okB = false
					tn := "?"
					if nN != nil {
						tn = nN.Obj().Pkg().Name() + "." + nN.Obj().Name()
					}
					detail = fname(fn) + " sets " + tn + ".MaximumBufferSize = " + vp
				}
			}
		}
		_ = site{}
		r.Check(okB && n >= 1, "C17.R1", "Remote:buffer-size-both-ends", "the configured buffer size is the reader's maximum packet size on the listening and on the dialling side", w.fnPos(a.wInit),
			detail+": one end keeps drpc's default limit, a batch the other end is allowed to send ends the connection with a data overflow while the peer is up")
	}
	// R2 and R4: the router (rules_remote2.go)
	checkRouter(w, r, eSend)
	// R3
	{
		ig := w.FGI(a.wInit)
		site := w.fnPos(a.wInit)
		S := w.Nodes(ig, EvCall("Shutdown", a.wShutdown), true)
		noConn, _ := ig.CondEdges(func(v ssa.Value) (bool, bool) {
			b, ok := v.(*ssa.BinOp)
			if !ok || (b.Op != token.EQL && b.Op != token.NEQ) {
				return false, false
			}
			x, y := b.X, b.Y
			if k, isK := x.(*ssa.Const); isK && k.IsNil() {
				x, y = y, x
			}
			if k, isK := y.(*ssa.Const); !isK || !k.IsNil() || x.Type().String() != "net.Conn" {
				return false, false
			}
			return b.Op == token.EQL, true
		})
		okNC := len(noConn) > 0
		for _, e := range noConn {
			rr := ig.reach([]int{e.to}, S, nil)
			for _, x := range ig.returns {
				if rr[x] {
					okNC = false
				}
			}
		}
		r.Check(okNC, "C17.R3", fname(a.wInit)+":dial-failed", "when no connection could be established the writer shuts down", site,
			"an unreachable peer leaves a registered writer without connection: no RemoteUnreachableEvent, messages pile up in its inbox instead of dead-lettering")
		// ... and that test sees a failed dial: a dial function that returns a pointer (tls.Dial: *tls.Conn) hands back a
		// nil pointer with its error, and a nil pointer stored in the net.Conn variable is not a nil net.Conn. The
		// conversion has to sit behind the error test of that very call.
		{
			var early []string
			nDial := 0
			for n, in := range ig.ins {
				mi, ok := in.(*ssa.MakeInterface)
				if !ok || mi.Type().String() != "net.Conn" {
					continue
				}
				if _, isPtr := mi.X.Type().Underlying().(*types.Pointer); !isPtr {
					continue
				}
				ex, ok := w.resolve(mi.X).(*ssa.Extract)
				if !ok || ex.Index != 0 {
					continue
				}
				call, ok := ex.Tuple.(*ssa.Call)
				if !ok || !evDial().M(call) {
					continue
				}
				nDial++
				_, errNil := ig.CondEdges(func(v ssa.Value) (bool, bool) {
					b, ok := v.(*ssa.BinOp)
					if !ok || (b.Op != token.EQL && b.Op != token.NEQ) {
						return false, false
					}
					x, y := b.X, b.Y
					if k, isK := x.(*ssa.Const); isK && k.IsNil() {
						x, y = y, x
					}
					if k, isK := y.(*ssa.Const); !isK || !k.IsNil() {
						return false, false
					}
					if e2, isE := w.resolve(x).(*ssa.Extract); isE && e2.Tuple == ssa.Value(call) && e2.Index == 1 {
						return b.Op == token.NEQ, true
					}
					return false, false
				})
				if len(errNil) == 0 || !ig.OnlyVia(errNil, n) {
					early = append(early, w.pos(call.Pos())+" ("+mi.X.Type().String()+")")
				}
			}
			r.Check(len(early) == 0, "C17.R3", fname(a.wInit)+":failed-dial-is-nil", "a dial result of pointer type becomes the net.Conn that is tested for nil only behind the error test of that dial", site,
				"converted at "+strings.Join(early, ", ")+" before the error of the dial was looked at: after a failed dial the net.Conn holds a nil pointer, `== nil` is false, the writer goes on and dereferences it (the router actor crashes; no RemoteUnreachableEvent, no dead letters, the writer stays registered)")
			_ = nDial
		}
		recvErr, _ := ig.CondEdges(func(v ssa.Value) (bool, bool) {
			b, ok := v.(*ssa.BinOp)
			if !ok || (b.Op != token.NEQ && b.Op != token.EQL) {
				return false, false
			}
			x := w.pathOf(b.X)
			return b.Op == token.NEQ, w.pathOf(b.Y) == "K:nil" && strings.HasPrefix(x, "call:DRPCRemoteClient.Receive(") && strings.HasSuffix(x, "#1")
		})
		okRE := len(recvErr) > 0
		for _, e := range recvErr {
			rr := ig.reach([]int{e.to}, S, nil)
			for _, x := range ig.returns {
				if rr[x] {
					okRE = false
				}
			}
		}
		r.Check(okRE, "C17.R3", fname(a.wInit)+":stream-open-failed", "when the stream cannot be opened the writer shuts down", site, "a failed stream open leaves a dead writer registered")
		// the context given to the stream-open call is the context of the whole stream, not of the call: a deadline on it
		// tears the healthy connection down when it expires
		{
			var limited []string
			nOpen := 0
			var derive func(v ssa.Value, seen map[ssa.Value]bool)
			derive = func(v ssa.Value, seen map[ssa.Value]bool) {
				v = w.resolve(v)
				if seen[v] {
					return
				}
				seen[v] = true
				switch x := v.(type) {
				case *ssa.Extract:
					derive(x.Tuple, seen)
				case *ssa.Phi:
					for _, e := range x.Edges {
						derive(e, seen)
					}
				case *ssa.Call:
					if f := x.Call.StaticCallee(); f != nil && f.Pkg != nil && f.Pkg.Pkg.Path() == "context" {
						if strings.Contains(f.Name(), "Timeout") || strings.Contains(f.Name(), "Deadline") {
							limited = append(limited, "context."+f.Name()+" at "+w.pos(x.Pos()))
						}
						if len(x.Call.Args) > 0 {
							derive(x.Call.Args[0], seen)
						}
					}
				}
			}
			for _, in := range ig.ins {
				c := callOf(in)
				if c == nil || !c.IsInvoke() || c.Method.Name() != "Receive" || len(c.Args) != 1 || !strings.HasSuffix(c.Value.Type().String(), "DRPCRemoteClient") {
					continue
				}
				nOpen++
				derive(c.Args[0], map[ssa.Value]bool{})
			}
			r.Check(len(limited) == 0 && nOpen > 0, "C17.R3", fname(a.wInit)+":stream-context-unbounded", "the context the outbound stream is opened with carries no deadline (it lives as long as the stream)", site,
				"the stream's context comes from "+strings.Join(limited, ", ")+": when it expires the established stream is cancelled, a peer that is up is reported unreachable and the messages in flight are lost")
		}
		// lost connection: a goroutine waits on conn.Closed() and then shuts down
		okLC := false
		for _, in := range ig.ins {
			if gi, ok := in.(*ssa.Go); ok {
				// `go func(){...}()` or `go s.method()`
				var cf *ssa.Function
				if mc, ok := gi.Call.Value.(*ssa.MakeClosure); ok {
					cf, _ = mc.Fn.(*ssa.Function)
				} else if sc := gi.Call.StaticCallee(); sc != nil && sc.Blocks != nil && w.isLib(sc) {
					cf = sc
				}
				if cf != nil {
					cg := w.FGI(cf)
					if cg.AfterEntry(w.Nodes(cg, EvCall("Shutdown", a.wShutdown), true)) {
						for _, x := range cg.ins {
							if u, ok := x.(*ssa.UnOp); ok && u.Op == token.ARROW && strings.Contains(w.pathOf(u.X), "Closed(") {
								okLC = true
							}
						}
					}
				}
			}
		}
		r.Check(okLC, "C17.R3", fname(a.wInit)+":connection-lost", "a watcher goroutine shuts the writer down when the connection closes", site, "a lost connection is never noticed: later sends go to a dead stream forever")
		// Start: inbox first, then init
		sg := w.FGI(a.wStart)
		IS := w.Nodes(sg, EvInvoke("Inboxer.Start", w.IfaceMethod("actor", "Inboxer", "Start")), true)
		okS := sg.AfterEntry(IS)
		evInit := EvCall("init", a.wInit)
		if a.wInit == a.wStart {
			evInit = evDial()
		}
		for _, ci := range w.callsIn(a.wStart, evInit) {
			if !sg.Before(IS, sg.idx[ci.(ssa.Instruction)]) {
				okS = false
			}
		}
		for _, ci := range w.callsIn(a.wStart, EvInvoke("Inboxer.Start", w.IfaceMethod("actor", "Inboxer", "Start"))) {
			if w.pathOf(ci.Common().Args[0]) != "P0" {
				okS = false
			}
		}
		for _, ci := range w.callsIn(a.wStart, evInit) {
			if callKind(ci) != "call" {
				okS = false
			}
		}
		if a.wInit == a.wStart {
			// written out: the dial sits in the retry loop (whose zero-iteration path is not excluded statically)
			if !anyOf(w.Nodes(sg, evInit, true)) {
				okS = false
			}
		} else if !sg.AfterEntry(w.Nodes(sg, evInit, true)) {
			okS = false
		}
		r.Check(okS, "C17.R3", fname(a.wStart)+":inbox-then-dial", "the writer's inbox is started (with the writer as processer) and the connection is dialled synchronously, on every path", w.fnPos(a.wStart), "the writer never consumes its inbox, or it starts consuming before the stream exists (nil stream in Invoke)")
		// Shutdown
		hg := w.FGI(a.wShutdown)
		hs := w.fnPos(a.wShutdown)
		w.checkRow(r, row{rule: "C17.R3", fn: a.wShutdown, callee: EvCall("Engine.Send", eSend), name: "Engine.Send",
			args: []string{"P0.engine", "P0.routerPID", "lit:RemoteUnreachableEvent{ListenAddr=P0.writeToAddr}"}, why: "The router is not told that this address is unreachable: it keeps the dead writer."})
		w.checkRow(r, row{rule: "C17.R3", fn: a.wShutdown, callee: w.evBroadcast("actor", "RemoteUnreachableEvent"), name: "BroadcastEvent(RemoteUnreachableEvent)",
			args: []string{"P0.engine", "lit:RemoteUnreachableEvent{ListenAddr=P0.writeToAddr}"}, why: "Subscribers (and the cluster provider) never learn that the peer is unreachable."})
		{
			_, nonNil := w.nilEdges(hg, "P0.stream")
			okNil := true
			for i, in := range hg.ins {
				if c := callOf(in); c != nil && c.IsInvoke() && w.pathOf(c.Value) == "P0.stream" {
					if len(nonNil) == 0 || !hg.OnlyVia(nonNil, i) {
						okNil = false
					}
				}
			}
			r.Check(okNil, "C17.R3", fname(a.wShutdown)+":stream-nil-guard", "Shutdown touches the stream only if one was opened (it is nil when the dial failed)", hs,
				"Shutdown calls a method on the nil stream when the peer could not be reached: the unreachable path panics inside the router's Receive")
		}
		okStop := hg.AfterEntry(w.Nodes(hg, EvInvoke("Inboxer.Stop", w.IfaceMethod("actor", "Inboxer", "Stop")), true))
		r.Check(okStop, "C17.R3", fname(a.wShutdown)+":stops-inbox", "Shutdown stops the writer's inbox on every path", hs, "the dead writer keeps consuming")
		okRem := false
		rem := w.Method("actor", "Registry", "Remove")
		R := w.Nodes(hg, EvCall("Registry.Remove", rem), true)
		if hg.AfterEntry(R) {
			for _, ci := range w.callsIn(a.wShutdown, EvCall("Registry.Remove", rem)) {
				p := w.pathOf(ci.Common().Args[1])
				if p == "P0.pid" || strings.HasSuffix(p, "streamWriter).PID(P0)") {
					okRem = true
				}
			}
		}
		r.Check(okRem, "C17.R3", fname(a.wShutdown)+":unregisters", "Shutdown removes the writer's own PID from the registry on every path", hs,
			"the dead writer stays registered: messages for that address are swallowed instead of dead-lettering and no fresh connection is attempted")
	}
	// R6: the writer's batch survives a bad message; a closed stream closes the connection; the reader keeps sender per message
	r.Rule("C17.R6", "writer: a skipped message does not abort the batch and an EOF on the stream closes the connection (which shuts the writer down); reader: target, payload and sender are per message", 5)
	{
		W := a.wInvoke
		if b := w.holder(a.wInvoke, func(f *ssa.Function) bool { return len(w.allocsOf(f, a.envT)) == 1 }); b != nil {
			W = b
		}
		wg := w.FGI(W)
		sendN := make([]bool, len(wg.ins))
		for i, in := range wg.ins {
			if c := callOf(in); c != nil && c.IsInvoke() && c.Method.Name() == "Send" && len(c.Args) == 1 {
				if _, isCall := in.(*ssa.Call); isCall {
					sendN[i] = true
				}
			}
		}
		if W != a.wInvoke {
			for _, al := range w.allocsOf(W, a.envT) {
				sendN[wg.idx[al]] = true
			}
		}
		skip, _ := wg.CondEdges(func(v ssa.Value) (bool, bool) {
			p := w.pathOf(v)
			if strings.HasPrefix(p, "(call:Serializer.Serialize(") && strings.HasSuffix(p, "#1!=K:nil)") {
				return true, true
			}
			if strings.HasPrefix(p, "(call:Serializer.Serialize(") && strings.HasSuffix(p, "#1==K:nil)") {
				return false, true
			}
			if strings.HasPrefix(p, "assert<*remote.streamDeliver>(") && strings.HasSuffix(p, "#1") {
				return false, true
			}
			return false, false
		})
		ok := len(skip) > 0 && anyOf(sendN)
		emptyCut := map[Edge]bool{}
		for _, al := range w.allocsOf(W, a.envT) {
			if fs, okF := w.litFields(al); okF {
				em, _ := batchEmptyEdges(w, wg, fs["Messages"], al)
				for _, e := range em {
					emptyCut[e] = true
				}
			}
		}
		for _, e := range skip {
			rr := wg.reach([]int{e.to}, sendN, emptyCut)
			for _, x := range wg.returns {
				if rr[x] {
					ok = false
				}
			}
		}
		r.Check(ok, "C17.R6", fname(W)+":skip-keeps-the-batch", "after skipping a message the rest of the batch is still written to the stream", w.fnPos(W),
			"one rejected message makes Invoke return: the other messages of the batch are neither delivered nor dead-lettered")
		W = a.wInvoke
		wg = w.FGI(W)
		eof, _ := wg.CondEdges(func(v ssa.Value) (bool, bool) {
			p := w.pathOf(v)
			return true, strings.HasPrefix(p, "call:errors.Is(call:DRPCRemote_ReceiveStream.Send(") && strings.HasSuffix(p, ",G:EOF)")
		})
		closeN := make([]bool, len(wg.ins))
		for i, in := range wg.ins {
			if c := callOf(in); c != nil {
				if f := c.StaticCallee(); f != nil && (f == a.wShutdown || (f.Name() == "Close" && strings.HasSuffix(w.pathOf(c.Args[0]), ".conn"))) {
					closeN[i] = true
				}
				if c.IsInvoke() && c.Method.Name() == "Close" && (strings.HasSuffix(w.pathOf(c.Value), ".conn") || strings.HasSuffix(w.pathOf(c.Value), ".rawconn")) {
					closeN[i] = true
				}
			}
		}
		okE := len(eof) > 0
		for _, e := range eof {
			rr := wg.reach([]int{e.to}, closeN, nil)
			for _, x := range wg.returns {
				if rr[x] {
					okE = false
				}
			}
		}
		r.Check(okE, "C17.R6", fname(W)+":eof-closes-connection", "when the peer has ended the stream (io.EOF) the writer closes its connection, so that the watcher shuts it down", w.fnPos(W),
			"a writer whose stream was closed by the peer stays registered: every later message for that address is silently lost, no RemoteUnreachableEvent, no re-dial")
	}
	checkReaderDelivery(w, r, a, "C17.R6")
	// R7: "with its sender": the wire tables that carry target and sender are sound (C15.R1, R2, R4, R8)
	r.Rule("C17.R7", "the batch encoding keeps every message's own target and sender: index/table agreement, lookup helpers, tables keyed by (address, id), one codec family (C15)", 8)
	importRules(w, r, checkC15, "C15", "C17.R7", func(o *Obligation) bool {
		return o.Rule == "C15.R1" || o.Rule == "C15.R2" || o.Rule == "C15.R4" || o.Rule == "C15.R8"
	})
	// R8: the inboxes a remote message waits in (writer, target) keep it and its order: ring transfers (C14.R2-R5)
	r.Rule("C17.R8", "queued deliveries survive a growing inbox in order (C14.R2-R5)", 8)
	importRules(w, r, checkC14, "C14", "C17.R8", func(o *Obligation) bool {
		return o.Rule == "C14.R1" || o.Rule == "C14.R2" || o.Rule == "C14.R3" || o.Rule == "C14.R4" || o.Rule == "C14.R5"
	})
	if r.Prop == "C17" {
		// ... and each of those inboxes is drained by one worker at a time (the writer's, the target actor's): order and
		// exactly-once on the receiving side (C02.R1-R4)
		importRules(w, r, checkC02, "C02", "C17.R8", func(o *Obligation) bool {
			return o.Rule == "C02.R1" || o.Rule == "C02.R2" || o.Rule == "C02.R3" || o.Rule == "C02.R4"
		})
	}
	// R5
	{
		rstart := w.Method("remote", "Remote", "Start")
		rstop := w.Method("remote", "Remote", "Stop")
		remT := w.Named("remote", "Remote")
		if rstart == nil || rstop == nil || remT == nil {
			r.Unknown("C17.R5", "Remote", "Remote.Start/Stop", "-", "not found")
			return
		}
		stateEdges := func(g *FG) (map[string][]Edge, map[string][]Edge) {
			eq, ne := map[string][]Edge{}, map[string][]Edge{}
			for n, in := range g.ins {
				iff, ok := in.(*ssa.If)
				if !ok {
					continue
				}
				b, ok := iff.Cond.(*ssa.BinOp)
				if !ok || (b.Op != token.EQL && b.Op != token.NEQ) {
					continue
				}
				x := w.pathOf(b.X)
				k := constStr(b.Y)
				if !strings.HasSuffix(x, "Uint32).Load(&P0.state)") || k == "" {
					continue
				}
				te, _ := g.EdgeOf(n, true)
				fe, _ := g.EdgeOf(n, false)
				if b.Op == token.EQL {
					eq[k] = append(eq[k], te)
					ne[k] = append(ne[k], fe)
				} else {
					eq[k] = append(eq[k], fe)
					ne[k] = append(ne[k], te)
				}
			}
			return eq, ne
		}
		stores := func(fn *ssa.Function) map[string]int {
			out := map[string]int{}
			g := w.FGI(fn)
			for i, in := range g.ins {
				if c := callOf(in); c != nil && c.StaticCallee() != nil && strings.HasSuffix(c.StaticCallee().String(), "Uint32).Store") && len(c.Args) == 2 && w.pathOf(c.Args[0]) == "&P0.state" {
					out[constStr(c.Args[1])] = i
				}
			}
			return out
		}
		// constants by role
		newFn := w.Func("remote", "New")
		initK := ""
		if newFn != nil {
			for k := range stores2(w, newFn) {
				initK = k
			}
		}
		sg := w.FGI(rstart)
		eq, ne := stateEdges(sg)
		st := stores(rstart)
		runningK := ""
		for k := range st {
			runningK = k
		}
		ok := initK != "" && len(eq[initK]) > 0 && len(st) == 1
		detail := "Start does not test state == initialized, or does not store exactly one new state"
		if ok {
			for i, in := range sg.ins {
				if c := callOf(in); c != nil {
					p := ""
					if f := c.StaticCallee(); f != nil {
						p = f.String()
					}
					if strings.HasSuffix(p, "Uint32).Load") || p == "fmt.Errorf" || p == "errors.New" {
						continue
					}
					if !sg.OnlyVia(eq[initK], i) {
						ok, detail = false, "Start does work ("+w.pos(in.Pos())+") although the remote is not in state 'initialized': a second Start re-listens / respawns the router"
					}
				}
				// a refused Start leaves the remote as it was: no field of the receiver is written outside the guard
				if st, isSt := in.(*ssa.Store); isSt {
					if fa, isFA := st.Addr.(*ssa.FieldAddr); isFA && w.pathOf(fa.X) == "P0" && !sg.OnlyVia(eq[initK], i) {
						fnm, _ := fieldName(fa)
						ok, detail = false, "Start writes Remote."+fnm+" ("+w.pos(in.Pos())+") before it has checked the state: a refused second Start (e.g. from another engine) re-wires the running remote"
					}
				}
			}
			for _, e := range ne[initK] {
				rr := sg.reach([]int{e.to}, nil, nil)
				for _, x := range sg.returns {
					if rr[x] && sg.OnlyVia(ne[initK], x) {
						if w.pathOf(sg.ins[x].(*ssa.Return).Results[0]) == "K:nil" {
							ok, detail = false, "a refused Start returns nil"
						}
					}
				}
			}
		}
		r.Check(ok, "C17.R5", fname(rstart)+":only-from-initialized", "Start does nothing unless the state is 'initialized', and then moves it on", w.fnPos(rstart), detail)
		pg := w.FGI(rstop)
		peq, pne := stateEdges(pg)
		pst := stores(rstop)
		ok2 := runningK != "" && len(peq[runningK]) > 0 && len(pst) == 1
		detail2 := "Stop does not test state == running (the state Start stores)"
		if ok2 {
			for i, in := range pg.ins {
				switch x := in.(type) {
				case *ssa.Send:
					if !pg.OnlyVia(peq[runningK], i) {
						ok2, detail2 = false, "Stop signals stopCh although the remote is not running: a second Stop blocks forever / closes twice"
					}
				case *ssa.Call:
					if b, isB := x.Call.Value.(*ssa.Builtin); isB && b.Name() == "close" && !pg.OnlyVia(peq[runningK], i) {
						ok2, detail2 = false, "Stop closes stopCh although the remote is not running"
					}
				}
			}
			for k, i := range pst {
				if k == runningK || k == initK || !pg.OnlyVia(peq[runningK], i) {
					ok2, detail2 = false, "Stop stores state "+k+" outside the running edge"
				}
			}
			for _, x := range pg.returns {
				p := w.pathOf(pg.ins[x].(*ssa.Return).Results[0])
				if pg.OnlyVia(pne[runningK], x) && !strings.HasPrefix(p, "&lit:WaitGroup{") {
					ok2, detail2 = false, "the not-running edge of Stop returns "+p+" instead of a fresh WaitGroup (nil before Start: the caller's Wait panics)"
				}
				if pg.OnlyVia(peq[runningK], x) && p != "P0.stopWg" {
					ok2, detail2 = false, "the running edge of Stop returns "+p+" instead of the listener's WaitGroup"
				}
			}
		}
		if ok2 {
			sig := make([]bool, len(pg.ins))
			for i, in := range pg.ins {
				switch x := in.(type) {
				case *ssa.Send:
					if w.pathOf(x.Chan) == "P0.stopCh" {
						sig[i] = true
					}
				case *ssa.Call:
					if args, isC := isBuiltinCall(x, "close"); isC && w.pathOf(args[0]) == "P0.stopCh" {
						sig[i] = true
					}
				}
			}
			rr := reachFromEdges(pg, peq[runningK], sig)
			for _, x := range pg.returns {
				if rr[x] {
					ok2, detail2 = false, "on the running edge Stop can return without signalling stopCh: the listener keeps accepting connections and Stop().Wait() never returns"
				}
			}
		}
		r.Check(ok2, "C17.R5", fname(rstop)+":only-from-running", "Stop signals the listener only when running; otherwise it returns an empty WaitGroup", w.fnPos(rstop), detail2)
		// the listener goroutine: Done on the stop WaitGroup when Serve returns; cancel when stopCh fires
		okG := false
		okC := false
		goBodies := append([]*ssa.Function{}, rstart.AnonFuncs...)
		for _, in := range w.insOf(rstart) {
			// a goroutine body written as a named method: `go r.awaitStop(cancel)`
			if gi, isGo := in.(*ssa.Go); isGo {
				if f := gi.Call.StaticCallee(); f != nil && w.isLib(f) && f.Parent() == nil {
					goBodies = append(goBodies, f)
				}
			}
		}
		for _, af := range goBodies {
			ag := w.FGI(af)
			for _, d := range ag.defers {
				if f := ag.ins[d].(*ssa.Defer).Call.StaticCallee(); f != nil && strings.HasSuffix(f.String(), "WaitGroup).Done") {
					for _, in := range ag.ins {
						if c := callOf(in); c != nil && c.StaticCallee() != nil && strings.HasSuffix(c.StaticCallee().String(), "Server).Serve") {
							okG = true
						}
					}
				}
			}
			hasRecv, hasCancel := false, false
			for _, in := range ag.ins {
				if u, ok := in.(*ssa.UnOp); ok && u.Op == token.ARROW && strings.HasSuffix(w.pathOf(u.X), ".stopCh") {
					hasRecv = true
				}
				if c := callOf(in); c != nil && isCancelFunc(c.Value.Type()) {
					hasCancel = true
				}
			}
			if hasRecv && hasCancel {
				okC = true
			}
		}
		r.Check(okG, "C17.R5", fname(rstart)+":serve-goroutine", "the Serve goroutine signals the stop WaitGroup when the server has stopped", w.fnPos(rstart), "Stop().Wait() does not wait for the listener to stop")
		r.Check(okC, "C17.R5", fname(rstart)+":stop-cancels-serve", "the stop signal cancels the server's context", w.fnPos(rstart), "Stop does not stop the listener: inbound connections are still accepted")
	}
}

func stores2(w *World, fn *ssa.Function) map[string]int {
	out := map[string]int{}
	g := w.FGI(fn)
	for i, in := range g.ins {
		if c := callOf(in); c != nil && c.StaticCallee() != nil && strings.HasSuffix(c.StaticCallee().String(), "Uint32).Store") && len(c.Args) == 2 {
			out[constStr(c.Args[1])] = i
		}
	}
	return out
}

// g2nil: edges on which a value whose path satisfies pred is nil / non-nil.
func g2nil(w *World, g *FG, pred func(string) bool) (isNil, nonNil []Edge) {
	return g.CondEdges(func(v ssa.Value) (bool, bool) {
		b, ok := v.(*ssa.BinOp)
		if !ok || (b.Op != token.EQL && b.Op != token.NEQ) {
			return false, false
		}
		x, y := w.pathOf(b.X), w.pathOf(b.Y)
		if x == "K:nil" {
			x, y = y, x
		}
		if y != "K:nil" || !pred(x) || strings.HasSuffix(x, "#1") {
			return false, false
		}
		return b.Op == token.EQL, true
	})
}

// inlineLookup: the lookup idiom written out in the writer's batch loop instead of a helper:
//
//	id, ok := M[K]; if !ok { id = len(M); M[K] = id; table = append(table, item) }
//
// iv is the index stored in the Message literal, tv the table shipped in the Envelope. Conditions are
// those of checkLookupHelper, on values instead of parameters. Returns the per-batch map.
func inlineLookup(w *World, g *FG, iv, tv ssa.Value, keyWant func(string) bool, keyDesc string) (m ssa.Value, key string, ok bool, detail string) {
	ph, isPhi := stripConv(iv).(*ssa.Phi)
	if !isPhi || len(ph.Edges) != 2 {
		return nil, "", false, "the index is " + w.pathOf(iv) + ": neither the result of a lookup helper nor the inline form phi(M[K], len(M))"
	}
	var lk *ssa.Lookup
	var lenV ssa.Value
	for _, e := range ph.Edges {
		if ex, isEx := stripConv(e).(*ssa.Extract); isEx && ex.Index == 0 {
			if l, isL := ex.Tuple.(*ssa.Lookup); isL && l.CommaOk {
				lk = l
				continue
			}
		}
		lenV = e
	}
	if lk == nil || lenV == nil {
		return nil, "", false, "the index is " + w.pathOf(iv) + ", not phi(M[K], len(M))"
	}
	m = lk.X
	key = w.pathOf(lk.Index)
	if _, isMap := m.(*ssa.MakeMap); !isMap {
		return m, key, false, "the lookup map is not a per-batch map"
	}
	if p := w.pathOf(lenV); p != "conv<int32>(len("+w.pathOf(m)+"))" && p != "len("+w.pathOf(m)+")" {
		return m, key, false, "the new index is " + p + ", not len(map)"
	}
	if !keyWant(key) {
		return m, key, false, "the lookup is keyed by " + key + " instead of " + keyDesc
	}
	hit, miss := g.CondEdges(func(v ssa.Value) (bool, bool) {
		if e, isE := v.(*ssa.Extract); isE && e.Tuple == ssa.Value(lk) && e.Index == 1 {
			return true, true
		}
		return false, false
	})
	if len(hit) == 0 || len(miss) == 0 {
		return m, key, false, "the comma-ok result of the lookup is not tested"
	}
	// exactly one insert into M, with the looked-up key and the new index, on the miss edge
	var mu *ssa.MapUpdate
	n := 0
	for _, in := range g.ins {
		if u, isU := in.(*ssa.MapUpdate); isU && u.Map == m {
			mu = u
			n++
		}
	}
	if n != 1 {
		return m, key, false, fmt.Sprintf("%d inserts into the lookup map", n)
	}
	mun := g.idx[mu]
	if w.pathOf(mu.Key) != key || stripConv(mu.Value) != stripConv(lenV) {
		return m, key, false, "the insert stores " + w.pathOf(mu.Key) + " -> " + w.pathOf(mu.Value) + ", not the looked-up key -> len(map)"
	}
	// the table: the shipped value is the loop-carried table, appended to on the miss edge only
	var apps []*ssa.Call
	seen := map[ssa.Value]bool{}
	okLeaves := true
	var walk func(v ssa.Value)
	walk = func(v ssa.Value) {
		if seen[v] {
			return
		}
		seen[v] = true
		switch x := v.(type) {
		case *ssa.Phi:
			for _, e := range x.Edges {
				walk(e)
			}
		case *ssa.Call:
			if args, isA := isBuiltinCall(x, "append"); isA {
				apps = append(apps, x)
				walk(args[0])
				return
			}
			okLeaves = false
		case *ssa.MakeSlice, *ssa.Slice:
		case *ssa.Const:
			if !x.IsNil() {
				okLeaves = false
			}
		default:
			okLeaves = false
		}
	}
	walk(tv)
	if !okLeaves || len(apps) != 1 {
		return m, key, false, fmt.Sprintf("the shipped table is not one loop-carried slice with a single append (%d appends)", len(apps))
	}
	app := apps[0]
	appn := g.idx[app]
	vals := w.appended(app)
	if len(vals) != 1 {
		return m, key, false, "the append does not add exactly one item"
	}
	item := w.pathOf(vals[0])
	if item != key && !strings.Contains(key, "="+item+".") {
		return m, key, false, "the appended item " + item + " is not the subject of the key " + key
	}
	if !g.OnlyVia(miss, mun) || !g.OnlyVia(miss, appn) {
		return m, key, false, "the insert / append is not confined to the miss edge: a repeated key gets a second table entry, indices drift from the table"
	}
	A := setOf(len(g.ins), mun)
	B := setOf(len(g.ins), appn)
	if !actionOnEdge(g, miss, A) || !actionOnEdge(g, miss, B) {
		return m, key, false, "a new key is not always inserted and appended"
	}
	// len(M) is read before the insert, in the same iteration
	if lc, isI := stripConv(lenV).(ssa.Instruction); isI {
		ln := setOf(len(g.ins), g.idx[lc])
		if !g.Before(ln, mun) || g.reach(g.succ[mun], ln, nil)[mun] {
			return m, key, false, "len(map) is not read before each insert: indices do not match table positions"
		}
		if rr := g.reach(g.succ[mun], A, nil); rr[g.idx[lc]] && !g.OnlyVia(miss, g.idx[lc]) {
			// read on every iteration before the lookup: fine as long as no insert lies between it and the lookup's miss edge
			_ = rr
		}
	}
	return m, key, true, ""
}




// isLenOfBatch: v is len(...) of the batch's Messages: of the accumulated slice mv itself, or of the
// Messages field read back from the Envelope literal lit (possibly through a spliced builder's result).
func isLenOfBatch(w *World, v ssa.Value, mv ssa.Value, lit *ssa.Alloc) bool {
	args, ok := isBuiltinCall(v, "len")
	if !ok || len(args) != 1 {
		return false
	}
	if mv != nil && w.pathOf(args[0]) == w.pathOf(mv) {
		return true
	}
	if ld, isLd := args[0].(*ssa.UnOp); isLd && ld.Op == token.MUL {
		if fa, isFA := ld.X.(*ssa.FieldAddr); isFA && lit != nil {
			if name, _ := fieldName(fa); name == "Messages" && w.resolve(fa.X) == ssa.Value(lit) {
				return true
			}
		}
	}
	return false
}

// batchEmptyEdges: edges on which the batch is known to be empty / non-empty.
func batchEmptyEdges(w *World, g *FG, mv ssa.Value, lit *ssa.Alloc) (empty, nonEmpty []Edge) {
	return g.CondEdges(func(c ssa.Value) (bool, bool) {
		b, ok := c.(*ssa.BinOp)
		if !ok || w.pathOf(b.Y) != "K:0" || !isLenOfBatch(w, b.X, mv, lit) {
			return false, false
		}
		switch b.Op {
		case token.EQL, token.LEQ:
			return true, true
		case token.NEQ, token.GTR:
			return false, true
		}
		return false, false
	})
}


// checkReaderStateless: the streamReader is one object shared by all inbound streams; what Receive learns from one
// stream stays in locals. No field of the reader is written outside its constructor.
func checkReaderStateless(w *World, r *Report, a *remoteAnchors, rule string) {
	rt := w.Named("remote", "streamReader")
	if rt == nil {
		r.Unknown(rule, "streamReader:stateless", "the stream reader type", "-", "not found")
		return
	}
	var writers []string
	for _, fn := range w.Funcs {
		if !w.isLib(fn) || fnPkgPath(fn) != modPath+"/remote" {
			continue
		}
		for _, in := range w.insOf(fn) {
			st, ok := in.(*ssa.Store)
			if !ok {
				continue
			}
			fa, ok := st.Addr.(*ssa.FieldAddr)
			if !ok {
				continue
			}
			if n, _ := structOf(fa.X.Type()); !sameNamed(n, rt) {
				continue
			}
			if _, fresh := fa.X.(*ssa.Alloc); fresh {
				continue
			}
			name, _ := fieldName(fa)
			writers = append(writers, fname(fn)+" writes streamReader."+name+" at "+w.pos(st.Pos()))
		}
	}
	r.Check(len(writers) == 0, rule, "streamReader:stateless", "no field of the shared stream reader is written after construction", w.fnPos(a.rReceive),
		strings.Join(writers, "; ")+": the reader serves every inbound stream; per-envelope state kept in it is overwritten by a concurrent stream, messages are decoded with another envelope's tables")
}

// checkPeerIndexGuards: every index taken from a received Message is range-checked against the very table it
// indexes (C16.R1, also a condition of C15: a check against another table rejects honest batches). Returns the
// functions reachable from the stream handler.
func checkPeerIndexGuards(w *World, r *Report, a *remoteAnchors, rule string) map[*ssa.Function]bool {
	R := a.rReceive
	// functions reachable from the handler inside the remote package (static callees)
	reach := map[*ssa.Function]bool{}
	var visit func(fn *ssa.Function)
	visit = func(fn *ssa.Function) {
		if fn == nil || reach[fn] || fn.Blocks == nil || !w.inMod[fn] || fnPkgPath(fn) != modPath+"/remote" {
			return
		}
		reach[fn] = true
		for _, in := range w.insOf(fn) {
			{
				if c := callOf(in); c != nil {
					visit(c.StaticCallee())
				}
			}
		}
	}
	visit(R)
	// the configured deserializer implementations
	for _, fn := range w.Funcs {
		if w.isLib(fn) && fnPkgPath(fn) == modPath+"/remote" && fn.Name() == "Deserialize" && fn.Signature.Recv() != nil && fn.Synthetic == "" {
			visit(fn)
		}
	}
	n := 0
	for fn := range reach {
		g := w.FGI(fn)
		for i, in := range g.ins {
			ia, ok := in.(*ssa.IndexAddr)
			if !ok {
				continue
			}
			field, ok := w.peerIndex(ia.Index, a.msgT)
			if !ok {
				continue
			}
			n++
			tab := w.pathOf(ia.X)
			idx := w.pathOf(stripConv(ia.Index))
			key := fmt.Sprintf("%s:%s[%s]", fname(fn), tab[strings.LastIndex(tab, ".")+1:], field)
			okLo, okHi := false, false
			for _, f := range g.FactsAt(i) {
				// helper form
				if c, isC := f.Cond.(*ssa.Call); isC && f.Val && len(c.Call.Args) == 2 && w.validIndexHelper(c.Call.StaticCallee()) {
					if w.pathOf(stripConv(c.Call.Args[0])) == idx && w.pathOf(c.Call.Args[1]) == "len("+tab+")" {
						okLo, okHi = true, true
					}
				}
				if b, isB := f.Cond.(*ssa.BinOp); isB {
					x, y := w.pathOf(stripConv(b.X)), w.pathOf(stripConv(b.Y))
					op := b.Op
					if !f.Val {
						switch op {
						case token.LSS:
							op = token.GEQ
						case token.GEQ:
							op = token.LSS
						case token.GTR:
							op = token.LEQ
						case token.LEQ:
							op = token.GTR
						default:
							continue
						}
					}
					if x == idx && y == "K:0" && op == token.GEQ {
						okLo = true
					}
					if x == idx && y == "len("+tab+")" && op == token.LSS {
						okHi = true
					}
					if y == idx && x == "len("+tab+")" && op == token.GTR {
						okHi = true
					}
					if _, unsigned := b.X.Type().Underlying().(*types.Basic); unsigned && b.X.Type().Underlying().(*types.Basic).Info()&types.IsUnsigned != 0 && x == idx && op == token.LSS && strings.Contains(y, "len("+tab+")") {
						okLo, okHi = true, true
					}
				}
			}
			detail := ""
			if !okLo {
				detail = "no dominating check that " + idx + " >= 0. "
			}
			if !okHi {
				detail += "no dominating check that " + idx + " < len(" + tab + ")."
			}
			r.Check(okLo && okHi, rule, key, "peer-chosen index is range-checked against this very table", w.pos(ia.Pos()),
				detail+" An envelope with an out-of-range or negative index panics on the drpc handler goroutine: the node dies")
		}
	}
	if n == 0 {
		r.Unknown(rule, "index-sites", "the reader indexes the lookup tables with message fields", w.fnPos(R), "no index site found")
	}
	return reach
}


// evDial: a call that dials the peer (net.Dial / tls.Dial and their variants).
func evDial() Ev {
	return Ev{Name: "dial", M: func(in ssa.Instruction) bool {
		c := callOf(in)
		if c == nil || c.StaticCallee() == nil {
			return false
		}
		s := c.StaticCallee().String()
		return strings.HasPrefix(s, "net.Dial") || strings.HasPrefix(s, "crypto/tls.Dial") || strings.HasPrefix(s, "(*net.Dialer).Dial") || strings.HasPrefix(s, "(*crypto/tls.Dialer).Dial")
	}, Shallow: true}
}

func dialsPeer(w *World, fn *ssa.Function) bool {
	return dialsPeerDepth(w, fn, 0)
}

// dialsPeerDepth: fn dials, itself or through a private method of the same package it calls (the retry loop moved into
// a `dial()` helper).
func dialsPeerDepth(w *World, fn *ssa.Function, depth int) bool {
	ev := evDial()
	for _, b := range fn.Blocks {
		for _, in := range b.Instrs {
			if ev.M(in) {
				return true
			}
			if depth < 1 {
				if c := callOf(in); c != nil && c.StaticCallee() != nil && w.isLib(c.StaticCallee()) && fnPkgPath(c.StaticCallee()) == fnPkgPath(fn) && c.StaticCallee() != fn {
					if _, isGo := in.(*ssa.Go); !isGo {
						if obj := c.StaticCallee().Object(); obj != nil && !obj.Exported() && !isPinnedFunc(c.StaticCallee()) && dialsPeerDepth(w, c.StaticCallee(), depth+1) {
							return true
						}
					}
				}
			}
		}
	}
	return false
}

// lookup4: one call `idx, table = lookup(m, key, table, value)` of the four-argument lookup helper (the key is made by
// the caller). Checks what the three-argument form checks, plus the key/value agreement; emits C15.R3/R4 for PID tables.
func lookup4(w *World, r *Report, g *FG, call *ssa.Call, tv ssa.Value, sp tableSpec, maps map[ssa.Value]string, deliverRoots map[string]bool, iv ssa.Value) (bool, string) {
	args := call.Call.Args
	// the table shipped = phi over (initial empty table, second result of this call)
	var leaves []ssa.Value
	phiLeaves(tv, map[ssa.Value]bool{}, &leaves)
	okTab := false
	for _, l := range leaves {
		if e, ok := l.(*ssa.Extract); ok {
			if e.Tuple == ssa.Value(call) && e.Index == 1 {
				okTab = true
			} else {
				return false, "Envelope." + sp.table + " also receives " + w.pathOf(l)
			}
		}
	}
	if !okTab {
		return false, "the table shipped as Envelope." + sp.table + " is not the one the index was computed against"
	}
	var argLeaves []ssa.Value
	phiLeaves(args[2], map[ssa.Value]bool{}, &argLeaves)
	okArg := false
	for _, l := range argLeaves {
		if e, ok := l.(*ssa.Extract); ok && e.Tuple == ssa.Value(call) && e.Index == 1 {
			okArg = true
		}
	}
	if _, isMap := args[0].(*ssa.MakeMap); !isMap || !okArg {
		return false, "the lookup map is not a per-batch map, or the table is not threaded through the loop"
	}
	if other, dup := maps[args[0]]; dup {
		return false, "the lookup map is shared with " + other + ": indices of two tables are mixed"
	}
	vp, kp := w.pathOf(args[3]), w.pathOf(args[1])
	if !sp.keyWant(vp) {
		return false, "the table receives " + vp + " instead of " + sp.keyDesc
	}
	isPID := sp.table != "TypeNames"
	if isPID {
		want := "lit:pidKey{address=" + vp + ".Address,id=" + vp + ".ID}"
		r.Check(kp == want, "C15.R4", "remote.lookupPIDs:key", "the PID table key keeps address and id apart", w.pos(call.Pos()),
			"PIDs are keyed by "+kp+": two PIDs whose address+id concatenate equally share a slot, the second is delivered to the first")
		if kp != want {
			return false, "the key " + kp + " is not made from the address and id of the PID that enters the table (" + vp + ")"
		}
		// a nil PID: the call is skipped and the index field keeps its zero value — a valid index (the known D8a shape)
		_, nonNil := w.nilEdges(g, vp)
		guarded := len(nonNil) > 0 && g.OnlyVia(nonNil, g.idx[call])
		if sp.table == "Senders" {
			r.Check(!guarded, "C15.R3", "remote.lookupPIDs:nil-index-collides", "a nil PID is encoded as an index that cannot name a table entry", w.pos(call.Pos()),
				"a message without sender gets index 0, a valid index as soon as another message of the batch has a sender: it arrives with that sender")
		}
	} else if kp != vp {
		return false, "the type-name table is keyed by " + kp + " but receives " + vp
	}
	if i := strings.Index(vp, "assert<*remote.streamDeliver>("); i >= 0 {
		deliverRoots[vp[i:strings.LastIndex(vp, ".")]] = true
	}
	maps[args[0]] = sp.table
	_ = iv
	return true, ""
}

// checkLookupHelper4: lookup(m, key, table, value): hit -> (m[key], table); miss -> m[key] = len(m) read before the insert,
// (that index, append(table, value)); nothing else.
func checkLookupHelper4(w *World, r *Report, L *ssa.Function) {
	restore := w.noCtx()
	defer restore()
	g := w.FG(L)
	site := w.fnPos(L)
	name := "remote.lookupPIDs"
	var lk *ssa.Lookup
	var mu *ssa.MapUpdate
	var app *ssa.Call
	for _, in := range g.ins {
		switch x := in.(type) {
		case *ssa.Lookup:
			if x.CommaOk && w.pathOf(x.X) == "P0" {
				lk = x
			}
		case *ssa.MapUpdate:
			if w.pathOf(x.Map) == "P0" {
				mu = x
			}
		case *ssa.Call:
			if args, ok := isBuiltinCall(x, "append"); ok && w.pathOf(args[0]) == "P2" {
				app = x
			}
		}
	}
	what := "miss: m[key] = len(m) (read before the insert) and the item is appended; hit: stored index, table unchanged"
	if lk == nil || mu == nil || app == nil || len(L.Params) != 4 {
		r.Unknown("C15.R2", name+":shape", what, site, "lookup / insert / append not found (unrecognised idiom)")
		r.Unknown("C15.R2", "remote.lookupTypeName:shape", what, site, "lookup / insert / append not found (unrecognised idiom)")
		return
	}
	hit, miss := g.CondEdges(func(v ssa.Value) (bool, bool) {
		if e, ok := v.(*ssa.Extract); ok && e.Tuple == ssa.Value(lk) && e.Index == 1 {
			return true, true
		}
		return false, false
	})
	ok := len(miss) > 0 && len(hit) > 0
	detail := ""
	mun, appn := g.idx[mu], g.idx[app]
	switch {
	case !ok:
		detail = "no branch on the comma-ok result of the lookup"
	case !g.OnlyVia(miss, mun) || !g.OnlyVia(miss, appn):
		ok, detail = false, "the insert / append is not confined to the miss edge: a repeated key gets a second table entry, indices drift from the table"
	case w.pathOf(lk.Index) != "P1" || w.pathOf(mu.Key) != "P1":
		ok, detail = false, "looked-up key "+w.pathOf(lk.Index)+" / inserted key "+w.pathOf(mu.Key)+" is not the key parameter"
	case w.pathOf(mu.Value) != "conv<int32>(len(P0))" && w.pathOf(mu.Value) != "len(P0)":
		ok, detail = false, "the new index is "+w.pathOf(mu.Value)+", not len(map)"
	}
	if ok {
		if lc, isI := stripConv(mu.Value).(ssa.Instruction); isI {
			if ok2, _ := g.Never(mun, setOf(len(g.ins), g.idx[lc])); !ok2 || !g.Before(setOf(len(g.ins), g.idx[lc]), mun) {
				ok, detail = false, "len(map) is read after the insertion: indices start at 1 and the last one is out of range"
			}
		}
	}
	if ok {
		if vals := w.appended(app); len(vals) != 1 || w.pathOf(vals[0]) != "P3" {
			ok, detail = false, "something else than the value parameter is appended to the table"
		}
	}
	if ok {
		ap := w.pathOf(app)
		for _, x := range g.returns {
			rs := g.ins[x].(*ssa.Return).Results
			p0, p1 := w.pathOf(rs[0]), w.pathOf(rs[1])
			switch {
			case g.OnlyVia(hit, x):
				if p0 != w.pathOf(lk)+"#0" || p1 != "P2" {
					ok, detail = false, "on a hit ("+p0+", "+p1+") is returned instead of the stored index and the unchanged table"
				}
			case g.OnlyVia(miss, x):
				if p0 != w.pathOf(mu.Value) || p1 != ap {
					ok, detail = false, "on a miss ("+p0+", "+p1+") is returned instead of the new index and the extended table"
				}
				// the same length that was stored: read before the insertion (a second len(m) after it is one more)
				if lc, isI := stripConv(rs[0]).(ssa.Instruction); isI && stripConv(rs[0]) != stripConv(mu.Value) {
					if !g.Before(setOf(len(g.ins), g.idx[lc]), mun) {
						ok, detail = false, "the returned index is a length read after the insertion: it is one more than the index stored in the map"
					}
				}
				if !g.Before(setOf(len(g.ins), mun), x) {
					ok, detail = false, "a miss can return without inserting the key"
				}
			default:
				want0a := "phi(" + w.pathOf(lk) + "#0|" + w.pathOf(mu.Value) + ")"
				want0b := "phi(" + w.pathOf(mu.Value) + "|" + w.pathOf(lk) + "#0)"
				if p0 != want0a && p0 != want0b {
					ok, detail = false, "returned index is "+p0
				}
				if p1 != "phi(P2|"+ap+")" && p1 != "phi("+ap+"|P2)" {
					ok, detail = false, "returned table is "+p1
				}
			}
		}
	}
	r.Check(ok, "C15.R2", name+":shape", what, site, detail)
	r.Check(ok, "C15.R2", "remote.lookupTypeName:shape", what, site, detail)
}
