package main

import (
	"fmt"
	"go/types"
	"sort"
	"strings"

	"golang.org/x/tools/go/ssa"
)

// ---------------------------------------------------------------------------
// E-LOCK: lockset discipline for a struct with one sync.Mutex / sync.RWMutex.
// ---------------------------------------------------------------------------

const (
	lkU = 1 << iota // unlocked
	lkR             // read-locked
	lkW             // write-locked
)

type lockSpec struct {
	named   *types.Named
	mutex   string
	guarded map[string]bool // fields of named guarded by the mutex
	// deep: types whose fields are also guarded when reached through a guarded field (e.g. *buffer[T])
	deep []*types.Named
	// atomicW: fields whose writes must be atomic AND under the lock; plain reads allowed under the lock
	atomicW map[string]bool
}

type lockFinding struct {
	key, what, site, detail string
}

type lockResult struct {
	findings []lockFinding
	accesses int
	methods  []string
}

// mutexOp classifies a call on the spec's mutex: "Lock" "Unlock" "RLock" "RUnlock" or "".
func (ls *lockSpec) mutexOp(c *ssa.CallCommon) string {
	if c == nil || c.IsInvoke() {
		return ""
	}
	f := c.StaticCallee()
	if f == nil || f.Pkg == nil || f.Pkg.Pkg.Path() != "sync" || len(c.Args) == 0 {
		return ""
	}
	fa, ok := c.Args[0].(*ssa.FieldAddr)
	if !ok || !isFieldOf(fa, ls.named, ls.mutex) {
		return ""
	}
	return f.Name()
}

// accessKind: 0 none, 1 read, 2 write of a guarded location at instruction in.
func (ls *lockSpec) access(w *World, in ssa.Instruction) (kind int, desc string, atomicOK bool) {
	guardedAddr := func(v ssa.Value) (string, bool) {
		for depth := 0; depth < 6; depth++ {
			switch x := v.(type) {
			case *ssa.FieldAddr:
				name, n := fieldName(x)
				if sameNamed(n, ls.named) && (ls.guarded[name] || ls.atomicW[name]) {
					return pinnedShortName(n) + "." + name, true
				}
				for _, d := range ls.deep {
					if sameNamed(n, d) {
						return pinnedShortName(d) + "." + name, true
					}
				}
				return "", false
			case *ssa.IndexAddr:
				v = x.X
				continue
			case *ssa.UnOp:
				v = x.X
				continue
			}
			return "", false
		}
		return "", false
	}
	switch x := in.(type) {
	case *ssa.Store:
		if d, ok := guardedAddr(x.Addr); ok {
			return 2, d, false
		}
	case *ssa.UnOp:
		if x.Op.String() == "*" {
			if d, ok := guardedAddr(x.X); ok {
				return 1, d, false
			}
		}
	case *ssa.MapUpdate:
		if u, ok := x.Map.(*ssa.UnOp); ok {
			if d, ok := guardedAddr(u.X); ok {
				return 2, d + "[k]=", false
			}
		}
	case *ssa.Call:
		if b, ok := x.Call.Value.(*ssa.Builtin); ok && b.Name() == "delete" {
			if u, ok := x.Call.Args[0].(*ssa.UnOp); ok {
				if d, ok := guardedAddr(u.X); ok {
					return 2, "delete " + d, false
				}
			}
		}
		if f := x.Call.StaticCallee(); f != nil && f.Pkg != nil && f.Pkg.Pkg.Path() == "sync/atomic" && len(x.Call.Args) > 0 {
			if d, ok := guardedAddr(x.Call.Args[0]); ok {
				if strings.HasPrefix(f.Name(), "Load") {
					return 1, "atomic " + d, true
				}
				return 2, "atomic " + d, true
			}
		}
	}
	return 0, "", false
}

// analyse runs the lockset dataflow over every function that touches the struct.
func (w *World) lockset(ls *lockSpec) *lockResult {
	defer w.noCtx()()
	res := &lockResult{}
	type summary struct {
		needs int // lock state required at entry (0: none, lkR, lkW)
	}
	// functions that touch guarded state or the mutex
	var fns []*ssa.Function
	for _, fn := range w.Funcs {
		if fn.Origin() != nil {
			continue // instantiations repeat the generic body
		}
		touches := false
		for _, b := range fn.Blocks {
			for _, in := range b.Instrs {
				if k, _, _ := ls.access(w, in); k != 0 {
					touches = true
				}
				if ls.mutexOp(callOf(in)) != "" {
					touches = true
				}
			}
		}
		if touches {
			fns = append(fns, fn)
		}
	}
	sort.Slice(fns, func(i, j int) bool { return fns[i].String() < fns[j].String() })
	needs := map[*ssa.Function]int{}
	// pass 1: functions without any lock operation that touch guarded state: "requires lock held"
	for _, fn := range fns {
		hasLockOp := false
		maxNeed := 0
		fresh := true
		for _, b := range fn.Blocks {
			for _, in := range b.Instrs {
				if ls.mutexOp(callOf(in)) != "" {
					hasLockOp = true
				}
				if k, _, at := ls.access(w, in); k != 0 {
					if !ls.isFresh(in) {
						fresh = false
						if at && k == 1 {
							continue // lock-free atomic read is always fine
						}
						if k == 2 {
							maxNeed = lkW
						} else if maxNeed == 0 {
							maxNeed = lkR
						}
					}
				}
			}
		}
		// only a private helper can count on its callers holding the lock: an exported method is an entry point and has to
		// take the lock itself (a method that locks some OTHER mutex has no lock operation on this one either)
		exported := fn.Object() != nil && fn.Object().Exported() && fn.Parent() == nil
		if !hasLockOp && !fresh && maxNeed != 0 && !exported {
			needs[fn] = maxNeed
		}
	}
	for _, fn := range fns {
		res.methods = append(res.methods, fname(fn))
		g := w.FG(fn)
		entry := lkU
		if n := needs[fn]; n != 0 {
			entry = n
		}
		// forward dataflow: state set per node (before executing the node); deferred unlock flag folded into state<<4
		type st struct{ lock, deferred int }
		in := make([]map[st]bool, len(g.ins))
		var work []int
		push := func(n int, s st) {
			if in[n] == nil {
				in[n] = map[st]bool{}
			}
			if !in[n][s] {
				in[n][s] = true
				work = append(work, n)
			}
		}
		if len(g.ins) == 0 {
			continue
		}
		push(0, st{entry, 0})
		report := func(key, what string, n int, detail string) {
			res.findings = append(res.findings, lockFinding{fname(fn) + ":" + key, what, w.pos(g.ins[n].Pos()), detail})
		}
		reported := map[string]bool{}
		once := func(key, what string, n int, detail string) {
			if !reported[key] {
				reported[key] = true
				report(key, what, n, detail)
			}
		}
		for len(work) > 0 {
			n := work[len(work)-1]
			work = work[:len(work)-1]
			for s := range in[n] {
				ns := s
				ins := g.ins[n]
				if d, ok := ins.(*ssa.Defer); ok {
					switch ls.mutexOp(&d.Call) {
					case "Unlock", "RUnlock":
						ns.deferred = 1
					}
				} else if _, isGo := ins.(*ssa.Go); !isGo {
					switch ls.mutexOp(callOf(ins)) {
					case "Lock":
						if s.lock != lkU {
							once("double-lock", "no Lock while the mutex is held", n, "Lock with the mutex already held: self-deadlock")
						}
						ns.lock = lkW
					case "RLock":
						if s.lock == lkW {
							once("double-lock", "no RLock while write-locked", n, "RLock while holding the write lock: self-deadlock")
						}
						ns.lock = lkR
					case "Unlock":
						if s.lock != lkW {
							once("unlock-unheld", "Unlock only when write-locked", n, "Unlock without holding the write lock")
						}
						ns.lock = lkU
					case "RUnlock":
						if s.lock != lkR {
							once("unlock-unheld", "RUnlock only when read-locked", n, "RUnlock without holding the read lock")
						}
						ns.lock = lkU
					}
				}
				if k, d, at := ls.access(w, ins); k != 0 && !ls.isFresh(ins) {
					res.accesses++
					field := d
					switch {
					case at && k == 1:
						// lock-free atomic read: fine
					case k == 1 && s.lock == lkU:
						once("read:"+field, "guarded state is read under the lock", n, "read of "+d+" without holding the lock: data race with writers")
					case k == 2 && s.lock != lkW:
						once("write:"+field, "guarded state is written under the write lock", n, "write of "+d+" without holding the write lock: data race / lost update")
					}
					if k == 2 && !at {
						if name := strings.TrimPrefix(d, pinnedShortName(ls.named)+"."); ls.atomicW[name] {
							once("plain-write:"+field, "atomically read field is written atomically", n, "plain write of "+d+" which is read lock-free with sync/atomic")
						}
					}
				}
				// calls of functions that require the lock held
				if c := callOf(ins); c != nil {
					if f := c.StaticCallee(); f != nil {
						if need := needs[origin(f)] | needs[f]; need != 0 {
							if _, isGo := ins.(*ssa.Go); isGo || (need == lkW && s.lock != lkW) || (need == lkR && s.lock == lkU) {
								once("call-unlocked:"+f.Name(), "helpers that touch guarded state are called with the lock held", n, f.Name()+" touches guarded state without locking and is called here without the lock")
							}
						}
					}
				}
				switch ins.(type) {
				case *ssa.Return:
					if s.lock != lkU && s.deferred == 0 && needs[fn] == 0 {
						once("leak", "the lock is released on every exit", n, "return with the mutex still held: the next caller deadlocks")
					}
					if needs[fn] != 0 && s.lock == lkU {
						once("leak", "a helper called under the lock returns with it still held", n, "helper releases the caller's lock")
					}
				}
				for _, t := range g.succ[n] {
					push(t, ns)
				}
			}
		}
	}
	return res
}

// isFresh: the access goes to a struct allocated in the same function (constructor).
func (ls *lockSpec) isFresh(in ssa.Instruction) bool {
	var addr ssa.Value
	switch x := in.(type) {
	case *ssa.Store:
		addr = x.Addr
	case *ssa.UnOp:
		addr = x.X
	case *ssa.MapUpdate:
		if u, ok := x.Map.(*ssa.UnOp); ok {
			addr = u.X
		}
	}
	for depth := 0; depth < 6 && addr != nil; depth++ {
		switch x := addr.(type) {
		case *ssa.FieldAddr:
			if _, ok := x.X.(*ssa.Alloc); ok {
				return true
			}
			addr = x.X
		case *ssa.IndexAddr:
			addr = x.X
		case *ssa.UnOp:
			addr = x.X
		default:
			return false
		}
	}
	return false
}

func (w *World) exportLock(r *Report, rule string, ls *lockSpec, site string) {
	res := w.lockset(ls)
	name := pinnedShortName(ls.named)
	if res.accesses == 0 {
		r.Unknown(rule, name+":lockset", "guarded accesses exist", site, "no access to the guarded fields found")
		return
	}
	bad := map[string]bool{}
	for _, f := range res.findings {
		bad[f.key] = true
		r.Fail(rule, f.key, f.what, f.site, f.detail)
	}
	for _, m := range res.methods {
		hasBad := false
		for k := range bad {
			if strings.HasPrefix(k, m+":") {
				hasBad = true
			}
		}
		if !hasBad {
			r.OK(rule, m+":lockset", fmt.Sprintf("every access of %s to the guarded state of %s is made under %s; the lock is released on every exit", m, name, ls.mutex), site)
		}
	}
}
