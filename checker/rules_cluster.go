package main

import (
	"sort"
	"regexp"
	"fmt"
	"go/token"
	"go/types"
	"strings"

	"golang.org/x/tools/go/ssa"
)

func init() {
	register("C18", checkC18)
	register("C19", checkC19)
	register("C20", checkC20)
}

// appended returns the values appended by an append(s, x...) call written with explicit elements.
func (w *World) appended(c *ssa.Call) []ssa.Value {
	args, ok := isBuiltinCall(c, "append")
	if !ok || len(args) != 2 {
		return nil
	}
	sl, ok := args[1].(*ssa.Slice)
	if !ok {
		return nil
	}
	al, ok := sl.X.(*ssa.Alloc)
	if !ok || al.Referrers() == nil {
		return nil
	}
	var out []ssa.Value
	for _, r := range *al.Referrers() {
		if ia, ok := r.(*ssa.IndexAddr); ok && ia.Referrers() != nil {
			for _, rr := range *ia.Referrers() {
				if st, ok := rr.(*ssa.Store); ok && st.Addr == ssa.Value(ia) {
					out = append(out, st.Val)
				}
			}
		}
	}
	return out
}

// caseEdges: the edges on which the type-switch/assertion to typ succeeded.
func (w *World) caseEdges(g *FG, typ string) []Edge {
	pos, _ := g.CondEdges(func(v ssa.Value) (bool, bool) {
		p := w.pathOf(v)
		return true, strings.HasPrefix(p, "assert<"+typ+">(") && strings.HasSuffix(p, "#1")
	})
	return pos
}

type clusterAnchors struct {
	agentT, msT                                       *types.Named
	recv, join, leave, handleMembers, rebuild, bcast  *ssa.Function
	membersList                                       string // the snapshot list as the members handler sees it: "P1" ([]*Member parameter) or "P1.Members" (*Members parameter)
	activate, addAct, remAct, hActivation, hDeact     *ssa.Function
	hTopology, hActReq, hGetActive                    *ssa.Function
	problems                                          []string
}

func (w *World) clusterAnchors() *clusterAnchors {
	a := &clusterAnchors{agentT: w.Named("cluster", "Agent"), msT: w.Named("cluster", "MemberSet")}
	if a.agentT == nil || a.msT == nil {
		a.problems = append(a.problems, "cluster.Agent / cluster.MemberSet")
		return a
	}
	a.recv = w.Method("cluster", "Agent", "Receive")
	evJ, evL := w.evBroadcast("cluster", "MemberJoinEvent"), w.evBroadcast("cluster", "MemberLeaveEvent")
	actT := w.Named("cluster", "Activation")
	for _, fn := range w.MethodsOf("cluster", "Agent") {
		if fn.Parent() != nil {
			continue
		}
		if len(w.callsIn(fn, evJ)) > 0 {
			a.join = fn
		}
		if len(w.callsIn(fn, evL)) > 0 {
			a.leave = fn
		}
		for _, in := range w.insOf(fn) {
			{
				switch x := in.(type) {
				case *ssa.MapUpdate:
					if strings.HasSuffix(w.pathOf(x.Map), "P0.activated") {
						a.addAct = fn
					}
				case *ssa.Call:
					if args, ok := isBuiltinCall(x, "delete"); ok && w.pathOf(args[0]) == "P0.activated" {
						a.remAct = fn
					}
				case *ssa.Alloc:
					if n, _ := structOf(x.Type()); sameNamed(n, actT) && fn.Signature.Results().Len() == 1 {
						a.activate = fn
					}
				}
			}
		}
	}
	// handlers by dispatch from Receive
	if a.recv != nil {
		g := w.FGI(a.recv)
		for _, in := range g.ins {
			c := callOf(in)
			if c == nil || c.StaticCallee() == nil || len(c.Args) < 2 {
				continue
			}
			p := w.pathOf(c.Args[len(c.Args)-1])
			f := c.StaticCallee()
			if !strings.HasSuffix(p, "#0") && !strings.HasSuffix(p, "#0.Members") {
				continue // only the message itself (or its member list) is a dispatch
			}
			switch {
			case strings.HasPrefix(p, "assert<*cluster.Members>("):
				a.handleMembers = f
			case strings.HasPrefix(p, "assert<*cluster.Activation>("):
				a.hActivation = f
			case strings.HasPrefix(p, "assert<*cluster.Deactivation>("):
				a.hDeact = f
			case strings.HasPrefix(p, "assert<*cluster.ActorTopology>("):
				a.hTopology = f
			case strings.HasPrefix(p, "assert<*cluster.ActivationRequest>("):
				a.hActReq = f
			case strings.HasPrefix(p, "assert<cluster.getActive>("):
				a.hGetActive = f
			}
		}
	}
	// a handler written in place in Receive's type switch: its case region stands in for it
	if a.recv != nil {
		for _, vh := range []struct {
			slot   **ssa.Function
			typ    string
			name   string
			suffix string
			param  int
		}{
			{&a.handleMembers, "*cluster.Members", "handleMembers", ".Members", 1},
			{&a.hActivation, "*cluster.Activation", "handleActivation", "", 1},
			{&a.hDeact, "*cluster.Deactivation", "handleDeactivation", "", 1},
			{&a.hTopology, "*cluster.ActorTopology", "handleActorTopology", "", 1},
			{&a.hActReq, "*cluster.ActivationRequest", "handleActivationRequest", "", 1},
			{&a.hGetActive, "cluster.getActive", "handleGetActive", "", 2},
		} {
			if *vh.slot == nil {
				*vh.slot = w.virtualHandler(a.recv, vh.typ, "(*cluster.Agent)."+vh.name, vh.suffix, vh.param)
			}
		}
	}
	a.membersList = "P1"
	if hm := a.handleMembers; hm != nil && !w.isVirtual(hm) && len(hm.Params) == 2 {
		if pt, ok := hm.Params[1].Type().(*types.Pointer); ok {
			if n, ok := pt.Elem().(*types.Named); ok && n.Obj().Name() == "Members" {
				a.membersList = "P1.Members"
			}
		}
	}
	if a.leave != nil && false {
		for _, in := range w.insOf(a.leave) {
			{
				if c := callOf(in); c != nil && c.StaticCallee() != nil && isMethodOf(c.StaticCallee(), a.agentT) && len(c.Args) == 1 {
					a.rebuild = c.StaticCallee()
				}
			}
		}
	}
	for _, fn := range w.MethodsOf("cluster", "Agent") {
		if fn.Parent() == nil && fn.Signature.Params().Len() == 1 && fn.Signature.Results().Len() == 0 {
			if _, isI := fn.Signature.Params().At(0).Type().Underlying().(*types.Interface); isI {
				a.bcast = fn
			}
		}
	}
	if a.leave != nil {
		// the rebuild helper: an Agent method called by the leave handler that clears kinds
		for _, in := range w.insOf(a.leave) {
			{
				if c := callOf(in); c != nil && c.StaticCallee() != nil && isMethodOf(c.StaticCallee(), a.agentT) {
					for _, bb := range c.StaticCallee().Blocks {
						for _, ii := range bb.Instrs {
							if cc := callOf(ii); cc != nil {
								if f := cc.StaticCallee(); f != nil && strings.Contains(f.String(), "maps.Clear") && strings.HasSuffix(w.pathOf(cc.Args[0]), ".kinds") {
									a.rebuild = c.StaticCallee()
								}
								if bi, isB := cc.Value.(*ssa.Builtin); isB && bi.Name() == "clear" && strings.HasSuffix(w.pathOf(cc.Args[0]), ".kinds") {
									a.rebuild = c.StaticCallee()
								}
							}
						}
					}
				}
			}
		}
	}
	for role, f := range map[string]*ssa.Function{"memberJoin": a.join, "memberLeave": a.leave, "handleMembers": a.handleMembers, "rebuildKinds": a.rebuild,
		"bcast": a.bcast, "activate": a.activate, "addActivated": a.addAct, "removeActivated": a.remAct, "handleActivation": a.hActivation,
		"handleDeactivation": a.hDeact, "handleActorTopology": a.hTopology, "handleActivationRequest": a.hActReq, "handleGetActive": a.hGetActive} {
		aliasRole(f, "(*cluster.Agent)."+role)
	}
	chk := func(n string, f *ssa.Function) {
		if f == nil {
			a.problems = append(a.problems, n)
		}
	}
	chk("Agent.Receive", a.recv)
	chk("join handler (broadcasts MemberJoinEvent)", a.join)
	chk("leave handler (broadcasts MemberLeaveEvent)", a.leave)
	chk("members handler", a.handleMembers)
	chk("bcast helper", a.bcast)
	chk("activate", a.activate)
	chk("Activation handler", a.hActivation)
	chk("Deactivation handler", a.hDeact)
	chk("ActorTopology handler", a.hTopology)
	chk("ActivationRequest handler", a.hActReq)
	chk("getActive handler", a.hGetActive)
	return a
}

func isMethodOf(fn *ssa.Function, named *types.Named) bool {
	if fn == nil || fn.Signature.Recv() == nil {
		return false
	}
	n, _ := structOf(fn.Signature.Recv().Type())
	return sameNamed(n, named)
}

func (a *clusterAnchors) fail(r *Report, rule string) bool {
	if len(a.problems) > 0 {
		r.Unknown(rule, "anchors", "resolve the cluster agent's handlers by role", "-", "missing: "+strings.Join(a.problems, ", "))
		return true
	}
	return false
}

// mapWriters lists functions writing (update, delete, clear, replace) the map stored in field `field` of named.
func (w *World) mapWriters(pkg string, named *types.Named, field string) map[*ssa.Function]bool {
	defer w.keepCtx()()
	out := map[*ssa.Function]bool{}
	isF := func(v ssa.Value) bool {
		if u, ok := v.(*ssa.UnOp); ok {
			if fa, ok := u.X.(*ssa.FieldAddr); ok {
				if _, fresh := fa.X.(*ssa.Alloc); fresh {
					return false // the object is being built by this very function (constructor)
				}
				return isFieldOf(fa, named, field)
			}
		}
		return false
	}
	for _, fn := range w.Funcs {
		if !w.isLib(fn) || fnPkgPath(fn) != modPath+"/"+pkg {
			continue
		}
		for _, in := range w.insOf(fn) {
			{
				switch x := in.(type) {
				case *ssa.MapUpdate:
					if isF(x.Map) {
						out[fn] = true
					}
				case *ssa.Call:
					if bi, ok := x.Call.Value.(*ssa.Builtin); ok && (bi.Name() == "delete" || bi.Name() == "clear") && isF(x.Call.Args[0]) {
						out[fn] = true
					}
					if f := x.Call.StaticCallee(); f != nil && strings.Contains(f.String(), "maps.Clear") && isF(x.Call.Args[0]) {
						out[fn] = true
					}
				case *ssa.Store:
					if fa, ok := x.Addr.(*ssa.FieldAddr); ok && isFieldOf(fa, named, field) {
						if _, fresh := fa.X.(*ssa.Alloc); !fresh {
							out[fn] = true
						}
					}
				}
			}
		}
	}
	// a freshly extracted helper writes on behalf of its callers
	for fn := range out {
		if _, isH := w.inlSites[fn]; isH {
			delete(out, fn)
			for _, rt := range w.inlineRoots(fn) {
				out[rt] = true
			}
		}
	}
	// a bound-method wrapper (x.m used as a value) writes on behalf of the functions that create it
	for fn := range out {
		if fn.Synthetic == "" || fn.Parent() != nil {
			continue
		}
		var users []*ssa.Function
		for _, u := range w.Funcs {
			for _, b := range u.Blocks {
				for _, in := range b.Instrs {
					if mc, ok := in.(*ssa.MakeClosure); ok && mc.Fn == ssa.Value(fn) {
						users = append(users, u)
					}
				}
			}
		}
		if len(users) > 0 {
			delete(out, fn)
			for _, u := range users {
				out[u] = true
			}
		}
	}
	return out
}

func fnNames(m map[*ssa.Function]bool) []string {
	var out []string
	for _, f := range sortedFuncs(m) {
		out = append(out, fname(f))
	}
	return out
}

func rootFn(fn *ssa.Function) *ssa.Function {
	for fn.Parent() != nil {
		fn = fn.Parent()
	}
	return fn
}


// actionOnEdge: the action nodes happen only on the given edges, and from each such edge the action cannot be
// skipped before the iteration ends (a Next instruction) or the function returns.
func actionOnEdge(g *FG, edges []Edge, action []bool) bool {
	if len(edges) == 0 || !anyOf(action) {
		return false
	}
	for _, n := range members(action) {
		if !g.OnlyVia(edges, n) {
			return false
		}
	}
	rr := reachFromEdges(g, edges, action)
	for i, in := range g.ins {
		if !rr[i] {
			continue
		}
		switch in.(type) {
		case *ssa.Next:
			return false
		case *ssa.Return:
			if in.Parent() == g.fn {
				return false
			}
		}
	}
	// index-based loops: the back edge goes through the phi of the loop counter; treat any If on a "<len(" bound as end of iteration
	for i, in := range g.ins {
		if iff, ok := in.(*ssa.If); ok && rr[i] {
			if b, ok := iff.Cond.(*ssa.BinOp); ok && b.Op == token.LSS {
				if _, isLen := isBuiltinCall(b.Y, "len"); isLen {
					return false
				}
			}
		}
	}
	return true
}

// lookupEdges: edges on which `_, ok := m[k]` found (present) / did not find (absent) the key, for maps whose path has the suffix.
func (w *World) lookupEdges(g *FG, mapSuffix string) (present, absent []Edge) {
	return g.CondEdges(func(v ssa.Value) (bool, bool) {
		if e, ok := v.(*ssa.Extract); ok && e.Index == 1 {
			if lk, ok := e.Tuple.(*ssa.Lookup); ok && strings.HasSuffix(w.pathOf(lk.X), mapSuffix) {
				return true, true
			}
		}
		return false, false
	})
}

// callEdges: edges on which a boolean call whose rendering has the prefix returned true / false.
func (w *World) callEdges(g *FG, prefix string) (tr, fa []Edge) {
	return g.CondEdges(func(v ssa.Value) (bool, bool) {
		return true, strings.HasPrefix(w.pathOf(v), prefix)
	})
}

// slotAndBump: a fill loop `s[i] = x; i++` writes every element to its own slot.
func slotAndBump(w *World, fn *ssa.Function, valPrefix string) bool {
	g := w.FGI(fn)
	slot := make([]bool, len(g.ins))
	bump := make([]bool, len(g.ins))
	var idx ssa.Value
	for i, in := range g.ins {
		if st, ok := in.(*ssa.Store); ok {
			if ia, isIA := st.Addr.(*ssa.IndexAddr); isIA && strings.HasPrefix(w.pathOf(st.Val), valPrefix) {
				slot[i] = true
				idx = ia.Index
			}
		}
	}
	if idx == nil {
		return false
	}
	ph, ok := idx.(*ssa.Phi)
	if !ok {
		return false
	}
	init, step := false, false
	for _, e := range ph.Edges {
		if constStr(e) == "0" {
			init = true
		}
		if b, isB := e.(*ssa.BinOp); isB && b.Op == token.ADD && b.X == ssa.Value(ph) && constStr(b.Y) == "1" {
			step = true
			if in, isI := e.(ssa.Instruction); isI {
				bump[g.idx[in]] = true
			}
		}
	}
	if !init || !step {
		return false
	}
	for _, sn := range members(slot) {
		// the increment follows the store within the iteration
		rr := g.reach(g.succ[sn], bump, nil)
		for i, in := range g.ins {
			if _, isNext := in.(*ssa.Next); isNext && rr[i] {
				return false
			}
		}
	}
	return true
}

// ---------------------------------------------------------------------------
// C18 — membership view
// ---------------------------------------------------------------------------

func checkC18(w *World, r *Report) {
	r.Rule("C18.R1", "handleMembers: joined = new \\ current, left = current \\ new; joined members go to the join handler, left ones to the leave handler, each element once", 3)
	r.Rule("C18.R2", "join: members.Add(m), kinds extended from m.Kinds, one MemberJoinEvent{m}; leave: members.Remove(m), kinds rebuilt afterwards, one MemberLeaveEvent{m}", 5)
	r.Rule("C18.R3", "only the join / leave handlers change the member set; only the constructor, join and rebuild change kinds", 2)
	r.Rule("C18.R4", "MemberSet keys everything on Member.ID; Except appends exactly the members whose ID is absent from the argument", 6)
	r.Rule("C18.R5", "Members()/HasKind() answer from those two fields through getMembers/getKinds", 4)
	a := w.clusterAnchors()
	if a.fail(r, "C18.R1") {
		return
	}
	except := w.Method("cluster", "MemberSet", "Except")
	// R1
	{
		g := w.FGI(a.handleMembers)
		site := w.fnPos(a.handleMembers)
		joined := "call:(*cluster.MemberSet).Except(call:cluster.NewMemberSet(" + a.membersList + "),call:(*cluster.MemberSet).Slice(P0.members))"
		left := "call:(*cluster.MemberSet).Except(P0.members," + a.membersList + ")"
		check := func(h *ssa.Function, set, what, other string) {
			key := fmt.Sprintf("%s->%s", fname(a.handleMembers), fname(h))
			sites := w.callsIn(a.handleMembers, EvCall("h", h))
			if len(sites) != 1 || callKind(sites[0]) != "call" {
				r.Fail("C18.R1", key, what, site, fmt.Sprintf("%d call sites of %s", len(sites), fname(h)))
				return
			}
			arg := w.pathOf(sites[0].Common().Args[1])
			if !strings.HasPrefix(arg, set+"[") {
				d := "argument is " + arg
				if strings.HasPrefix(arg, other+"[") {
					d = "joined and left are crossed: members that dropped out are announced as joining and vice versa"
				}
				r.Fail("C18.R1", key, what, w.pos(sites[0].Pos()), d)
				return
			}
			// loop over the whole slice: the guarding condition compares the index with len(set)
			n := g.idx[sites[0].(ssa.Instruction)]
			bound, _ := g.CondEdges(func(v ssa.Value) (bool, bool) {
				b, ok := v.(*ssa.BinOp)
				return true, ok && b.Op == token.LSS && w.pathOf(b.Y) == "len("+set+")"
			})
			okLoop := len(bound) > 0 && g.OnlyVia(bound, n)
			// the loop is reached on every path of the handler (joins and leaves are independent: a snapshot can bring both)
			{
				hdr := make([]bool, len(g.ins))
				for _, e := range bound {
					hdr[e.from] = true
				}
				if !g.AfterEntry(hdr) {
					okLoop = false
				}
			}
			// the loop comes back to its bound check after each call (no break)
			if okLoop && !g.reach(g.succ[n], nil, nil)[bound[0].from] {
				okLoop = false
			}
			idx := arg[len(set)+1 : len(arg)-1]
			if !strings.Contains(idx, "+K:1)") {
				okLoop = false
			}
			r.Check(okLoop, "C18.R1", key, what, w.pos(sites[0].Pos()), "the handler is not called for every element of the computed difference")
		}
		check(a.join, joined, "every member of new\\current is handed to the join handler", left)
		check(a.leave, left, "every member of current\\new is handed to the leave handler", joined)
		n := len(w.callsIn(a.handleMembers, EvCall("Except", except)))
		r.Check(n == 2, "C18.R1", fname(a.handleMembers)+":two-differences", "exactly the two set differences are computed", site, fmt.Sprintf("%d Except calls", n))
		// ... on every path: no snapshot is waved through on the strength of some summary of it (a size, a digest)
		{
			hg := w.FGI(a.handleMembers)
			E := w.Nodes(hg, EvCall("Except", except), false)
			all := true
			for _, e := range members(E) {
				if !hg.AfterEntry(setOf(len(hg.ins), e)) {
					all = false
				}
			}
			r.Check(all && anyOf(E), "C18.R1", fname(a.handleMembers)+":every-snapshot-is-diffed", "both set differences are computed for every snapshot (no path returns before them)", site,
				"a path through the handler returns without comparing the snapshot with the view: a snapshot it takes for a repeat is dropped, its joins and leaves are never reported and Members() stays behind")
		}
	}
	// R2
	add := w.Method("cluster", "MemberSet", "Add")
	rem := w.Method("cluster", "MemberSet", "Remove")
	// the view changes in the handler, or in the loop that calls it, right before the call and with the same member
	callerSide := func(h *ssa.Function, op *ssa.Function, name, why string) bool {
		if h == nil || op == nil || len(w.callsIn(h, EvCall(name, op))) > 0 || w.isVirtual(a.handleMembers) {
			return false
		}
		g := w.FGI(a.handleMembers)
		hs := w.callsIn(a.handleMembers, EvCall("h", h))
		os := w.callsIn(a.handleMembers, EvCall(name, op))
		key := fmt.Sprintf("%s->%s", fname(h), name)
		what := fmt.Sprintf("%s(P0.members, m) happens for the member m handed to %s, immediately before that call", name, fname(h))
		if len(hs) != 1 || len(os) != 1 || callKind(hs[0]) != "call" || callKind(os[0]) != "call" {
			return false
		}
		hn, on := g.idx[hs[0].(ssa.Instruction)], g.idx[os[0].(ssa.Instruction)]
		oa, ha := os[0].Common().Args, hs[0].Common().Args
		ok := len(oa) == 2 && len(ha) == 2 && w.pathOf(oa[0]) == "P0.members" && w.pathOf(oa[1]) == w.pathOf(ha[1]) &&
			g.After(on, setOf(len(g.ins), hn)) && g.Before(setOf(len(g.ins), on), hn)
		if ok {
			// nothing of the machine runs between the two: no other call separates the change from the handler
			between := g.reach(g.succ[on], setOf(len(g.ins), hn), nil)
			for i, in := range g.ins {
				if between[i] && i != hn && callOf(in) != nil && !g.inl[i] {
					if c := callOf(in); c.StaticCallee() == nil || w.isLib(c.StaticCallee()) {
						ok = false
					}
				}
			}
		}
		r.Check(ok, "C18.R2", key, what, w.pos(os[0].Pos()), why)
		return true
	}
	addInCaller := callerSide(a.join, add, "MemberSet.Add", "A joining member is not added to the view.")
	if !addInCaller {
		w.checkRow(r, row{rule: "C18.R2", fn: a.join, callee: EvCall("Add", add), name: "MemberSet.Add", args: []string{"P0.members", "P1"}, why: "A joining member is not added to the view."})
	}
	w.checkRow(r, row{rule: "C18.R2", fn: a.join, callee: w.evBroadcast("cluster", "MemberJoinEvent"), name: "BroadcastEvent(MemberJoinEvent)", args: []string{"P0.cluster.engine", "lit:MemberJoinEvent{Member=P1}"}, why: "No (or a wrong, or a second) MemberJoinEvent for a joining member."})
	removeInCaller := callerSide(a.leave, rem, "MemberSet.Remove", "A leaving member stays in the view.")
	if !removeInCaller {
		w.checkRow(r, row{rule: "C18.R2", fn: a.leave, callee: EvCall("Remove", rem), name: "MemberSet.Remove", args: []string{"P0.members", "P1"}, why: "A leaving member stays in the view."})
	}
	w.checkRow(r, row{rule: "C18.R2", fn: a.leave, callee: w.evBroadcast("cluster", "MemberLeaveEvent"), name: "BroadcastEvent(MemberLeaveEvent)", args: []string{"P0.cluster.engine", "lit:MemberLeaveEvent{Member=P1}"}, why: "No (or a wrong, or a second) MemberLeaveEvent for a leaving member."})
	{
		// join extends kinds from m.Kinds
		g := w.FGI(a.join)
		ok := false
		for _, in := range g.ins {
			if mu, isM := in.(*ssa.MapUpdate); isM && w.pathOf(mu.Map) == "P0.kinds" && strings.HasPrefix(w.pathOf(mu.Key), "P1.Kinds[") && w.pathOf(mu.Value) == "K:true" {
				ok = true
			}
		}
		if ok {
			upd := make([]bool, len(g.ins))
			for i, in := range g.ins {
				if mu, isM := in.(*ssa.MapUpdate); isM && w.pathOf(mu.Map) == "P0.kinds" {
					upd[i] = true
				}
			}
			present, absent := w.lookupEdges(g, "P0.kinds")
			if len(present) > 0 {
				// guarded form: the update must sit on the absent edge
				ok = actionOnEdge(g, absent, upd)
			}
		}
		if ok {
			// every kind of the list is visited: the loop over member.Kinds is left only through its bound, and an
			// iteration either records the kind or finds it known (comma-ok or plain lookup) — and goes on
			upd := make([]bool, len(g.ins))
			for i, in := range g.ins {
				if mu, isM := in.(*ssa.MapUpdate); isM && w.pathOf(mu.Map) == "P0.kinds" {
					upd[i] = true
				}
			}
			bound, _ := g.CondEdges(func(v ssa.Value) (bool, bool) {
				b, isB := v.(*ssa.BinOp)
				return true, isB && b.Op == token.LSS && w.pathOf(b.Y) == "len(P1.Kinds)"
			})
			known, _ := w.lookupEdges(g, "P0.kinds")
			truthy, _ := g.CondEdges(func(v ssa.Value) (bool, bool) {
				p := w.pathOf(v)
				return true, strings.HasPrefix(p, "P0.kinds[P1.Kinds[") && !strings.Contains(p, "#")
			})
			known = append(known, truthy...)
			if len(bound) == 0 {
				ok = false
			}
			cut := map[Edge]bool{}
			for _, e := range known {
				cut[e] = true
			}
			hdr := make([]bool, len(g.ins))
			var exits []int
			for _, e := range bound {
				hdr[e.from] = true
				if fe, okE := g.EdgeOf(e.from, false); okE {
					exits = append(exits, fe.to)
				}
			}
			for _, e := range bound {
				rr := g.reach([]int{e.to}, upd, cut)
				if rr[e.from] {
					ok = false // an iteration that neither records the kind nor found it known
				}
			}
			var conts []int
			for _, e := range known {
				conts = append(conts, e.to)
			}
			for _, u := range members(upd) {
				conts = append(conts, g.succ[u]...)
			}
			rr := g.reach(conts, hdr, nil)
			for _, x := range exits {
				if rr[x] {
					ok = false // the loop is left before the list is exhausted
				}
			}
			for _, x := range g.returns {
				if rr[x] {
					ok = false
				}
			}
		}
		r.Check(ok, "C18.R2", fname(a.join)+":kinds", "the join handler records every kind of the new member (on the edge where it is not yet known)", w.fnPos(a.join), "HasKind stays false for a kind that only the new member offers")
		// leave rebuilds kinds after the removal (through the rebuild helper, or written out in the leave handler)
		rebuildInline := false
		if a.rebuild == nil && a.leave != nil {
			for _, in := range w.insOf(a.leave) {
				if c := callOf(in); c != nil && len(c.Args) > 0 && w.pathOf(c.Args[0]) == "P0.kinds" {
					if f := c.StaticCallee(); f != nil && strings.Contains(f.String(), "maps.Clear") {
						rebuildInline = true
					}
					if bi, isB := c.Value.(*ssa.Builtin); isB && bi.Name() == "clear" {
						rebuildInline = true
					}
				}
			}
			if rebuildInline {
				a.rebuild = a.leave
				defer func() { a.rebuild = nil }()
			}
		}
		if a.rebuild == nil {
			r.Fail("C18.R2", fname(a.leave)+":rebuild-after-remove", "kinds are rebuilt after the member was removed", w.fnPos(a.leave),
				"the leave handler calls no helper that recomputes kinds from the remaining members: a kind still offered by another member disappears (or a vanished kind stays)")
			r.Fail("C18.R2", "(*cluster.Agent).rebuildKinds:clear-and-readd", "rebuild clears kinds and re-adds the kinds of every remaining member", w.fnPos(a.leave), "no rebuild helper")
			goto r3
		}
		{
		lg := w.FGI(a.leave)
		R := w.Nodes(lg, EvCall("Remove", rem), true)
		B := w.Nodes(lg, EvCall("rebuild", a.rebuild), true)
		if rebuildInline {
			// the point where the rebuild starts: kinds is cleared
			B = make([]bool, len(lg.ins))
			for i, in := range lg.ins {
				if c := callOf(in); c != nil && len(c.Args) > 0 && w.pathOf(c.Args[0]) == "P0.kinds" {
					if f := c.StaticCallee(); f != nil && strings.Contains(f.String(), "maps.Clear") {
						B[i] = true
					}
					if bi, isB := c.Value.(*ssa.Builtin); isB && bi.Name() == "clear" {
						B[i] = true
					}
				}
			}
		}
		okR := anyOf(R) && anyOf(B)
		if removeInCaller {
			// the removal was verified at the call site of the leave handler (right before the call): the rebuild
			// only has to happen on every path of the handler
			okR = anyOf(B) && lg.AfterEntry(B)
		}
		for _, n := range members(R) {
			if !lg.After(n, B) {
				okR = false
			}
		}
		for _, n := range members(B) {
			if !removeInCaller && !lg.Before(R, n) {
				okR = false
			}
		}
		r.Check(okR, "C18.R2", fname(a.leave)+":rebuild-after-remove", "kinds are rebuilt after the member was removed", w.fnPos(a.leave), "HasKind keeps reporting kinds that only the departed member offered (rebuild missing or done before the removal)")
		// rebuild: clear + re-add from every remaining member
		rg := w.FGI(a.rebuild)
		clr := false
		for _, in := range rg.ins {
			if c := callOf(in); c != nil {
				if f := c.StaticCallee(); f != nil && strings.Contains(f.String(), "maps.Clear") && w.pathOf(c.Args[0]) == "P0.kinds" {
					clr = true
				}
				if bi, isB := c.Value.(*ssa.Builtin); isB && bi.Name() == "clear" && w.pathOf(c.Args[0]) == "P0.kinds" {
					clr = true
				}
			}
		}
		readd := false
		fe := w.Method("cluster", "MemberSet", "ForEach")
		for _, ci := range w.callsIn(a.rebuild, EvCall("ForEach", fe)) {
			if mc, isM := ci.Common().Args[1].(*ssa.MakeClosure); isM && w.pathOf(ci.Common().Args[0]) == "P0.members" {
				cf := mc.Fn.(*ssa.Function)
				upd := false
				allTrue := true
				for _, in := range w.insOf(cf) {
					{
						if mu, isU := in.(*ssa.MapUpdate); isU && strings.HasSuffix(w.pathOf(mu.Map), ".kinds") && strings.HasPrefix(w.pathOf(mu.Key), "P0.Kinds[") {
							upd = true
						}
						if ret, isR := in.(*ssa.Return); isR && w.pathOf(ret.Results[0]) != "K:true" {
							allTrue = false
						}
					}
				}
				readd = upd && allTrue
			}
		}
		if clr && readd {
			C := make([]bool, len(rg.ins))
			for i, in := range rg.ins {
				if c := callOf(in); c != nil {
					if f := c.StaticCallee(); f != nil && strings.Contains(f.String(), "maps.Clear") {
						C[i] = true
					}
					if bi, isB := c.Value.(*ssa.Builtin); isB && bi.Name() == "clear" {
						C[i] = true
					}
				}
			}
			for _, ci := range w.callsIn(a.rebuild, EvCall("ForEach", fe)) {
				if !rg.Before(C, rg.idx[ci.(ssa.Instruction)]) {
					readd = false
				}
			}
			// the closure adds on the absent edge
			for _, ci := range w.callsIn(a.rebuild, EvCall("ForEach", fe)) {
				if mc, isM := ci.Common().Args[1].(*ssa.MakeClosure); isM {
					cg := w.FGI(mc.Fn.(*ssa.Function))
					upd := make([]bool, len(cg.ins))
					for i, in := range cg.ins {
						if _, isU := in.(*ssa.MapUpdate); isU {
							upd[i] = true
						}
					}
					present, absent := w.lookupEdges(cg, ".kinds")
					if len(present) > 0 && !actionOnEdge(cg, absent, upd) {
						readd = false
					}
				}
			}
		}
		if clr && !readd {
			readd = rebuildByRange(w, rg)
		}
		r.Check(clr && readd, "C18.R2", "(*cluster.Agent).rebuildKinds:clear-and-readd", "rebuild clears kinds and re-adds the kinds of every remaining member", w.fnPos(a.rebuild), "kinds is not recomputed from the whole remaining view")
		}
	}
r3:
	// R3
	{
		mw := map[*ssa.Function]bool{}
		for _, fn := range w.MethodsOf("cluster", "Agent") {
			for _, in := range w.insOf(fn) {
				{
					if c := callOf(in); c != nil && c.StaticCallee() != nil && isMethodOf(c.StaticCallee(), a.msT) && len(c.Args) > 0 && strings.HasSuffix(w.pathOf(c.Args[0]), ".members") {
						switch c.StaticCallee().Name() {
						case "Add", "Remove", "RemoveByHost":
							mw[rootFn(fn)] = true
						}
					}
				}
			}
		}
		for f := range w.mapWriters("cluster", a.msT, "members") {
			// (the rule is about the agent's set: a fresh MemberSet helper spliced into the provider writes the provider's set)
			if !isMethodOf(rootFn(f), a.msT) && rootFn(f).Name() != "NewMemberSet" && isMethodOf(rootFn(f), a.agentT) {
				mw[rootFn(f)] = true
			}
		}
		delete(mw, a.join)
		delete(mw, a.leave)
		if addInCaller || removeInCaller {
			delete(mw, a.handleMembers) // verified above: the change sits right before the handler call, with its member
		}
		r.Check(len(mw) == 0, "C18.R3", "Agent.members:writers", "only the join and leave handlers change the member set", w.fnPos(a.join), fmt.Sprintf("other writers: %v", fnNames(mw)))
		kw := map[*ssa.Function]bool{}
		for f := range w.mapWriters("cluster", a.agentT, "kinds") {
			kw[rootFn(f)] = true
		}
		delete(kw, a.join)
		delete(kw, a.rebuild)
		// the view belongs to one incarnation of the agent: members and kinds are created where the Agent is created (inside
		// the producer), not captured from outside it — otherwise one of them survives a restart of the agent and the other
		// does not (kinds of members that left during the restart stay, or the view stays and the kinds are gone)
		{
			okI, n := true, 0
			detail := ""
			for _, fn := range w.Funcs {
				if !w.isLib(fn) || fnPkgPath(fn) != modPath+"/cluster" {
					continue
				}
				for _, al := range w.allocsOf(fn, a.agentT) {
					fs, lit := w.litFields(al)
					if !lit {
						continue
					}
					n++
					for _, f := range []string{"members", "kinds"} {
						v := fs[f]
						if v == nil {
							okI, detail = false, "Agent."+f+" is not initialised where the agent is created"
							continue
						}
						if p := w.pathOf(v); strings.HasPrefix(p, "FV:") || strings.HasPrefix(p, "P") || strings.HasPrefix(p, "G:") {
							okI, detail = false, "Agent."+f+" is "+p+", created outside the producer that builds the agent: it is shared by all incarnations"
						}
					}
				}
			}
			r.Check(okI && n > 0, "C18.R3", "Agent:state-per-incarnation", "the member set and the kinds of an agent are created together with it", w.fnPos(a.recv), detail)
		}
		r.Check(len(kw) == 0, "C18.R3", "Agent.kinds:writers", "only the join handler and the rebuild helper change kinds", w.fnPos(a.rebuild), fmt.Sprintf("other writers: %v", fnNames(kw)))
	}
	// R4
	{
		type kv struct{ fn, what, want string }
		mk := func(name string) *ssa.Function { return w.Method("cluster", "MemberSet", name) }
		// Add / Remove / Contains
		chk := func(fn *ssa.Function, what string, pred func(in ssa.Instruction) bool) {
			ok := false
			if fn != nil {
				for _, in := range w.insOf(fn) {
					{
						if pred(in) {
							ok = true
						}
					}
				}
			}
			r.Check(ok, "C18.R4", "MemberSet."+what, what+" is keyed by Member.ID", w.fnPos(fn), "the member set is not keyed by Member.ID here: the view disagrees with the snapshot by ID")
		}
		chk(mk("Add"), "Add", func(in ssa.Instruction) bool {
			mu, ok := in.(*ssa.MapUpdate)
			return ok && w.pathOf(mu.Map) == "P0.members" && w.pathOf(mu.Key) == "P1.ID" && w.pathOf(mu.Value) == "P1"
		})
		chk(mk("Remove"), "Remove", func(in ssa.Instruction) bool {
			c, ok := in.(*ssa.Call)
			if !ok {
				return false
			}
			args, isD := isBuiltinCall(c, "delete")
			return isD && w.pathOf(args[0]) == "P0.members" && w.pathOf(args[1]) == "P1.ID"
		})
		chk(mk("Contains"), "Contains", func(in ssa.Instruction) bool {
			ret, ok := in.(*ssa.Return)
			return ok && w.pathOf(ret.Results[0]) == "P0.members[P1.ID]#1"
		})
		nms := w.Func("cluster", "NewMemberSet")
		chk(nms, "NewMemberSet", func(in ssa.Instruction) bool {
			mu, ok := in.(*ssa.MapUpdate)
			if ok && strings.HasSuffix(w.pathOf(mu.Key), "].ID") && strings.HasPrefix(w.pathOf(mu.Key), "P0[") && w.pathOf(mu.Value)+".ID" == w.pathOf(mu.Key) {
				return true
			}
			// or: every element is handed to Add (which is keyed by ID, see MemberSet.Add)
			if c, isC := in.(*ssa.Call); isC && c.Call.StaticCallee() == mk("Add") && mk("Add") != nil && len(c.Call.Args) == 2 {
				if ap := w.pathOf(c.Call.Args[1]); strings.HasPrefix(ap, "P0[") && strings.HasSuffix(ap, "]") && strings.HasPrefix(w.pathOf(c.Call.Args[0]), "&lit:MemberSet{") {
					g := w.FGI(nms)
					return w.indexLoopEvery(g, "P0", setOf(len(g.ins), g.idx[c]))
				}
			}
			return false
		})
		// Except
		if except != nil {
			g := w.FGI(except)
			var fill *ssa.MapUpdate
			var test *ssa.Lookup
			var app *ssa.Call
			for _, in := range g.ins {
				switch x := in.(type) {
				case *ssa.MapUpdate:
					fill = x
				case *ssa.Lookup:
					if x.CommaOk {
						test = x
					}
				case *ssa.Call:
					if _, ok := isBuiltinCall(x, "append"); ok {
						app = x
					}
				}
			}
			ok := fill != nil && test != nil && app != nil
			detail := "unrecognised shape"
			if !ok && app != nil {
				// the other shape: other := NewMemberSet(arg...); a member is appended unless other.Contains(member)
				// (NewMemberSet and Contains are keyed by ID, see above)
				vals := w.appended(app)
				has, hasNot := w.callEdges(g, "call:(*cluster.MemberSet).Contains(call:cluster.NewMemberSet(P1),next(range(P0.members))#2)")
				switch {
				case len(has) == 0 || len(hasNot) == 0:
					detail = "no membership test of the receiver's members against the argument"
				case len(vals) != 1 || w.pathOf(vals[0]) != "next(range(P0.members))#2":
					detail = "the appended member is not the tested one"
				case !g.OnlyVia(hasNot, g.idx[app]):
					detail = "members are appended on the wrong edge of the membership test (Except returns the intersection)"
				default:
					A := setOf(len(g.ins), g.idx[app])
					good := true
					for _, e := range hasNot {
						rr := g.reach([]int{e.to}, A, nil)
						for _, in := range g.ins {
							if nx, isN := in.(*ssa.Next); isN && rr[g.idx[nx]] {
								good = false
							}
						}
						for _, x := range g.returns {
							if rr[x] {
								good = false
							}
						}
					}
					if good {
						r.OK("C18.R4", "MemberSet.Except", "Except(s, arg) = members of s whose ID is not among arg's IDs", w.fnPos(except))
						goto exceptDone
					}
					detail = "an absent member can be skipped"
				}
			}
			if ok {
				fk, tk := w.pathOf(fill.Key), w.pathOf(test.Index)
				vals := w.appended(app)
				_, absent := g.CondEdges(func(v ssa.Value) (bool, bool) {
					if e, isE := v.(*ssa.Extract); isE && e.Tuple == ssa.Value(test) && e.Index == 1 {
						return true, true
					}
					return false, false
				})
				switch {
				case !strings.HasPrefix(fk, "P1[") || !strings.HasSuffix(fk, ".ID") || w.resolve(fill.Map) != w.resolve(test.X):
					ok, detail = false, "the argument is not indexed by Member.ID: "+fk
				case !strings.HasPrefix(tk, "next(range(P0.members))") || !strings.HasSuffix(tk, ".ID"):
					ok, detail = false, "the receiver's members are not tested by Member.ID: "+tk
				case len(absent) == 0 || !g.OnlyVia(absent, g.idx[app]):
					ok, detail = false, "members are appended on the wrong edge of the membership test (Except returns the intersection)"
				case len(vals) != 1 || w.pathOf(vals[0])+".ID" != tk:
					ok, detail = false, "the appended member is not the tested one"
				}
				if ok {
					// every absent member is appended: from the absent edge, the loop header is not reachable avoiding the append
					for _, e := range absent {
						rr := g.reach([]int{e.to}, setOf(len(g.ins), g.idx[app]), nil)
						for _, in := range g.ins {
							if nx, isN := in.(*ssa.Next); isN && rr[g.idx[nx]] {
								ok, detail = false, "an absent member can be skipped"
							}
						}
					}
				}
			}
			r.Check(ok, "C18.R4", "MemberSet.Except", "Except(s, arg) = members of s whose ID is not among arg's IDs", w.fnPos(except), detail)
		exceptDone:
			// no shortcut around the scan: every return has walked the receiver's members, unless the receiver is known
			// to be empty (nothing to report) or the argument is and the whole receiver is returned
			{
				g := w.FGI(except)
				NEXT := make([]bool, len(g.ins))
				for i, in := range g.ins {
					if nx, isN := in.(*ssa.Next); isN && strings.HasPrefix(w.pathOf(nx), "next(range(P0.members))") {
						NEXT[i] = true
					}
				}
				lenZero := func(path string) []Edge {
					e, _ := g.CondEdges(func(c ssa.Value) (bool, bool) {
						b, ok := c.(*ssa.BinOp)
						if !ok {
							return false, false
						}
						args, isLen := isBuiltinCall(b.X, "len")
						if !isLen || w.pathOf(args[0]) != path {
							return false, false
						}
						switch y := w.pathOf(b.Y); {
						case y == "K:0" && (b.Op == token.EQL || b.Op == token.LEQ), y == "K:1" && b.Op == token.LSS:
							return true, true
						case y == "K:0" && (b.Op == token.NEQ || b.Op == token.GTR), y == "K:1" && b.Op == token.GEQ:
							return false, true
						}
						return false, false
					})
					return e
				}
				selfEmpty, argEmpty := lenZero("P0.members"), lenZero("P1")
				var short []string
				for _, x := range g.returns {
					if g.Before(NEXT, x) || (len(selfEmpty) > 0 && g.OnlyVia(selfEmpty, x)) {
						continue
					}
					if ret, isR := g.ins[x].(*ssa.Return); isR && len(ret.Results) == 1 && len(argEmpty) > 0 && g.OnlyVia(argEmpty, x) &&
						w.pathOf(ret.Results[0]) == "call:(*cluster.MemberSet).Slice(P0)" {
						continue
					}
					short = append(short, w.pos(g.ins[x].Pos()))
				}
				r.Check(len(short) == 0 && anyOf(NEXT), "C18.R4", "MemberSet.Except:no-shortcut", "every result of Except comes from a scan of the receiver's members (or the receiver is empty)", w.fnPos(except),
					"Except returns at "+strings.Join(short, ", ")+" without having looked at the receiver's members: a member that was replaced by another one in a single update is reported neither as joined nor as left")
			}
			// a *Member that was handed out (to the agent's view, in an event, in a report) never changes afterwards: a
			// member that comes back with other kinds is a new *Member, reported as a change of the set
			{
				memT := w.Named("cluster", "Member")
				var writers []string
				for _, fn := range w.Funcs {
					if !w.isLib(fn) || fnPkgPath(fn) != modPath+"/cluster" || strings.Contains(w.Fset.Position(fn.Pos()).Filename, ".pb.go") {
						continue
					}
					for _, in := range w.insOf(fn) {
						st, ok := in.(*ssa.Store)
						if !ok {
							continue
						}
						fa, ok := st.Addr.(*ssa.FieldAddr)
						if !ok {
							continue
						}
						if _, nm := fieldName(fa); !sameNamed(nm, memT) {
							continue
						}
						if _, fresh := fa.X.(*ssa.Alloc); fresh {
							continue
						}
						writers = append(writers, fname(fn)+" at "+w.pos(st.Pos()))
					}
				}
				r.Check(len(writers) == 0, "C18.R4", "Member:immutable", "no field of a *Member is written after the member was built", w.fnPos(except),
					fmt.Sprintf("written by %v: the agent's view changes behind its back (Members() shows kinds that HasKind denies) with no join or leave", writers))
			}
		}
		sl := mk("Slice")
		okS := false
		if sl != nil {
			for _, in := range w.insOf(sl) {
				{
					if st, ok := in.(*ssa.Store); ok && strings.HasPrefix(w.pathOf(st.Val), "next(range(P0.members))#2") {
						if _, isI := st.Addr.(*ssa.IndexAddr); isI {
							okS = true
						}
					}
				}
			}
			if ok, _ := w.returnsOnly(sl, "makeslice(len(P0.members))"); !ok {
				okS = false
			}
		}
		if okS {
			okS = slotAndBump(w, sl, "next(range(P0.members))#2")
		}
		if !okS && sl != nil {
			// the append form: an empty slice gets every member appended, once per iteration
			sg := w.FGI(sl)
			A := make([]bool, len(sg.ins))
			for i, in := range sg.ins {
				if c, isC := in.(*ssa.Call); isC {
					if vals := w.appended(c); len(vals) == 1 && w.pathOf(vals[0]) == "next(range(P0.members))#2" {
						A[i] = true
					}
				}
			}
			okS = w.rangeLoopEvery(sg, "P0.members", A) && len(sg.returns) > 0
			for _, x := range sg.returns {
				if rs := sg.ins[x].(*ssa.Return).Results; len(rs) != 1 || !w.accumulates(sg, rs[0], A) {
					okS = false
				}
			}
		}
		r.Check(okS, "C18.R4", "MemberSet.Slice", "Slice returns every member of the set", w.fnPos(sl), "Slice does not list exactly the members map")
	}
	// R5
	{
		g := w.FGI(a.recv)
		respond := w.Method("actor", "Context", "Respond")
		gm := w.caseEdges(g, "cluster.getMembers")
		gk := w.caseEdges(g, "cluster.getKinds")
		okM, okK := false, false
		for _, ci := range w.callsIn(a.recv, EvCall("Respond", respond)) {
			n := g.idx[ci.(ssa.Instruction)]
			p := w.pathOf(ci.Common().Args[1])
			if len(gm) > 0 && g.OnlyVia(gm, n) && p == "call:(*cluster.MemberSet).Slice(P0.members)" {
				okM = true
			}
			if len(gk) > 0 && g.OnlyVia(gk, n) && p == "makeslice(len(P0.kinds))" {
				okK = true
			}
		}
		// the kinds slice is filled from the keys of kinds
		fill := false
		for _, in := range g.ins {
			if st, ok := in.(*ssa.Store); ok && w.pathOf(st.Val) == "next(range(P0.kinds))#1" {
				fill = true
			}
		}
		r.Check(okM, "C18.R5", fname(a.recv)+":getMembers", "getMembers is answered with members.Slice()", w.fnPos(a.recv), "Members() is not answered from the member set")
		if fill {
			// each kind in its own slot
			var idx ssa.Value
			for _, in := range g.ins {
				if st, ok := in.(*ssa.Store); ok && w.pathOf(st.Val) == "next(range(P0.kinds))#1" {
					if ia, isIA := st.Addr.(*ssa.IndexAddr); isIA {
						idx = ia.Index
					}
				}
			}
			ph, isPhi := idx.(*ssa.Phi)
			fill = false
			if isPhi {
				z, inc := false, false
				for _, e := range ph.Edges {
					if constStr(e) == "0" {
						z = true
					}
					if b, isB := e.(*ssa.BinOp); isB && b.Op == token.ADD && b.X == ssa.Value(ph) && constStr(b.Y) == "1" {
						inc = true
					}
				}
				fill = z && inc
			}
		}
		if !(okK && fill) && len(gk) > 0 {
			// the append form: an empty slice gets every key of kinds appended, once per iteration, and is what is answered
			A := make([]bool, len(g.ins))
			for i, in := range g.ins {
				if c, isC := in.(*ssa.Call); isC {
					if vals := w.appended(c); len(vals) == 1 && w.pathOf(vals[0]) == "next(range(P0.kinds))#1" && g.OnlyVia(gk, i) {
						A[i] = true
					}
				}
			}
			if anyOf(A) {
				rg := g.region(gk)
				oldCur := w.cur
				RA := make([]bool, len(rg.ins))
				for i, in := range rg.ins {
					if gi, ok := g.idx[in]; ok && A[gi] {
						RA[i] = true
					}
				}
				if w.rangeLoopEvery(rg, "P0.kinds", RA) {
					for _, ci := range w.callsIn(a.recv, EvCall("Respond", respond)) {
						n := g.idx[ci.(ssa.Instruction)]
						if g.OnlyVia(gk, n) && w.accumulates(g, ci.Common().Args[1], A) {
							okK, fill = true, true
						}
					}
				}
				w.cur = oldCur
			}
		}
		r.Check(okK && fill, "C18.R5", fname(a.recv)+":getKinds", "getKinds is answered with the keys of kinds", w.fnPos(a.recv), "HasKind is not answered from the kinds map")
		cm := w.Method("cluster", "Cluster", "Members")
		hk := w.Method("cluster", "Cluster", "HasKind")
		req := w.Method("actor", "Engine", "Request")
		chkReq := func(fn *ssa.Function, lit, key, what string) {
			ok := false
			if fn != nil {
				sites := w.callsIn(fn, EvCall("Request", req))
				if len(sites) == 0 {
					// through a private "ask the agent" helper of the facade
					if g2 := w.delegating(fn, EvCall("Request", req)); g2 != nil {
						for _, in := range g2.ins {
							if ci, isC := in.(ssa.CallInstruction); isC && EvCall("Request", req).M(in) {
								sites = append(sites, ci)
							}
						}
					}
				}
				for _, ci := range sites {
					c := ci.Common()
					tn := ""
					msgV := c.Args[2]
					if prm, isP := msgV.(*ssa.Parameter); isP {
						if av, okA := w.subParam(prm); okA {
							msgV = av
						}
					}
					if mi, isMI := msgV.(*ssa.MakeInterface); isMI {
						if nn, isN := types.Unalias(mi.X.Type()).(*types.Named); isN {
							tn = "lit:" + pinnedShortName(nn) + "{"
						}
					}
					if w.pathOf(c.Args[1]) == "P0.agentPID" && tn == lit {
						ok = true
					}
				}
			}
			r.Check(ok, "C18.R5", key, what, w.fnPos(fn), "the query is not sent to the node's own agent")
		}
		chkReq(cm, "lit:getMembers{", "Cluster.Members", "Members() asks the local agent with getMembers")
		chkReq(hk, "lit:getKinds{", "Cluster.HasKind", "HasKind() asks the local agent with getKinds")
	}
}

// ---------------------------------------------------------------------------
// C19 — activations
// ---------------------------------------------------------------------------

func checkC19(w *World, r *Report) {
	r.Rule("C19.R1", "activate: a known kind/id or a kind nobody offers returns nil without spawning, requesting or broadcasting; otherwise exactly one Activation{PID} is broadcast and that PID returned; the request goes to the member chosen by the select function", 5)
	r.Rule("C19.R2", "only addActivated/removeActivated write the activation table, and every handler reaches the right one", 6)
	r.Rule("C19.R3", "a joining member is sent the full ActorTopology when there are activations", 1)
	r.Rule("C19.R4", "every message type sent to an agent has a case in Agent.Receive that reaches its handler; bcast reaches every member", 11)
	r.Rule("C19.R5", "an activation request for a kind that is not registered locally fails without spawning; otherwise it spawns the registered producer under kind/id", 2)
	a := w.clusterAnchors()
	if a.fail(r, "C19.R1") {
		return
	}
	spawn := w.Method("actor", "Engine", "Spawn")
	req := w.Method("actor", "Engine", "Request")
	// R1
	{
		g := w.FGI(a.activate)
		site := w.fnPos(a.activate)
		known, _ := g.CondEdges(func(v ssa.Value) (bool, bool) {
			p := w.pathOf(v)
			return true, strings.HasPrefix(p, "P0.activated[") && strings.HasSuffix(p, "#1")
		})
		var keyp string
		for _, in := range g.ins {
			if lk, ok := in.(*ssa.Lookup); ok && w.pathOf(lk.X) == "P0.activated" {
				keyp = w.pathOf(lk.Index)
			}
		}
		noMember, _ := g.CondEdges(func(v ssa.Value) (bool, bool) {
			b, ok := v.(*ssa.BinOp)
			if !ok {
				return false, false
			}
			x, y := w.pathOf(b.X), w.pathOf(b.Y)
			if x == "len(call:(*cluster.MemberSet).FilterByKind(P0.members,P1))" && y == "K:0" {
				switch b.Op {
				case token.EQL, token.LEQ:
					return true, true
				case token.GTR, token.NEQ:
					return false, true
				}
			}
			return false, false
		})
		effects := union(union(w.Nodes(g, EvCall("bcast", a.bcast), false), w.Nodes(g, EvCall("Request", req), false)), w.Nodes(g, EvCall("actreq", a.hActReq), false))
		chkEdge := func(es []Edge, key, what, why string) {
			ok := len(es) > 0
			rr := reachFromEdges(g, es, nil)
			for _, n := range members(effects) {
				if rr[n] {
					ok = false
				}
			}
			for _, x := range g.returns {
				if rr[x] && w.pathOf(g.ins[x].(*ssa.Return).Results[0]) != "K:nil" {
					ok = false
				}
			}
			r.Check(ok, "C19.R1", fname(a.activate)+":"+key, what, site, why)
		}
		chkEdge(known, "known-id", "an id already in the activation table returns nil and has no effect", "a second Activate of a known kind/id spawns or announces a duplicate actor")
		r.Check(keyp == `((P1+K:"/")+P2.id)`, "C19.R1", fname(a.activate)+":table-key", "the duplicate test uses kind + \"/\" + id, the ID under which the spawned actor's PID is later recorded", site, "the duplicate test looks up "+keyp)
		chkEdge(noMember, "no-member", "a kind that no member offers returns nil and has no effect", "Activate of an unavailable kind still requests / announces an activation")
		// everything else is behind both tests
		_, unknown := g.CondEdges(func(v ssa.Value) (bool, bool) {
			p := w.pathOf(v)
			return true, strings.HasPrefix(p, "P0.activated[") && strings.HasSuffix(p, "#1")
		})
		okB := len(unknown) > 0
		for _, n := range members(effects) {
			if !g.OnlyVia(unknown, n) {
				okB = false
			}
		}
		r.Check(okB, "C19.R1", fname(a.activate)+":effects-behind-tests", "requests and broadcasts happen only for an unknown id", site, "an effect is reachable without passing the duplicate test")
		// nil is returned only for one of the stated reasons: known id, no capable member, the select function
		// chose nobody, the request failed, or the response was no success. Any other refusal means "a capable
		// member exists, the id is free, and nothing is spawned".
		{
			excused := append(append([]Edge{}, known...), noMember...)
			more, _ := g.CondEdges(func(v ssa.Value) (bool, bool) {
				if b, ok := v.(*ssa.BinOp); ok && (b.Op == token.EQL || b.Op == token.NEQ) {
					x, y := w.pathOf(b.X), w.pathOf(b.Y)
					if x == "K:nil" {
						x, y = y, x
					}
					if y == "K:nil" && strings.HasPrefix(x, "call:dyn[") {
						return b.Op == token.EQL, true // the select function returned nil
					}
					if y == "K:nil" && strings.HasSuffix(x, "#1") && strings.Contains(x, ".Result(") {
						return b.Op == token.NEQ, true // the request failed
					}
				}
				return false, false
			})
			excused = append(excused, more...)
			_, neg := g.CondEdges(func(v ssa.Value) (bool, bool) {
				p := w.pathOf(v)
				if strings.HasPrefix(p, "assert<*cluster.ActivationResponse>(") && strings.HasSuffix(p, "#1") {
					return true, true
				}
				if strings.HasSuffix(p, ".Success") {
					return true, true
				}
				return false, false
			})
			excused = append(excused, neg...)
			okN := true
			dN := ""
			for _, rc := range g.retCases() {
				if len(rc.res) == 1 && w.pathOf(rc.res[0]) == "K:nil" && !rc.onlyVia(g, excused) {
					okN = false
					dN = "a `return nil` at " + w.pos(g.ins[rc.x].Pos()) + " is reachable although the id is unknown, a member offers the kind, the select function chose one and the request succeeded"
				}
			}
			r.Check(okN, "C19.R1", fname(a.activate)+":refuses-only-for-cause", "activate returns nil only for a known id, an unoffered kind, no selected member, a failed request or an unsuccessful response", site, dN)
		}
		// success: exactly one bcast(Activation{PID: resp.PID}) and the same PID is returned
		bs := w.callsIn(a.activate, EvCall("bcast", a.bcast))
		okS := len(bs) == 1
		detail := fmt.Sprintf("%d broadcast sites", len(bs))
		if okS {
			n, fs, lit := w.structLit(bs[0].Common().Args[1])
			pid := ""
			if lit && n != nil && n.Obj().Name() == "Activation" {
				pid = w.pathOf(fs["PID"])
			}
			bn := g.idx[bs[0].(ssa.Instruction)]
			if pid == "" || !strings.Contains(pid, ".PID") {
				okS, detail = false, "the broadcast does not carry the activation response's PID"
			}
			for _, x := range g.returns {
				p := w.pathOf(g.ins[x].(*ssa.Return).Results[0])
				if p == "K:nil" {
					if g.reach(g.succ[bn], nil, nil)[x] {
						okS, detail = false, "nil is returned after the activation was announced"
					}
					continue
				}
				if p != pid {
					okS, detail = false, "the returned PID "+p+" is not the announced one"
				}
				if !g.Before(setOf(len(g.ins), bn), x) {
					okS, detail = false, "a PID is returned without announcing the activation to the members"
				}
			}
			// the announcement follows a successful response only
			if okS {
				facts := g.FactsAt(bn)
				_ = facts
				for _, in := range g.ins {
					iff, ok := in.(*ssa.If)
					if !ok {
						continue
					}
					p := w.pathOf(iff.Cond)
					if strings.HasSuffix(p, ".Success") {
						// the unsuccessful edge: the false edge of `x.Success`, the true edge of `!x.Success`
						neg := 0
						for strings.HasPrefix(p, "!") {
							p = p[1:]
							neg++
						}
						e, _ := g.EdgeOf(g.idx[in], neg%2 == 1)
						if reachFromEdges(g, []Edge{e}, nil)[bn] {
							okS, detail = false, "an unsuccessful activation response is announced"
						}
					}
				}
			}
		}
		r.Check(okS, "C19.R1", fname(a.activate)+":announce-once", "a successful activation is announced once with the spawned PID, which is also returned", site, detail)
		// placement: the request target derives from the select function's result, which is fed the members filtered by kind
		okP := false
		for _, ci := range w.callsIn(a.activate, EvCall("Request", req)) {
			tp := w.pathOf(ci.Common().Args[1])
			formA := strings.HasPrefix(tp, "call:actor.NewPID(call:dyn[") && strings.Contains(tp, ".Host,") && strings.Contains(tp, `(K:"cluster/"+call:dyn[`)
			formB := strings.HasPrefix(tp, "call:(*cluster.Member).PID(call:dyn[") // Member.PID is checked under C19.R4
			if (formA || formB) && strings.Contains(tp, "Members=call:(*cluster.MemberSet).FilterByKind(P0.members,P1)") {
				if rq, _, lit := w.structLit(ci.Common().Args[2]); lit && rq != nil && rq.Obj().Name() == "ActivationRequest" && w.pathOf(ci.Common().Args[2]) == "&lit:ActivationRequest{ID=P2.id,Kind=P1}" {
					okP = true
				}
				// ... and it is awaited for the configured request timeout (with a shorter one the caller gives up on an
				// activation that the other member still completes: an actor nobody knows about)
				if len(ci.Common().Args) < 4 || w.pathOf(ci.Common().Args[3]) != "P0.cluster.config.requestTimeout" {
					okP = false
				}
			}
		}
		{
			// the caller's select function is replaced by the default only when it is nil
			okDef := true
			isNil, _ := g.CondEdges(func(v ssa.Value) (bool, bool) {
				b, isB := v.(*ssa.BinOp)
				if !isB || (b.Op != token.EQL && b.Op != token.NEQ) {
					return false, false
				}
				if k, isK := b.Y.(*ssa.Const); isK && k.IsNil() {
					if u, isU := b.X.(*ssa.UnOp); isU {
						if fa, isFA := u.X.(*ssa.FieldAddr); isFA {
							if name, _ := fieldName(fa); name == "selectMember" {
								return b.Op == token.EQL, true
							}
						}
					}
				}
				return false, false
			})
			for i, in := range g.ins {
				if st, isSt := in.(*ssa.Store); isSt {
					if fa, isFA := st.Addr.(*ssa.FieldAddr); isFA {
						if name, _ := fieldName(fa); name == "selectMember" && (len(isNil) == 0 || !g.OnlyVia(isNil, i)) {
							okDef = false
						}
					}
				}
			}
			// ... and a nil select function is never called: every path to the call of the select function passes the
			// non-nil edge of the test or the store of a default
			{
				_, nonNil := g.CondEdges(func(v ssa.Value) (bool, bool) {
					b, isB := v.(*ssa.BinOp)
					if !isB || (b.Op != token.EQL && b.Op != token.NEQ) {
						return false, false
					}
					if k, isK := b.Y.(*ssa.Const); isK && k.IsNil() {
						if strings.HasSuffix(w.pathOf(b.X), ".selectMember") || strings.Contains(w.pathOf(b.X), "selectMember") {
							return b.Op == token.EQL, true
						}
					}
					return false, false
				})
				defStore := make([]bool, len(g.ins))
				for i, in := range g.ins {
					if st, isSt := in.(*ssa.Store); isSt {
						if vp := w.pathOf(st.Val); strings.HasPrefix(vp, "F:") || strings.HasPrefix(vp, "closure:") {
							defStore[i] = true // a function constant is stored: the default
						}
					}
				}
				okCall := true
				for i, in := range g.ins {
					c, isC := in.(*ssa.Call)
					if !isC || c.Call.IsInvoke() || c.Call.StaticCallee() != nil {
						continue
					}
					if _, isB := c.Call.Value.(*ssa.Builtin); isB {
						continue
					}
					vp := w.pathOf(c.Call.Value)
					if !strings.Contains(vp, "selectMember") && !strings.Contains(vp, "SelectRandomMember") {
						continue
					}
					if strings.HasPrefix(vp, "F:") {
						continue // the default itself
					}
					if ph, isPhi := c.Call.Value.(*ssa.Phi); isPhi {
						// a local that merges the caller's function (on the non-nil edge) with the default
						good := true
						for j, e := range ph.Edges {
							if strings.HasPrefix(w.pathOf(e), "F:") {
								continue
							}
							pred := ph.Block().Preds[j]
							last := g.first[pred] + len(pred.Instrs) - 1
							via := Edge{last, g.first[ph.Block()]}
							onEdge := false
							for _, ne := range nonNil {
								if ne == via {
									onEdge = true
								}
							}
							if !onEdge && !g.OnlyVia(nonNil, last) {
								good = false
							}
						}
						if good {
							continue
						}
					}
					// reachable without a default having been stored and without the non-nil edge?
					cut := map[Edge]bool{}
					for _, e := range nonNil {
						cut[e] = true
					}
					if g.reach(g.entry(), defStore, cut)[i] {
						okCall = false
					}
				}
				r.Check(okCall, "C19.R1", fname(a.activate)+":select-never-nil", "the select function that is called is the caller's or, when none was given, the default", site,
					"the select function can be nil when it is called (Activate with a zero ActivationConfig): the agent panics, Activate times out, and the restarted agent has lost its view and its activation table")
			}
			r.Check(okDef, "C19.R1", fname(a.activate)+":select-default-only-if-nil", "the caller's select function is replaced by the default only when none was given", site,
				"the configured select function is overwritten: the actor is placed on a member the caller did not choose")
			for _, c := range []struct{ m, f string }{{"WithSelectMemberFunc", "selectMember"}, {"WithID", "id"}, {"WithRegion", "region"}} {
				fn := w.Method("cluster", "ActivationConfig", c.m)
				r.Check(valueSetter(w, fn, c.f), "C19.R1", "ActivationConfig."+c.m, c.m+" returns a copy of the config with "+c.f+" set to its argument", w.fnPos(fn),
					"the activation ignores the caller's "+c.f)
			}
		}
		okLoc := false
		for _, in := range g.ins {
			if iff, isIf := in.(*ssa.If); isIf {
				p := w.pathOf(iff.Cond)
				if strings.HasPrefix(p, "(call:dyn[") && (strings.HasSuffix(p, ".Host==call:(*actor.Engine).Address(P0.cluster.engine))") || strings.HasSuffix(p, ".Host!=call:(*actor.Engine).Address(P0.cluster.engine))")) {
					okLoc = true
				}
			}
		}
		if fbk := w.Method("cluster", "MemberSet", "FilterByKind"); fbk != nil {
			fg := w.FGI(fbk)
			has, _ := w.callEdges(fg, "call:(*cluster.Member).HasKind(next(range(P0.members))#2,P1)")
			app := make([]bool, len(fg.ins))
			okF := false
			for i, in := range fg.ins {
				if c, isC := in.(*ssa.Call); isC {
					if _, isA := isBuiltinCall(c, "append"); isA {
						vals := w.appended(c)
						if len(vals) == 1 && strings.HasPrefix(w.pathOf(vals[0]), "next(range(P0.members))#2") {
							app[i] = true
							okF = true
						}
					}
				}
			}
			r.Check(okF && actionOnEdge(fg, has, app), "C19.R1", "MemberSet.FilterByKind", "FilterByKind returns exactly the members whose HasKind(kind) is true", w.fnPos(fbk),
				"the candidates for an activation are not the members that registered the kind")
			hk := w.Method("cluster", "Member", "HasKind")
			okH := false
			if hk != nil {
				hg := w.FGI(hk)
				eq, _ := hg.CondEdges(func(v ssa.Value) (bool, bool) {
					b, isB := v.(*ssa.BinOp)
					return true, isB && b.Op == token.EQL && strings.HasPrefix(w.pathOf(b.X), "P0.Kinds[") && w.pathOf(b.Y) == "P1"
				})
				okH = len(eq) > 0
				for _, x := range hg.returns {
					p := w.pathOf(hg.ins[x].(*ssa.Return).Results[0])
					if p == "K:true" && !hg.OnlyVia(eq, x) {
						okH = false
					}
					if p == "K:false" && hg.OnlyVia(eq, x) {
						okH = false
					}
				}
			}
			if !okH && hk != nil {
				// the library form: return slices.Contains(m.Kinds, kind)
				if ok, _ := w.returnsOnly(hk, `re:^call:slices\.Contains(\[.*\])?\(P0\.Kinds,P1\)$`); ok {
					okH = true
				}
			}
			r.Check(okH, "C19.R1", "Member.HasKind", "Member.HasKind(k) is true exactly when k is among the member's Kinds", w.fnPos(hk), "HasKind answers true for a kind the member did not register (or false for one it did)")
		}
		r.Check(okLoc, "C19.R1", fname(a.activate)+":local-test", "the chosen member is activated locally exactly when its Host is the engine's own address", site,
			"locality is decided against something else than the engine address: with a caller-supplied engine the agent sends the request to itself, times out and returns nil although an actor may be spawned")
		r.Check(okP, "C19.R1", fname(a.activate)+":placement", "the ActivationRequest{kind,id} goes to the agent of the member returned by the select function over FilterByKind(kind)", site,
			"the actor is requested on another member than the chosen capable one, or with another kind/id")
	}
	// R2: effect based. What matters is what each handler does to the table, not which function holds the statement:
	// an insertion is activated[x.ID] = x (directly, or through a private method that does exactly that to its
	// parameter unless the id is already known), a removal is delete(activated, x.ID).
	checkActivationTable(w, r, a)
	// R3
	{
		g := w.FGI(a.join)
		ok := false
		detail := "no ActorTopology is sent to the joining member"
		for _, ci := range w.callsIn(a.join, EvCall("Send", w.Method("actor", "Engine", "Send"))) {
			c := ci.Common()
			n, fs, lit := w.structLit(c.Args[2])
			if !lit || n == nil || n.Obj().Name() != "ActorTopology" {
				continue
			}
			ok = w.pathOf(c.Args[1]) == "call:(*cluster.Member).PID(P1)" && callKind(ci) == "call"
			if !ok {
				detail = "the topology goes to " + w.pathOf(c.Args[1])
			}
			// built from every entry of activated
			act := fs["Actors"]
			var leaves []ssa.Value
			seen := map[ssa.Value]bool{}
			var walk func(v ssa.Value)
			full := false
			walk = func(v ssa.Value) {
				if seen[v] {
					return
				}
				seen[v] = true
				switch x := w.resolve(v).(type) {
				case *ssa.Phi:
					for _, e := range x.Edges {
						walk(e)
					}
				case *ssa.Call:
					if args, isA := isBuiltinCall(x, "append"); isA {
						for _, av := range w.appended(x) {
							if _, afs, l := w.structLit(av); l && strings.HasPrefix(w.pathOf(afs["PID"]), "next(range(P0.activated))#2") {
								full = true
							}
						}
						walk(args[0])
					}
				default:
					leaves = append(leaves, v)
				}
			}
			walk(act)
			if !full {
				// the preallocate-and-index form: make([]*ActorInfo, len(activated)); infos[i] = &ActorInfo{PID: pid}; i++
				if ms, isMS := w.resolve(act).(*ssa.MakeSlice); isMS && w.pathOf(ms.Len) == "len(P0.activated)" {
					slot := make([]bool, len(g.ins))
					var idxV ssa.Value
					for i, in := range g.ins {
						if st, isSt := in.(*ssa.Store); isSt {
							if ia, isIA := st.Addr.(*ssa.IndexAddr); isIA && ia.X == ssa.Value(ms) {
								if _, afs, l := w.structLit(st.Val); l && strings.HasPrefix(w.pathOf(afs["PID"]), "next(range(P0.activated))#2") {
									slot[i] = true
									idxV = ia.Index
								}
							}
						}
					}
					if ph, isPhi := idxV.(*ssa.Phi); isPhi && anyOf(slot) && w.rangeLoopEvery(g, "P0.activated", slot) {
						init, step := false, false
						for _, e := range ph.Edges {
							if constStr(e) == "0" {
								init = true
							}
							if b, isB := e.(*ssa.BinOp); isB && b.Op == token.ADD && b.X == ssa.Value(ph) && constStr(b.Y) == "1" {
								// the increment happens in the same iteration as the store
								if bi, isI := e.(ssa.Instruction); isI {
									step = true
									for _, sn := range members(slot) {
										rr := g.reach(g.succ[sn], setOf(len(g.ins), g.idx[bi]), nil)
										for i, in := range g.ins {
											if _, isNext := in.(*ssa.Next); isNext && rr[i] {
												step = false
											}
										}
									}
								}
							}
						}
						if init && step {
							full = true
							leaves = nil
						}
					}
				}
			}
			if !full {
				ok, detail = false, "the topology is not built from every entry of the activation table"
			}
			// only skipped when empty
			cn := g.idx[ci.(ssa.Instruction)]
			nonEmpty, _ := g.CondEdges(func(v ssa.Value) (bool, bool) {
				b, isB := v.(*ssa.BinOp)
				if !isB || !strings.HasPrefix(w.pathOf(b.X), "len(") || w.pathOf(b.Y) != "K:0" {
					return false, false
				}
				switch b.Op {
				case token.GTR, token.NEQ:
					return true, true
				case token.EQL:
					return false, true
				}
				return false, false
			})
			if len(nonEmpty) > 0 {
				rr := reachFromEdges(g, nonEmpty, setOf(len(g.ins), cn))
				for _, x := range g.returns {
					if rr[x] {
						ok, detail = false, "the topology can be skipped although activations exist"
					}
				}
			}
		}
		r.Check(ok, "C19.R3", fname(a.join)+":topology", "the joining member is sent ActorTopology{all activations} unless there are none", w.fnPos(a.join), detail)
	}
	// R4 exhaustiveness
	{
		g := w.FGI(a.recv)
		type cs struct {
			typ string
			h   *ssa.Function
			arg string
		}
		for _, c := range []cs{
			{"*cluster.Members", a.handleMembers, map[string]string{"P1": "#0.Members", "P1.Members": "#0"}[a.membersList]}, {"*cluster.Activation", a.hActivation, "#0"}, {"*cluster.Deactivation", a.hDeact, "#0"},
			{"*cluster.ActorTopology", a.hTopology, "#0"}, {"*cluster.ActivationRequest", a.hActReq, "#0"}, {"cluster.getActive", a.hGetActive, "#0"},
			{"cluster.activate", a.activate, ""},
		} {
			es := w.caseEdges(g, c.typ)
			ok := len(es) > 0
			if ok && w.isVirtual(c.h) {
				// the handler is the case body itself
				r.OK("C19.R4", fname(a.recv)+":case "+c.typ, "a "+c.typ+" message reaches "+fname(c.h)+" on every path", w.fnPos(a.recv))
				continue
			}
			if ok {
				H := w.Nodes(g, Ev{Name: "h", M: EvCall("h", c.h).M, Shallow: true}, false)
				rr := reachFromEdges(g, es, H)
				for _, x := range g.returns {
					if rr[x] {
						ok = false
					}
				}
				for _, n := range members(H) {
					if !g.OnlyVia(es, n) {
						ok = false
					}
					if c.arg != "" {
						cc := callOf(g.ins[n])
						if p := w.pathOf(cc.Args[len(cc.Args)-1]); !strings.HasPrefix(p, "assert<"+c.typ+">(") || !strings.HasSuffix(p, c.arg) {
							ok = false
						}
					}
				}
			}
			r.Check(ok, "C19.R4", fname(a.recv)+":case "+c.typ, "a "+c.typ+" message reaches "+fname(c.h)+" on every path", w.fnPos(a.recv), "the agent ignores or mis-dispatches "+c.typ)
		}
		respond := w.Method("actor", "Context", "Respond")
		// activate / ActivationRequest answers go back to the requester
		for _, c := range []cs{{"cluster.activate", a.activate, ""}, {"*cluster.ActivationRequest", a.hActReq, ""}} {
			es := w.caseEdges(g, c.typ)
			ok := false
			for _, ci := range w.callsIn(a.recv, EvCall("Respond", respond)) {
				n := g.idx[ci.(ssa.Instruction)]
				if len(es) > 0 && g.OnlyVia(es, n) && strings.HasPrefix(w.pathOf(ci.Common().Args[1]), "call:"+fname(c.h)+"(") {
					ok = true
					rr := reachFromEdges(g, es, setOf(len(g.ins), n))
					for _, x := range g.returns {
						if rr[x] {
							ok = false
						}
					}
				}
			}
			r.Check(ok, "C19.R4", fname(a.recv)+":respond "+c.typ, "the result of "+fname(c.h)+" is sent back with Respond", w.fnPos(a.recv), "the requester never gets the answer (Activate returns nil after the timeout)")
		}
		// deactivate -> bcast(Deactivation{pid})
		{
			es := w.caseEdges(g, "cluster.deactivate")
			ok := false
			for _, ci := range w.callsIn(a.recv, EvCall("bcast", a.bcast)) {
				n := g.idx[ci.(ssa.Instruction)]
				_, fs, lit := w.structLit(ci.Common().Args[1])
				if lit && len(es) > 0 && g.OnlyVia(es, n) && strings.HasSuffix(w.pathOf(fs["PID"]), "#0.pid") {
					ok = true
				}
			}
			r.Check(ok, "C19.R4", fname(a.recv)+":case cluster.deactivate", "deactivate broadcasts Deactivation{PID: msg.pid} to all members", w.fnPos(a.recv), "Deactivate does not reach the members")
		}
		// bcast: every member, no early stop
		{
			fe := w.Method("cluster", "MemberSet", "ForEach")
			ok := false
			for _, ci := range w.callsIn(a.bcast, EvCall("ForEach", fe)) {
				if mc, isM := ci.Common().Args[1].(*ssa.MakeClosure); isM && w.pathOf(ci.Common().Args[0]) == "P0.members" {
					cf := mc.Fn.(*ssa.Function)
					cg := w.FGI(cf)
					S := make([]bool, len(cg.ins))
					for i, in := range cg.ins {
						if c := callOf(in); c != nil && c.StaticCallee() == w.Method("actor", "Engine", "Send") {
							if _, isCall := in.(*ssa.Call); isCall && w.pathOf(c.Args[1]) == "call:(*cluster.Member).PID(P0)" && w.pathOf(c.Args[2]) == "FV:msg" {
								S[i] = true
							}
						}
					}
					ok = cg.Once(S)
					for _, x := range cg.returns {
						if w.pathOf(cg.ins[x].(*ssa.Return).Results[0]) != "K:true" {
							ok = false
						}
					}
				}
			}
			if !ok {
				// the direct form: a range loop over the set's map
				bg := w.FGI(a.bcast)
				S := make([]bool, len(bg.ins))
				for i, in := range bg.ins {
					if c := callOf(in); c != nil && c.StaticCallee() == w.Method("actor", "Engine", "Send") {
						if _, isCall := in.(*ssa.Call); isCall && w.pathOf(c.Args[1]) == "call:(*cluster.Member).PID(next(range(P0.members.members))#2)" && w.pathOf(c.Args[2]) == "P1" {
							S[i] = true
						}
					}
				}
				if w.rangeLoopEvery(bg, "P0.members.members", S) {
					r.OK("C19.R4", fname(a.bcast)+":every-member", "bcast sends the message once to the agent PID of every member (the callback never stops the iteration)", w.fnPos(a.bcast))
					goto bcastDone
				}
			}
			{
			fg := w.FGI(fe)
			// ForEach itself visits every member while the callback returns true
			okF := false
			for _, in := range fg.ins {
				if c := callOf(in); c != nil && c.Value == ssa.Value(fe.Params[1]) && strings.HasPrefix(w.pathOf(c.Args[0]), "next(range(P0.members))#2") {
					okF = true
				}
			}
			if okF {
				cont, stop := w.callEdges(fg, "call:dyn[P1](next(range(P0.members))#2)")
				okF = len(cont) > 0
				var nextN []bool = make([]bool, len(fg.ins))
				for i, in := range fg.ins {
					if _, isN := in.(*ssa.Next); isN {
						nextN[i] = true
					}
				}
				for _, e := range cont {
					// a true result goes back to the iterator, not to the exit
					rr := fg.reach([]int{e.to}, nextN, nil)
					for _, x := range fg.returns {
						if rr[x] {
							okF = false
						}
					}
				}
				_ = stop
			}
			r.Check(ok && okF, "C19.R4", fname(a.bcast)+":every-member", "bcast sends the message once to the agent PID of every member (the callback never stops the iteration)", w.fnPos(a.bcast),
				"a notification does not reach all members: their activation tables diverge")
			}
		bcastDone:
		}
		// Member.PID / Cluster.Start agree on the agent's id
		{
			mp := w.Method("cluster", "Member", "PID")
			ok1, _ := w.returnsOnly(mp, `call:actor.NewPID(P0.Host,(K:"cluster/"+P0.ID))`)
			cs := w.Method("cluster", "Cluster", "Start")
			ok2 := false
			if cs != nil {
				for _, ci := range w.callsIn(cs, EvCall("Spawn", spawn)) {
					if w.pathOf(ci.Common().Args[2]) == `K:"cluster"` {
						ok2 = true
					}
				}
			}
			r.Check(ok1 && ok2, "C19.R4", "Member.PID<->Cluster.Start", "members address each other's agent as cluster/<id>, the id the agent is spawned under", w.fnPos(mp), "notifications are sent to a PID no agent answers to")
		}
	}
	{
		var bad []string
		for _, fn := range w.MethodsOf("cluster", "Agent") {
			for _, in := range w.insOf(fn) {
				{
					if g, isGo := in.(*ssa.Go); isGo {
						bad = append(bad, fname(fn)+" at "+w.pos(g.Pos()))
					}
				}
			}
		}
		r.Check(len(bad) == 0, "C19.R4", "Agent:no-go-statement", "the agent's tables are touched only from its own Receive (no goroutine started by Agent methods)", w.fnPos(a.recv),
			"a goroutine started at "+strings.Join(bad, ", ")+" reads or writes members/activated concurrently with the agent")
	}
	// R6: the Cluster facade
	r.Rule("C19.R6", "Cluster.Activate/Deactivate/GetActiveByID/GetActiveByKind/Spawn talk to the local agent with the caller's arguments; Cluster.Spawn announces the new PID to every member", 6)
	{
		// what a member offers is what the cluster has registered when it is asked: Member() is computed from the kinds on
		// every call (kinds may be registered after a first call and before Start)
		if pf := w.Method("cluster", "Cluster", "PID"); pf != nil {
			okP, why := w.returnsOnly(pf, "P0.agentPID")
			r.Check(okP, "C19.R6", "Cluster.PID", "Cluster.PID() is the PID of the agent that was spawned (not one rebuilt from the configuration)", w.fnPos(pf),
				why+": with a caller-supplied engine the rebuilt address is not the engine's; what the provider reports to the agent goes to an address nobody listens on")
		}
		if mf := w.Method("cluster", "Cluster", "Member"); mf != nil {
			mg := w.FGI(mf)
			okF := true
			detail := ""
			for _, x := range mg.returns {
				p := w.pathOf(mg.ins[x].(*ssa.Return).Results[0])
				if !strings.HasPrefix(p, "&lit:Member{") || !strings.Contains(p, "Kinds=makeslice(len(P0.kinds))") && !strings.Contains(p, "Kinds=") {
					okF, detail = false, "Member() returns "+p
				}
			}
			for _, in := range mg.ins {
				if st, ok := in.(*ssa.Store); ok {
					if fa, ok := st.Addr.(*ssa.FieldAddr); ok && w.pathOf(fa.X) == "P0" {
						nm, _ := fieldName(fa)
						okF, detail = false, "Member() writes Cluster."+nm
					}
				}
			}
			r.Check(okF, "C19.R6", "Cluster.Member:fresh", "Cluster.Member() builds the member info from the currently registered kinds on every call and stores nothing", w.fnPos(mf),
				detail+": a member info computed before RegisterKind is handed out for good; the member advertises no kinds and nothing can be activated on it")
		}
		eSend := w.Method("actor", "Engine", "Send")
		req := w.Method("actor", "Engine", "Request")
		type q struct{ m, lit string }
		for _, c := range []q{{"Activate", "lit:activate{config=P2,kind=P1}"}, {"GetActiveByID", "lit:getActive{id=P1}"}, {"GetActiveByKind", "lit:getActive{kind=P1}"}} {
			fn := w.Method("cluster", "Cluster", c.m)
			w.checkRow(r, row{rule: "C19.R6", fn: fn, callee: EvCall("Request", req), name: "Engine.Request", args: []string{"P0.engine", "P0.agentPID", c.lit, "P0.config.requestTimeout"},
				why: "The query does not reach the local agent with the caller's arguments."})
			if fn != nil && c.m != "GetActiveByKind" {
				// the answer returned is the agent's reply, type-asserted with comma-ok; errors yield nil
				ok := true
				n := 0
				for _, in := range w.insOf(fn) {
					{
						if ret, isR := in.(*ssa.Return); isR {
							p := w.pathOf(ret.Results[0])
							if p != "K:nil" {
								n++
								if !strings.HasPrefix(p, "assert<*actor.PID>(call:(*actor.Response).Result(call:(*actor.Engine).Request(") || !strings.HasSuffix(p, "#0)#0") {
									ok = false
								}
							}
						}
					}
				}
				r.Check(ok && n > 0, "C19.R6", "Cluster."+c.m+":returns-reply", c.m+" returns the PID the agent replied with", w.fnPos(fn), "the returned PID is not the agent's answer")
			}
		}
		w.checkRow(r, row{rule: "C19.R6", fn: w.Method("cluster", "Cluster", "Deactivate"), callee: EvCall("Send", eSend), name: "Engine.Send", args: []string{"P0.engine", "P0.agentPID", "lit:deactivate{pid=P1}"},
			why: "Deactivate does not reach the local agent with the given PID."})
		sp := w.Method("cluster", "Cluster", "Spawn")
		spPath := "call:(*actor.Engine).Spawn(P0.engine,P1,P2,P3)"
		w.checkRow(r, row{rule: "C19.R6", fn: sp, callee: EvCall("Send", eSend), name: "Engine.Send", loop: true,
			args:   []string{"P0.engine", "re:call:\\(\\*cluster\\.Member\\)\\.PID\\(call:\\(\\*cluster\\.Cluster\\)\\.Members\\(P0\\)\\[.*\\]\\)", "&lit:Activation{PID=" + spPath + "}"},
			excuse: func(g *FG) []Edge { return allEdges(g) }, why: "A cluster-spawned actor is not announced to every member with its PID."})
		if sp != nil {
			ok, why := w.returnsOnly(sp, spPath)
			r.Check(ok, "C19.R6", "Cluster.Spawn:returns-pid", "Cluster.Spawn returns the PID it announced", w.fnPos(sp), why)
		}
	}
	// getActive by kind: the kind of an entry is the first segment of its id
	{
		g := w.FGI(a.hGetActive)
		ok := false
		detail := "no comparison of msg.kind with the first \"/\"-separated segment of the table key (unrecognised idiom)"
		for _, in := range g.ins {
			if iff, isIf := in.(*ssa.If); isIf {
				p := w.pathOf(iff.Cond)
				if !strings.Contains(p, "P2.kind") {
					continue
				}
				switch {
				case strings.Contains(p, `strings.Split(next(range(P0.activated))#1,K:"/")[K:0]`), strings.Contains(p, `strings.SplitN(next(range(P0.activated))#1,K:"/",`) && strings.Contains(p, "[K:0]"),
					strings.Contains(p, `strings.Cut(next(range(P0.activated))#1,K:"/")#0`), strings.Contains(p, `strings.HasPrefix(next(range(P0.activated))#1,(P2.kind+K:"/"))`):
					ok = true
				case strings.Contains(p, "len(P2.kind)"):
				default:
					detail = "the kind of an entry is computed as " + p
				}
			}
		}
		r.Check(ok, "C19.R2", fname(a.hGetActive)+":kind-is-first-segment", "GetActiveByKind matches the first segment of kind/id (ids may contain \"/\")", w.fnPos(a.hGetActive), detail)
		okID := false
		for _, ci := range w.callsIn(a.hGetActive, EvCall("Respond", w.Method("actor", "Context", "Respond"))) {
			if w.pathOf(ci.Common().Args[1]) == "P0.activated[P2.id]" {
				okID = true
			}
		}
		r.Check(okID, "C19.R2", fname(a.hGetActive)+":by-id", "GetActiveByID answers activated[id]", w.fnPos(a.hGetActive), "GetActiveByID is not answered from the activation table")
	}
	// R5
	{
		g := w.FGI(a.hActReq)
		local, notLocal := g.CondEdges(func(v ssa.Value) (bool, bool) {
			p := w.pathOf(v)
			return true, strings.HasPrefix(p, "call:(*cluster.Agent).hasKindLocal(P0,P1.Kind)") || p == "P0.localKinds[P1.Kind]#1"
		})
		S := w.Nodes(g, EvCall("Spawn", spawn), false)
		ok := len(notLocal) > 0
		rr := reachFromEdges(g, notLocal, nil)
		for _, n := range members(S) {
			if rr[n] || !g.OnlyVia(local, n) {
				ok = false
			}
		}
		for _, x := range g.returns {
			p := w.pathOf(g.ins[x].(*ssa.Return).Results[0])
			if rr[x] && g.OnlyVia(notLocal, x) && p != "&lit:ActivationResponse{Success=K:false}" {
				ok = false
			}
		}
		r.Check(ok, "C19.R5", fname(a.hActReq)+":not-local", "a kind that is not registered locally yields Success:false and no spawn", w.fnPos(a.hActReq), "an actor is spawned on a member that did not register the kind")
		ok2 := false
		for _, ci := range w.callsIn(a.hActReq, EvCall("Spawn", spawn)) {
			c := ci.Common()
			if pp := w.pathOf(c.Args[1]); (pp == "P0.localKinds[P1.Kind].producer" || pp == "P0.localKinds[P1.Kind]#0.producer") && w.pathOf(c.Args[2]) == "P1.Kind" {
				// WithID(msg.ID)
				for _, in := range g.ins {
					if cc := callOf(in); cc != nil && cc.StaticCallee() != nil && cc.StaticCallee().Name() == "WithID" && w.pathOf(cc.Args[0]) == "P1.ID" {
						ok2 = true
					}
				}
				for _, x := range g.returns {
					p := w.pathOf(g.ins[x].(*ssa.Return).Results[0])
					if g.OnlyVia(local, x) && !strings.HasPrefix(p, "&lit:ActivationResponse{PID=call:(*actor.Engine).Spawn(") {
						ok2 = false
					}
				}
			}
		}
		r.Check(ok2, "C19.R5", fname(a.hActReq)+":spawn", "the registered producer of that kind is spawned as kind/id and its PID returned with Success:true", w.fnPos(a.hActReq), "the activation spawns something else than the requested kind/id, or does not report its PID")
	}
	// R7: placement and the activation table work from the member view: its joins and leaves are the exact set differences
	// (C18.R1/R4), and a peer address whose writer never got a stream is forgotten, so that a member that appears there
	// later is reached by topology and activation messages (C17.R3)
	if r.Prop == "C19" {
		r.Rule("C19.R7", "the member view the placement works from is exact (set differences by Member.ID, C18.R1/R4); a stream writer that ends tells the router to forget it on every path (C17.R3)", 8)
		importRules(w, r, checkC18, "C18", "C19.R7", func(o *Obligation) bool { return o.Rule == "C18.R1" || o.Rule == "C18.R4" })
		importRules(w, r, checkC17, "C17", "C19.R7", func(o *Obligation) bool { return o.Rule == "C17.R3" && strings.Contains(o.Key, "Shutdown") })
		// a member leaves the view only when the reported address is a member's (C20.R3: GetByHost answers nil otherwise)
		importRules(w, r, checkC20, "C20", "C19.R7", func(o *Obligation) bool { return o.Rule == "C20.R3" && strings.Contains(o.Key, "GetByHost") })
		// the activation table is keyed by the id the engine gives the actor, and activate tests kind+"/"+id: the two agree
		// because process ids are built as kind + separator + id, verbatim (C10.R5)
		importRules(w, r, checkC10, "C10", "C19.R7", func(o *Obligation) bool { return o.Rule == "C10.R5" })
	}
}

func allEdges(g *FG) []Edge {
	var out []Edge
	for n, ss := range g.succ {
		if _, ok := g.ins[n].(*ssa.If); ok {
			for _, s := range ss {
				out = append(out, Edge{n, s})
			}
		}
	}
	return out
}

// ---------------------------------------------------------------------------
// C20 — self-managed provider
// ---------------------------------------------------------------------------

func checkC20(w *World, r *Report) {
	r.Rule("C20.R1", "results of functions that may return nil are checked before they are dereferenced (provider and agent code)", 1)
	r.Rule("C20.R2", "Handshake: the peer is added before the reply is built, the reply carries the full member list and goes to the sender; Members: every listed member is added", 3)
	r.Rule("C20.R3", "add/remove helpers always report the new list to the agent; only a contained member is removed, and it is the one found for the reported address", 5)
	r.Rule("C20.R4", "the event child turns RemoteUnreachableEvent{ListenAddr} into memberLeave{ListenAddr} for the provider itself, whose PID is recorded before the child exists", 2)
	r.Rule("C20.R5", "the provider's Receive has a case for each protocol message that reaches its handler", 4)
	smT := w.Named("cluster", "SelfManaged")
	recv := w.Method("cluster", "SelfManaged", "Receive")
	if smT == nil || recv == nil {
		r.Unknown("C20.R1", "anchors", "cluster.SelfManaged", "-", "not found")
		return
	}
	// roles
	var addM, remM, sendAgent, evChild *ssa.Function
	msAdd := w.Method("cluster", "MemberSet", "Add")
	msRem := w.Method("cluster", "MemberSet", "Remove")
	for _, fn := range w.MethodsOf("cluster", "SelfManaged") {
		if fn != recv && len(w.allocsOf(fn, w.Named("cluster", "memberLeave"))) > 0 {
			evChild = fn // (a method, or a closure of one, that turns events into memberLeave)
		}
		if fn.Parent() != nil || fn == recv {
			continue
		}
		if len(w.callsIn(fn, EvCall("Add", msAdd))) > 0 && fn.Signature.Variadic() {
			addM = fn
		}
		if len(w.callsIn(fn, EvCall("Remove", msRem))) > 0 {
			remM = fn
		}
		for _, al := range w.allocsOf(fn, w.Named("cluster", "Members")) {
			_ = al
			if fn.Signature.Params().Len() == 0 {
				sendAgent = fn
			}
		}
	}
	aliasRole(addM, "(*cluster.SelfManaged).addMembers")
	aliasRole(remM, "(*cluster.SelfManaged).removeMember")
	aliasRole(sendAgent, "(*cluster.SelfManaged).sendMembersToAgent")
	aliasRole(evChild, "(*cluster.SelfManaged).handleEventStream")
	_, _ = remM, sendAgent // optional helpers: the membership rules follow the effects, not the helper structure
	if evChild == nil {
		r.Unknown("C20.R4", "roles", "the event child that turns RemoteUnreachableEvent into memberLeave", w.fnPos(recv), "not found")
		return
	}
	// R1: nil results
	{
		n := 0
		for _, fn := range w.Funcs {
			if !w.isLib(fn) || fnPkgPath(fn) != modPath+"/cluster" || strings.Contains(w.Fset.Position(fn.Pos()).Filename, ".pb.go") {
				continue
			}
			g := w.FGI(fn)
			for i, in := range g.ins {
				c, ok := in.(*ssa.Call)
				if !ok || c.Call.StaticCallee() == nil || !w.inMod[c.Call.StaticCallee()] || c.Referrers() == nil {
					continue
				}
				if _, isPtr := c.Type().Underlying().(*types.Pointer); !isPtr || !w.mayReturnNil(c.Call.StaticCallee()) {
					continue
				}
				_ = i
				for _, ref := range *c.Referrers() {
					var bad *nilSite
					rn, isI := g.idx[ref]
					if !isI {
						continue
					}
					switch x := ref.(type) {
					case ssa.CallInstruction:
						cc := x.Common()
						if cc.IsInvoke() || cc.StaticCallee() == nil {
							continue
						}
						for ai, av := range cc.Args {
							if av == ssa.Value(c) && !w.nonNilAt(g, rn, c) {
								if s := w.derefsParam(cc.StaticCallee(), ai, 0, map[string]bool{}); s != nil {
									bad = s
								}
							}
						}
					case *ssa.FieldAddr:
						if x.X == ssa.Value(c) && !w.nonNilAt(g, rn, c) {
							bad = &nilSite{fn, x.Pos(), fname(fn)}
						}
					}
					n++
					key := fmt.Sprintf("%s:%s-result", fname(fn), fname(c.Call.StaticCallee()))
					if bad != nil {
						r.Fail("C20.R1", key, "a possibly-nil result is checked before use", w.pos(ref.Pos()),
							fname(c.Call.StaticCallee())+" can return nil (no match) and the result is dereferenced via "+bad.chain+": an unreachable report for an address that is not a member crashes the provider, which restarts with an empty member list")
					} else {
						r.OK("C20.R1", key, "a possibly-nil result is checked before use", w.pos(ref.Pos()))
					}
				}
			}
		}
		if n == 0 {
			r.Unknown("C20.R1", "nil-results", "uses of may-return-nil functions in package cluster", "-", "none found (GetByHost no longer returns nil?)")
		}
	}
	site := w.fnPos(recv)
	// R6: the lists the provider sends are fresh copies keyed by member ID (C18.R4): a report that is still unread must not
	// change when the set changes
	r.Rule("C20.R6", "MemberSet is keyed by Member.ID and Slice returns a fresh slice with every member (C18.R4)", 6)
	importRules(w, r, checkC18, "C18", "C20.R6", func(o *Obligation) bool { return o.Rule == "C18.R4" })
	// R2, R3, R5: membership protocol of the provider (rules_cluster2.go)
	checkC20Membership(w, r, recv, smT, addM)
	checkHandshakesOut(w, r, "C20.R2")
	if pf := w.Method("cluster", "Cluster", "PID"); pf != nil {
		okP, why := w.returnsOnly(pf, "P0.agentPID")
		r.Check(okP, "C20.R3", "Cluster.PID", "the agent the provider reports to (Cluster.PID()) is the agent that was spawned", w.fnPos(pf),
			why+": with a caller-supplied engine a PID rebuilt from the configuration names an address nobody listens on: the agent is never told")
	}
	if r.Prop == "C20" {
		// the provider's protocol messages travel through its inbox ring (C14) and through stream writers that the router
		// forgets when they end (C17.R3), so that a member that comes back on the same address is answered
		r.Rule("C20.R7", "handshakes and member lists are not lost on the way: ring operations are sound (C14.R1-R5); an ended stream writer is forgotten by the router on every path (C17.R3)", 8)
		importRules(w, r, checkC14, "C14", "C20.R7", func(o *Obligation) bool {
			return o.Rule == "C14.R1" || o.Rule == "C14.R2" || o.Rule == "C14.R3" || o.Rule == "C14.R4" || o.Rule == "C14.R5"
		})
		importRules(w, r, checkC17, "C17", "C20.R7", func(o *Obligation) bool { return o.Rule == "C17.R3" && strings.Contains(o.Key, "Shutdown") })
	}
	// the member list belongs to one provider instance: a Producer value used for two clusters of one process, or a
	// provider restarted by its supervisor, starts from its own empty list (the agent it reports to starts empty too)
	{
		okI, n := true, 0
		detail := ""
		for _, fn := range w.Funcs {
			if !w.isLib(fn) || fnPkgPath(fn) != modPath+"/cluster" {
				continue
			}
			for _, al := range w.allocsOf(fn, smT) {
				fs, lit := w.litFields(al)
				if !lit {
					continue
				}
				n++
				st, _ := smT.Underlying().(*types.Struct)
				for i := 0; st != nil && i < st.NumFields(); i++ {
					f := st.Field(i)
					if pt, isPtr := f.Type().(*types.Pointer); !isPtr || pt.Elem().String() != modPath+"/cluster.MemberSet" {
						continue
					}
					name := pinnedFieldName(smT, st, i)
					v := fs[name]
					if v == nil {
						okI, detail = false, "SelfManaged."+name+" is not initialised where the provider is created"
						continue
					}
					if p := w.pathOf(v); strings.HasPrefix(p, "FV:") || strings.HasPrefix(p, "P") || strings.HasPrefix(p, "G:") {
						okI, detail = false, "SelfManaged."+name+" is "+p+", created outside the function that builds the provider: every provider made from that Producer shares it (an unreachable report at one node removes the member from another node's list, which never tells its agent)"
					}
				}
			}
		}
		r.Check(okI && n > 0, "C20.R3", "SelfManaged:state-per-instance", "the member sets of a provider are created together with it", w.fnPos(recv), detail)
	}
	{
		if gbh := w.Method("cluster", "MemberSet", "GetByHost"); gbh != nil {
			hg := w.FGI(gbh)
			// the result is nil or a member of the set, and a member enters the result only where its Host
			// is known to equal the argument (whatever the shape of the test: ==, != with continue, ...)
			okG, sawMember := true, false
			seenPhi := map[*ssa.Phi]bool{}
			var visit func(v ssa.Value)
			visit = func(v ssa.Value) {
				switch x := v.(type) {
				case *ssa.Phi:
					if seenPhi[x] {
						return
					}
					seenPhi[x] = true
					for j, e := range x.Edges {
						if _, isPhi := e.(*ssa.Phi); isPhi {
							visit(e)
							continue
						}
						if k, isK := e.(*ssa.Const); isK && k.IsNil() {
							continue
						}
						p := w.pathOf(e)
						if !strings.HasPrefix(p, "next(range(P0.members))#2") || p != "next(range(P0.members))#2" {
							okG = false
							continue
						}
						sawMember = true
						pred := x.Block().Preds[j]
						at := hg.first[pred] + len(pred.Instrs) - 1
						guarded := false
						for _, f := range hg.FactsAt(at) {
							fp := w.factPos(f)
							if fp == "(next(range(P0.members))#2.Host==P1)" || fp == "(P1==next(range(P0.members))#2.Host)" {
								guarded = true
							}
						}
						if !guarded {
							okG = false
						}
					}
				case *ssa.Const:
					if !x.IsNil() {
						okG = false
					}
				default:
					// returned directly from inside the loop
					if w.pathOf(v) == "next(range(P0.members))#2" {
						sawMember = true
					} else {
						okG = false
					}
				}
			}
			for _, rc := range hg.retCases() {
				v := rc.res[0]
				if _, isPhi := v.(*ssa.Phi); !isPhi && w.pathOf(v) == "next(range(P0.members))#2" {
					// `return member` inside the loop: guarded at the return
					sawMember = true
					at := rc.x
					if rc.via != nil {
						at = rc.via.from
					}
					guarded := false
					for _, f := range hg.FactsAt(at) {
						fp := w.factPos(f)
						if fp == "(next(range(P0.members))#2.Host==P1)" || fp == "(P1==next(range(P0.members))#2.Host)" {
							guarded = true
						}
					}
					if !guarded {
						okG = false
					}
					continue
				}
				visit(v)
			}
			okG = okG && sawMember
			r.Check(okG, "C20.R3", "MemberSet.GetByHost", "GetByHost returns a member whose Host equals the given address (nil if none)", w.fnPos(gbh),
				"the member looked up for an unreachable address is not the one with that address: another member is removed")
		}
	}

	// R4
	{
		cg := w.FGI(evChild)
		ok := false
		for _, ci := range w.callsIn(evChild, EvCall("Send", w.Method("actor", "Context", "Send"))) {
			c := ci.Common()
			n := cg.idx[ci.(ssa.Instruction)]
			es := w.caseEdges(cg, "actor.RemoteUnreachableEvent")
			lit := w.pathOf(c.Args[2])
			if w.pathOf(c.Args[1]) == "P0.pid" && strings.HasPrefix(lit, "lit:memberLeave{ListenAddr=assert<actor.RemoteUnreachableEvent>(") && strings.HasSuffix(lit, "#0.ListenAddr}") && len(es) > 0 && cg.OnlyVia(es, n) {
				ok = true
				rr := reachFromEdges(cg, es, setOf(len(cg.ins), n))
				for _, x := range cg.returns {
					if rr[x] {
						ok = false
					}
				}
			}
		}
		r.Check(ok, "C20.R4", fname(evChild)+":unreachable->memberLeave", "RemoteUnreachableEvent.ListenAddr is forwarded as memberLeave.ListenAddr to the provider's own PID", w.fnPos(evChild),
			"unreachable reports do not reach the provider, or name another address")
		// the child is subscribed
		okSub := false
		for _, fn := range w.MethodsOf("cluster", "SelfManaged") {
			for _, ci := range w.callsIn(fn, EvCall("Subscribe", w.Method("actor", "Engine", "Subscribe"))) {
				if strings.HasSuffix(w.pathOf(ci.Common().Args[1]), ".eventSubPID") {
					okSub = true
				}
			}
		}
		if okSub {
			okSub = false
			for _, fn := range w.MethodsOf("cluster", "SelfManaged") {
				g2 := w.FGI(fn)
				asg := make([]bool, len(g2.ins))
				for i, in := range g2.ins {
					if st, isSt := in.(*ssa.Store); isSt {
						if fa, isFA := st.Addr.(*ssa.FieldAddr); isFA && isFieldOf(fa, smT, "eventSubPID") && strings.Contains(w.pathOf(st.Val), "SpawnChildFunc(") && spawnsFunc(w, st.Val, evChild) {
							asg[i] = true
						}
					}
				}
				for _, ci := range w.callsIn(fn, EvCall("Subscribe", w.Method("actor", "Engine", "Subscribe"))) {
					if anyOf(asg) && g2.Before(asg, g2.idx[ci.(ssa.Instruction)]) {
						okSub = true
					}
				}
			}
		}
		// the child forwards to s.pid: it must be set before the child exists (flattened Started case)
		{
			fg := w.FGFlat(recv)
			oldCur := w.cur
			w.cur = fg
			w.curLock++
			st := w.caseEdges(fg, "actor.Started")
			pidSet := make([]bool, len(fg.ins))
			spawned := -1
			for i, in := range fg.ins {
				if s2, isSt := in.(*ssa.Store); isSt {
					if fa, isFA := s2.Addr.(*ssa.FieldAddr); isFA {
						if isFieldOf(fa, smT, "pid") && strings.HasPrefix(w.pathOf(s2.Val), "call:(*actor.Context).PID(") {
							pidSet[i] = true
						}
						if isFieldOf(fa, smT, "eventSubPID") {
							if c, isC := s2.Val.(*ssa.Call); isC {
								spawned = fg.idx[c]
							}
						}
					}
				}
			}
			okPid := len(st) > 0 && anyOf(pidSet) && spawned >= 0 && fg.Before(pidSet, spawned)
			w.curLock--
			w.cur = oldCur
			r.Check(okPid, "C20.R4", "SelfManaged:pid-before-event-child", "the provider records its own PID before it spawns the child that forwards unreachable reports to that PID", site,
				"the event child can forward a memberLeave to a nil PID while the provider is still starting: that report is lost, the unreachable member stays")
		}
		r.Check(okSub, "C20.R4", "SelfManaged:event-child-subscribed", "the event child is subscribed to the event stream", site, "the provider never hears about unreachable peers")
	}
}

// argOrVariadic: path of the last argument; for a variadic call written f(x) the single element.
func (w *World) argOrVariadic(c *ssa.CallCommon) string {
	if c == nil || len(c.Args) == 0 {
		return ""
	}
	last := c.Args[len(c.Args)-1]
	if sl, ok := last.(*ssa.Slice); ok {
		if al, ok := sl.X.(*ssa.Alloc); ok && al.Referrers() != nil {
			for _, r := range *al.Referrers() {
				if ia, ok := r.(*ssa.IndexAddr); ok && ia.Referrers() != nil {
					for _, rr := range *ia.Referrers() {
						if st, ok := rr.(*ssa.Store); ok && st.Addr == ssa.Value(ia) {
							return w.pathOf(st.Val)
						}
					}
				}
			}
		}
	}
	return w.pathOf(last)
}


// spawnsFunc: v is a SpawnChildFunc/SpawnFunc call whose function argument is fn itself, a method value
// of it, or a closure that is fn or calls fn on all its paths.
func spawnsFunc(w *World, v ssa.Value, fn *ssa.Function) bool {
	c, ok := v.(*ssa.Call)
	if !ok {
		return false
	}
	for _, a := range c.Call.Args {
		var f *ssa.Function
		switch x := a.(type) {
		case *ssa.MakeClosure:
			f, _ = x.Fn.(*ssa.Function)
		case *ssa.Function:
			f = x
		}
		if f == nil {
			continue
		}
		if f == fn || strings.Contains(w.pathOf(a), fname(fn)) {
			return true
		}
		if w.mustDo(f, EvCall("child:"+fname(fn), fn), 0) {
			return true
		}
	}
	return false
}

type tblEffect struct {
	n      int
	x      string // the PID whose entry is written: activated[x.ID]
	direct bool
}

// activatedEffects lists what the instructions of g do to Agent.activated: insertions, removals, anything else.
func activatedEffects(w *World, g *FG, adders, removers map[*ssa.Function]int) (adds, dels []tblEffect, other []int) {
	isTbl := func(v ssa.Value) bool { return w.pathOf(v) == "P0.activated" }
	for i, in := range g.ins {
		if g.inl != nil && g.inl[i] {
			continue
		}
		switch x := in.(type) {
		case *ssa.MapUpdate:
			if !isTbl(x.Map) {
				continue
			}
			kp, vp := w.pathOf(x.Key), w.pathOf(x.Value)
			if kp == vp+".ID" {
				adds = append(adds, tblEffect{i, vp, true})
			} else {
				other = append(other, i)
			}
		case *ssa.Call:
			if args, ok := isBuiltinCall(x, "delete"); ok && isTbl(args[0]) {
				if kp := w.pathOf(args[1]); strings.HasSuffix(kp, ".ID") {
					dels = append(dels, tblEffect{i, strings.TrimSuffix(kp, ".ID"), true})
				} else {
					other = append(other, i)
				}
				continue
			}
			if args, ok := isBuiltinCall(x, "clear"); ok && isTbl(args[0]) {
				other = append(other, i)
				continue
			}
			f := x.Call.StaticCallee()
			if f == nil {
				continue
			}
			if strings.Contains(f.String(), "maps.Clear") && len(x.Call.Args) > 0 && isTbl(x.Call.Args[0]) {
				other = append(other, i)
				continue
			}
			if k, ok := adders[f]; ok && k < len(x.Call.Args) && w.pathOf(x.Call.Args[0]) == "P0" {
				adds = append(adds, tblEffect{i, w.pathOf(x.Call.Args[k]), false})
			}
			if k, ok := removers[f]; ok && k < len(x.Call.Args) && w.pathOf(x.Call.Args[0]) == "P0" {
				dels = append(dels, tblEffect{i, w.pathOf(x.Call.Args[k]), false})
			}
		case *ssa.Store:
			if fa, ok := x.Addr.(*ssa.FieldAddr); ok && w.pathOf(fa.X) == "P0" {
				if nm, _ := fieldName(fa); nm == "activated" {
					other = append(other, i)
				}
			}
		}
	}
	return
}

// knownEdges: the edges on which activated[key] was found / not found.
func knownEdges(w *World, g *FG, key string) (present, absent []Edge) {
	return g.CondEdges(func(v ssa.Value) (bool, bool) {
		if e, ok := v.(*ssa.Extract); ok && e.Index == 1 {
			if lk, ok := e.Tuple.(*ssa.Lookup); ok && lk.CommaOk && w.pathOf(lk.X) == "P0.activated" && w.pathOf(lk.Index) == key {
				return true, true
			}
		}
		return false, false
	})
}

// recordsUnlessKnown: on every path from the start nodes x is inserted, except where activated[x.ID] was found.
func recordsUnlessKnown(w *World, g *FG, start []int, adds []tblEffect, x string) bool {
	A := make([]bool, len(g.ins))
	n := 0
	for _, e := range adds {
		if e.x == x {
			A[e.n] = true
			n++
		}
	}
	if n == 0 {
		return false
	}
	present, absent := knownEdges(w, g, x+".ID")
	cut := map[Edge]bool{}
	for _, e := range present {
		cut[e] = true
	}
	rr := g.reach(start, A, cut)
	for _, r := range g.returns {
		if rr[r] {
			return false
		}
	}
	// a direct insertion is unconditional or sits behind "not known" of the same id
	for _, e := range adds {
		if e.x == x && e.direct && len(absent) > 0 && !g.OnlyVia(absent, e.n) {
			return false
		}
	}
	return true
}

func checkActivationTable(w *World, r *Report, a *clusterAnchors) {
	agentMethods := w.MethodsOf("cluster", "Agent")
	handler := map[*ssa.Function]bool{a.hActivation: true, a.hTopology: true, a.hDeact: true, a.leave: true, a.recv: true}
	// summaries of the private methods that are neither Receive nor a handler
	adders, removers := map[*ssa.Function]int{}, map[*ssa.Function]int{}
	{
		restore := w.noCtx()
		for _, fn := range agentMethods {
			if fn.Parent() != nil || handler[fn] || w.isVirtual(fn) || len(fn.Blocks) == 0 {
				continue
			}
			g := w.FG(fn)
			adds, dels, other := activatedEffects(w, g, nil, nil)
			if len(other) > 0 || (len(adds) > 0) == (len(dels) > 0) {
				continue
			}
			plain := true
			for _, in := range g.ins {
				switch in.(type) {
				case *ssa.Go, *ssa.Defer:
					plain = false
				}
			}
			if !plain {
				continue
			}
			k := 0
			param := func(x string) bool {
				var kk int
				if _, err := fmt.Sscanf(x, "P%d", &kk); err != nil || x != fmt.Sprintf("P%d", kk) || kk <= 0 {
					return false
				}
				if k != 0 && k != kk {
					return false
				}
				k = kk
				return true
			}
			ok := true
			for _, e := range append(append([]tblEffect{}, adds...), dels...) {
				if !param(e.x) {
					ok = false
				}
			}
			if !ok {
				continue
			}
			x := fmt.Sprintf("P%d", k)
			if len(adds) > 0 && recordsUnlessKnown(w, g, g.entry(), adds, x) {
				adders[fn] = k
			}
			if len(dels) > 0 {
				D := make([]bool, len(g.ins))
				for _, e := range dels {
					D[e.n] = true
				}
				if g.AfterEntry(D) {
					removers[fn] = k
				}
			}
		}
		restore()
	}
	// writers: the handlers, and the methods that were recognised as "insert my parameter" / "remove my parameter"
	{
		var strangers []string
		for f := range w.mapWriters("cluster", a.agentT, "activated") {
			rt := rootFn(f)
			if handler[rt] {
				continue
			}
			if _, ok := adders[rt]; ok {
				continue
			}
			if _, ok := removers[rt]; ok {
				continue
			}
			strangers = append(strangers, fname(rt))
		}
		sort.Strings(strangers)
		r.Check(len(strangers) == 0, "C19.R2", "Agent.activated:writers", "the activation table is written only by the Activation/ActorTopology/Deactivation/leave handlers, directly or through a method that inserts (unless known) or removes exactly its parameter", w.fnPos(a.recv),
			fmt.Sprintf("other writers (or helpers that do more than that): %v", strangers))
	}
	effects := func(fn *ssa.Function) (*FG, []tblEffect, []tblEffect, []int) {
		g := w.FGI(fn)
		ad, de, ot := activatedEffects(w, g, adders, removers)
		return g, ad, de, ot
	}
	only := func(es []tblEffect, ok func(string) bool) bool {
		for _, e := range es {
			if !ok(e.x) {
				return false
			}
		}
		return true
	}
	// Activation
	{
		g, ad, de, ot := effects(a.hActivation)
		ok := len(de) == 0 && len(ot) == 0 && only(ad, func(x string) bool { return x == "P1.PID" }) && recordsUnlessKnown(w, g, g.entry(), ad, "P1.PID")
		r.Check(ok, "C19.R2", fname(a.hActivation)+":records-the-pid", "an announced activation is recorded under its PID's id on every path, unless that id is already known; nothing else is written", w.fnPos(a.hActivation),
			"An announced activation is not recorded on this member (or something other than \"already known\" keeps it out, or another entry is touched).")
	}
	// ActorTopology
	{
		_, ad, de, ot := effects(a.hTopology)
		re := regexp.MustCompile(`^P1\.Actors\[.*\]\.PID$`)
		ok := len(de) == 0 && len(ot) == 0 && len(ad) > 0 && only(ad, re.MatchString)
		if ok {
			g := w.FGI(a.hTopology)
			for _, e := range ad {
				present, absent := knownEdges(w, g, e.x+".ID")
				_ = present
				if e.direct && len(absent) > 0 && !g.OnlyVia(absent, e.n) {
					ok = false
				}
			}
		}
		if ok {
			// every listed activation: an iteration of the loop over the topology's actors records the entry or finds its id
			// known; nothing else lets an entry pass unrecorded (topologies are sent once per join)
			g := w.FGI(a.hTopology)
			bound, _ := g.CondEdges(func(v ssa.Value) (bool, bool) {
				b, isB := v.(*ssa.BinOp)
				return true, isB && b.Op == token.LSS && w.pathOf(b.Y) == "len(P1.Actors)"
			})
			A := make([]bool, len(g.ins))
			cut := map[Edge]bool{}
			for _, e := range ad {
				A[e.n] = true
				present, _ := knownEdges(w, g, e.x+".ID")
				for _, pe := range present {
					cut[pe] = true
				}
			}
			if len(bound) == 0 {
				ok = false
			}
			for _, e := range bound {
				rr := g.reach([]int{e.to}, A, cut)
				if rr[e.from] {
					ok = false
				}
				for _, x := range g.returns {
					if rr[x] {
						ok = false
					}
				}
			}
		}
		r.Check(ok, "C19.R2", fname(a.hTopology)+":records-each-pid", "the activations listed in a topology are recorded under their PIDs' ids; nothing else is written", w.fnPos(a.hTopology),
			"A topology sent to a late joiner is not recorded.")
	}
	// Deactivation
	{
		g, ad, de, ot := effects(a.hDeact)
		D := make([]bool, len(g.ins))
		for _, e := range de {
			D[e.n] = true
		}
		ok := len(ad) == 0 && len(ot) == 0 && len(de) > 0 && only(de, func(x string) bool { return x == "P1.PID" }) && g.AfterEntry(D)
		r.Check(ok, "C19.R2", fname(a.hDeact)+":forgets-the-pid", "a deactivation removes the entry of its PID's id on every path; nothing else is written", w.fnPos(a.hDeact),
			"A deactivation does not remove the entry on this member: a deactivated actor stays in the table.")
		w.checkRow(r, row{rule: "C19.R2", fn: a.hDeact, callee: EvCall("Poison", w.Method("actor", "Engine", "Poison")), name: "Engine.Poison", args: []string{"P0.cluster.engine", "P1.PID"}, why: "Deactivate does not stop the actor."})
	}
	// leave handler purges by host
	{
		lg, ad, de, ot := effects(a.leave)
		okL := len(ad) == 0 && len(ot) == 0 && len(de) > 0
		for _, e := range de {
			hit := false
			for _, f := range lg.FactsAt(e.n) {
				p := w.factPos(f)
				if (p == "("+e.x+".Address==P1.Host)" || p == "(P1.Host=="+e.x+".Address)") && strings.HasPrefix(e.x, "next(range(P0.activated))") {
					hit = true
				}
			}
			if !hit {
				okL = false
			}
			// the loop continues after a removal
			var nxt *ssa.Next
			for _, in := range lg.ins {
				if nx, ok := in.(*ssa.Next); ok {
					nxt = nx
				}
			}
			if nxt == nil || !lg.After(e.n, setOf(len(lg.ins), lg.idx[nxt])) {
				okL = false
			}
		}
		nx := make([]bool, len(lg.ins))
		for i, in := range lg.ins {
			if n, isN := in.(*ssa.Next); isN && strings.Contains(w.pathOf(n), "P0.activated") {
				nx[i] = true
			}
		}
		if !lg.AfterEntry(nx) {
			okL = false
		}
		r.Check(okL, "C19.R2", fname(a.leave)+":purges-host", "when a member leaves, every activation whose PID address is the member's host is removed", w.fnPos(a.leave),
			"activations hosted on the departed member stay resolvable on the remaining members")
	}
}

// rebuildByRange: the rebuild written as a plain range over the view's map: after the clear, every remaining member is
// visited (the loop is left only when the map is exhausted) and each of its kinds is recorded unless already there.
func rebuildByRange(w *World, g *FG) bool {
	NX := make([]bool, len(g.ins))
	C := make([]bool, len(g.ins))
	U := make([]bool, len(g.ins))
	var nexts []*ssa.Next
	for i, in := range g.ins {
		switch x := in.(type) {
		case *ssa.Next:
			if strings.Contains(w.pathOf(x), "range(P0.members.members)") {
				NX[i] = true
				nexts = append(nexts, x)
			}
		case *ssa.MapUpdate:
			if w.pathOf(x.Map) == "P0.kinds" {
				if !strings.HasPrefix(w.pathOf(x.Key), "next(range(P0.members.members))#2.Kinds[") || w.pathOf(x.Value) != "K:true" {
					return false
				}
				U[i] = true
			}
		}
		if c := callOf(in); c != nil && len(c.Args) > 0 && w.pathOf(c.Args[0]) == "P0.kinds" {
			if f := c.StaticCallee(); f != nil && strings.Contains(f.String(), "maps.Clear") {
				C[i] = true
			}
			if bi, isB := c.Value.(*ssa.Builtin); isB && bi.Name() == "clear" {
				C[i] = true
			}
		}
	}
	if len(nexts) != 1 || !anyOf(U) || !anyOf(C) {
		return false
	}
	nx := g.idx[nexts[0]]
	if !g.Before(C, nx) || !g.AfterEntry(NX) {
		return false
	}
	// the member loop is left only when the map is exhausted
	more, _ := g.CondEdges(func(v ssa.Value) (bool, bool) {
		e, ok := v.(*ssa.Extract)
		return true, ok && e.Index == 0 && e.Tuple == ssa.Value(nexts[0])
	})
	if len(more) == 0 {
		return false
	}
	for _, e := range more {
		rr := g.reach([]int{e.to}, NX, nil)
		for _, x := range g.returns {
			if rr[x] {
				return false
			}
		}
	}
	// every kind of the member: an iteration of the inner loop records the kind or finds it known
	bound, _ := g.CondEdges(func(v ssa.Value) (bool, bool) {
		b, ok := v.(*ssa.BinOp)
		return true, ok && b.Op == token.LSS && w.pathOf(b.Y) == "len(next(range(P0.members.members))#2.Kinds)"
	})
	if len(bound) == 0 {
		return false
	}
	known, absent := w.lookupEdges(g, "P0.kinds")
	if len(known) > 0 {
		for _, u := range members(U) {
			if !g.OnlyVia(absent, u) {
				return false
			}
		}
	}
	cut := map[Edge]bool{}
	for _, e := range known {
		cut[e] = true
	}
	for _, e := range bound {
		rr := g.reach([]int{e.to}, U, cut)
		if rr[e.from] || rr[nx] {
			return false
		}
		for _, x := range g.returns {
			if rr[x] {
				return false
			}
		}
	}
	return true
}
