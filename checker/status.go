package main

import (
	"fmt"
	"go/constant"
	"go/types"
	"strings"

	"golang.org/x/tools/go/ssa"
)

// ---------------------------------------------------------------------------
// E-STATUS: atomic operations on a status word and the roles of its states.
// ---------------------------------------------------------------------------

type atomicOp struct {
	fn   *ssa.Function
	g    *FG
	node int
	call *ssa.Call
	kind string // CAS Store Swap Load Add
	old  string // constant operands, "" if not constant
	new  string
}

func constStr(v ssa.Value) string {
	if c, ok := v.(*ssa.Const); ok && c.Value != nil {
		if c.Value.Kind() == constant.Int {
			return c.Value.ExactString()
		}
	}
	return ""
}

// atomicOpsOn collects every sync/atomic call whose address operand is field `field` of `named`.
func (w *World) atomicOpsOn(named *types.Named, field string) []atomicOp {
	defer w.noCtx()()
	var out []atomicOp
	for _, fn := range w.Funcs {
		g := w.FG(fn)
		for n, in := range g.ins {
			c, ok := in.(*ssa.Call)
			if !ok {
				continue
			}
			f := c.Call.StaticCallee()
			if f == nil || f.Pkg == nil || f.Pkg.Pkg.Path() != "sync/atomic" || len(c.Call.Args) == 0 {
				continue
			}
			fa, ok := c.Call.Args[0].(*ssa.FieldAddr)
			if !ok || !isFieldOf(fa, named, field) {
				continue
			}
			op := atomicOp{fn: fn, g: g, node: n, call: c}
			name := f.Name()
			switch {
			case strings.HasPrefix(name, "CompareAndSwap"):
				op.kind = "CAS"
				op.old, op.new = constStr(c.Call.Args[1]), constStr(c.Call.Args[2])
			case strings.HasPrefix(name, "Store"):
				op.kind = "Store"
				op.new = constStr(c.Call.Args[1])
			case strings.HasPrefix(name, "Swap"):
				op.kind = "Swap"
				op.new = constStr(c.Call.Args[1])
			case strings.HasPrefix(name, "Load"):
				op.kind = "Load"
			case strings.HasPrefix(name, "Add"):
				op.kind = "Add"
				op.new = constStr(c.Call.Args[1])
			default:
				op.kind = name
			}
			out = append(out, op)
		}
	}
	return out
}

func (op atomicOp) String() string {
	switch op.kind {
	case "CAS":
		return fmt.Sprintf("CAS(%s->%s)", op.old, op.new)
	case "Load":
		return "Load"
	}
	return fmt.Sprintf("%s(%s)", op.kind, op.new)
}

// successEdges returns the edges on which the CAS at op is known to have succeeded.
func (op atomicOp) successEdges() []Edge {
	pos, _ := op.g.CondEdges(func(v ssa.Value) (bool, bool) {
		if v == ssa.Value(op.call) {
			return true, true
		}
		return false, false
	})
	return pos
}

// nonAtomicAccesses lists uses of field `field` of `named` that are not operands of a
// sync/atomic call. Stores into a struct freshly allocated in the same function
// (constructor literals) are exempt.
func (w *World) nonAtomicAccesses(named *types.Named, field string) []string {
	var out []string
	for _, fn := range w.Funcs {
		for _, b := range fn.Blocks {
			for _, in := range b.Instrs {
				fa, ok := in.(*ssa.FieldAddr)
				if !ok || !isFieldOf(fa, named, field) || fa.Referrers() == nil {
					continue
				}
				_, fresh := fa.X.(*ssa.Alloc)
				for _, r := range *fa.Referrers() {
					if c, ok := r.(*ssa.Call); ok {
						if f := c.Call.StaticCallee(); f != nil && f.Pkg != nil && f.Pkg.Pkg.Path() == "sync/atomic" && c.Call.Args[0] == ssa.Value(fa) {
							continue
						}
					}
					if st, ok := r.(*ssa.Store); ok && st.Addr == ssa.Value(fa) && fresh {
						continue
					}
					if _, ok := r.(*ssa.DebugRef); ok {
						continue
					}
					out = append(out, fmt.Sprintf("%s in %s", w.pos(r.Pos()), fname(fn)))
				}
			}
		}
	}
	return out
}

// ---------------------------------------------------------------------------
// Inbox roles (found structurally; names are never matched)
// ---------------------------------------------------------------------------

type inboxRoles struct {
	inbox       *types.Named
	statusField string
	procField   string // the Processer-typed field
	rbField     string
	ops         []atomicOp
	schedule    *ssa.Function // contains the CAS guarding Scheduler.Schedule
	schedCAS    *atomicOp
	schedSites  []*atomicOp // every CAS(idle->running) whose success guards a Schedule hand-off (one per function when the scheduling function was inlined)
	worker      *ssa.Function // function handed to Scheduler.Schedule
	workerWrap  *ssa.Function // the forwarding closure actually handed over, if any
	handed      []handOff     // per hand-off site: the function given to the scheduler
	loop        *ssa.Function // calls PopN and Processer.Invoke
	start       *ssa.Function // Inboxer.Start implementation
	stop        *ssa.Function
	send        *ssa.Function
	startCAS    *atomicOp
	idle        string
	running     string
	stopped     string
	starting    string
	problems    []string
}

type handOff struct {
	site *atomicOp
	fn   *ssa.Function
	wrap *ssa.Function
	pos  string
}

func (w *World) evSchedule() Ev {
	return EvInvoke("Scheduler.Schedule", w.IfaceMethod("actor", "Scheduler", "Schedule"))
}
func (w *World) evInvokeBatch() Ev {
	return EvInvoke("Processer.Invoke", w.IfaceMethod("actor", "Processer", "Invoke"))
}

func (w *World) findInboxRolesUncached() *inboxRoles {
	defer w.noCtx()()
	ir := &inboxRoles{inbox: w.Named("actor", "Inbox")}
	bad := func(f string, a ...any) { ir.problems = append(ir.problems, fmt.Sprintf(f, a...)) }
	if ir.inbox == nil {
		bad("type actor.Inbox not found")
		return ir
	}
	st, _ := ir.inbox.Underlying().(*types.Struct)
	if st == nil {
		bad("actor.Inbox is not a struct")
		return ir
	}
	procT := w.Named("actor", "Processer")
	for i := 0; i < st.NumFields(); i++ {
		f := st.Field(i)
		fn := pinnedFieldName(ir.inbox, st, i)
		if procT != nil && types.Identical(f.Type(), procT) {
			ir.procField = fn
		}
		if p, ok := f.Type().(*types.Pointer); ok {
			if n, ok := p.Elem().(*types.Named); ok && n.Origin().Obj().Name() == "RingBuffer" {
				ir.rbField = fn
			}
		}
	}
	// status field = the integer field that is the operand of sync/atomic calls
	for i := 0; i < st.NumFields(); i++ {
		f := st.Field(i)
		fn := pinnedFieldName(ir.inbox, st, i)
		if b, ok := f.Type().Underlying().(*types.Basic); ok && b.Info()&types.IsInteger != 0 {
			if ops := w.atomicOpsOn(ir.inbox, fn); len(ops) > 0 {
				if ir.statusField != "" {
					bad("two atomic integer fields in Inbox: %s and %s", ir.statusField, fn)
				}
				ir.statusField = fn
				ir.ops = ops
			}
		}
	}
	if ir.statusField == "" {
		bad("no atomically accessed status field in actor.Inbox")
		return ir
	}
	ir.start = w.Method("actor", "Inbox", "Start")
	ir.stop = w.Method("actor", "Inbox", "Stop")
	ir.send = w.Method("actor", "Inbox", "Send")
	if ir.start == nil || ir.stop == nil || ir.send == nil {
		bad("Inbox does not implement Inboxer (Start/Stop/Send)")
		return ir
	}
	evS := w.evSchedule()
	// scheduling function: CAS whose success edge guards the Schedule hand-off
	// for every Schedule hand-off: the innermost CAS whose success edge guards it
	seenG := map[*FG]bool{}
	for i := range ir.ops {
		g := ir.ops[i].g
		if seenG[g] {
			continue
		}
		seenG[g] = true
		sched := w.Nodes(g, Ev{Name: evS.Name, M: evS.M, Shallow: true}, false)
		for _, n := range members(sched) {
			var guard *atomicOp
			for k := range ir.ops {
				op := &ir.ops[k]
				if op.g != g || op.kind != "CAS" {
					continue
				}
				se := op.successEdges()
				if len(se) == 0 || !g.OnlyVia(se, n) {
					continue
				}
				// keep the CAS closest to the hand-off (the one behind all other guarding CASes)
				if guard == nil || g.OnlyVia(guard.successEdges(), op.node) {
					guard = op
				}
			}
			if guard == nil {
				continue
			}
			op := guard
			if ir.idle != "" && (ir.idle != op.old || ir.running != op.new) {
				bad("scheduling sites disagree on the idle/running values: %s->%s and %s->%s", ir.idle, ir.running, op.old, op.new)
			}
			ir.schedSites = append(ir.schedSites, op)
			ir.schedule, ir.schedCAS = op.fn, op
			ir.idle, ir.running = op.old, op.new
			// the function handed over
			cc := callOf(g.ins[n])
			if len(cc.Args) == 1 {
				if mc, ok := cc.Args[0].(*ssa.MakeClosure); ok {
					wf := mc.Fn.(*ssa.Function)
					// bound method wrapper, or a literal closure that only forwards -> the method
					if t := thinWrapperTarget(wf); t != nil {
						ir.workerWrap = wf
						wf = t
					}
					ir.handed = append(ir.handed, handOff{site: op, fn: wf, wrap: ir.workerWrap, pos: w.pos(g.ins[n].Pos())})
					ir.worker = wf
				} else {
					ir.handed = append(ir.handed, handOff{site: op, pos: w.pos(g.ins[n].Pos())})
				}
			}
		}
	}
	for i := range ir.ops {
		op := &ir.ops[i]
		if op.kind == "CAS" && op.fn == ir.start && ir.startCAS == nil {
			ir.startCAS = op
			ir.starting = op.new
		}
	}
	if ir.schedule == nil || ir.idle == "" || ir.running == "" {
		bad("no CAS(idle->running) guarding Scheduler.Schedule found")
	}
	// several functions with their own CAS + Schedule: the scheduling function was written out at its call sites
	{
		fns := map[*ssa.Function]bool{}
		for _, op := range ir.schedSites {
			fns[op.fn] = true
		}
		if len(fns) > 1 {
			ir.schedule = nil
		}
	}
	// when the sites hand over different functions, the worker is the one that releases the token
	for _, h := range ir.handed {
		if h.fn == nil || h.fn == ir.worker {
			continue
		}
		for i := range ir.ops {
			op := &ir.ops[i]
			if op.fn == h.fn && op.kind == "CAS" && op.old == ir.running && op.new == ir.idle {
				ir.worker, ir.workerWrap = h.fn, h.wrap
			}
		}
	}
	if ir.worker == nil {
		bad("the function handed to Scheduler.Schedule could not be resolved")
	}
	// worker loop: calls PopN and Processer.Invoke
	evI := w.evInvokeBatch()
	for _, fn := range w.MethodsOf("actor", "Inbox") {
		hasPop := false
		for _, b := range fn.Blocks {
			for _, in := range b.Instrs {
				if c := callOf(in); c != nil && c.StaticCallee() != nil {
					n := origin(c.StaticCallee()).Name()
					if (n == "PopN" || n == "Pop") && strings.Contains(origin(c.StaticCallee()).String(), "ringbuffer") {
						hasPop = true
					}
				}
			}
		}
		if hasPop && len(w.callsIn(fn, evI)) > 0 {
			if ir.loop != nil {
				bad("two worker loops: %s and %s", fname(ir.loop), fname(fn))
			}
			ir.loop = fn
		}
	}
	if ir.loop == nil {
		bad("no worker loop (PopN + Processer.Invoke) found in Inbox")
	} else {
		// stopped = the constant the loop compares the loaded status with
		g := w.FG(ir.loop)
		for _, in := range g.ins {
			iff, ok := in.(*ssa.If)
			if !ok {
				continue
			}
			if b, ok := iff.Cond.(*ssa.BinOp); ok {
				for _, pair := range [][2]ssa.Value{{b.X, b.Y}, {b.Y, b.X}} {
					if c, ok := pair[0].(*ssa.Call); ok {
						for _, op := range ir.ops {
							if op.call == c && op.kind == "Load" && constStr(pair[1]) != "" {
								ir.stopped = constStr(pair[1])
							}
						}
					}
				}
			}
		}
		if ir.stopped == "" {
			bad("worker loop does not compare the loaded status with a constant (stopped)")
		}
	}
	if ir.startCAS == nil {
		bad("Inboxer.Start implementation has no CAS on the status word")
	}
	aliasRole(ir.schedule, "(*actor.Inbox).schedule")
	aliasRole(ir.worker, "(*actor.Inbox).process")
	aliasRole(ir.loop, "(*actor.Inbox).run")
	return ir
}


// thinWrapperTarget: fn does nothing but call one static callee (a bound-method wrapper, or
// `func() { x.m() }`): that callee, else nil.
func thinWrapperTarget(fn *ssa.Function) *ssa.Function {
	var target *ssa.Function
	for _, b := range fn.Blocks {
		for _, in := range b.Instrs {
			switch x := in.(type) {
			case *ssa.Call:
				if x.Call.StaticCallee() == nil || target != nil {
					return nil
				}
				target = x.Call.StaticCallee()
			case *ssa.Return, *ssa.UnOp, *ssa.DebugRef, *ssa.FieldAddr, *ssa.Field:
			default:
				return nil
			}
		}
	}
	return target
}


// evSched: a schedule attempt — a call of the scheduling function, or (when it is written out in place) the
// CAS(idle->running) that guards a hand-off.
func (ir *inboxRoles) evSched() Ev {
	calls := map[ssa.Instruction]bool{}
	for _, op := range ir.schedSites {
		calls[op.call] = true
	}
	sched := ir.schedule
	return Ev{Name: "schedule-attempt", M: func(in ssa.Instruction) bool {
		if sched != nil {
			if c := callOf(in); c != nil && c.StaticCallee() == sched {
				return true
			}
			return false
		}
		return calls[in]
	}}
}
