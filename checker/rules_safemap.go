package main

import (
	"fmt"
	"go/token"
	"strings"

	"golang.org/x/tools/go/ssa"
)

// checkSafeMapLen: Context.Children sizes its snapshot with SafeMap.Len and fills it with SafeMap.ForEach; a Len that
// drifts from the number of entries makes the fill index out of range (the stop function panics half way) or leaves nil
// PIDs in the snapshot. Two shapes are accepted: len(data), or a counter field that is verified to move with every
// insertion of an absent key and every removal of a present one, and with nothing else.
func checkSafeMapLen(w *World, r *Report, rule string) {
	sm := w.Named("safemap", "SafeMap")
	lenFn := w.Method("safemap", "SafeMap", "Len")
	key := "SafeMap.Len:counts-the-entries"
	what := "Len() is the number of entries ForEach visits: len(data), or a counter that moves with every insertion of an absent key and every removal of a present one"
	if sm == nil || lenFn == nil {
		r.Unknown(rule, key, what, "-", "safemap.SafeMap / its Len method not found")
		return
	}
	site := w.fnPos(lenFn)
	strip := func(v ssa.Value) ssa.Value {
		for {
			switch x := v.(type) {
			case *ssa.Convert:
				v = x.X
			case *ssa.ChangeType:
				v = x.X
			default:
				return v
			}
		}
	}
	isData := func(v ssa.Value) bool { return w.pathOf(v) == "P0.data" }
	// the field Len reports, "" when it is len(data)
	counter := ""
	direct := true
	nret := 0
	for _, in := range w.insOf(lenFn) {
		ret, ok := in.(*ssa.Return)
		if !ok || len(ret.Results) != 1 {
			continue
		}
		nret++
		var leaves []ssa.Value
		phiLeaves(ret.Results[0], map[ssa.Value]bool{}, &leaves)
		for _, l := range leaves {
			l = strip(l)
			if w.pathOf(l) == "len(P0.data)" {
				continue
			}
			if c, ok := l.(*ssa.Call); ok {
				if b, ok := c.Call.Value.(*ssa.Builtin); ok && b.Name() == "len" && isData(c.Call.Args[0]) {
					continue
				}
				if f := c.Call.StaticCallee(); f != nil && f.Pkg != nil && f.Pkg.Pkg.Path() == "sync/atomic" && strings.HasPrefix(f.Name(), "Load") && len(c.Call.Args) > 0 {
					if fa, ok := c.Call.Args[0].(*ssa.FieldAddr); ok {
						if n, nm := fieldName(fa); sameNamed(nm, sm) {
							direct = false
							if counter != "" && counter != n {
								r.Fail(rule, key, what, site, "Len reports two different fields")
								return
							}
							counter = n
							continue
						}
					}
				}
			}
			if u, ok := l.(*ssa.UnOp); ok && u.Op == token.MUL {
				if fa, ok := u.X.(*ssa.FieldAddr); ok {
					if n, nm := fieldName(fa); sameNamed(nm, sm) {
						direct = false
						if counter != "" && counter != n {
							r.Fail(rule, key, what, site, "Len reports two different fields")
							return
						}
						counter = n
						continue
					}
				}
			}
			r.Fail(rule, key, what, site, "Len returns "+w.pathOf(l)+": neither len(data) nor a field of the map")
			return
		}
	}
	if nret == 0 {
		r.Unknown(rule, key, what, site, "no return in Len")
		return
	}
	if direct {
		r.OK(rule, key, what, site)
		return
	}
	// counter form
	var problems []string
	bad := func(f string, a ...any) { problems = append(problems, fmt.Sprintf(f, a...)) }
	for _, fn := range w.Funcs {
		if !w.isLib(fn) {
			continue
		}
		g := w.FGI(fn)
		type kn struct {
			n int
			k string
		}
		var ups, dels []kn
		var incs, decs []int
		for n, in := range g.ins {
			switch x := in.(type) {
			case *ssa.MapUpdate:
				if isData(x.Map) && fnPkgPath(fn) == modPath+"/safemap" {
					ups = append(ups, kn{n, w.pathOf(x.Key)})
				}
			case *ssa.Call:
				if b, ok := x.Call.Value.(*ssa.Builtin); ok && b.Name() == "delete" && isData(x.Call.Args[0]) && fnPkgPath(fn) == modPath+"/safemap" {
					dels = append(dels, kn{n, w.pathOf(x.Call.Args[1])})
				}
				if b, ok := x.Call.Value.(*ssa.Builtin); ok && b.Name() == "clear" && isData(x.Call.Args[0]) {
					bad("%s clears the map at %s", fname(fn), w.pos(x.Pos()))
				}
				if f := x.Call.StaticCallee(); f != nil && f.Pkg != nil && f.Pkg.Pkg.Path() == "sync/atomic" && len(x.Call.Args) > 0 {
					if fa, ok := x.Call.Args[0].(*ssa.FieldAddr); ok {
						if nm, named := fieldName(fa); sameNamed(named, sm) && nm == counter {
							switch {
							case strings.HasPrefix(f.Name(), "Load"):
							case strings.HasPrefix(f.Name(), "Add") && len(x.Call.Args) == 2 && constStr(x.Call.Args[1]) == "1":
								incs = append(incs, n)
							case strings.HasPrefix(f.Name(), "Add") && len(x.Call.Args) == 2 && constStr(x.Call.Args[1]) == "-1":
								decs = append(decs, n)
							default:
								bad("%s changes the counter with %s at %s", fname(fn), f.Name(), w.pos(x.Pos()))
							}
						}
					}
				}
			case *ssa.Store:
				if fa, ok := x.Addr.(*ssa.FieldAddr); ok {
					nm, named := fieldName(fa)
					if !sameNamed(named, sm) {
						break
					}
					if _, fresh := fa.X.(*ssa.Alloc); fresh {
						break
					}
					if nm == "data" {
						bad("%s replaces the map at %s", fname(fn), w.pos(x.Pos()))
					}
					if nm == counter {
						switch p := w.pathOf(x.Val); p {
						case "(P0." + counter + "+K:1)":
							incs = append(incs, n)
						case "(P0." + counter + "-K:1)":
							decs = append(decs, n)
						default:
							bad("%s stores %s into the counter at %s", fname(fn), p, w.pos(x.Pos()))
						}
					}
				}
			}
		}
		if len(ups)+len(dels)+len(incs)+len(decs) == 0 {
			continue
		}
		edgesFor := func(k string) (found, notFound []Edge) {
			return g.CondEdges(func(v ssa.Value) (bool, bool) {
				if e, ok := v.(*ssa.Extract); ok && e.Index == 1 {
					if lk, ok := e.Tuple.(*ssa.Lookup); ok && lk.CommaOk && isData(lk.X) && w.pathOf(lk.Index) == k {
						return true, true
					}
				}
				return false, false
			})
		}
		set := func(ns []int) []bool {
			s := make([]bool, len(g.ins))
			for _, n := range ns {
				s[n] = true
			}
			return s
		}
		INC, DEC := set(incs), set(decs)
		// paired: every change c of the map with key k happens behind a membership test of k, and on the edge where the
		// size changes (want) the counter moves on every path through c; the counter moves nowhere else
		paired := func(kind string, changes []kn, moves []int, M []bool, wantFound bool) {
			for _, c := range changes {
				found, notFound := edgesFor(c.k)
				want := notFound
				if wantFound {
					want = found
				}
				if len(want) == 0 {
					bad("%s: the %s at %s is not behind a membership test of its key, so whether the size changes is unknown", fname(fn), kind, w.pos(g.ins[c.n].Pos()))
					continue
				}
				if !g.OnlyVia(append(append([]Edge{}, found...), notFound...), c.n) {
					bad("%s: the %s at %s can be reached without the membership test", fname(fn), kind, w.pos(g.ins[c.n].Pos()))
				}
				for _, e := range want {
					if !reachFromEdges(g, []Edge{e}, nil)[c.n] {
						continue
					}
					before := !g.reach([]int{e.to}, M, nil)[c.n] // the counter always moves before the change on this edge
					if !before && !g.After(c.n, M) {
						bad("%s: a path through the %s at %s changes the size without moving the counter", fname(fn), kind, w.pos(g.ins[c.n].Pos()))
					}
				}
			}
			for _, m := range moves {
				ok := false
				for _, c := range changes {
					found, notFound := edgesFor(c.k)
					want := notFound
					if wantFound {
						want = found
					}
					if len(want) > 0 && g.OnlyVia(want, m) && (g.After(m, set([]int{c.n})) || g.Before(set([]int{c.n}), m)) {
						ok = true
					}
				}
				if !ok {
					bad("%s: the counter moves at %s on a path where the size of the map does not change that way", fname(fn), w.pos(g.ins[m].Pos()))
				}
			}
			if ok, _ := g.AtMostOnce(M); !ok {
				bad("%s: the counter can move twice for one %s", fname(fn), kind)
			}
		}
		paired("insertion", ups, incs, INC, false)
		paired("removal", dels, decs, DEC, true)
	}
	r.Check(len(problems) == 0, rule, key, what, site,
		"Len reports the field "+counter+", which does not follow the map: "+strings.Join(problems, "; ")+
			" — Context.Children sizes its snapshot with Len and fills it from ForEach: it indexes out of range or returns nil PIDs, and the stop function breaks off before the actor is unregistered")
}
