package main

import (
	"go/token"

	"golang.org/x/tools/go/ssa"
)

// Correlated branches: when the same SSA boolean is tested by more than one If of a function,
// reachability is computed over (node, known outcome of those booleans) so that the infeasible
// combinations (`if !taken {..}; ..; if taken {..}` taking the first and then the second body) are
// not explored. This only removes infeasible paths.

type corrInfo struct {
	done bool
}

var corrOf = map[*FG][]ssa.Value{}
var corrDone = map[*FG]bool{}

func normCond(c ssa.Value) (ssa.Value, bool) {
	neg := false
	for {
		if u, ok := c.(*ssa.UnOp); ok && u.Op == token.NOT {
			c = u.X
			neg = !neg
			continue
		}
		return c, neg
	}
}

func (g *FG) corrInit() {
	if corrDone[g] {
		g.corr = corrOf[g]
		return
	}
	corrDone[g] = true
	count := map[ssa.Value]int{}
	for _, in := range g.ins {
		if iff, ok := in.(*ssa.If); ok {
			c, _ := normCond(iff.Cond)
			if _, isConst := c.(*ssa.Const); !isConst {
				count[c]++
			}
		}
	}
	var out []ssa.Value
	for _, in := range g.ins { // deterministic order
		if iff, ok := in.(*ssa.If); ok {
			c, _ := normCond(iff.Cond)
			if count[c] >= 2 {
				dup := false
				for _, o := range out {
					if o == c {
						dup = true
					}
				}
				if !dup && len(out) < 6 {
					out = append(out, c)
				}
			}
		}
	}
	corrOf[g] = out
	g.corr = out
}

func (g *FG) reachCorr(starts []int, avoid []bool, cut map[Edge]bool) []bool {
	type st struct {
		n    int
		mask uint16 // 2 bits per correlated cond: 0 unknown, 1 true, 2 false
	}
	idxOf := func(c ssa.Value) int {
		for i, v := range g.corr {
			if v == c {
				return i
			}
		}
		return -1
	}
	// the node defining each correlated value: passing it again forgets the fact
	def := map[int]int{}
	for i, v := range g.corr {
		if in, ok := v.(ssa.Instruction); ok {
			if n, has := g.idx[in]; has {
				def[n] = i
			}
		}
	}
	seenN := make([]bool, len(g.ins))
	seen := map[st]bool{}
	var stack []st
	push := func(s st) {
		if s.n < 0 || s.n >= len(g.ins) || (avoid != nil && avoid[s.n]) {
			return
		}
		if d, ok := def[s.n]; ok {
			s.mask &^= 3 << (2 * uint(d))
		}
		if !seen[s] {
			seen[s] = true
			seenN[s.n] = true
			stack = append(stack, s)
		}
	}
	for _, s := range starts {
		// a start that is the target of a correlated branch edge inherits nothing: callers that start
		// from edges use reachFromEdges, which seeds the facts
		push(st{s, 0})
	}
	for len(stack) > 0 {
		s := stack[len(stack)-1]
		stack = stack[:len(stack)-1]
		succ := g.succ[s.n]
		if iff, ok := g.ins[s.n].(*ssa.If); ok && len(succ) == 2 {
			c, neg := normCond(iff.Cond)
			if i := idxOf(c); i >= 0 {
				known := (s.mask >> (2 * uint(i))) & 3
				for k, t := range succ {
					// k==0: If condition true
					val := k == 0
					if neg {
						val = !val
					}
					want := uint16(2)
					if val {
						want = 1
					}
					if known != 0 && known != want {
						continue
					}
					if cut != nil && cut[Edge{s.n, t}] {
						continue
					}
					m := s.mask&^(3<<(2*uint(i))) | want<<(2*uint(i))
					push(st{t, m})
				}
				continue
			}
		}
		for _, t := range succ {
			if cut != nil && cut[Edge{s.n, t}] {
				continue
			}
			push(st{t, s.mask})
		}
	}
	return seenN
}

// seedFromEdges: reachability from a set of branch edges, seeding the outcome of correlated conditions.
func (g *FG) reachFromEdgesCorr(es []Edge, avoid []bool) []bool {
	g.corrInit()
	out := make([]bool, len(g.ins))
	for _, e := range es {
		var r []bool
		if iff, ok := g.ins[e.from].(*ssa.If); ok && len(g.corr) > 0 {
			c, neg := normCond(iff.Cond)
			val := len(g.succ[e.from]) == 2 && g.succ[e.from][0] == e.to
			if neg {
				val = !val
			}
			// temporarily cut the opposite-valued edges of every If on the same condition
			cut := map[Edge]bool{}
			for n, in := range g.ins {
				if i2, ok := in.(*ssa.If); ok && len(g.succ[n]) == 2 {
					c2, neg2 := normCond(i2.Cond)
					if c2 != c {
						continue
					}
					// edge k has value (k==0) xor neg2 ; cut the edge whose value != val
					for k, t := range g.succ[n] {
						v2 := k == 0
						if neg2 {
							v2 = !v2
						}
						if v2 != val {
							cut[Edge{n, t}] = true
						}
					}
				}
			}
			// the fact is lost if the defining instruction is passed again (loops): accept the small
			// imprecision of keeping it (it only matters for conditions recomputed inside the region)
			r = g.reachCorr([]int{e.to}, avoid, cut)
		} else {
			r = g.reach([]int{e.to}, avoid, nil)
		}
		for i, b := range r {
			if b {
				out[i] = true
			}
		}
	}
	return out
}
