package main

import (
	"fmt"
	"go/token"
	"go/types"
	"strings"

	"golang.org/x/tools/go/ssa"
)

func init() {
	register("C01", checkC01)
	register("C09", checkC09)
	register("C10", checkC10)
	register("C11", checkC11)
	register("C12", checkC12)
}

type sendAnchors struct {
	eSend, eSWS, eSendLocal, esend, eBroadcast, eRequest, eIsLocal *ssa.Function
	cSend, cForward, cRespond, cMessage, cSender                  *ssa.Function
	regGet, regAdd, regRemove, regGetByID, regGetPID              *ssa.Function
	evProcSend, evInboxSend, evRemoteSend                         Ev
}

func (w *World) sendAnchors() *sendAnchors {
	a := &sendAnchors{}
	a.eSend = w.Method("actor", "Engine", "Send")
	a.eSWS = w.Method("actor", "Engine", "SendWithSender")
	a.eSendLocal = w.Method("actor", "Engine", "SendLocal")
	a.eBroadcast = w.Method("actor", "Engine", "BroadcastEvent")
	a.eRequest = w.Method("actor", "Engine", "Request")
	a.cSend = w.Method("actor", "Context", "Send")
	a.cForward = w.Method("actor", "Context", "Forward")
	a.cRespond = w.Method("actor", "Context", "Respond")
	a.cMessage = w.Method("actor", "Context", "Message")
	a.cSender = w.Method("actor", "Context", "Sender")
	a.regGet = w.Method("actor", "Registry", "get")
	a.regAdd = w.Method("actor", "Registry", "add")
	a.regRemove = w.Method("actor", "Registry", "Remove")
	a.regGetByID = w.Method("actor", "Registry", "getByID")
	a.regGetPID = w.Method("actor", "Registry", "GetPID")
	// the private dispatcher: the method of Engine called by Send with (pid, msg, nil)
	if a.eSend != nil {
		for _, in := range w.insOf(a.eSend) {
			{
				if c := callOf(in); c != nil && c.StaticCallee() != nil && len(c.Args) == 4 {
					a.esend = c.StaticCallee()
				}
			}
		}
	}
	if a.esend != nil {
		for _, in := range w.insOf(a.esend) {
			{
				if c := callOf(in); c != nil && c.StaticCallee() != nil && len(c.Args) == 2 && c.StaticCallee().Signature.Results().Len() == 1 {
					if bt, ok := c.StaticCallee().Signature.Results().At(0).Type().(*types.Basic); ok && bt.Kind() == types.Bool {
						a.eIsLocal = c.StaticCallee()
					}
				}
			}
		}
	}
	aliasRole(a.esend, "(*actor.Engine).send")
	aliasRole(a.eIsLocal, "(*actor.Engine).isLocalMessage")
	a.evProcSend = EvInvoke("Processer.Send", w.IfaceMethod("actor", "Processer", "Send"))
	a.evInboxSend = EvInvoke("Inboxer.Send", w.IfaceMethod("actor", "Inboxer", "Send"))
	a.evRemoteSend = EvInvoke("Remoter.Send", w.IfaceMethod("actor", "Remoter", "Send"))
	return a
}

func (a *sendAnchors) missing() string {
	var m []string
	chk := func(n string, f *ssa.Function) {
		if f == nil {
			m = append(m, n)
		}
	}
	chk("Engine.Send", a.eSend)
	chk("Engine.SendWithSender", a.eSWS)
	chk("Engine.SendLocal", a.eSendLocal)
	chk("Engine.send(dispatcher)", a.esend)
	chk("Engine.BroadcastEvent", a.eBroadcast)
	chk("Engine.Request", a.eRequest)
	chk("Context.Send", a.cSend)
	chk("Context.Forward", a.cForward)
	chk("Context.Respond", a.cRespond)
	chk("Context.Message", a.cMessage)
	chk("Context.Sender", a.cSender)
	chk("Registry.get", a.regGet)
	chk("Registry.add", a.regAdd)
	chk("Registry.Remove", a.regRemove)
	chk("Registry.getByID", a.regGetByID)
	chk("Registry.GetPID", a.regGetPID)
	return strings.Join(m, ", ")
}

// edges of the dispatcher
func (w *World) dispatcherEdges(a *sendAnchors, g *FG) (nilPid, nonNilPid, local, nonLocal, noRemote, hasRemote []Edge) {
	nilPid, nonNilPid = w.nilEdges(g, "P1")
	if a.eIsLocal != nil {
		local, nonLocal = w.boolEdges(g, func(p string) bool { return strings.HasPrefix(p, "call:"+fname(a.eIsLocal)+"(") })
	} else {
		// the locality test written inline: engine address == pid.Address
		local, nonLocal = g.CondEdges(func(v ssa.Value) (bool, bool) {
			b, ok := v.(*ssa.BinOp)
			if !ok || (b.Op != token.EQL && b.Op != token.NEQ) {
				return false, false
			}
			x, y := w.pathOf(b.X), w.pathOf(b.Y)
			if (x == "P0.address" && y == "P1.Address") || (x == "P1.Address" && y == "P0.address") {
				return b.Op == token.EQL, true
			}
			return false, false
		})
	}
	noRemote, hasRemote = w.nilEdges(g, "P0.remote")
	return
}

// registry miss / hit edges in a function that calls Registry.get
func (w *World) registryEdges(g *FG) (miss, hit []Edge) {
	return w.nilEdges(g, "re:call:\\(\\*actor\\.Registry\\)\\.get\\(.*\\)")
}

// ---------------------------------------------------------------------------
// C01 — local delivery: exactly once, content-faithful, ordered
// ---------------------------------------------------------------------------

func checkC01(w *World, r *Report) {
	r.Rule("C01.R1", "the send path is a chain of plain synchronous calls carrying (target, message, sender) unchanged from the API down to RingBuffer.Push", 9)
	r.Rule("C01.R2", "on the consuming side the envelope's message and sender are what Receive sees: popped slice -> Invoke -> delivery function -> Context.message/sender -> Context.Message()/Sender()", 5)
	r.Rule("C01.R3", "Inbox.Send pushes the envelope exactly once; Push stores its parameter", 2)
	r.Rule("C01.R4", "the batch loop visits every element once, in ascending order, and delivers each non-pill element exactly once", 3)
	a := w.sendAnchors()
	if m := a.missing(); m != "" {
		r.Unknown("C01.R1", "anchors", "resolve the send API", "-", "missing: "+m)
		return
	}
	ir := w.findInboxRoles()
	pr := w.findProcRoles()
	if roleProblems(r, "C01.R1", ir) || pr.fail(r, "C01.R1") {
		return
	}
	why := "The receiver would see another message, sender or target than the one given at the send."
	rows := []row{
		{rule: "C01.R1", fn: a.eSend, callee: EvCall("send", a.esend), name: "send", args: []string{"P0", "P1", "P2", "K:nil"}, why: why},
		{rule: "C01.R1", fn: a.eSWS, callee: EvCall("send", a.esend), name: "send", args: []string{"P0", "P1", "P2", "P3"}, why: why},
		{rule: "C01.R1", fn: a.cSend, callee: EvCall("SendWithSender", a.eSWS), name: "Engine.SendWithSender", args: []string{"P0.engine", "P1", "P2", "P0.pid"}, why: why,
			alts: []rowAlt{{EvCall("send", a.esend), "send", []string{"P0.engine", "P1", "P2", "P0.pid"}}}},
		{rule: "C01.R1", fn: a.cForward, callee: EvCall("SendWithSender", a.eSWS), name: "Engine.SendWithSender", args: []string{"P0.engine", "P1", "P0.message", "P0.pid"}, why: why,
			alts: []rowAlt{{EvCall("send", a.esend), "send", []string{"P0.engine", "P1", "P0.message", "P0.pid"}}}},
		{rule: "C01.R1", fn: a.cRespond, callee: EvCall("Send", a.eSend), name: "Engine.Send", args: []string{"P0.engine", "P0.sender", "P1"}, why: why,
			alts: []rowAlt{{EvCall("send", a.esend), "send", []string{"P0.engine", "P0.sender", "P1", "K:nil"}}},
			excuse: func(g *FG) []Edge { n, _ := w.nilEdges(g, "P0.sender"); return n },
			only:   func(g *FG) []Edge { _, nn := w.nilEdges(g, "P0.sender"); return nn }},
		{rule: "C01.R1", fn: a.esend, callee: EvCall("SendLocal", a.eSendLocal), name: "Engine.SendLocal", args: []string{"P0", "P1", "P2", "P3"}, why: why,
			excuse: func(g *FG) []Edge { n, _, _, nl, _, _ := w.dispatcherEdges(a, g); return append(n, nl...) },
			only:   func(g *FG) []Edge { _, _, l, _, _, _ := w.dispatcherEdges(a, g); return l }},
		{rule: "C01.R1", fn: a.eSendLocal, callee: a.evProcSend, name: "Processer.Send", args: []string{"re:call:\\(\\*actor\\.Registry\\)\\.get\\(P0\\.Registry,P1\\)", "P1", "P2", "P3"}, why: why,
			excuse: func(g *FG) []Edge { m, _ := w.registryEdges(g); return m },
			only:   func(g *FG) []Edge { _, h := w.registryEdges(g); return h }},
		{rule: "C01.R1", fn: pr.send, callee: a.evInboxSend, name: "Inboxer.Send", args: []string{"P0.inbox", "lit:Envelope{Msg=P2,Sender=P3}"}, why: why},
		{rule: "C01.R3", fn: ir.send, callee: EvCall("Push", w.Method("ringbuffer", "RingBuffer", "Push")), name: "RingBuffer.Push", args: []string{"~." + ir.rbField, "P1"},
			why: "A message is enqueued zero times or twice."},
		{rule: "C01.R1", fn: a.eBroadcast, callee: EvCall("send", a.esend), name: "send", args: []string{"P0", "P0.eventStream", "P1", "K:nil"}, why: why,
			excuse: func(g *FG) []Edge { n, _ := w.nilEdges(g, "P0.eventStream"); return n }},
		// consuming side
		{rule: "C01.R2", fn: ir.loop, callee: w.evInvokeBatch(), name: "Processer.Invoke", args: []string{"~." + ir.procField, "re:call:\\(\\*ringbuffer\\.RingBuffer\\[T\\]\\)\\.PopN\\(P0\\." + ir.rbField + ",.*\\)#0"},
			why:    "The batch handed to the process is not the slice popped from the ring.", loop: true,
			excuse: func(g *FG) []Edge { return loopExitEdges(w, g) }},
	}
	for _, rw := range rows {
		w.checkRow(r, rw)
	}
	// Push stores its parameter into the ring on every path
	if push := w.Method("ringbuffer", "RingBuffer", "Push"); push != nil {
		g := w.FGI(push)
		st := make([]bool, len(g.ins))
		for i, in := range g.ins {
			if s, ok := in.(*ssa.Store); ok && w.pathOf(s.Val) == "P1" {
				if ia, ok := s.Addr.(*ssa.IndexAddr); ok && strings.HasSuffix(w.pathOf(ia.X), ".items") {
					st[i] = true
				}
			}
		}
		r.Check(g.Once(st), "C01.R3", "RingBuffer.Push:stores-item", "Push stores its item parameter into the ring exactly once on every path", w.fnPos(push),
			"a pushed element is not stored (or stored twice): the message is lost or duplicated")
	}
	// delivery function: Context.message <- env.Msg, Context.sender <- env.Sender before the delivery
	{
		g := w.FGI(pr.deliverFn)
		msgSt := make([]bool, len(g.ins))
		sndSt := make([]bool, len(g.ins))
		for i, in := range g.ins {
			if st, ok := in.(*ssa.Store); ok {
				if fa, ok := st.Addr.(*ssa.FieldAddr); ok {
					if isFieldOf(fa, pr.ctxT, "message") && w.pathOf(st.Val) == "P1.Msg" {
						msgSt[i] = true
					}
					if isFieldOf(fa, pr.ctxT, "sender") && w.pathOf(st.Val) == "P1.Sender" {
						sndSt[i] = true
					}
				}
			}
		}
		D := w.Nodes(g, pr.evDeliver(), false)
		ok := anyOf(msgSt) && anyOf(sndSt) && anyOf(D)
		for _, d := range members(D) {
			if !g.Before(msgSt, d) || !g.Before(sndSt, d) {
				ok = false
			}
		}
		// no other store to message/sender in the delivery function
		for i, in := range g.ins {
			if st, ok := in.(*ssa.Store); ok {
				if fa, ok := st.Addr.(*ssa.FieldAddr); ok && (isFieldOf(fa, pr.ctxT, "message") && !msgSt[i] || isFieldOf(fa, pr.ctxT, "sender") && !sndSt[i]) {
					ok = false
				}
			}
		}
		r.Check(ok, "C01.R2", fname(pr.deliverFn)+":context<-envelope", "the delivery function stores the envelope's Msg and Sender into the Context before delivering", w.fnPos(pr.deliverFn),
			"Receive sees a stale or foreign message/sender for this delivery")
		// exactly one delivery per call on the non-pill path
		Dm := w.Nodes(g, pr.evDeliver(), true)
		pillOK, _ := g.CondEdges(func(v ssa.Value) (bool, bool) {
			p := w.pathOf(v)
			return true, strings.HasPrefix(p, "assert<actor.poisonPill>(") && strings.HasSuffix(p, "#1")
		})
		cut := map[Edge]bool{}
		for _, e := range pillOK {
			cut[e] = true
		}
		reach := g.reach(g.entry(), Dm, cut)
		one := true
		for _, x := range g.returns {
			if reach[x] {
				one = false
			}
		}
		if ok2, _ := g.AtMostOnce(D); !ok2 {
			one = false
		}
		r.Check(one, "C01.R2", fname(pr.deliverFn)+":delivers-once", "a non-pill envelope is delivered exactly once by the delivery function", w.fnPos(pr.deliverFn),
			"an envelope can be dropped or delivered twice inside the delivery function")
	}
	if ok, why := w.returnsOnly(a.cMessage, "P0.message"); !ok {
		r.Fail("C01.R2", "Context.Message", "Context.Message() returns the stored message", w.fnPos(a.cMessage), why)
	} else {
		r.OK("C01.R2", "Context.Message", "Context.Message() returns the stored message", w.fnPos(a.cMessage))
	}
	if ok, why := w.returnsOnly(a.cSender, "P0.sender"); !ok {
		r.Fail("C01.R2", "Context.Sender", "Context.Sender() returns the stored sender", w.fnPos(a.cSender), why)
	} else {
		r.OK("C01.R2", "Context.Sender", "Context.Sender() returns the stored sender", w.fnPos(a.cSender))
	}
	checkBatchLoop(w, r, pr)
	r.Rule("C01.R5", "an accepted message is processed without further stimulus (the C03 wake-up protocol) and from a ring with sound length accounting (C14.R2/R3): necessary for 'delivered exactly once'", 8)
	importRules(w, r, checkC03, "C03", "C01.R5", nil)
	importRules(w, r, checkC14, "C14", "C01.R5", nil)
	importRules(w, r, checkC07, "C07", "C01.R5", func(o *Obligation) bool {
		return strings.Contains(o.Key, "drain-starts-at-pill") || strings.Contains(o.Key, "nothing-after-stop")
	})
	importRules(w, r, checkC02, "C02", "C01.R5", func(o *Obligation) bool { return o.Rule == "C02.R2" || o.Rule == "C02.R3" || o.Rule == "C02.R1" || o.Rule == "C02.R7" })
	// the PID a sender holds keeps naming the live actor: a refused duplicate spawn does not take over its registry entry
	checkRegistryAdd(w, r, "C01.R5", a)
	// ... and the lookup answers from the table, never from an earlier answer (a stopped process, or a hidden successor)
	checkRegistryAnswers(w, r, "C01.R5", a)
	// what stands between the inbox and Receive is the actor's own middleware chain, not another actor's (C13.R4)
	checkDefaultOptsFresh(w, r, "C01.R5")
	// across a crash: the unprocessed rest of the batch is buffered from the cursor, unconditionally, and replayed first
	importRules(w, r, checkC05, "C05", "C01.R5", func(o *Obligation) bool {
		return o.Rule == "C05.R3" && strings.Contains(o.Key, "buffer-from-cursor") || o.Rule == "C05.R2" && (strings.Contains(o.Key, "replay-before-inbox") || strings.Contains(o.Key, "clears-replayed-buffer"))
	})
}

// loopExitEdges: edges on which the worker loop leaves without a batch (stopped / empty pop).
func loopExitEdges(w *World, g *FG) []Edge {
	var out []Edge
	for n, in := range g.ins {
		if _, ok := in.(*ssa.If); !ok {
			continue
		}
		for _, pol := range []bool{true, false} {
			e, _ := g.EdgeOf(n, pol)
			// an edge is an exit edge if from it a return is reachable without any Processer.Invoke
			inv := w.Nodes(g, w.evInvokeBatch(), false)
			reach := g.reach([]int{e.to}, inv, nil)
			direct := false
			for _, x := range g.returns {
				if reach[x] {
					direct = true
				}
			}
			// and the other edge leads to an Invoke or continues the loop
			if direct {
				// only accept exits guarded by the status load or the pop result
				c := w.pathOf(in.(*ssa.If).Cond)
				if strings.Contains(c, "sync/atomic.Load") || strings.Contains(c, "PopN(") || strings.Contains(c, ").Pop(") {
					out = append(out, e)
				}
			}
		}
	}
	return out
}

// checkBatchLoop implements C01.R4 on Processer.Invoke's implementation.
func checkBatchLoop(w *World, r *Report, pr *procRoles) {
	g := w.FGI(pr.invoke)
	key := fname(pr.invoke)
	site := w.fnPos(pr.invoke)
	// the per-element delivery: call of the delivery function whose envelope argument is P1[idx]
	var main ssa.CallInstruction
	var idxV ssa.Value
	n := 0
	for _, ci := range w.callsIn(pr.invoke, EvCall("deliver", pr.deliverFn)) {
		c := ci.Common()
		if len(c.Args) != 2 {
			continue
		}
		// unwrap load of P1[idx]
		v := c.Args[1]
		if u, ok := v.(*ssa.UnOp); ok && u.Op == token.MUL {
			if al, ok := u.X.(*ssa.Alloc); ok {
				if s := singleStore(al); s != nil {
					v = s
				}
			}
		}
		if u, ok := v.(*ssa.UnOp); ok && u.Op == token.MUL {
			if ia, ok := u.X.(*ssa.IndexAddr); ok && w.pathOf(ia.X) == "P1" {
				main = ci
				idxV = ia.Index
				n++
			}
		}
	}
	if n == 0 {
		r.Unknown("C01.R4", key+":element-delivery", "the batch loop delivers msgs[i]", site, "no call of the delivery function with an element of the batch parameter (unrecognised loop idiom)")
		return
	}
	if n > 1 {
		r.Fail("C01.R4", key+":element-delivery", "one delivery site for msgs[i] in the batch loop", site, fmt.Sprintf("%d call sites deliver msgs[i]: an element is delivered twice", n))
		return
	}
	mainN := g.idx[main.(ssa.Instruction)]
	// induction: idx = phi(0, idx+1)  or  idx = phi(-1, ..)+1 (range form)
	asc := false
	var iterNode int
	switch x := idxV.(type) {
	case *ssa.Phi:
		var init, step bool
		for _, e := range x.Edges {
			if constStr(e) == "0" {
				init = true
			}
			if b, ok := e.(*ssa.BinOp); ok && b.Op == token.ADD && b.X == ssa.Value(x) && constStr(b.Y) == "1" {
				step = true
			}
		}
		asc = init && step && len(x.Edges) == 2
		iterNode = g.idx[x]
	case *ssa.BinOp:
		if ph, ok := x.X.(*ssa.Phi); ok && x.Op == token.ADD && constStr(x.Y) == "1" {
			var init, step bool
			for _, e := range ph.Edges {
				if constStr(e) == "-1" {
					init = true
				}
				if e == ssa.Value(x) {
					step = true
				}
			}
			asc = init && step && len(ph.Edges) == 2
		}
		iterNode = g.idx[x]
	}
	r.Check(asc, "C01.R4", key+":ascending-unit-stride", "the batch index starts at 0 and advances by one", site,
		"the loop does not visit msgs[0], msgs[1], ... in order: messages are skipped or reordered")
	if !asc {
		return
	}
	// loop bound: idx < len(P1) guards the body
	bound, _ := g.CondEdges(func(v ssa.Value) (bool, bool) {
		b, ok := v.(*ssa.BinOp)
		if !ok {
			return false, false
		}
		if b.X == idxV && w.pathOf(b.Y) == "len(P1)" && b.Op == token.LSS {
			return true, true
		}
		if b.Y == idxV && w.pathOf(b.X) == "len(P1)" && b.Op == token.GTR {
			return true, true
		}
		return false, false
	})
	r.Check(len(bound) > 0 && g.OnlyVia(bound, mainN), "C01.R4", key+":bound", "the loop runs while i < len(msgs)", site,
		"the loop bound is not i < len(msgs): the last element is skipped or the index overruns")
	// within one iteration the element is delivered exactly once on the non-pill path:
	// (a) no second delivery of msgs[i] without passing the iteration boundary
	iter := setOf(len(g.ins), iterNode)
	again := g.reach(g.succ[mainN], iter, nil)[mainN]
	// (b) from the failed pill assertion of this element, every path to the next iteration or a return passes the delivery
	notPill := []Edge{}
	mainArgs := main.Common().Args
	mainElem := w.pathOf(mainArgs[len(mainArgs)-1])
	_, neg := g.CondEdges(func(v ssa.Value) (bool, bool) {
		p := w.pathOf(v)
		// the pill test of the element this iteration delivers (not a test on some other element, e.g. in the drain loop)
		return true, p == "assert<actor.poisonPill>("+mainElem+".Msg)#1"
	})
	notPill = neg
	skipped := len(notPill) == 0
	for _, e := range notPill {
		reach := g.reach([]int{e.to}, setOf(len(g.ins), mainN), nil)
		if reach[iterNode] {
			skipped = true
		}
		for _, x := range g.returns {
			if reach[x] {
				skipped = true
			}
		}
	}
	r.Check(!again && !skipped, "C01.R4", key+":once-per-element", "each non-pill element of the batch is delivered exactly once per iteration", w.pos(main.Pos()),
		"an element can be delivered twice in one iteration, or an iteration can move on without delivering its element")
}

// ---------------------------------------------------------------------------
// C09 — undeliverable messages surface exactly once
// ---------------------------------------------------------------------------

func checkC09(w *World, r *Report) {
	r.Rule("C09.R1", "SendLocal: on the registry-miss edge exactly one DeadLetterEvent{Target,Message,Sender} and no delivery; on the hit edge no event", 2)
	r.Rule("C09.R2", "send: a nil PID returns at once; a foreign address without a remote publishes exactly one EngineRemoteMissingEvent{Target,Sender,Message}", 3)
	r.Rule("C09.R3", "no *PID parameter of the exported send/stop/subscribe API is dereferenced without a nil check (interprocedural nil flow)", 10)
	r.Rule("C09.R4", "the event stream forwards each event exactly once to every subscriber", 1)
	r.Rule("C09.R5", "event feedback: no synchronous path from eventStream.Receive back to BroadcastEvent", 1)
	a := w.sendAnchors()
	if m := a.missing(); m != "" {
		r.Unknown("C09.R1", "anchors", "resolve the send API", "-", "missing: "+m)
		return
	}
	evDL := w.evBroadcast("actor", "DeadLetterEvent")
	w.checkRow(r, row{rule: "C09.R1", fn: a.eSendLocal, callee: evDL, name: "BroadcastEvent(DeadLetterEvent)", args: []string{"P0", "lit:DeadLetterEvent{Message=P2,Sender=P3,Target=P1}"},
		why:    "An undeliverable message disappears silently, is reported twice, or the dead letter misreports target/message/sender.",
		excuse: func(g *FG) []Edge { _, h := w.registryEdges(g); return h },
		only:   func(g *FG) []Edge { m, _ := w.registryEdges(g); return m }})
	{
		g := w.FGI(a.eSendLocal)
		miss, hit := w.registryEdges(g)
		ok := len(miss) > 0 && len(hit) > 0
		PS := w.Nodes(g, Ev{Name: "ps", M: a.evProcSend.M, Shallow: true}, false)
		for _, n := range members(reachFromEdges(g, miss, nil)) {
			if PS[n] {
				ok = false
			}
		}
		BC := w.Nodes(g, Ev{Name: "bc", M: EvCall("BroadcastEvent", a.eBroadcast).M, Shallow: true}, false)
		for _, n := range members(reachFromEdges(g, hit, nil)) {
			if BC[n] {
				ok = false
			}
		}
		r.Check(ok, "C09.R1", fname(a.eSendLocal)+":edges-disjoint", "no delivery on the miss edge, no event on the hit edge", w.fnPos(a.eSendLocal),
			"a delivered message also dead-letters, or a dead letter is also delivered")
	}
	// R2
	{
		g := w.FGI(a.esend)
		nilPid, _, _, nonLocal, noRemote, hasRemote := w.dispatcherEdges(a, g)
		ok := len(nilPid) > 0
		for _, n := range members(reachFromEdges(g, nilPid, nil)) {
			switch g.ins[n].(type) {
			case *ssa.Call, *ssa.Go, *ssa.Defer, *ssa.Panic, *ssa.Send:
				ok = false
			}
		}
		r.Check(ok, "C09.R2", fname(a.esend)+":nil-pid", "a nil PID returns without any call", w.fnPos(a.esend), "sending to a nil PID does something other than return (or is not checked first)")
		// the nil check dominates everything else
		first := true
		for n, in := range g.ins {
			if c := callOf(in); c != nil {
				if !g.OnlyVia(func() []Edge { _, nn := w.nilEdges(g, "P1"); return nn }(), n) {
					first = false
				}
			}
		}
		r.Check(first, "C09.R2", fname(a.esend)+":nil-check-first", "every call in the dispatcher is behind the pid != nil check", w.fnPos(a.esend), "a call is reachable with a nil PID")
		w.checkRow(r, row{rule: "C09.R2", fn: a.esend, callee: w.evBroadcast("actor", "EngineRemoteMissingEvent"), name: "BroadcastEvent(EngineRemoteMissingEvent)",
			args:   []string{"P0", "lit:EngineRemoteMissingEvent{Message=P2,Sender=P3,Target=P1}"},
			why:    "A message for a foreign address on an engine without remote is dropped silently or misreported.",
			excuse: func(g *FG) []Edge { n, _, l, _, _, hr := w.dispatcherEdges(a, g); return append(append(n, l...), hr...) },
			only:   func(g *FG) []Edge { return noRemote }})
		w.checkRow(r, row{rule: "C09.R2", fn: a.esend, callee: a.evRemoteSend, name: "Remoter.Send", args: []string{"P0.remote", "P1", "P2", "P3"},
			why:    "A message for a foreign address is not handed to the remote unchanged.",
			excuse: func(g *FG) []Edge { n, _, l, _, nr, _ := w.dispatcherEdges(a, g); return append(append(n, l...), nr...) },
			only:   func(g *FG) []Edge { return intersectEdges(g, nonLocal, hasRemote) }})
		// isLocalMessage compares the engine address with the PID's address
		okL := true
		if a.eIsLocal == nil {
			_, _, l, _, _, _ := w.dispatcherEdges(a, g)
			okL = len(l) > 0
		}
		for _, in := range w.insOf(a.eIsLocal) {
			{
				if ret, ok := in.(*ssa.Return); ok {
					var leaves []ssa.Value
					phiLeaves(ret.Results[0], map[ssa.Value]bool{}, &leaves)
					for _, l := range leaves {
						p := w.pathOf(l)
						if p != "K:false" && p != "(P0.address==P1.Address)" && p != "(P1.Address==P0.address)" {
							okL = false
						}
					}
				}
			}
		}
		locSite := w.fnPos(a.esend)
		if a.eIsLocal != nil {
			locSite = w.fnPos(a.eIsLocal)
		}
		r.Check(okL, "C09.R2", "(*actor.Engine).isLocalMessage:address-compare", "a PID is local exactly when its Address equals the engine's address", locSite,
			"locality is decided by something else than pid.Address == engine address")
	}
	// SendLocal skips the nil and address tests: only the dispatcher (behind those tests), the pill sender (the same, with
	// the tests of Poison/Stop) and the remote's inbound reader (the address was resolved by the sender) may enter it
	{
		allowed := map[*ssa.Function]bool{a.esend: true, a.eSendLocal: true}
		if f := w.Method("actor", "Engine", "sendPoisonPill"); f != nil {
			allowed[f] = true
		}
		var odd []string
		n := 0
		for _, fn := range w.Funcs {
			if !w.isLib(fn) {
				continue
			}
			for _, ci := range w.callsIn(fn, Ev{Name: "SendLocal", M: EvCall("SendLocal", a.eSendLocal).M, Shallow: true}) {
				n++
				for _, rt := range w.inlineRoots(fn) {
					top := rt
					for top.Parent() != nil {
						top = top.Parent()
					}
					if allowed[top] || (top.Pkg != nil && top.Pkg.Pkg.Name() == "remote") {
						continue
					}
					odd = append(odd, fname(rt)+" at "+w.pos(ci.Pos()))
				}
			}
		}
		r.Check(len(odd) == 0 && n > 0, "C09.R2", fname(a.eSendLocal)+":callers", "SendLocal (no nil test, no address test) is entered only from the dispatcher, the pill sender and the remote's inbound reader", w.fnPos(a.eSendLocal),
			"also called by "+strings.Join(odd, "; ")+": a nil or foreign PID reaches the registry lookup and is reported as a dead letter (or delivered to a local actor of the same id) instead of EngineRemoteMissingEvent")
	}
	// a message for an id that is no longer registered must see "not found" (the dead-letter branch)
	checkRegistryAnswers(w, r, "C09.R2", a)
	// R3: exported API with *PID parameters
	pidT := w.Named("actor", "PID")
	api := map[string][]string{
		"Engine":   {"Send", "SendWithSender", "SendLocal", "Stop", "Poison", "PoisonCtx", "Subscribe", "Unsubscribe", "Request", "SendRepeat", "BroadcastEvent"},
		"Context":  {"Send", "Forward", "Respond", "SendRepeat", "Request"},
		"Registry": {"get"},
	}
	for _, typ := range []string{"Context", "Engine", "Registry"} {
		for _, m := range api[typ] {
			fn := w.Method("actor", typ, m)
			if fn == nil {
				r.Unknown("C09.R3", typ+"."+m, "exported API exists", "-", "method not found")
				continue
			}
			for i, p := range fn.Params {
				pt, ok := p.Type().(*types.Pointer)
				if !ok || i == 0 {
					continue
				}
				if n, ok := pt.Elem().(*types.Named); !ok || !sameNamed(n, pidT) {
					continue
				}
				key := fmt.Sprintf("%s.%s:param%d", typ, m, i)
				what := fmt.Sprintf("%s.%s never dereferences its *PID parameter %d unguarded", typ, m, i)
				if s := w.derefsParam(fn, i, 0, map[string]bool{}); s != nil {
					r.Fail("C09.R3", key, what, w.pos(s.pos), "a nil PID reaches a dereference via "+s.chain+": the caller panics")
				} else {
					r.OK("C09.R3", key, what, w.fnPos(fn))
				}
			}
		}
	}
	// R4 / R5
	es := w.Method("actor", "eventStream", "Receive")
	if es == nil {
		r.Unknown("C09.R4", "eventStream.Receive", "the event stream actor", "-", "not found")
		return
	}
	checkForwardLoop(w, r, es, a, "C09.R4")
	importRules(w, r, checkC12, "C12", "C09.R4", func(o *Obligation) bool { return o.Rule == "C12.R2" || o.Rule == "C12.R3" })
	r.Rule("C09.R6", "no path publishes two dead letters for one send; a send never runs the receiver on the caller's goroutine", 4)
	checkSingleDeadLetter(w, r, "C09.R6")
	checkSchedulerAsync(w, r, "C09.R6")
	// R8: the event stream calls Log() on every event before it forwards it: a Log that dereferences a *PID field that can
	// be nil (a sender-less message, a nil target) panics inside the event stream, the event reaches nobody
	r.Rule("C09.R8", "the Log methods of the events that report undeliverable messages use their *PID fields only through nil-safe methods or after a nil check", 1)
	checkEventLogNilSafe(w, r, "C09.R8")
	checkEventStreamNilSafe(w, r, "C09.R8")
	r.Rule("C09.R7", "the event reaches the subscribers through inbox rings whose element transfers are sound (C14.R2-R5); a stopping actor is unregistered before any user code runs, so a send that finds it gone dead-letters (C10.R6)", 8)
	importRules(w, r, checkC14, "C14", "C09.R7", func(o *Obligation) bool {
		return o.Rule == "C14.R1" || o.Rule == "C14.R2" || o.Rule == "C14.R3" || o.Rule == "C14.R4" || o.Rule == "C14.R5"
	})
	importRules(w, r, checkC10, "C10", "C09.R7", func(o *Obligation) bool { return o.Rule == "C10.R6" })
	if r.Prop == "C09" {
		// "delivered to every subscriber exactly once": the subscriber's batch loop delivers each element once (C01.R4), a
		// graceful stop drains from the pill on (C07.R3), a crash buffers from the cursor and the buffer is replayed once
		// (C05.R2/R3)
		importRules(w, r, checkC01, "C01", "C09.R7", func(o *Obligation) bool { return o.Rule == "C01.R4" })
		importRules(w, r, checkC07, "C07", "C09.R7", func(o *Obligation) bool { return o.Rule == "C07.R3" && strings.Contains(o.Key, "drain") })
		importRules(w, r, checkC05, "C05", "C09.R7", func(o *Obligation) bool {
			return o.Rule == "C05.R3" && strings.Contains(o.Key, "buffer-from-cursor") || o.Rule == "C05.R2" && (strings.Contains(o.Key, "replay-before-inbox") || strings.Contains(o.Key, "clears-replayed-buffer"))
		})
	}
	// the event stream's and the subscribers' inboxes wake up for every accepted event (C03.R1-R3, R7); an inbound
	// remote message keeps its own sender up to the dead letter (C15.R7)
	importRules(w, r, checkC03, "C03", "C09.R7", func(o *Obligation) bool {
		return o.Rule == "C03.R1" || o.Rule == "C03.R2" || o.Rule == "C03.R3" || o.Rule == "C03.R7"
	})
	importRules(w, r, checkC15, "C15", "C09.R7", func(o *Obligation) bool { return o.Rule == "C15.R7" })
	if w.mayDo(es, EvCall("BroadcastEvent", a.eBroadcast), 0) {
		r.Fail("C09.R5", "eventStream.Receive->BroadcastEvent", "forwarding an event can never synchronously publish another event", w.fnPos(es),
			"call path eventStream.Receive -> Context.Forward -> SendWithSender -> send -> SendLocal[registry miss] -> BroadcastEvent: a subscriber that stopped without unsubscribing turns every event into a dead letter, which is itself an event")
	} else {
		r.OK("C09.R5", "eventStream.Receive->BroadcastEvent", "forwarding an event can never synchronously publish another event", w.fnPos(es))
	}
}

func intersectEdges(g *FG, a, b []Edge) []Edge {
	// edges e of b such that e.from is only reachable via a (or vice versa): for the dispatcher the remote check
	// sits behind the locality check, so the has-remote edges suffice when they are dominated by a non-local edge.
	var out []Edge
	for _, e := range b {
		if g.OnlyVia(a, e.from) {
			out = append(out, e)
		}
	}
	return out
}

// checkForwardLoop: inside the range over the subscriber set there is exactly one Forward per iteration.
func checkForwardLoop(w *World, r *Report, es *ssa.Function, a *sendAnchors, rule string) {
	// the forwarding loop may live in a private helper of the event stream
	if h := w.holder(es, func(f *ssa.Function) bool { return len(w.callsIn(f, EvCall("Forward", a.cForward))) > 0 }); h != nil && h != es {
		// the helper is reached from Receive on every path that is neither a subscription nor an unsubscription
		eg := w.FGI(es)
		H := w.Nodes(eg, EvCall("helper", h), true)
		if anyOf(H) {
			es = h
		}
	}
	g := w.FGI(es)
	key := fname(es) + ":forward-each-subscriber"
	what := "the default case forwards the event once to every subscriber (no early exit)"
	sites := w.callsIn(es, EvCall("Forward", a.cForward))
	if len(sites) != 1 {
		r.Fail(rule, key, what, w.fnPos(es), fmt.Sprintf("%d Forward call sites in eventStream.Receive (expected exactly one, inside the loop over the subscribers)", len(sites)))
		return
	}
	ci := sites[0]
	n := g.idx[ci.(ssa.Instruction)]
	arg := w.pathOf(ci.Common().Args[1])
	var next *ssa.Next
	for _, in := range g.ins {
		if nx, ok := in.(*ssa.Next); ok && strings.Contains(w.pathOf(nx), ".subs") {
			next = nx
		}
	}
	// the element: the range value, or the map indexed with the range key (for k := range m { ... m[k] ... })
	elem := strings.HasPrefix(arg, "next(range(") && strings.Contains(arg, ".subs")
	if i := strings.Index(arg, "[next(range("); i > 0 && strings.HasSuffix(arg, "))#1]") && strings.HasSuffix(arg[:i], ".subs") && arg[i+len("[next(range("):len(arg)-len("))#1]")] == arg[:i] {
		elem = true
	}
	if next == nil || !elem || callKind(ci) != "call" {
		r.Fail(rule, key, what, w.pos(ci.Pos()), "Forward is not called with the element of a range over the subscriber set ("+arg+")")
		return
	}
	nn := g.idx[next]
	okE, _ := g.CondEdges(func(v ssa.Value) (bool, bool) {
		if e, ok := v.(*ssa.Extract); ok && e.Tuple == ssa.Value(next) && e.Index == 0 {
			return true, true
		}
		return false, false
	})
	ok := len(okE) > 0
	F := setOf(len(g.ins), n)
	for _, e := range okE {
		reach := g.reach([]int{e.to}, F, nil)
		if reach[nn] {
			ok = false
		}
		for _, x := range g.returns {
			if reach[x] {
				ok = false
			}
		}
	}
	// after a Forward the loop must come back to next (no break/return)
	if !g.After(n, setOf(len(g.ins), nn)) {
		ok = false
	}
	r.Check(ok, rule, key, what, w.pos(ci.Pos()), "an iteration can skip Forward, or the loop exits after forwarding before all subscribers were served")
}

// ---------------------------------------------------------------------------
// C10 — one live actor per id
// ---------------------------------------------------------------------------

func checkC10(w *World, r *Report) {
	r.Rule("C10.R1", "Registry.lookup is read under the read or write lock and written under the write lock; the lock is released on every exit", 4)
	r.Rule("C10.R2", "Registry.add: membership test and insert in one critical section; Start only on the inserted edge, outside the lock; the duplicate edge writes nothing, publishes ActorDuplicateIdEvent and never starts", 4)
	r.Rule("C10.R3", "only add, Remove and the constructor write Registry.lookup", 1)
	r.Rule("C10.R4", "Opts.Producer is run only by process.Start", 1)
	r.Rule("C10.R5", "GetPID(kind,id) looks up kind+separator+id with the separator newProcess uses; Context.GetPID looks up its argument", 3)
	a := w.sendAnchors()
	if m := a.missing(); m != "" {
		r.Unknown("C10.R1", "anchors", "resolve the registry API", "-", "missing: "+m)
		return
	}
	reg := w.Named("actor", "Registry")
	w.exportLock(r, "C10.R1", &lockSpec{named: reg, mutex: "mu", guarded: map[string]bool{"lookup": true}}, w.fnPos(a.regAdd))

	// R2
	checkRegistryAdd(w, r, "C10.R2", a)
	checkRemoveExact(w, r, "C10.R3", a)
	// R3
	{
		var writers []string
		for _, fn := range w.Funcs {
			if !w.isLib(fn) {
				continue
			}
			for _, in := range w.insOf(fn) {
				{
					wr := false
					switch x := in.(type) {
					case *ssa.MapUpdate:
						wr = strings.HasSuffix(w.pathOf(x.Map), ".lookup") && isRegistryMap(w, x.Map, reg)
					case *ssa.Call:
						if bi, ok := x.Call.Value.(*ssa.Builtin); ok && bi.Name() == "delete" {
							wr = isRegistryMap(w, x.Call.Args[0], reg)
						}
					case *ssa.Store:
						if fa, ok := x.Addr.(*ssa.FieldAddr); ok && isFieldOf(fa, reg, "lookup") {
							if _, fresh := fa.X.(*ssa.Alloc); !fresh {
								wr = true
							}
						}
					}
					if wr && fn != a.regAdd && fn != a.regRemove {
						// a fresh helper writes on behalf of its callers
						foreign := false
						for _, rt := range w.inlineRoots(fn) {
							if rt != a.regAdd && rt != a.regRemove {
								foreign = true
							}
						}
						if foreign {
							writers = append(writers, fname(fn))
						}
					}
				}
			}
		}
		r.Check(len(writers) == 0, "C10.R3", "Registry.lookup:writers", "only add and Remove (and the constructor) write the lookup table", w.fnPos(a.regAdd), fmt.Sprintf("other writers: %v", writers))
	}
	// Remove deletes pid.ID under the lock; get looks up pid.ID
	{
		g := w.FGI(a.regRemove)
		ok := false
		for _, in := range g.ins {
			if c, isC := in.(*ssa.Call); isC {
				if bi, isB := c.Call.Value.(*ssa.Builtin); isB && bi.Name() == "delete" && w.pathOf(c.Call.Args[0]) == "P0.lookup" && w.pathOf(c.Call.Args[1]) == "P1.ID" {
					ok = true
				}
			}
		}
		r.Check(ok, "C10.R5", fname(a.regRemove)+":deletes-pid.ID", "Remove deletes the entry keyed by pid.ID", w.fnPos(a.regRemove), "Remove does not delete lookup[pid.ID]: a stopped id can never be spawned again (or another id is evicted)")
		okG := false
		for _, in := range w.insOf(a.regGet) {
			{
				if lk, isL := in.(*ssa.Lookup); isL && w.pathOf(lk.X) == "P0.lookup" && w.pathOf(lk.Index) == "P1.ID" {
					okG = true
				}
			}
		}
		if !okG && a.regGetByID != nil {
			// get delegating to getByID(pid.ID), which looks up lookup[id]
			byID := false
			for _, in := range w.insOf(a.regGetByID) {
				if lk, isL := in.(*ssa.Lookup); isL && w.pathOf(lk.X) == "P0.lookup" && w.pathOf(lk.Index) == "P1" {
					byID = true
				}
			}
			for _, ci := range w.callsIn(a.regGet, EvCall("getByID", a.regGetByID)) {
				if c := ci.Common(); byID && w.pathOf(c.Args[0]) == "P0" && w.pathOf(c.Args[1]) == "P1.ID" {
					okG = true
				}
			}
		}
		r.Check(okG, "C10.R5", fname(a.regGet)+":looks-up-pid.ID", "get looks the process up by pid.ID", w.fnPos(a.regGet), "get does not look up lookup[pid.ID]")
	}
	checkRegistryAnswers(w, r, "C10.R5", a)
	checkOptionStores(w, r, "C10.R5", "WithID", "ID", "FV:id")
	{
		spawn := w.Method("actor", "Engine", "Spawn")
		spawnProc := w.Method("actor", "Engine", "SpawnProc")
		why := "The spawn wrappers must hand producer, kind and options through unchanged."
		w.checkRow(r, row{rule: "C10.R5", fn: w.Method("actor", "Engine", "SpawnFunc"), callee: EvCall("Spawn", spawn), name: "Engine.Spawn", args: []string{"P0", "call:actor.newFuncReceiver(P1)", "P2", "P3"}, why: why})
		w.checkRow(r, row{rule: "C10.R5", fn: w.Method("actor", "Context", "SpawnChildFunc"), callee: EvCall("SpawnChild", w.Method("actor", "Context", "SpawnChild")), name: "Context.SpawnChild", args: []string{"P0", "call:actor.newFuncReceiver(P1)", "P2", "P3"}, why: why})
		w.checkRow(r, row{rule: "C10.R5", fn: spawn, callee: EvCall("SpawnProc", spawnProc), name: "Engine.SpawnProc", args: []string{"P0", "re:call:actor\\.newProcess\\(P0,call:actor\\.DefaultOpts\\(P1\\)\\)"}, why: why})
		if spawn != nil {
			// kind stored, every option applied to the options being built
			sg := w.FGI(spawn)
			kind, opts := false, false
			for _, in := range sg.ins {
				if st, ok := in.(*ssa.Store); ok {
					if fa, ok := st.Addr.(*ssa.FieldAddr); ok {
						if name, _ := fieldName(fa); name == "Kind" && w.pathOf(st.Val) == "P2" {
							kind = true
						}
					}
				}
				if c, ok := in.(*ssa.Call); ok && c.Call.StaticCallee() == nil && !c.Call.IsInvoke() && strings.HasPrefix(w.pathOf(c.Call.Value), "P3[") && len(c.Call.Args) == 1 {
					opts = true
				}
			}
			r.Check(kind && opts, "C10.R5", "Engine.Spawn:kind-and-options", "Spawn records the kind and applies every option to the process options", w.fnPos(spawn), "the kind or the caller's options (WithID ...) are not applied to the spawned process")
		}
	}
	// R6: the id is released when the actor stops (even if its Stopped handler panics)
	r.Rule("C10.R6", "the stop function unregisters the actor on every path, before Stopped is delivered", 1)
	if pr := w.findProcRoles(); !pr.fail(r, "C10.R6") {
		sg := w.FGI(pr.stopFn)
		Rm := w.Nodes(sg, EvCall("Registry.Remove", a.regRemove), true)
		ok := sg.AfterEntry(Rm)
		for _, d := range members(w.Nodes(sg, pr.evDeliver(), false)) {
			if !sg.Before(Rm, d) {
				ok = false
			}
		}
		r.Check(ok, "C10.R6", fname(pr.stopFn)+":releases-id", "Registry.Remove(p.pid) precedes the Stopped delivery on every path of the stop function", w.fnPos(pr.stopFn),
			"a stopped actor whose Stopped handler panics stays registered: GetPID keeps answering and the id can never be spawned again")
		all := w.Nodes(sg, EvCall("Registry.Remove", a.regRemove), false)
		once, _ := sg.AtMostOnce(all)
		r.Check(once, "C10.R6", fname(pr.stopFn)+":releases-id-once", "the stop function removes the registry entry once (before Stopped), never again afterwards", w.fnPos(pr.stopFn),
			"Registry.Remove runs a second time (a deferred or trailing removal): Remove is by id, so if the id was spawned again while this actor handled Stopped the second removal evicts the live successor: it is alive but GetPID answers nil, and the id can be spawned a third time")
	}
	// (and not earlier than that: an id released while the actor still waits for its children can be spawned again
	// next to the old, still living incarnation)
	if r.Prop == "C10" {
		importRules(w, r, checkC08, "C08", "C10.R6", func(o *Obligation) bool { return o.Rule == "C08.R1" && strings.HasSuffix(o.Key, ":children-first") })
		// "after an actor has stopped its ID can be spawned again": a stop context that is done means the id is free
		// (C07.R2: cancel only with the inbox stopped, the actor unregistered and Stopped delivered)
		importRules(w, r, checkC07, "C07", "C10.R6", func(o *Obligation) bool { return o.Rule == "C07.R2" && strings.Contains(o.Key, "cancel-before-stopped") })
	}
	// R7: a process that was unregistered never comes back: it is not restarted after the budget
	// was exhausted and its inbox is not reopened after cleanup (it would run cleanup again and
	// remove the entry of the actor that took over the id)
	r.Rule("C10.R7", "after the stop function ran, the process is neither restarted nor is its inbox reopened, and its worker stops taking batches (C06.R1, C04.R4, typestate)", 3)
	importRules(w, r, checkC06, "C06", "C10.R7", func(o *Obligation) bool { return o.Rule == "C06.R1" && strings.Contains(o.Key, "exhausted-edge") })
	// (nor does its worker keep taking batches: a second pill would run the stop function again and unregister a successor)
	importRules(w, r, checkC04, "C04", "C10.R7", func(o *Obligation) bool { return strings.Contains(o.Key, "status-before-every-batch") })
	if pr := w.findProcRoles(); !pr.fail(r, "C10.R7") && pr.lta != nil {
		pr.lta.export(r, "C10.R7", []string{"inbox-started-after-cleanup", "inbox-reopened-by-worker"}, "the inbox of a process that ran its stop function is never started again")
	}
	// R8: the registry is the only authority on duplicates. ActorDuplicateIdEvent is published by Registry.add alone,
	// and every spawn entry point reaches Registry.add on all its paths (a shortcut that answers from some other
	// table refuses ids that are free again, or accepts ids that are taken).
	r.Rule("C10.R8", "only Registry.add publishes ActorDuplicateIdEvent; Spawn, SpawnFunc, SpawnProc and SpawnChild reach Registry.add on every path", 3)
	{
		evDup := w.evBroadcast("actor", "ActorDuplicateIdEvent")
		var others []string
		for _, fn := range w.Funcs {
			if !w.isLib(fn) || fn == a.regAdd || rootFn(fn) == a.regAdd {
				continue
			}
			if _, spliced := w.inlSites[fn]; spliced {
				continue
			}
			for _, ci := range w.callsIn(fn, evDup) {
				others = append(others, fname(fn)+" at "+w.pos(ci.Pos()))
			}
		}
		r.Check(len(others) == 0, "C10.R8", "ActorDuplicateIdEvent:publishers", "only Registry.add publishes ActorDuplicateIdEvent", w.fnPos(a.regAdd),
			fmt.Sprintf("also published by %v: a duplicate is declared without asking the registry", others))
		evAdd := EvCall("Registry.add", a.regAdd)
		for _, sp := range []struct{ typ, name string }{{"Engine", "Spawn"}, {"Engine", "SpawnFunc"}, {"Engine", "SpawnProc"}, {"Context", "SpawnChild"}} {
			fn := w.Method("actor", sp.typ, sp.name)
			if fn == nil {
				r.Unknown("C10.R8", sp.typ+"."+sp.name+":reaches-registry", "the spawn entry point exists", "-", "not found")
				continue
			}
			g := w.FGI(fn)
			r.Check(g.AfterEntry(w.Nodes(g, evAdd, true)), "C10.R8", sp.typ+"."+sp.name+":reaches-registry", sp.typ+"."+sp.name+" hands the process to Registry.add on every path", w.fnPos(fn),
				"a path through "+sp.name+" returns without Registry.add: the spawn is decided somewhere else than in the registry")
		}
	}
	// R4
	{
		pstart := w.Method("actor", "process", "Start")
		var callers []string
		n := 0
		for _, fn := range w.Funcs {
			if !w.isLib(fn) {
				continue
			}
			for _, in := range w.insOf(fn) {
				{
					if c := callOf(in); c != nil && !c.IsInvoke() && c.StaticCallee() == nil && strings.HasSuffix(w.pathOf(c.Value), ".Producer") {
						n++
						if fn != pstart {
							callers = append(callers, fname(fn))
						}
					}
				}
			}
		}
		r.Check(len(callers) == 0 && n > 0, "C10.R4", "Opts.Producer:callers", "the Producer is run only by process.Start (which only Registry.add and the restart path call)", w.fnPos(pstart),
			fmt.Sprintf("other callers of Opts.Producer: %v (sites=%d)", callers, n))
	}
	// R5
	{
		sep := ""
		np := w.Func("actor", "newProcess")
		if np != nil {
			for _, in := range w.insOf(np) {
				{
					if c := callOf(in); c != nil && c.StaticCallee() != nil && c.StaticCallee().Name() == "NewPID" && len(c.Args) == 2 {
						sep = w.pathOf(c.Args[1])
					}
				}
			}
		}
		want := strings.NewReplacer("P1.Kind", "P1", "P1.ID", "P2").Replace(sep)
		got := ""
		for _, ci := range w.callsIn(a.regGetPID, EvCall("getByID", a.regGetByID)) {
			got = w.pathOf(ci.Common().Args[1])
		}
		r.Check(sep != "" && got == want && strings.Contains(sep, `K:"`), "C10.R5", fname(a.regGetPID)+":key", "GetPID builds the id exactly as newProcess does (kind + separator + id)", w.fnPos(a.regGetPID),
			fmt.Sprintf("newProcess registers under %s but GetPID looks up %s", sep, got))
		okR := false
		if ok, _ := w.returnsOnly2(a.regGetPID, "re:call:Processer\\.PID\\(call:\\(\\*actor\\.Registry\\)\\.getByID\\(.*\\)\\)", "K:nil"); ok {
			okR = true
		}
		r.Check(okR, "C10.R5", fname(a.regGetPID)+":result", "GetPID returns the found process's PID, or nil", w.fnPos(a.regGetPID), "GetPID returns something else than the registered process's PID")
		// both GetPID variants: the PID is returned exactly on the found edge, nil on the other
		for _, gp := range []*ssa.Function{a.regGetPID, w.Method("actor", "Context", "GetPID")} {
			if gp == nil {
				continue
			}
			gg := w.FGI(gp)
			isNil, nonNil := w.nilEdges(gg, "re:call:\\(\\*actor\\.Registry\\)\\.getByID\\(.*\\)")
			okP := len(isNil) > 0 && len(nonNil) > 0
			for _, x := range gg.returns {
				p := w.pathOf(gg.ins[x].(*ssa.Return).Results[0])
				if strings.HasPrefix(p, "call:Processer.PID(") && !gg.OnlyVia(nonNil, x) {
					okP = false
				}
				if p == "K:nil" && !gg.OnlyVia(isNil, x) {
					okP = false
				}
			}
			r.Check(okP, "C10.R5", fname(gp)+":found-edge", "the PID is returned exactly when a process is registered under the id, nil otherwise", w.fnPos(gp),
				"GetPID answers nil for a registered id (or dereferences a missing entry)")
		}
		cg := w.Method("actor", "Context", "GetPID")
		okC := cg != nil
		if okC {
			okC = false
			for _, ci := range w.callsIn(cg, EvCall("getByID", a.regGetByID)) {
				if w.pathOf(ci.Common().Args[1]) == "P1" {
					okC = true
				}
			}
		}
		if okC {
			// ... and answers from that lookup alone (no shortcut for ids it thinks it knows: its own id is unregistered
			// from the Stopped handler on)
			if okR, p := w.returnsOnly2(cg, "K:nil", "re:^call:Processer\\.PID\\(call:\\(\\*actor\\.Registry\\)\\.getByID\\(.*,P1\\)\\)$"); !okR {
				okC = false
				_ = p
			}
		}
		r.Check(okC, "C10.R5", "Context.GetPID:key", "Context.GetPID looks up its argument in the engine's registry and returns what is registered there, or nil", w.fnPos(cg), "Context.GetPID does not look up its id argument, or answers from something else than the registry")
		// getByID reads lookup[id]
		okB := false
		for _, in := range w.insOf(a.regGetByID) {
			{
				if lk, isL := in.(*ssa.Lookup); isL && w.pathOf(lk.X) == "P0.lookup" && w.pathOf(lk.Index) == "P1" {
					okB = true
				}
			}
		}
		r.Check(okB, "C10.R5", fname(a.regGetByID)+":key", "getByID reads lookup[id]", w.fnPos(a.regGetByID), "getByID does not read lookup[id]")
	}
}

func isRegistryMap(w *World, m ssa.Value, reg *types.Named) bool {
	if u, ok := m.(*ssa.UnOp); ok {
		if fa, ok := u.X.(*ssa.FieldAddr); ok {
			return isFieldOf(fa, reg, "lookup")
		}
	}
	return false
}

// returnsOnly2: every return yields one of the alternatives.
func (w *World) returnsOnly2(fn *ssa.Function, alts ...string) (bool, string) {
	n := 0
	for _, in := range w.insOf(fn) {
		{
			if ret, ok := in.(*ssa.Return); ok && len(ret.Results) == 1 {
				n++
				p := w.pathOf(ret.Results[0])
				// a merged result phi(a|b) is fine when each alternative is
				parts := []string{p}
				if strings.HasPrefix(p, "phi(") && strings.HasSuffix(p, ")") {
					parts = splitTop(p[4:len(p)-1], '|')
				}
				for _, part := range parts {
					ok := false
					for _, a := range alts {
						if matchArg(a, part) {
							ok = true
						}
					}
					if !ok {
						return false, p
					}
				}
			}
		}
	}
	return n > 0, ""
}

// ---------------------------------------------------------------------------
// C11 — request / response
// ---------------------------------------------------------------------------

func checkC11(w *World, r *Report) {
	r.Rule("C11.R1", "Request registers the response process before it sends, sends with the response's PID as sender and returns that response", 3)
	r.Rule("C11.R2", "Respond sends to the sender of the current message", 1)
	r.Rule("C11.R3", "Result unregisters the response PID on every exit (deferred), waits on exactly {reply, timeout} and returns (reply,nil) / (nil,ctx.Err())", 2)
	r.Rule("C11.R4", "Response.Send hands the message to Result through a buffered channel created per response; the response PID is unique per request and is the registered one", 3)
	a := w.sendAnchors()
	if m := a.missing(); m != "" {
		r.Unknown("C11.R1", "anchors", "resolve the API", "-", "missing: "+m)
		return
	}
	newResp := w.Func("actor", "NewResponse")
	respT := w.Named("actor", "Response")
	result := w.Method("actor", "Response", "Result")
	rsend := w.Method("actor", "Response", "Send")
	rpid := w.Method("actor", "Response", "PID")
	if newResp == nil || respT == nil || result == nil || rsend == nil || rpid == nil {
		r.Unknown("C11.R1", "anchors", "resolve Response", "-", "NewResponse / Response.Result / Send / PID not found")
		return
	}
	// R1
	{
		g := w.FGI(a.eRequest)
		site := w.fnPos(a.eRequest)
		respPath := "call:actor.NewResponse(P0,P3)"
		okAdd := w.checkRow(r, row{rule: "C11.R1", fn: a.eRequest, callee: EvCall("Registry.add", a.regAdd), name: "Registry.add", args: []string{"P0.Registry", respPath},
			why: "The response process is not registered: the reply dead-letters."})
		okSend := w.checkRow(r, row{rule: "C11.R1", fn: a.eRequest, callee: EvCall("SendWithSender", a.eSWS), name: "Engine.SendWithSender",
			args: []string{"P0", "P1", "P2", "call:(*actor.Response).PID(" + respPath + ")"},
			why:  "The request does not carry the response PID as sender: the reply goes elsewhere (cross-talk) or nowhere."})
		if okAdd && okSend {
			A := w.Nodes(g, EvCall("Registry.add", a.regAdd), true)
			ok := true
			for _, ci := range w.callsIn(a.eRequest, EvCall("SendWithSender", a.eSWS)) {
				if !g.Before(A, g.idx[ci.(ssa.Instruction)]) {
					ok = false
				}
			}
			if ok2, why := w.returnsOnly(a.eRequest, respPath); !ok2 {
				ok = false
				_ = why
			}
			r.Check(ok, "C11.R1", fname(a.eRequest)+":register-send-return", "register, then send, then return the same response", site,
				"the request is sent before the response PID is registered (a fast reply dead-letters), or another Response is returned")
		}
	}
	// R2
	w.checkRow(r, row{rule: "C11.R2", fn: a.cRespond, callee: EvCall("Send", a.eSend), name: "Engine.Send", args: []string{"P0.engine", "P0.sender", "P1"},
		alts:   []rowAlt{{EvCall("send", a.esend), "send", []string{"P0.engine", "P0.sender", "P1", "K:nil"}}},
		why:    "The reply does not go to the requester.",
		excuse: func(g *FG) []Edge { n, _ := w.nilEdges(g, "P0.sender"); return n }})
	checkSenderFresh(w, r, "C11.R2")
	// R3
	{
		g := w.FGI(result)
		site := w.fnPos(result)
		// deferred closure removes r.pid on all its paths; the defer is registered before anything can block
		var dn []int
		okDefer := false
		for _, d := range g.defers {
			df := g.ins[d].(*ssa.Defer)
			var body *ssa.Function
			if mc, ok := df.Call.Value.(*ssa.MakeClosure); ok {
				body, _ = mc.Fn.(*ssa.Function)
			} else if f := df.Call.StaticCallee(); f != nil {
				body = f
			}
			evRem := EvCall("Registry.Remove", a.regRemove)
			if body != nil && w.inMod[body] {
				bg := w.FGI(body)
				if bg.AfterEntry(w.Nodes(bg, evRem, true)) {
					for _, ci := range w.callsIn(body, evRem) {
						if strings.HasSuffix(w.pathOf(ci.Common().Args[1]), ".pid") {
							okDefer = true
							dn = append(dn, d)
						}
					}
				}
			} else if evRem.M(df) && strings.HasSuffix(w.pathOf(df.Call.Args[1]), ".pid") {
				okDefer = true
				dn = append(dn, d)
			}
		}
		if okDefer {
			D := setOf(len(g.ins), dn...)
			for n, in := range g.ins {
				if _, isSel := in.(*ssa.Select); isSel && !g.Before(D, n) {
					okDefer = false
				}
			}
			for _, x := range g.returns {
				if !g.Before(D, x) {
					okDefer = false
				}
			}
		}
		r.Check(okDefer, "C11.R3", fname(result)+":deferred-Remove", "Registry.Remove(r.pid) is deferred before Result can block or return", site,
			"the temporary response PID stays registered on some exit (leak; a late reply blocks or is silently swallowed instead of dead-lettering)")
		// select shape
		var sel *ssa.Select
		nsel := 0
		for _, in := range g.ins {
			if s, ok := in.(*ssa.Select); ok {
				sel = s
				nsel++
			}
		}
		okSel := nsel == 1 && sel.Blocking && len(sel.States) == 2
		detail := "Result does not wait on exactly one blocking select with two receive cases"
		if okSel {
			var iRes, iDone = -1, -1
			for i, st := range sel.States {
				p := w.pathOf(st.Chan)
				if st.Dir != types.RecvOnly {
					okSel = false
				}
				if p == "P0.result" {
					iRes = i
				}
				if strings.HasPrefix(p, "call:Context.Done(call:context.WithTimeout(") && strings.Contains(p, "P0.timeout)#0") {
					iDone = i
					// the clock is the only thing that ends the wait early: the parent of the timeout context cannot be
					// cancelled (a context inherited from the requesting actor ends the wait before the timeout, or at once)
					parent := p[len("call:Context.Done(call:context.WithTimeout("):]
					if !strings.HasPrefix(parent, "call:context.Background(),") && !strings.HasPrefix(parent, "call:context.TODO(),") {
						okSel = false
						detail = "the timeout context derives from " + strings.SplitN(parent, ",", 2)[0] + ", not from context.Background(): when that context is cancelled (or has a shorter deadline) Result gives up before the timeout has passed, although a reply may still arrive in time"
					}
				}
			}
			if iRes < 0 || iDone < 0 {
				okSel = false
				detail = "the select does not receive from r.result and from the Done() channel of WithTimeout(_, r.timeout)"
			} else if okSel {
				// returns: on case iRes -> (received value, nil); on case iDone -> (nil, ctx.Err())
				caseEdges := func(i int) []Edge {
					pos, _ := g.CondEdges(func(v ssa.Value) (bool, bool) {
						b, ok := v.(*ssa.BinOp)
						if !ok || b.Op != token.EQL {
							return false, false
						}
						if e, ok := b.X.(*ssa.Extract); ok && e.Tuple == ssa.Value(sel) && e.Index == 0 && constStr(b.Y) == fmt.Sprint(i) {
							return true, true
						}
						return false, false
					})
					return pos
				}
				for _, x := range g.returns {
					rs := w.retPaths(g, x)
					viaRes := g.OnlyVia(caseEdges(iRes), x)
					viaDone := g.OnlyVia(caseEdges(iDone), x)
					switch {
					case viaRes && !viaDone:
						if len(rs) != 2 || !strings.HasPrefix(rs[0], "?*ssa.Select#") && !strings.Contains(rs[0], "select") || rs[1] != "K:nil" {
							okSel = false
							detail = fmt.Sprintf("on the reply case Result returns (%s) instead of (reply, nil)", strings.Join(rs, ", "))
						}
					case viaDone && !viaRes:
						if len(rs) != 2 || rs[0] != "K:nil" || !strings.HasPrefix(rs[1], "call:Context.Err(call:context.WithTimeout(") {
							okSel = false
							detail = fmt.Sprintf("on the timeout case Result returns (%s) instead of (nil, ctx.Err())", strings.Join(rs, ", "))
						}
					default:
						// unreachable default of the lowered select (panics) or a shared exit
						if len(rs) == 2 && (rs[0] != "K:nil" || rs[1] != "K:nil") {
							// shared exits must still be one of the two shapes
						}
					}
				}
			}
		}
		r.Check(okSel, "C11.R3", fname(result)+":select-shape", "Result blocks on {<-r.result, <-ctx.Done()} with ctx = WithTimeout(_, r.timeout) and returns (reply,nil) / (nil,ctx.Err())", site, detail)
	}
	// R4
	{
		g := w.FGI(rsend)
		ok := false
		n := 0
		blocking := false
		for _, in := range g.ins {
			if s, isS := in.(*ssa.Send); isS {
				n++
				blocking = true
				if w.pathOf(s.Chan) == "P0.result" && w.pathOf(s.X) == "P2" {
					ok = true
				}
			}
			if sel, isSel := in.(*ssa.Select); isSel {
				for _, st := range sel.States {
					if st.Dir == types.SendOnly {
						n++
						if sel.Blocking {
							blocking = true
						}
						if w.pathOf(st.Chan) == "P0.result" && w.pathOf(st.Send) == "P2" {
							ok = true
						}
					}
				}
			}
		}
		r.Check(ok && n == 1, "C11.R4", fname(rsend)+":result<-msg", "Response.Send sends its message parameter on r.result, once", w.fnPos(rsend),
			"the reply value handed to Result is not the message that was sent to the response PID")
		r.Check(!blocking, "C11.R4", fname(rsend)+":never-blocks", "Response.Send never blocks: a response resolves at most once, extra replies are dropped", w.fnPos(rsend),
			"a blocking send on the one-slot result channel: a responder (or a remote peer's stream reader) that replies twice before Result() is read blocks forever")
		// constructor
		okC, okP := false, false
		for _, in := range w.insOf(newResp) {
			{
				if al, isA := in.(*ssa.Alloc); isA {
					if n, _ := structOf(al.Type()); sameNamed(n, respT) {
						fs, lit := w.litFields(al)
						if lit {
							if mc, isM := fs["result"].(*ssa.MakeChan); isM {
								if k := constStr(mc.Size); k != "" && k != "0" {
									okC = true
								}
							}
							p := w.pathOf(fs["pid"])
							if strings.HasPrefix(p, "call:actor.NewPID(P0.address,") && strings.Contains(p, "math/rand") {
								okP = true
							}
							if w.pathOf(fs["timeout"]) != "P1" || w.pathOf(fs["engine"]) != "P0" {
								okC = false
							}
						}
					}
				}
			}
		}
		r.Check(okC, "C11.R4", "NewResponse:channel", "each Response owns a fresh buffered result channel (capacity >= 1) and carries the caller's timeout", w.fnPos(newResp),
			"the result channel is shared or unbuffered (a reply racing the timeout blocks the responder's worker forever), or the timeout is not the caller's")
		r.Check(okP, "C11.R4", "NewResponse:pid", "the response PID is local to the engine and random per request", w.fnPos(newResp),
			"response PIDs are not per-request: concurrent requests share a PID and steal each other's replies")
		if ok, why := w.returnsOnly(rpid, "P0.pid"); ok {
			r.OK("C11.R4", "Response.PID", "Response.PID returns the pid it was registered under", w.fnPos(rpid))
		} else {
			r.Fail("C11.R4", "Response.PID", "Response.PID returns the pid it was registered under", w.fnPos(rpid), why)
		}
	}
	checkResponseChanOpen(w, r, "C11.R4")
	// R5: "the reply reaches its own requester": the responder handles one message at a time (its Context.sender is the
	// sender of the message being handled), which is the single-worker protocol of C02
	r.Rule("C11.R5", "the responding actor runs one Receive at a time: worker token protocol (C02.R1-R4)", 6)
	importRules(w, r, checkC02, "C02", "C11.R5", func(o *Obligation) bool {
		return o.Rule == "C02.R1" || o.Rule == "C02.R2" || o.Rule == "C02.R3" || o.Rule == "C02.R4" || o.Rule == "C02.R6"
	})
	// R7: the reply travels like any message: whatever value Respond is given (a nil interface included) passes the
	// dispatcher to the local delivery or the remote (C01.R1, C09.R2), and a reply that crosses the wire is decoded into a
	// message of its own (C15.R8: a shared prototype would be overwritten by the next reply of that type)
	if r.Prop == "C11" {
		r.Rule("C11.R7", "the reply passes the dispatcher unconditionally (C01.R1/C09.R2 rows of Engine.send) and is decoded into a fresh message on the remote path (C15.R8)", 5)
		importRules(w, r, checkC01, "C01", "C11.R7", func(o *Obligation) bool {
			return o.Rule == "C01.R1" && strings.Contains(o.Key, ").send->")
		})
		importRules(w, r, checkC09, "C09", "C11.R7", func(o *Obligation) bool {
			return o.Rule == "C09.R2" && strings.Contains(o.Key, ").send->") || o.Rule == "C09.R1" || o.Rule == "C09.R6"
		})
		// (C09.R1/R6: the local delivery step does nothing but deliver or publish one dead letter: it takes no lock of
		// the registry across the hand-off and sends nothing back to the sender, which for a request is the response PID)
		importRules(w, r, checkC15, "C15", "C11.R7", func(o *Obligation) bool { return o.Rule == "C15.R8" || o.Rule == "C15.R7" })
	}
	// R6: when Result returns, the response PID is gone: Registry.Remove deletes under the write lock before it returns
	r.Rule("C11.R6", "Registry.Remove deletes the entry synchronously (under the lock, on every path, no goroutine)", 1)
	{
		g := w.FGI(a.regRemove)
		D := make([]bool, len(g.ins))
		async := false
		for i, in := range g.ins {
			if c, ok := in.(*ssa.Call); ok {
				if args, isD := isBuiltinCall(c, "delete"); isD && strings.HasSuffix(w.pathOf(args[0]), ".lookup") {
					D[i] = true
				}
			}
			if _, isGo := in.(*ssa.Go); isGo {
				async = true
			}
		}
		r.Check(g.AfterEntry(D) && !async, "C11.R6", fname(a.regRemove)+":synchronous", "Registry.Remove has deleted the entry when it returns", w.fnPos(a.regRemove),
			"Remove can return before the entry is gone (conditional or deferred to a goroutine): after Result() the response PID still swallows a late reply instead of dead-lettering it, and a stopped actor's id is not free yet")
	}
	checkRemoveExact(w, r, "C11.R6", a)
}

// retPaths renders the results of the return at node x, resolving result spills
// (`return *t0` with the store in the same block) to the stored value.
func (w *World) retPaths(g *FG, x int) []string {
	ret := g.ins[x].(*ssa.Return)
	var out []string
	for _, v := range ret.Results {
		if u, ok := v.(*ssa.UnOp); ok && u.Op == token.MUL {
			if al, ok := u.X.(*ssa.Alloc); ok {
				// last store to al on the straight line before x
				found := false
				for n := g.idx[u] - 1; n >= 0 && !found; n-- {
					if st, ok := g.ins[n].(*ssa.Store); ok && st.Addr == ssa.Value(al) {
						out = append(out, w.pathOf(st.Val))
						found = true
					}
					if len(g.pred[n]) != 1 && n != g.idx[u]-1 {
						// stop at joins
						if !found && len(g.pred[n]) > 1 {
							break
						}
					}
				}
				if found {
					continue
				}
			}
		}
		out = append(out, w.pathOf(v))
	}
	return out
}

// ---------------------------------------------------------------------------
// C12 — event stream
// ---------------------------------------------------------------------------

func checkC12(w *World, r *Report) {
	r.Rule("C12.R1", "Subscribe, Unsubscribe and BroadcastEvent all go through the one event-stream inbox, carrying the caller's PID / event", 3)
	r.Rule("C12.R2", "eventStream.Receive: eventSub inserts, eventUnsub deletes, with the same key built from msg.pid; everything else is forwarded", 3)
	r.Rule("C12.R3", "subscribers are identified by (address, id), never by pointer", 1)
	r.Rule("C12.R4", "the engine's lifecycle events are published on every occurrence", 7)
	a := w.sendAnchors()
	if m := a.missing(); m != "" {
		r.Unknown("C12.R1", "anchors", "resolve the API", "-", "missing: "+m)
		return
	}
	sub := w.Method("actor", "Engine", "Subscribe")
	unsub := w.Method("actor", "Engine", "Unsubscribe")
	es := w.Method("actor", "eventStream", "Receive")
	esT := w.Named("actor", "eventStream")
	if sub == nil || unsub == nil || es == nil || esT == nil {
		r.Unknown("C12.R1", "anchors", "resolve the event stream", "-", "Engine.Subscribe/Unsubscribe or eventStream.Receive not found")
		return
	}
	why := "Subscription changes and events would not be serialised by one inbox, or carry another PID."
	w.checkRow(r, row{rule: "C12.R1", fn: sub, callee: EvCall("Send", a.eSend), name: "Engine.Send", args: []string{"P0", "P0.eventStream", "lit:eventSub{pid=P1}"}, why: why,
		alts: []rowAlt{{EvCall("send", a.esend), "send", []string{"P0", "P0.eventStream", "lit:eventSub{pid=P1}", "K:nil"}}}})
	w.checkRow(r, row{rule: "C12.R1", fn: unsub, callee: EvCall("Send", a.eSend), name: "Engine.Send", args: []string{"P0", "P0.eventStream", "lit:eventUnsub{pid=P1}"}, why: why,
		alts: []rowAlt{{EvCall("send", a.esend), "send", []string{"P0", "P0.eventStream", "lit:eventUnsub{pid=P1}", "K:nil"}}}})
	w.checkRow(r, row{rule: "C12.R1", fn: a.eBroadcast, callee: EvCall("send", a.esend), name: "send", args: []string{"P0", "P0.eventStream", "P1", "K:nil"}, why: why,
		excuse: func(g *FG) []Edge { n, _ := w.nilEdges(g, "P0.eventStream"); return n }})

	// R2 / R3
	g := w.FGI(es)
	st, _ := esT.Underlying().(*types.Struct)
	var subsField *types.Var
	subsName := ""
	for i := 0; st != nil && i < st.NumFields(); i++ {
		if _, ok := st.Field(i).Type().Underlying().(*types.Map); ok {
			subsField, subsName = st.Field(i), pinnedFieldName(esT, st, i)
		}
		if p, ok := st.Field(i).Type().(*types.Pointer); ok {
			if n, ok := p.Elem().(*types.Named); ok && n.Obj().Name() == "PIDSet" {
				subsField, subsName = st.Field(i), pinnedFieldName(esT, st, i)
			}
		}
	}
	if subsField == nil {
		r.Unknown("C12.R3", "eventStream.subs:key-type", "the subscriber set", w.fnPos(es), "no map or PIDSet field in eventStream")
		return
	}
	if mt, ok := subsField.Type().Underlying().(*types.Map); ok {
		_, isPtr := mt.Key().Underlying().(*types.Pointer)
		_, isIface := mt.Key().Underlying().(*types.Interface)
		r.Check(!isPtr && !isIface, "C12.R3", "eventStream.subs:key-type", "the subscriber set is keyed by value (address, id)", w.fnPos(es),
			"the subscriber set is keyed by "+mt.Key().String()+": equal PIDs held in distinct objects are different subscribers (double delivery; Unsubscribe with an equal PID is a no-op)")
	} else {
		r.OK("C12.R3", "eventStream.subs:key-type", "the subscriber set is a PIDSet (keyed by address and id)", w.fnPos(es))
	}
	// case edges
	caseEdge := func(typ string) []Edge {
		pos, _ := g.CondEdges(func(v ssa.Value) (bool, bool) {
			p := w.pathOf(v)
			return true, strings.HasPrefix(p, "assert<actor."+typ+">(") && strings.HasSuffix(p, "#1")
		})
		return pos
	}
	subE, unsubE := caseEdge("eventSub"), caseEdge("eventUnsub")
	var insKey, delKey, insVal string
	var insKeyV ssa.Value
	var insN, delN []int
	for n, in := range g.ins {
		switch x := in.(type) {
		case *ssa.MapUpdate:
			if strings.HasSuffix(w.pathOf(x.Map), "."+subsName) {
				insKey, insVal = w.pathOf(x.Key), w.pathOf(x.Value)
				insKeyV = x.Key
				insN = append(insN, n)
			}
		case *ssa.Call:
			if bi, ok := x.Call.Value.(*ssa.Builtin); ok && bi.Name() == "delete" && strings.HasSuffix(w.pathOf(x.Call.Args[0]), "."+subsName) {
				delKey = w.pathOf(x.Call.Args[1])
				delN = append(delN, n)
			}
			if f := x.Call.StaticCallee(); f != nil && f.Signature.Recv() != nil && len(x.Call.Args) == 2 && strings.HasSuffix(w.pathOf(x.Call.Args[0]), "."+subsName) {
				switch f.Name() {
				case "Add":
					insKey, insVal = "set:"+w.pathOf(x.Call.Args[1]), w.pathOf(x.Call.Args[1])
					insN = append(insN, n)
				case "Remove":
					delKey = "set:" + w.pathOf(x.Call.Args[1])
					delN = append(delN, n)
				}
			}
		}
	}
	okSub := len(insN) == 1 && len(subE) > 0 && g.OnlyVia(subE, insN[0]) && g.After(subE[0].from, setOf(len(g.ins), insN...)) == false || (len(insN) == 1 && len(subE) > 0 && g.OnlyVia(subE, insN[0]))
	if okSub {
		// on the eventSub edge the insert happens on every path
		reach := reachFromEdges(g, subE, setOf(len(g.ins), insN...))
		for _, x := range g.returns {
			if reach[x] {
				okSub = false
			}
		}
		if !strings.Contains(insVal, "assert<actor.eventSub>(") || !strings.HasSuffix(insVal, "#0.pid") {
			okSub = false
		}
	}
	r.Check(okSub, "C12.R2", fname(es)+":eventSub-inserts", "the eventSub case inserts msg.pid into the subscriber set on every path", w.fnPos(es),
		"a subscription is dropped, or something else than the subscribing PID is stored")
	okUn := len(delN) == 1 && len(unsubE) > 0 && g.OnlyVia(unsubE, delN[0])
	if okUn {
		reach := reachFromEdges(g, unsubE, setOf(len(g.ins), delN...))
		for _, x := range g.returns {
			if reach[x] {
				okUn = false
			}
		}
	}
	r.Check(okUn, "C12.R2", fname(es)+":eventUnsub-deletes", "the eventUnsub case deletes from the subscriber set on every path", w.fnPos(es),
		"Unsubscribe does not remove the subscriber: it keeps receiving events")
	// same key shape on both sides, using both address and id of msg.pid
	norm := func(k, typ string) string { return strings.ReplaceAll(k, "assert<actor."+typ+">", "assert<MSG>") }
	sameKey := insKey != "" && norm(insKey, "eventSub") == norm(delKey, "eventUnsub")
	bothIn := func(p string) bool {
		return (strings.Contains(p, "GetAddress(") || strings.Contains(p, ".Address")) && (strings.Contains(p, "GetID(") || strings.Contains(p, ".ID"))
	}
	usesBoth := strings.HasPrefix(insKey, "set:") || bothIn(insKey)
	if !usesBoth && insKeyV != nil {
		// the key is built by a private helper: look at what the helper returns
		if c, isC := stripConv(insKeyV).(*ssa.Call); isC && c.Call.StaticCallee() != nil && w.inMod[c.Call.StaticCallee()] && len(c.Call.Args) == 1 && strings.HasSuffix(w.pathOf(c.Call.Args[0]), "#0.pid") {
			usesBoth = true
			for _, b := range c.Call.StaticCallee().Blocks {
				for _, in := range b.Instrs {
					if ret, isR := in.(*ssa.Return); isR && !bothIn(strings.ReplaceAll(w.pathOf(ret.Results[0]), "(P0)", "(P0.)")) && !bothIn(w.pathOf(ret.Results[0])) {
						usesBoth = false
					}
				}
			}
		}
	}
	r.Check(sameKey && usesBoth, "C12.R2", fname(es)+":same-key", "subscribe and unsubscribe build the key the same way, from both the address and the id of msg.pid", w.fnPos(es),
		fmt.Sprintf("insert key %s vs delete key %s", insKey, delKey))
	checkForwardLoop(w, r, es, a, "C12.R2")
	// forward only on the default edge (neither sub nor unsub)
	{
		ok := true
		for _, n := range members(w.Nodes(g, EvCall("Forward", a.cForward), false)) {
			if reachFromEdges(g, subE, nil)[n] || reachFromEdges(g, unsubE, nil)[n] {
				ok = false
			}
		}
		r.Check(ok, "C12.R2", fname(es)+":control-not-forwarded", "subscription control messages are not forwarded to subscribers", w.fnPos(es), "eventSub/eventUnsub leak to subscribers")
	}

	// R5: per-subscriber order is the order of the subscriber's inbox ring
	r.Rule("C12.R5", "events reach a subscriber through a ring whose element transfers respect the ring origin (C14.R2-R4) and a batch loop that visits elements in order (C01.R4)", 8)
	importRules(w, r, checkC14, "C14", "C12.R5", func(o *Obligation) bool {
		return o.Rule == "C14.R1" || o.Rule == "C14.R2" || o.Rule == "C14.R3" || o.Rule == "C14.R4" || o.Rule == "C14.R5"
	})
	r.Rule("C12.R7", "no event's Log method can panic in the event stream (the restarted stream would have lost every subscriber)", 1)
	checkEventLogNilSafe(w, r, "C12.R7")
	checkEventLogs(w, r, "C12.R7", nil)
	checkEventStreamNilSafe(w, r, "C12.R7")
	r.Rule("C12.R8", "package actor never subscribes or unsubscribes on an actor's behalf: a subscription ends only by the subscriber's own Unsubscribe", 1)
	{
		var callers []string
		for _, fn := range w.Funcs {
			if !w.isLib(fn) || fnPkgPath(fn) != modPath+"/actor" {
				continue
			}
			for _, api := range []string{"Subscribe", "Unsubscribe"} {
				m := w.Method("actor", "Engine", api)
				if m == nil || fn == m {
					continue
				}
				for _, ci := range w.callsIn(fn, EvCall(api, m)) {
					callers = append(callers, fname(fn)+" calls "+api+" at "+w.pos(ci.Pos()))
				}
			}
		}
		r.Check(len(callers) == 0, "C12.R8", "actor:no-implicit-subscription-change", "nothing in package actor calls Engine.Subscribe / Engine.Unsubscribe", "-",
			fmt.Sprintf("%v: an unsubscribe that the library issues for a PID (e.g. when an actor stops) is keyed by address and id and can remove the subscription of a successor spawned under the same id", callers))
	}
	r.Rule("C12.R6", "a duplicate spawn is detected in one critical section with the insert, so that every duplicate publishes ActorDuplicateIdEvent (C10.R2)", 4)
	importRules(w, r, checkC10, "C10", "C12.R6", func(o *Obligation) bool { return o.Rule == "C10.R2" || o.Rule == "C10.R8" })
	// an event that was accepted into the event stream's or a subscriber's inbox wakes that inbox up (C03.R1-R3, R7)
	importRules(w, r, checkC03, "C03", "C12.R5", func(o *Obligation) bool {
		return o.Rule == "C03.R1" || o.Rule == "C03.R2" || o.Rule == "C03.R3" || (o.Rule == "C03.R7" && strings.Contains(o.Key, "idle-writers"))
	})
	importRules(w, r, checkC01, "C01", "C12.R5", func(o *Obligation) bool { return o.Rule == "C01.R4" })
	// (and across a restart: the unprocessed rest of the batch is replayed before newer messages are taken)
	importRules(w, r, checkC05, "C05", "C12.R5", func(o *Obligation) bool {
		return o.Rule == "C05.R2" && (strings.Contains(o.Key, "replay-before-inbox") || strings.Contains(o.Key, "clears-replayed-buffer") || strings.Contains(o.Key, "restart-buffer-dropped")) ||
			o.Rule == "C05.R3" && strings.Contains(o.Key, "buffer-from-cursor")
	})
	// a subscriber that is poisoned gracefully handles what is queued behind the pill once, and nothing twice (C07.R3)
	importRules(w, r, checkC07, "C07", "C12.R5", func(o *Obligation) bool { return o.Rule == "C07.R3" && strings.Contains(o.Key, "drain") })
	// R4 lifecycle events
	pr := w.findProcRoles()
	if !pr.fail(r, "C12.R4") {
		type evOb struct {
			fn   *ssa.Function
			typ  string
			mode string
		}
		// Started: after the Started delivery in Start
		{
			sg := w.FGI(pr.start)
			E := w.Nodes(sg, w.evBroadcast("actor", "ActorStartedEvent"), true)
			var D []int
			for _, d := range members(w.Nodes(sg, pr.evDeliver(), false)) {
				// lifecycle deliveries, directly or through a helper; not the replay of buffered user messages, not the recover handler
				if _, isRD := sg.ins[d].(*ssa.RunDefers); isRD {
					continue
				}
				if c := callOf(sg.ins[d]); c != nil && c.StaticCallee() == pr.invoke {
					continue
				}
				D = append(D, d)
			}
			ok := len(D) >= 2 && anyOf(E)
			if ok {
				last := D[len(D)-1]
				for _, d := range D {
					if sg.reach(sg.succ[last], nil, nil)[d] && d != last {
						last = d
					}
				}
				// the event follows the last lifecycle delivery of Start on every normal path, with the process's pid
				if !sg.After(last, E) {
					ok = false
				}
				for _, e := range members(E) {
					_, fs, lit := w.structLit(callOf(sg.ins[e]).Args[1])
					if !lit || !strings.HasSuffix(w.pathOf(fs["PID"]), ".pid") {
						ok = false
					}
				}
			}
			r.Check(ok, "C12.R4", "ActorStartedEvent", "ActorStartedEvent{PID: p.pid} is published after Started was handled, on every start and restart", w.fnPos(pr.start), "a (re)start does not publish ActorStartedEvent for its own pid")
		}
		for _, o := range []evOb{{pr.stopFn, "ActorStoppedEvent", "all"}} {
			og := w.FGI(o.fn)
			E := w.Nodes(og, w.evBroadcast("actor", o.typ), true)
			ok := og.AfterEntry(E)
			for _, e := range members(w.Nodes(og, Ev{Name: "x", M: w.evBroadcast("actor", o.typ).M, Shallow: true}, false)) {
				_, fs, lit := w.structLit(callOf(og.ins[e]).Args[1])
				if !lit || !strings.HasSuffix(w.pathOf(fs["PID"]), ".pid") {
					ok = false
				}
			}
			r.Check(ok, "C12.R4", o.typ, o.typ+"{PID: p.pid} is published on every path of "+o.fn.Name(), w.fnPos(o.fn), "a stop does not publish "+o.typ+" for its own pid")
		}
		// Restarted / MaxRestartsExceeded: in the restart function, every counted restart / the exhausted edge
		{
			rg := w.FGI(pr.restartFn)
			E := w.Nodes(rg, w.evBroadcast("actor", "ActorRestartedEvent"), false)
			X := w.Nodes(rg, w.evBroadcast("actor", "ActorMaxRestartsExceededEvent"), false)
			okR := anyOf(E)
			for _, ci := range w.callsIn(pr.restartFn, EvCall("Start", pr.start)) {
				n := rg.idx[ci.(ssa.Instruction)]
				for _, pc := range pathClasses(w, rg, n) {
					key := fmt.Sprintf("ActorRestartedEvent:before-Start[%s]", pc.desc)
					r.Check(okR && pc.before(rg, E, n), "C12.R4", key, "every restart publishes ActorRestartedEvent before Start", w.pos(ci.Pos()),
						"this restart path publishes no ActorRestartedEvent")
				}
			}
			okX := anyOf(X)
			for _, ci := range w.callsIn(pr.restartFn, EvCall("stop", pr.stopFn)) {
				if !rg.Before(X, rg.idx[ci.(ssa.Instruction)]) {
					okX = false
				}
			}
			r.Check(okX, "C12.R4", "ActorMaxRestartsExceededEvent", "the budget exhaustion publishes ActorMaxRestartsExceededEvent before the actor is stopped", w.fnPos(pr.restartFn), "the actor is stopped at the budget without ActorMaxRestartsExceededEvent")
		}
		// DuplicateId / DeadLetter (two sites)
		{
			ag := w.FGI(a.regAdd)
			r.Check(anyOf(w.Nodes(ag, w.evBroadcast("actor", "ActorDuplicateIdEvent"), false)), "C12.R4", "ActorDuplicateIdEvent", "a duplicate spawn publishes ActorDuplicateIdEvent (edge-exactness: C10.R2)", w.fnPos(a.regAdd), "no ActorDuplicateIdEvent in Registry.add")
			lg := w.FGI(a.eSendLocal)
			miss, _ := w.registryEdges(lg)
			DL := w.Nodes(lg, w.evBroadcast("actor", "DeadLetterEvent"), true)
			ok := len(miss) > 0
			reach := reachFromEdges(lg, miss, DL)
			for _, x := range lg.returns {
				if reach[x] {
					ok = false
				}
			}
			r.Check(ok, "C12.R4", "DeadLetterEvent:SendLocal", "an undeliverable local send publishes DeadLetterEvent", w.fnPos(a.eSendLocal), "SendLocal's miss edge can return without DeadLetterEvent")
			spp := w.Method("actor", "Engine", "sendPoisonPill")
			if spp != nil {
				pg := w.FGI(spp)
				miss, _ := w.registryEdges(pg)
				DL := w.Nodes(pg, w.evBroadcast("actor", "DeadLetterEvent"), true)
				ok := len(miss) > 0
				reach := reachFromEdges(pg, miss, DL)
				for _, x := range pg.returns {
					if reach[x] {
						ok = false
					}
				}
				r.Check(ok, "C12.R4", "DeadLetterEvent:sendPoisonPill", "Stop/Poison of an unknown PID publishes DeadLetterEvent", w.fnPos(spp), "the miss edge of sendPoisonPill can return without DeadLetterEvent")
			}
		}
	}
}

// checkEventLogNilSafe: the event stream calls Log() on every event before it forwards it. A Log that dereferences a
// *PID field that can be nil panics inside the event stream: the event reaches nobody and the restarted stream has
// forgotten its subscribers.
func checkEventLogNilSafe(w *World, r *Report, rule string) {
		n := 0
		for _, tn := range []string{"DeadLetterEvent", "EngineRemoteMissingEvent"} {
			fn := w.Method("actor", tn, "Log")
			if fn == nil {
				continue
			}
			n++
			g := w.FGI(fn)
			ok := true
			detail := ""
			for i, in := range g.ins {
				var recvV ssa.Value
				var callee *ssa.Function
				switch x := in.(type) {
				case *ssa.Call:
					if cal := x.Call.StaticCallee(); cal != nil && len(x.Call.Args) > 0 && cal.Signature.Recv() != nil {
						recvV, callee = x.Call.Args[0], cal
					}
				case *ssa.FieldAddr:
					recvV = x.X
				}
				if recvV == nil {
					continue
				}
				pt, isPtr := recvV.Type().Underlying().(*types.Pointer)
				if !isPtr {
					continue
				}
				if nn, _ := pt.Elem().(*types.Named); nn == nil || nn.Obj().Name() != "PID" {
					continue
				}
				if w.nonNilAt(g, i, recvV) {
					continue
				}
				if callee != nil && w.derefsParam(callee, 0, 0, map[string]bool{}) == nil {
					continue // a nil-safe method (generated getter)
				}
				ok = false
				what := "field access"
				if callee != nil {
					what = fname(callee)
				}
				detail = w.pathOf(recvV) + " is used through " + what + " at " + w.pos(in.Pos()) + " without a nil check: an event about a message without sender (or with a nil target) panics in the event stream instead of reaching the subscribers"
			}
			r.Check(ok, rule, tn+".Log:nil-safe", tn+".Log tolerates nil Target / Sender", w.fnPos(fn), detail)
		}
		if n == 0 {
			r.OK(rule, "events:Log", "the undeliverable-message events have no Log method (nothing is dereferenced)", "-")
		}
}


// splitTop splits s at sep where the separator is not nested in parentheses, brackets or braces.
func splitTop(s string, sep byte) []string {
	var out []string
	depth, start := 0, 0
	for i := 0; i < len(s); i++ {
		switch s[i] {
		case '(', '[', '{':
			depth++
		case ')', ']', '}':
			depth--
		default:
			if s[i] == sep && depth == 0 {
				out = append(out, s[start:i])
				start = i + 1
			}
		}
	}
	return append(out, s[start:])
}

// checkRegistryAdd: the test-and-insert of Registry.add (C10.R2; C07 needs it too: the PID a duplicate spawn hands back must
// keep naming the live actor).
func checkRegistryAdd(w *World, r *Report, rule string, a *sendAnchors) {
	g := w.FGI(a.regAdd)
	site := w.fnPos(a.regAdd)
	var lookupN, insN []int
	for n, in := range g.ins {
		switch x := in.(type) {
		case *ssa.Lookup:
			if strings.HasSuffix(w.pathOf(x.X), ".lookup") {
				lookupN = append(lookupN, n)
			}
		case *ssa.MapUpdate:
			if strings.HasSuffix(w.pathOf(x.Map), ".lookup") {
				insN = append(insN, n)
			}
		}
	}
	unlock := make([]bool, len(g.ins))
	lock := make([]bool, len(g.ins))
	for n, in := range g.ins {
		if c := callOf(in); c != nil && c.StaticCallee() != nil && c.StaticCallee().Pkg != nil && c.StaticCallee().Pkg.Pkg.Path() == "sync" {
			switch c.StaticCallee().Name() {
			case "Unlock", "RUnlock":
				unlock[n] = true
			case "Lock":
				lock[n] = true
			}
		}
	}
	ok := len(lookupN) == 1 && len(insN) == 1
	if ok {
		// no unlock on any path from the membership test to the insert
		reach := g.reach(g.succ[lookupN[0]], unlock, nil)
		if !reach[insN[0]] {
			ok = false
		}
		// every path from test to insert avoids unlock: the insert is not reachable through an unlock
		through := g.reach(g.succ[lookupN[0]], setOf(len(g.ins), insN[0]), nil)
		for _, u := range members(unlock) {
			if through[u] && g.reach(g.succ[u], nil, nil)[insN[0]] {
				ok = false
			}
		}
		// the test is under the write lock
		if !g.Before(lock, lookupN[0]) {
			ok = false
		}
		// the key tested and the key inserted are the same, the value inserted is the process
		lk := g.ins[lookupN[0]].(*ssa.Lookup)
		mu := g.ins[insN[0]].(*ssa.MapUpdate)
		if w.pathOf(lk.Index) != w.pathOf(mu.Key) || w.pathOf(mu.Value) != "P1" || !strings.HasSuffix(w.pathOf(mu.Key), ".ID") {
			ok = false
		}
	}
	r.Check(ok, rule, fname(a.regAdd)+":check-and-insert-atomic", "the id is tested and inserted under one write-lock critical section, with the same key", site,
		"two concurrent spawns of one id can both pass the test (check and insert are separated by an unlock, or done under a read lock): two live actors answer to one id")
	// duplicate / inserted edges
	dup, fresh := g.CondEdges(func(v ssa.Value) (bool, bool) {
		if e, ok := v.(*ssa.Extract); ok && e.Index == 1 {
			if lk, ok := e.Tuple.(*ssa.Lookup); ok && strings.HasSuffix(w.pathOf(lk.X), ".lookup") {
				return true, true
			}
		}
		return false, false
	})
	evStart := EvInvoke("Processer.Start", w.IfaceMethod("actor", "Processer", "Start"))
	S := w.Nodes(g, evStart, false)
	okD := len(dup) > 0 && len(fresh) > 0
	dupReach := reachFromEdges(g, dup, nil)
	for _, n := range members(S) {
		if dupReach[n] || !g.OnlyVia(fresh, n) {
			okD = false
		}
		// Start outside the lock: an unlock precedes it on every path
		if !g.Before(unlock, n) {
			okD = false
		}
	}
	for _, n := range insN {
		if dupReach[n] || !g.OnlyVia(fresh, n) {
			okD = false
		}
	}
	r.Check(okD && anyOf(S), rule, fname(a.regAdd)+":start-only-if-inserted", "Start runs only on the inserted edge and after the lock was released; the duplicate edge neither writes nor starts", site,
		"a losing spawn starts a second actor (its Producer runs) or overwrites the existing entry; or Start runs under the registry lock (a Started handler that spawns deadlocks)")
	w.checkRow(r, row{rule: rule, fn: a.regAdd, callee: w.evBroadcast("actor", "ActorDuplicateIdEvent"), name: "BroadcastEvent(ActorDuplicateIdEvent)",
		args:   []string{"~.engine", "lit:ActorDuplicateIdEvent{PID=call:Processer.PID(P1)}"},
		why:    "A duplicate spawn is not reported (or reported for the wrong PID).",
		excuse: func(g *FG) []Edge { return fresh }, only: func(g *FG) []Edge { return dup }})
	// every lock is released on the duplicate edge before the event (BroadcastEvent sends to the event stream)
	okU := true
	for _, ci := range w.callsIn(a.regAdd, EvCall("BroadcastEvent", a.eBroadcast)) {
		if !g.Before(unlock, g.idx[ci.(ssa.Instruction)]) {
			okU = false
		}
	}
	r.Check(okU, rule, fname(a.regAdd)+":event-outside-lock", "the duplicate event is published after the lock was released", site, "BroadcastEvent runs under the registry lock")
}

// checkResponseChanOpen: a reply can arrive at any time (late, or a second one, from a local actor or from the remote's
// reader goroutine); Response.Send does a non-blocking send on the result channel. That is only safe while nobody
// ever closes that channel: a send on a closed channel panics, select/default or not.
func checkResponseChanOpen(w *World, r *Report, rule string) {
	resp := w.Named("actor", "Response")
	if resp == nil {
		r.Unknown(rule, "Response.result:never-closed", "the result channel of a Response is never closed", "-", "actor.Response not found")
		return
	}
	var closers []string
	for _, fn := range w.Funcs {
		if !w.isLib(fn) {
			continue
		}
		for _, in := range w.insOf(fn) {
			c, ok := in.(*ssa.Call)
			if !ok {
				continue
			}
			args, isClose := isBuiltinCall(c, "close")
			if !isClose || len(args) != 1 {
				continue
			}
			if ld, ok := w.resolve(args[0]).(*ssa.UnOp); ok {
				if fa, ok := ld.X.(*ssa.FieldAddr); ok {
					if _, n := fieldName(fa); sameNamed(n, resp) {
						closers = append(closers, fname(fn)+" at "+w.pos(c.Pos()))
					}
				}
			}
		}
	}
	r.Check(len(closers) == 0, rule, "Response.result:never-closed", "the result channel of a Response is never closed (late and surplus replies are sent to it without blocking)", w.fnPos(w.Method("actor", "Response", "Send")),
		"closed by "+strings.Join(closers, "; ")+": a reply that arrives afterwards (a late one, or the second of two) is a send on a closed channel and panics on the replier's goroutine — for a remote reply that is the stream handler, and the node dies")
}

// checkEventLogs: the event stream calls Log() on every event before it forwards it, on its own goroutine. A Log that
// can panic takes the event, and with the restart of the event stream every subscription, with it. Beyond the *PID
// fields (checkEventLogNilSafe), a Log method calls no method on an interface value it has not found non-nil (the
// result of errors.Unwrap, a field of type error or any), and does not panic explicitly.
func checkEventLogs(w *World, r *Report, rule string, only []string) {
	want := map[string]bool{}
	for _, n := range only {
		want[n] = true
	}
	nChecked := 0
	for _, fn := range w.Funcs {
		if !w.isLib(fn) || fn.Name() != "Log" || fn.Signature.Recv() == nil || fn.Synthetic != "" || fn.Signature.Results().Len() != 3 {
			continue
		}
		nt, _ := structOf(fn.Signature.Recv().Type())
		if nt == nil || (len(want) > 0 && !want[nt.Obj().Name()]) {
			continue
		}
		nChecked++
		g := w.FGI(fn)
		ok := true
		detail := ""
		for i, in := range g.ins {
			if _, isPanic := in.(*ssa.Panic); isPanic {
				ok, detail = false, "explicit panic at "+w.pos(in.Pos())
				continue
			}
			c := callOf(in)
			if c == nil || !c.IsInvoke() {
				continue
			}
			v := c.Value
			if w.nonNilAt(g, i, v) {
				continue
			}
			// the value of a successful comma-ok assertion to an interface type is not nil
			if ex, isE := v.(*ssa.Extract); isE && ex.Index == 0 {
				if ta, isT := ex.Tuple.(*ssa.TypeAssert); isT && ta.CommaOk {
					okEdges, _ := g.CondEdges(func(cv ssa.Value) (bool, bool) {
						e2, isE2 := cv.(*ssa.Extract)
						return true, isE2 && e2.Index == 1 && e2.Tuple == ssa.Value(ta)
					})
					if len(okEdges) > 0 && g.OnlyVia(okEdges, i) {
						continue
					}
				}
			}
			ok = false
			detail = w.pathOf(v) + "." + c.Method.Name() + "() at " + w.pos(in.Pos()) + " is called on an interface value that may be nil: the event stream panics on that event, the event is lost and the restarted event stream has no subscribers"
		}
		r.Check(ok, rule, nt.Obj().Name()+".Log:cannot-panic", nt.Obj().Name()+".Log calls no method on a possibly nil interface value and does not panic", w.fnPos(fn), detail)
	}
	if nChecked == 0 && len(want) > 0 {
		r.OK(rule, "events:Log:cannot-panic", "the events in question have no Log method", "-")
	}
}

// checkRemoveExact: Remove(pid) removes the entry of pid.ID and nothing else: one delete per call, keyed by the id of the
// PID given (no sweep over "related" ids: ids are opaque strings, two unrelated actors may share a prefix).
func checkRemoveExact(w *World, r *Report, rule string, a *sendAnchors) {
	g := w.FGI(a.regRemove)
	D := make([]bool, len(g.ins))
	okK := true
	var other []string
	for i, in := range g.ins {
		c, ok := in.(*ssa.Call)
		if !ok {
			continue
		}
		if args, isD := isBuiltinCall(c, "delete"); isD && strings.HasSuffix(w.pathOf(args[0]), ".lookup") {
			D[i] = true
			if kp := w.pathOf(args[1]); kp != "P1.ID" && kp != "call:(*actor.PID).GetID(P1)" {
				okK = false
				other = append(other, kp+" at "+w.pos(c.Pos()))
			}
		}
		if args, isC := isBuiltinCall(c, "clear"); isC && strings.HasSuffix(w.pathOf(args[0]), ".lookup") {
			okK = false
			other = append(other, "clear at "+w.pos(c.Pos()))
		}
	}
	once, _ := g.AtMostOnce(D)
	r.Check(okK && once && anyOf(D), rule, fname(a.regRemove)+":only-that-entry", "Registry.Remove deletes exactly the entry of the given PID's id (one delete per call, no other key)", w.fnPos(a.regRemove),
		fmt.Sprintf("Remove also deletes other entries %v (or deletes in a loop): a live actor whose id merely resembles the removed one loses its registration", other))
}

// checkEventStreamNilSafe: Subscribe(nil) / Unsubscribe(nil) reach the event stream as eventSub{nil} / eventUnsub{nil}.
// The PID a subscription message carries is used only through nil-safe methods, after a nil test, or as a plain value
// (stored, compared, forwarded to a callee that does not dereference it). A panic here restarts the event stream with
// an empty subscriber table: every subscription is lost.
func checkEventStreamNilSafe(w *World, r *Report, rule string) {
	es := w.Method("actor", "eventStream", "Receive")
	if es == nil {
		r.Unknown(rule, "eventStream.Receive:nil-pid", "the event stream tolerates a nil PID in (un)subscriptions", "-", "eventStream.Receive not found")
		return
	}
	g := w.FGFlat(es)
	ok := true
	detail := ""
	for i, in := range g.ins {
		if g.inl != nil && g.inl[i] {
			continue
		}
		var recvV ssa.Value
		var callee *ssa.Function
		argIdx := -1
		switch x := in.(type) {
		case *ssa.Call:
			if cal := x.Call.StaticCallee(); cal != nil {
				for ai, av := range x.Call.Args {
					if isPIDPtr(av.Type()) && strings.Contains(w.pathOf(av), ".pid") {
						recvV, callee, argIdx = av, cal, ai
					}
				}
			}
		case *ssa.FieldAddr:
			if isPIDPtr(x.X.Type()) && strings.Contains(w.pathOf(x.X), ".pid") {
				recvV = x.X
			}
		}
		if recvV == nil || w.nonNilAt(g, i, recvV) {
			continue
		}
		if callee != nil {
			if !w.inMod[callee] && !w.inMod[origin(callee)] {
				continue
			}
			if w.derefsParam(callee, argIdx, 0, map[string]bool{}) == nil {
				continue
			}
		}
		ok = false
		what := "a field access"
		if callee != nil {
			what = fname(callee)
		}
		detail = w.pathOf(recvV) + " reaches " + what + " at " + w.pos(in.Pos()) + " without a nil test: Subscribe(nil) / Unsubscribe(nil) crash the event stream, which restarts without its subscribers"
	}
	r.Check(ok, rule, "eventStream.Receive:nil-pid", "the PID of a subscription message is only used nil-safely", w.fnPos(es), detail)
}

func isPIDPtr(t types.Type) bool {
	pt, ok := t.Underlying().(*types.Pointer)
	if !ok {
		return false
	}
	n, _ := pt.Elem().(*types.Named)
	return n != nil && n.Obj().Name() == "PID"
}

// checkRegistryAnswers: the registry has one source of truth. Whatever get / getByID return is nil or the entry the
// table holds under the asked id in this very call (read under the lock, C10.R1) - never a value remembered from an
// earlier call (a lookaside cache keeps answering with a process that was removed, or hides its successor).
func checkRegistryAnswers(w *World, r *Report, rule string, a *sendAnchors) {
	type fk struct {
		fn  *ssa.Function
		key string
	}
	var fns []fk
	if a.regGet != nil {
		fns = append(fns, fk{a.regGet, "P1.ID"})
	}
	if a.regGetByID != nil {
		fns = append(fns, fk{a.regGetByID, "P1"})
	}
	for _, f := range fns {
		g := w.FGI(f.fn)
		okA, where := true, ""
		n := 0
		accept := func(p string) bool {
			switch p {
			case "K:nil", "P0.lookup[" + f.key + "]", "P0.lookup[" + f.key + "]#0":
				return true
			}
			if a.regGetByID != nil && f.fn != a.regGetByID && p == "call:"+fname(a.regGetByID)+"(P0,"+f.key+")" {
				return true
			}
			return false
		}
		for _, rc := range g.retCases() {
			if len(rc.res) != 1 {
				continue
			}
			n++
			p := w.pathOf(rc.res[0])
			alts := []string{p}
			if strings.HasPrefix(p, "phi(") && strings.HasSuffix(p, ")") {
				alts = splitTop(p[4:len(p)-1], '|')
			}
			for _, alt := range alts {
				if !accept(alt) {
					okA, where = false, w.pos(g.ins[rc.x].Pos())+" returns "+alt
				}
			}
		}
		if n == 0 {
			r.Unknown(rule, fname(f.fn)+":answers-from-the-table", "the lookup function returns a process", w.fnPos(f.fn), "no return found")
			continue
		}
		r.Check(okA, rule, fname(f.fn)+":answers-from-the-table", "every answer is nil or the entry the table holds under the asked id in this call", w.fnPos(f.fn),
			where+": not read from the table in this call. A remembered answer outlives Remove (messages go to a stopped process and are never dead-lettered) and hides a successor that took the id")
	}
}
