package main

// C14.R5 — ring index arithmetic, decided symbolically for affine forms.
//
// Positions are parsed into affine terms over the symbols H (the ring origin: the head field, and
// the tail field on the path where `tail == head` is a known fact), M (the mod field and
// len(items)), I (a 0,1,2,... induction variable) and opaque symbols (any other value, by access
// path); `% M` makes a term "known modulo M". The rule compares terms, it solves nothing:
//
//   grow  : every transfer old -> new satisfies  src - dst == H - newHead (mod M); the segments of a
//           copy-form transfer tile [0,M); the new tail is newHead + M exactly; new mod is the
//           length of the new buffer.
//   PopN  : result[d] = items[s] with s - d == H + 1 (mod M); head becomes H + count (mod M) where
//           count is the length of the result.
//   Pop   : head becomes H + 1 (mod M) and the element is read at the new head.
//
// A position that does not parse (non-affine, unknown form) is *not decided* and does not fail:
// this rule adds precision where the arithmetic is visible, C14.R4 stays the fail-closed condition.

import (
	"fmt"
	"go/token"
	"sort"
	"strings"

	"golang.org/x/tools/go/ssa"
)

type affine struct {
	coef map[string]int64
	c    int64
	modM bool // only known modulo M
}

func (a *affine) String() string {
	var ks []string
	for k, v := range a.coef {
		if v != 0 {
			ks = append(ks, fmt.Sprintf("%+d*%s", v, k))
		}
	}
	sort.Strings(ks)
	s := strings.Join(ks, "") + fmt.Sprintf("%+d", a.c)
	if a.modM {
		s += " (mod M)"
	}
	return s
}

func affConst(c int64) *affine   { return &affine{coef: map[string]int64{}, c: c} }
func affSym(s string) *affine    { return &affine{coef: map[string]int64{s: 1}} }
func (a *affine) clone() *affine {
	b := &affine{coef: map[string]int64{}, c: a.c, modM: a.modM}
	for k, v := range a.coef {
		b.coef[k] = v
	}
	return b
}
func (a *affine) add(b *affine, sign int64) *affine {
	r := a.clone()
	for k, v := range b.coef {
		r.coef[k] += sign * v
	}
	r.c += sign * b.c
	r.modM = a.modM || b.modM
	return r
}
func (a *affine) scale(k int64) *affine {
	r := a.clone()
	for s := range r.coef {
		r.coef[s] *= k
	}
	r.c *= k
	return r
}
func (a *affine) isConst() (int64, bool) {
	for _, v := range a.coef {
		if v != 0 {
			return 0, false
		}
	}
	return a.c, !a.modM
}

// congruent: a == b modulo M (multiples of M dropped).
func congruent(a, b *affine) bool {
	d := a.add(b, -1)
	for k, v := range d.coef {
		if k != "M" && v != 0 {
			return false
		}
	}
	return d.c == 0
}

// equalExact: a == b as integers (neither side reduced modulo M).
func equalExact(a, b *affine) bool {
	if a.modM || b.modM {
		return false
	}
	d := a.add(b, -1)
	for _, v := range d.coef {
		if v != 0 {
			return false
		}
	}
	return d.c == 0
}

type affCtx struct {
	masked   []string // positions reduced with `& (size-1)` instead of `% size`
	w        *World
	g        *FG
	tailIsH  bool                 // the tail field reads as H (grow path: tail == head)
	override map[ssa.Value]*affine // e.g. a head load that follows the head store
}

func (c *affCtx) parse(v ssa.Value, depth int) *affine {
	if depth > 12 || v == nil {
		return nil
	}
	v = stripConv(v)
	if a, ok := c.override[v]; ok {
		return a
	}
	switch x := v.(type) {
	case *ssa.Const:
		if x.Value == nil {
			return nil
		}
		if s := constStr(x); s != "" {
			var n int64
			if _, err := fmt.Sscanf(s, "%d", &n); err == nil {
				return affConst(n)
			}
		}
		return nil
	case *ssa.UnOp:
		if x.Op == token.MUL {
			if fa, ok := x.X.(*ssa.FieldAddr); ok {
				name, _ := fieldName(fa)
				switch name {
				case "head":
					return affSym("H")
				case "tail":
					if c.tailIsH {
						return affSym("H")
					}
					return affSym("T")
				case "mod":
					return affSym("M")
				}
			}
		}
		if x.Op == token.SUB {
			if a := c.parse(x.X, depth+1); a != nil {
				return a.scale(-1)
			}
		}
	case *ssa.Call:
		if args, ok := isBuiltinCall(x, "len"); ok && strings.HasSuffix(c.w.pathOf(args[0]), ".items") {
			return affSym("M")
		}
		// n := copy(dst, src[lo:hi]) is hi-lo when dst is the whole freshly made buffer, which is at least as long as the old one
		if args, ok := isBuiltinCall(x, "copy"); ok && len(args) == 2 {
			if ms, isMS := stripConv(args[0]).(*ssa.MakeSlice); isMS {
				if sz := c.parse(ms.Len, depth+1); sz != nil && !sz.modM && sz.c >= 0 && sz.coef["M"] >= 1 && len(sz.coef) == 1 {
					base, lo, hi := sliceOf(args[1])
					if strings.HasSuffix(c.w.pathOf(base), ".items") {
						l, h := affConst(0), affSym("M")
						if lo != nil {
							l = c.parse(lo, depth+1)
						}
						if hi != nil {
							h = c.parse(hi, depth+1)
						}
						if l != nil && h != nil {
							return h.add(l, -1)
						}
					}
				}
			}
		}
	case *ssa.BinOp:
		switch x.Op {
		case token.ADD, token.SUB:
			if ascendingFromZero(x) {
				return affSym("I")
			}
			a, b := c.parse(x.X, depth+1), c.parse(x.Y, depth+1)
			if a == nil || b == nil {
				return nil
			}
			if x.Op == token.ADD {
				return a.add(b, 1)
			}
			return a.add(b, -1)
		case token.MUL:
			a, b := c.parse(x.X, depth+1), c.parse(x.Y, depth+1)
			if a == nil || b == nil {
				return nil
			}
			if k, ok := a.isConst(); ok {
				return b.scale(k)
			}
			if k, ok := b.isConst(); ok {
				return a.scale(k)
			}
			return nil
		case token.SHL:
			a, b := c.parse(x.X, depth+1), c.parse(x.Y, depth+1)
			if a == nil || b == nil {
				return nil
			}
			if k, ok := b.isConst(); ok && k >= 0 && k < 32 {
				return a.scale(int64(1) << uint(k))
			}
			return nil
		case token.AND:
			// x & (M-1): a modulo only when M is a power of two
			for _, pair := range [][2]ssa.Value{{x.X, x.Y}, {x.Y, x.X}} {
				if m := c.parse(pair[1], depth+1); m != nil && equalExact(m, affSym("M").add(affConst(1), -1)) {
					c.masked = append(c.masked, c.w.pathOf(x))
					if a := c.parse(pair[0], depth+1); a != nil {
						r := a.clone()
						r.modM = true
						return r
					}
				}
			}
			return nil
		case token.REM:
			a, m := c.parse(x.X, depth+1), c.parse(x.Y, depth+1)
			if a == nil || m == nil || !equalExact(m, affSym("M")) {
				return nil
			}
			r := a.clone()
			r.modM = true
			return r
		}
		return nil
	case *ssa.Phi:
		if ascendingFromZero(x) {
			return affSym("I")
		}
		// a second induction variable advanced once per iteration: p = phi(init, (p + k) [% M])
		// reads init + k*I in the body (I = 0-based iteration index), provided the loop's counter
		// lives in the same header block
		if len(x.Edges) == 2 && c.hasCounterIn(x.Block()) {
			for i := 0; i < 2; i++ {
				init := c.parse(x.Edges[i], depth+1)
				step := stripConv(x.Edges[1-i])
				mod := false
				if b, ok := step.(*ssa.BinOp); ok && b.Op == token.REM {
					if m := c.parse(b.Y, depth+1); m != nil && equalExact(m, affSym("M")) {
						step, mod = stripConv(b.X), true
					}
				}
				b, ok := step.(*ssa.BinOp)
				if !ok || init == nil || (b.Op != token.ADD && b.Op != token.SUB) {
					continue
				}
				var k *affine
				if stripConv(b.X) == ssa.Value(x) {
					k = c.parse(b.Y, depth+1)
				} else if stripConv(b.Y) == ssa.Value(x) && b.Op == token.ADD {
					k = c.parse(b.X, depth+1)
				}
				if k == nil {
					continue
				}
				kc, isK := k.isConst()
				if !isK {
					continue
				}
				if b.Op == token.SUB {
					kc = -kc
				}
				r := init.add(affSym("I").scale(kc), 1)
				r.modM = r.modM || mod
				return r
			}
		}
	}
	// anything else: an opaque symbol named by its access path (exact, not modulo)
	p := c.w.pathOf(v)
	if p == "" || strings.HasPrefix(p, "?") {
		return nil
	}
	return affSym("v:" + p)
}

// ringSizesArePowersOfTwo: every buffer size the ring can have is a power of two by construction: New rounds
// or rejects its argument (not the case on the pinned tree: any size is accepted).
func ringSizesArePowersOfTwo(w *World) bool {
	nw := w.Func("ringbuffer", "New")
	if nw == nil {
		return false
	}
	for _, in := range w.insOf(nw) {
		if b, ok := in.(*ssa.BinOp); ok && (b.Op == token.AND || b.Op == token.SHL) {
			return true // some bit arithmetic on the size: assume a rounding/validation (fail-open only for New itself)
		}
		if c := callOf(in); c != nil && c.StaticCallee() != nil && strings.Contains(c.StaticCallee().String(), "math/bits") {
			return true
		}
	}
	return false
}

func checkRingRotation(w *World, r *Report, rule string) {
	push := w.Method("ringbuffer", "RingBuffer", "Push")
	pop := w.Method("ringbuffer", "RingBuffer", "Pop")
	popn := w.Method("ringbuffer", "RingBuffer", "PopN")
	bufT := w.Named("ringbuffer", "buffer")
	if push == nil || pop == nil || popn == nil || bufT == nil {
		r.Unknown(rule, "ring", "ring buffer methods", "-", "not found")
		return
	}
	isOldItems := func(v ssa.Value) bool { return strings.HasSuffix(w.pathOf(v), ".items") }
	checkRingNormalised(w, r, rule, []*ssa.Function{push, pop, popn}, nil)
	// positions are reduced with `% size`; `& (size-1)` is the same only for power-of-two sizes
	{
		var masked []string
		for _, fn := range []*ssa.Function{push, pop, popn} {
			g := w.FGI(fn)
			cx := &affCtx{w: w, g: g}
			for _, in := range g.ins {
				if b, ok := in.(*ssa.BinOp); ok && b.Op == token.AND {
					cx.masked = nil
					cx.parse(b, 0)
					if len(cx.masked) > 0 {
						masked = append(masked, fn.Name()+": "+w.pos(b.Pos()))
					}
				}
			}
		}
		if len(masked) > 0 && !ringSizesArePowersOfTwo(w) {
			r.Fail(rule, "RingBuffer:modulo-not-mask", "ring positions are reduced modulo the size", w.fnPos(push),
				"positions are masked with size-1 ("+strings.Join(masked, ", ")+") but New accepts any size: for a size that is not a power of two the mask is not a modulo, slots are skipped and overwritten")
		} else {
			r.OK(rule, "RingBuffer:modulo-not-mask", "ring positions are reduced modulo the size (or masked, with sizes forced to powers of two)", w.fnPos(push))
		}
	}
	verdict := func(key, what, site string, decided bool, bad []string) {
		switch {
		case len(bad) > 0:
			r.Fail(rule, key, what, site, strings.Join(bad, "; "))
		case decided:
			r.OK(rule, key, what, site)
		default:
			r.OK(rule, key, what+" (form not affine: not decided here, see C14.R4)", site)
		}
	}
	// ---- grow
	{
		g := w.FGI(push)
		site := w.fnPos(push)
		key := "RingBuffer.Push:grow-is-a-rotation"
		what := "growing moves the element at old position p to new position newHead + (p - head) mod size; new tail = newHead + old size; new mod = len(new buffer)"
		var lit *ssa.Alloc
		for _, al := range w.allocsOf(push, bufT) {
			lit = al
		}
		if lit == nil {
			r.OK(rule, key, what+" (no reallocation in Push)", site)
		} else {
			fs, _ := w.litFields(lit)
			newItems := fs["items"]
			cx := &affCtx{w: w, g: g, tailIsH: true}
			newHead := affConst(0)
			if fs["head"] != nil {
				newHead = cx.parse(fs["head"], 0)
			}
			var bad []string
			decided := false
			if newHead != nil && newItems != nil {
				if _, isK := newHead.isConst(); isK {
					want := affSym("H").add(newHead, -1)
					type seg struct{ lo, hi *affine }
					var segs []seg
					copyForm := false
					for _, in := range g.ins {
						switch x := in.(type) {
						case *ssa.Store:
							ia, isIA := x.Addr.(*ssa.IndexAddr)
							if !isIA || w.pathOf(ia.X) != w.pathOf(newItems) {
								continue
							}
							ld, isLd := x.Val.(*ssa.UnOp)
							if !isLd {
								continue
							}
							sa, isSA := ld.X.(*ssa.IndexAddr)
							if !isSA || !isOldItems(sa.X) {
								continue
							}
							d, s := cx.parse(ia.Index, 0), cx.parse(sa.Index, 0)
							if d == nil || s == nil {
								continue
							}
							decided = true
							if !congruent(s.add(d, -1), want) {
								bad = append(bad, fmt.Sprintf("new[%s] = old[%s]: the offset between source and destination is %s, not the old head: elements come out rotated", d, s, s.add(d, -1)))
							}
						case *ssa.Call:
							args, isC := isBuiltinCall(x, "copy")
							if !isC || len(args) != 2 {
								continue
							}
							dBase, dLo, _ := sliceOf(args[0])
							sBase, sLo, sHi := sliceOf(args[1])
							if w.pathOf(dBase) != w.pathOf(newItems) || !isOldItems(sBase) {
								continue
							}
							copyForm = true
							d, s, h := affConst(0), affConst(0), affSym("M")
							if dLo != nil {
								d = cx.parse(dLo, 0)
							}
							if sLo != nil {
								s = cx.parse(sLo, 0)
							}
							if sHi != nil {
								h = cx.parse(sHi, 0)
							}
							if d == nil || s == nil || h == nil {
								segs = nil
								copyForm = false
								continue
							}
							decided = true
							segs = append(segs, seg{s, h})
							if !congruent(s.add(d, -1), want) {
								bad = append(bad, fmt.Sprintf("copy(new[%s:], old[%s:%s]): the offset between source and destination is %s, not the old head: the segment lands at the wrong place", d, s, h, s.add(d, -1)))
							}
						}
					}
					if copyForm && len(bad) == 0 {
						// the segments tile [0, M): chain them from 0
						cur := affConst(0)
						used := make([]bool, len(segs))
						for range segs {
							for i, sg := range segs {
								if !used[i] && equalExact(sg.lo, cur) {
									used[i] = true
									cur = sg.hi
									break
								}
							}
						}
						all := true
						for _, u := range used {
							all = all && u
						}
						if !all || !equalExact(cur, affSym("M")) {
							bad = append(bad, "the copied segments do not tile the old buffer [0, size): elements are lost or copied twice")
						}
					}
					// new tail and mod
					if t := cx.parse(fs["tail"], 0); t != nil && fs["tail"] != nil {
						decided = true
						if !equalExact(t, newHead.add(affSym("M"), 1)) {
							bad = append(bad, fmt.Sprintf("the new tail is %s, not newHead + old size: the pushed item overwrites an element or leaves a hole", t))
						}
					}
					if ms, isMS := stripConv(newItems).(*ssa.MakeSlice); isMS && fs["mod"] != nil {
						if w.pathOf(fs["mod"]) != w.pathOf(ms.Len) {
							bad = append(bad, "the new mod "+w.pathOf(fs["mod"])+" is not the length of the new buffer "+w.pathOf(ms.Len))
						}
					}
				}
			}
			verdict(key, what, site, decided, bad)
			// the new buffer is larger than the old one, whatever the old size (>= 1) is: k*M + c with k >= 2, c >= 0 or
			// k == 1, c >= 1. Anything else (M + M/2 stays 1 for M = 1) is not accepted: a "grown" buffer of the same
			// size leaves tail == head == out of range, and the Push panics with the lock held.
			if ms, isMS := stripConv(newItems).(*ssa.MakeSlice); isMS {
				sz := cx.parse(ms.Len, 0)
				larger := false
				detail := "the size of the new buffer, " + w.pathOf(ms.Len) + ", is not of the form k*size + c"
				if sz != nil && !sz.modM {
					k, onlyM := sz.coef["M"], true
					for sym, cf := range sz.coef {
						if sym != "M" && cf != 0 {
							onlyM = false
						}
					}
					if onlyM && ((k >= 2 && sz.c >= 0) || (k == 1 && sz.c >= 1)) {
						larger = true
					} else {
						detail = fmt.Sprintf("the size of the new buffer is %s: not larger than the old size for every size >= 1", sz)
					}
				}
				r.Check(larger, rule, "RingBuffer.Push:grow-enlarges", "the buffer allocated when the ring is full is strictly larger than the old one for every capacity >= 1", site,
					detail+": a ring of that capacity does not grow, the new tail index is out of range and Push panics with the lock held")
			}
		}
	}
	// ---- PopN
	{
		g := w.FGI(popn)
		site := w.fnPos(popn)
		cx := &affCtx{w: w, g: g}
		var bad []string
		decided := false
		var outLen ssa.Value
		for _, in := range g.ins {
			st, isSt := in.(*ssa.Store)
			if !isSt {
				continue
			}
			ia, isIA := st.Addr.(*ssa.IndexAddr)
			if !isIA {
				continue
			}
			ms, isMS := stripConv(ia.X).(*ssa.MakeSlice)
			if !isMS {
				continue
			}
			ld, isLd := st.Val.(*ssa.UnOp)
			if !isLd {
				continue
			}
			sa, isSA := ld.X.(*ssa.IndexAddr)
			if !isSA || !isOldItems(sa.X) {
				continue
			}
			d, s := cx.parse(ia.Index, 0), cx.parse(sa.Index, 0)
			if d == nil || s == nil {
				continue
			}
			decided = true
			outLen = ms.Len
			if !congruent(s.add(d, -1), affSym("H").add(affConst(1), 1)) {
				bad = append(bad, fmt.Sprintf("result[%s] = items[%s]: the offset is %s, not head+1: the batch starts at the wrong slot", d, s, s.add(d, -1)))
			}
		}
		if decided && outLen != nil {
			for _, in := range g.ins {
				if st, isSt := in.(*ssa.Store); isSt {
					if fa, isFA := st.Addr.(*ssa.FieldAddr); isFA && isFieldOf(fa, bufT, "head") {
						nh := cx.parse(st.Val, 0)
						cnt := cx.parse(outLen, 0)
						// a running position read after the loop: init + k*I with I = the number of iterations, which is the
						// number of results when the loop runs over the result slice (bound len(result) or the count itself)
						if nh != nil && cnt != nil && nh.coef["I"] != 0 {
							n := g.idx[in]
							after := true // the store is not inside a loop: it cannot reach itself
							if g.reach(g.succ[n], nil, nil)[n] {
								after = false
							}
							full, _ := g.CondEdges(func(v ssa.Value) (bool, bool) {
								b, okB := v.(*ssa.BinOp)
								if !okB || b.Op != token.LSS {
									return true, false
								}
								y := stripConv(b.Y)
								if y == stripConv(outLen) {
									return true, true
								}
								if args, isLen := isBuiltinCall(y, "len"); isLen {
									if ms, isMS := stripConv(args[0]).(*ssa.MakeSlice); isMS && stripConv(ms.Len) == stripConv(outLen) {
										return true, true
									}
								}
								return true, false
							})
							if after && len(full) > 0 {
								k := nh.coef["I"]
								sub := nh.clone()
								delete(sub.coef, "I")
								nh = sub.add(cnt, k)
							}
						}
						if nh != nil && cnt != nil && !congruent(nh, affSym("H").add(cnt, 1)) {
							bad = append(bad, fmt.Sprintf("head becomes %s, not head + the number of elements handed out (%s)", nh, cnt))
						}
					}
				}
			}
		}
		verdict("RingBuffer.PopN:offsets", "PopN reads result[i] from slot head+1+i (mod size) and advances head by the number of results", site, decided, bad)
	}
	// ---- Pop
	{
		g := w.FGI(pop)
		site := w.fnPos(pop)
		cx := &affCtx{w: w, g: g}
		var bad []string
		decided := false
		var headStore *ssa.Store
		n := 0
		for _, in := range g.ins {
			if st, isSt := in.(*ssa.Store); isSt {
				if fa, isFA := st.Addr.(*ssa.FieldAddr); isFA && isFieldOf(fa, bufT, "head") {
					headStore = st
					n++
				}
			}
		}
		if n == 1 {
			nh := cx.parse(headStore.Val, 0)
			if nh != nil {
				decided = true
				if !congruent(nh, affSym("H").add(affConst(1), 1)) {
					bad = append(bad, fmt.Sprintf("head becomes %s, not head+1", nh))
				}
				// the element returned with `true`: read at the new head (a load of head after the store) or at the same term
				hs := setOf(len(g.ins), g.idx[headStore])
				for _, rc := range g.retCases() {
					rs := rc.res
					if len(rs) != 2 || w.pathOf(rs[1]) != "K:true" {
						continue
					}
					ld, isLd := rs[0].(*ssa.UnOp)
					if !isLd {
						continue
					}
					sa, isSA := ld.X.(*ssa.IndexAddr)
					if !isSA || !isOldItems(sa.X) {
						continue
					}
					cx2 := &affCtx{w: w, g: g, override: map[ssa.Value]*affine{}}
					// head loads that follow the store read the new head
					for _, in2 := range g.ins {
						if u, isU := in2.(*ssa.UnOp); isU && u.Op == token.MUL {
							if fa, isFA := u.X.(*ssa.FieldAddr); isFA && isFieldOf(fa, bufT, "head") && g.Before(hs, g.idx[in2]) {
								cx2.override[u] = nh
							}
						}
					}
					if s := cx2.parse(sa.Index, 0); s != nil && !congruent(s, affSym("H").add(affConst(1), 1)) {
						bad = append(bad, fmt.Sprintf("the element is read at %s, not at head+1", s))
					}
				}
			}
		}
		verdict("RingBuffer.Pop:offsets", "Pop advances head by one (mod size) and returns the element at the new head", site, decided, bad)
	}
}

// checkRingNormalised: every value stored into head or tail (outside a fresh buffer literal) is
// reduced modulo the buffer size: the full test `tail == head` and every index rely on both staying in [0, mod).
func checkRingNormalised(w *World, r *Report, rule string, fns []*ssa.Function, bufT interface{ String() string }) {
	for _, fn := range fns {
		if fn == nil {
			continue
		}
		g := w.FGI(fn)
		cx := &affCtx{w: w, g: g}
		var bad []string
		n := 0
		for _, in := range g.ins {
			st, isSt := in.(*ssa.Store)
			if !isSt {
				continue
			}
			fa, isFA := st.Addr.(*ssa.FieldAddr)
			if !isFA {
				continue
			}
			name, named := fieldName(fa)
			if named == nil || named.Obj().Name() != "buffer" || (name != "head" && name != "tail") {
				continue
			}
			if _, fresh := fa.X.(*ssa.Alloc); fresh {
				continue // a field of the new buffer literal (checked by the grow rule)
			}
			n++
			a := cx.parse(st.Val, 0)
			if a == nil {
				continue
			}
			if _, isK := a.isConst(); isK {
				continue
			}
			if !a.modM {
				bad = append(bad, fmt.Sprintf("%s = %s is not reduced modulo the buffer size", name, a))
			}
		}
		key := "RingBuffer." + fn.Name() + ":origin-normalised"
		what := "head and tail are stored reduced modulo the buffer size"
		if len(bad) > 0 {
			r.Fail(rule, key, what, w.fnPos(fn), strings.Join(bad, "; ")+": once head or tail leaves [0, size) the full test never fires again and unread elements are overwritten")
		} else if n > 0 {
			r.OK(rule, key, what, w.fnPos(fn))
		}
	}
}

// sliceOf: base, low and high of a slice expression (the value itself when it is not sliced).
func sliceOf(v ssa.Value) (base, lo, hi ssa.Value) {
	if s, ok := v.(*ssa.Slice); ok {
		return s.X, s.Low, s.High
	}
	return v, nil, nil
}


// hasCounterIn: the block holds (or feeds) a 0,1,2,... counter: a phi(0, i+1), or the phi(-1, v) of a range loop.
func (c *affCtx) hasCounterIn(b *ssa.BasicBlock) bool {
	for _, in := range b.Instrs {
		switch x := in.(type) {
		case *ssa.Phi:
			if ascendingFromZero(x) {
				return true
			}
		case *ssa.BinOp:
			if ascendingFromZero(x) {
				return true
			}
		}
	}
	return false
}

// popnTransferAffine: PopN's element transfer decided by the affine rule (decided, holds).
func popnTransferAffine(w *World) (bool, bool) {
	r := newReport("C14")
	r.Rule("C14.R5", "", 0)
	checkRingRotation(w, r, "C14.R5")
	for _, o := range r.Obs {
		if strings.HasSuffix(o.Key, "RingBuffer.PopN:offsets") {
			return !strings.Contains(o.What, "not decided"), o.Verdict == Discharged
		}
	}
	return false, false
}
