package main

// C20.R2 / R3 / R5 — the membership protocol of the self-managed provider, stated over effects
// (MemberSet.Add/Remove on the provider's own set, "Members{members.Slice()} sent to X") and not over
// the private helpers that happen to perform them today. A helper may be inlined, split, renamed or
// given a parameter: an effect inside a callee is read with the callee's parameters replaced by the
// arguments of the call (withArgs), and an obligation "after this change the agent is told" may be
// discharged by the function itself or by all of its callers (reportedAfter).

import (
	"fmt"
	"go/token"
	"strings"

	"golang.org/x/tools/go/ssa"
)

// withArgs evaluates f with the parameters of c's static callee reading as c's arguments (on top of
// the current context).
func (w *World) withArgs(c *ssa.CallCommon, f func()) {
	callee := c.StaticCallee()
	if callee == nil {
		f()
		return
	}
	old := w.cur
	g := &FG{psub: map[*ssa.Parameter]ssa.Value{}, csub: map[*ssa.Call][]ssa.Value{}}
	if old != nil {
		for k, v := range old.psub {
			g.psub[k] = v
		}
		for k, v := range old.csub {
			g.csub[k] = v
		}
	}
	for i, p := range callee.Params {
		if i < len(c.Args) {
			g.psub[p] = c.Args[i]
		}
	}
	w.cur = g
	w.curLock++
	defer func() { w.curLock--; w.cur = old }()
	f()
}

type provider struct {
	w      *World
	funcs  []*ssa.Function // methods of SelfManaged and their closures
	isSM   map[*ssa.Function]bool
	msAdd  *ssa.Function
	msRem  *ssa.Function
	msRemH *ssa.Function
	// further MemberSet methods that insert / delete exactly their argument (addIfAbsent, removeIfPresent ...)
	adders, removers map[*ssa.Function]bool
	eSend  *ssa.Function
	memo   map[string]bool
}

func ownSet(p string) bool {
	return p == "P0.members" || (strings.HasPrefix(p, "FV:") && strings.HasSuffix(p, ".members") && strings.Count(p, ".") == 1)
}

// sendsMembers: instruction `in` (evaluated in the current context) sends &Members{Members: own.Slice()}
// through Engine.Send to a target whose access path satisfies target. Returns the Slice() call too.
func (pv *provider) sendsMembersShallow(in ssa.Instruction, target func(string) bool) (bool, ssa.Value) {
	w := pv.w
	c, isCall := in.(*ssa.Call)
	if !isCall || c.Call.StaticCallee() != pv.eSend || pv.eSend == nil || len(c.Call.Args) != 3 {
		return false, nil
	}
	n, fs, lit := w.structLit(c.Call.Args[2])
	if !lit || n == nil || n.Obj().Name() != "Members" || fs["Members"] == nil {
		return false, nil
	}
	sp := w.pathOf(fs["Members"])
	if !strings.HasPrefix(sp, "call:(*cluster.MemberSet).Slice(") || !ownSet(strings.TrimSuffix(strings.TrimPrefix(sp, "call:(*cluster.MemberSet).Slice("), ")")) {
		return false, nil
	}
	if !strings.HasSuffix(w.pathOf(c.Call.Args[0]), ".cluster.engine") || !target(w.pathOf(c.Call.Args[1])) {
		return false, nil
	}
	return true, fs["Members"]
}

// sendNodes marks the nodes of fn's graph at which the member list is certainly sent to a target
// satisfying target: a shallow send, or a call to a provider function that sends it on all its paths
// (read with the call's arguments).
func (pv *provider) sendNodes(fn *ssa.Function, target func(string) bool, depth int) []bool {
	w := pv.w
	g := w.FGI(fn)
	out := make([]bool, len(g.ins))
	for i, in := range g.ins {
		if g.inl[i] {
			continue
		}
		if ok, _ := pv.sendsMembersShallow(in, target); ok {
			out[i] = true
			continue
		}
		c, isCall := in.(*ssa.Call)
		if !isCall || depth >= 3 {
			continue
		}
		callee := c.Call.StaticCallee()
		if callee == nil || !pv.isSM[callee] || callee == fn {
			continue
		}
		w.withArgs(&c.Call, func() {
			cg := w.FGI(callee)
			if cg.AfterEntry(pv.sendNodes(callee, target, depth+1)) {
				out[i] = true
			}
		})
	}
	return out
}

func isAgentTarget(p string) bool {
	return strings.HasPrefix(p, "call:(*cluster.Cluster).PID(") && strings.HasSuffix(p, ".cluster)")
}

// callSites of a provider function inside the provider; ok=false when fn is used in any other way.
func (pv *provider) callSites(fn *ssa.Function) (sites []*ssa.Call, ok bool) {
	ok = true
	for _, u := range pv.w.Funcs {
		for _, b := range u.Blocks {
			for _, in := range b.Instrs {
				if ci, isCI := in.(ssa.CallInstruction); isCI && ci.Common().StaticCallee() == fn {
					if c, isCall := in.(*ssa.Call); isCall && pv.isSM[u] {
						sites = append(sites, c)
					} else {
						ok = false
					}
					continue
				}
				for _, op := range in.Operands(nil) {
					if *op == ssa.Value(fn) {
						ok = false
					}
				}
			}
		}
	}
	return
}

// reportedAfter: after node n of fn the agent is certainly sent the member list before fn's
// activation of Receive ends: in fn itself, or after every call of fn.
func (pv *provider) reportedAfter(fn *ssa.Function, n int, depth int) bool {
	w := pv.w
	g := w.FGI(fn)
	if g.After(n, pv.sendNodes(fn, isAgentTarget, 0)) {
		return true
	}
	if depth >= 3 || fn.Parent() != nil || (fn.Object() != nil && fn.Object().Exported()) {
		return false
	}
	sites, ok := pv.callSites(fn)
	if !ok || len(sites) == 0 {
		return false
	}
	// a helper that tells its caller whether it changed anything: after the change it returns true only
	onlyTrue := len(g.returns) > 0
	fromN := g.reach(g.succ[n], nil, nil)
	for _, x := range g.returns {
		if !fromN[x] {
			continue
		}
		rs := g.ins[x].(*ssa.Return).Results
		if len(rs) != 1 {
			onlyTrue = false
			continue
		}
		if k, isK := rs[0].(*ssa.Const); !isK || k.Value == nil || k.Value.ExactString() != "true" {
			onlyTrue = false
		}
	}
	for _, c := range sites {
		cf := c.Parent()
		cg := w.FGI(cf)
		ci, in := cg.idx[c]
		if !in {
			return false
		}
		if onlyTrue {
			if onTrue, _, okB := w.boolTestAfter(cg, c); okB {
				rep := pv.sendNodes(cf, isAgentTarget, 0)
				rr := cg.reach([]int{onTrue}, rep, nil)
				bad := false
				for _, x := range cg.returns {
					if rr[x] {
						bad = true
					}
				}
				if !bad {
					continue
				}
			}
		}
		if !pv.reportedAfter(cf, ci, depth+1) {
			return false
		}
	}
	return true
}

// changeSites: shallow MemberSet.Add / Remove calls on the provider's own set, per function.
type changeSite struct {
	fn  *ssa.Function
	n   int
	c   *ssa.Call
	add bool
}

func (pv *provider) changeSites() []changeSite {
	var out []changeSite
	for _, fn := range pv.funcs {
		if _, spliced := pv.w.inlSites[fn]; spliced {
			continue
		}
		g := pv.w.FGI(fn)
		for i, in := range g.ins {
			c, isCall := in.(*ssa.Call)
			if !isCall {
				continue
			}
			callee := c.Call.StaticCallee()
			if callee == nil || (!pv.adders[callee] && !pv.removers[callee]) || len(c.Call.Args) < 2 {
				continue
			}
			if g.inl[i] && (callee == pv.msAdd || callee == pv.msRem || callee == pv.msRemH) {
				continue
			}
			if !ownSet(pv.w.pathOf(c.Call.Args[0])) {
				continue
			}
			out = append(out, changeSite{fn, i, c, pv.adders[callee]})
		}
	}
	return out
}

// memberArgAt: the access paths the member argument of a change site can have, seen from node `at`
// of graph g (the site itself when it is in g, or through the call at `at`).
func (pv *provider) changesUnder(g *FG, fn *ssa.Function, edges []Edge, add bool, depth int, visit func(node int, memberPath string, setPath string, slicePath string)) {
	w := pv.w
	for i, in := range g.ins {
		c, isCall := in.(*ssa.Call)
		if !isCall || (edges != nil && !g.OnlyVia(edges, i)) {
			continue
		}
		callee := c.Call.StaticCallee()
		if callee == nil {
			continue
		}
		if g.inl[i] && !((pv.adders[callee] || pv.removers[callee]) && callee != pv.msAdd && callee != pv.msRem && callee != pv.msRemH) {
			continue
		}
		if (add && pv.adders[callee]) || (!add && pv.removers[callee]) {
			if len(c.Call.Args) >= 2 && ownSet(w.pathOf(c.Call.Args[0])) {
				visit(i, w.pathOf(c.Call.Args[1]), w.pathOf(c.Call.Args[0]), "")
			}
			continue
		}
		if !pv.isSM[callee] || depth >= 2 || callee == fn {
			continue
		}
		node := i
		w.withArgs(&c.Call, func() {
			cg := w.FGI(callee)
			pv.changesUnder(cg, callee, nil, add, depth+1, func(_ int, mp, sp, _ string) {
				visit(node, mp, sp, w.argOrVariadic(&c.Call))
			})
		})
	}
}

func checkC20Membership(w *World, r *Report, recv *ssa.Function, smT interface{}, addM *ssa.Function) {
	pv := &provider{w: w, isSM: map[*ssa.Function]bool{}, memo: map[string]bool{}}
	pv.funcs = w.MethodsOf("cluster", "SelfManaged")
	for _, f := range pv.funcs {
		pv.isSM[f] = true
	}
	pv.msAdd = w.Method("cluster", "MemberSet", "Add")
	pv.msRem = w.Method("cluster", "MemberSet", "Remove")
	pv.msRemH = w.Method("cluster", "MemberSet", "RemoveByHost")
	pv.adders, pv.removers = map[*ssa.Function]bool{pv.msAdd: true}, map[*ssa.Function]bool{pv.msRem: true, pv.msRemH: true}
	{
		// other MemberSet methods that do to the map exactly what Add / Remove do with their argument
		restore := w.noCtx()
		for _, m := range w.MethodsOf("cluster", "MemberSet") {
			if m.Parent() != nil || len(m.Params) != 2 || pv.adders[m] || pv.removers[m] || len(m.Blocks) == 0 {
				continue
			}
			mg := w.FG(m)
			na, nd, other := 0, 0, 0
			for _, in := range mg.ins {
				switch x := in.(type) {
				case *ssa.MapUpdate:
					if w.pathOf(x.Map) == "P0.members" && w.pathOf(x.Key) == "P1.ID" && w.pathOf(x.Value) == "P1" {
						na++
					} else {
						other++
					}
				case *ssa.Call:
					if args, isD := isBuiltinCall(x, "delete"); isD {
						if w.pathOf(args[0]) == "P0.members" && w.pathOf(args[1]) == "P1.ID" {
							nd++
						} else {
							other++
						}
					}
					if f := x.Call.StaticCallee(); f != nil && len(x.Call.Args) == 2 && w.pathOf(x.Call.Args[0]) == "P0" && w.pathOf(x.Call.Args[1]) == "P1" {
						if f == pv.msAdd {
							na++
						}
						if f == pv.msRem {
							nd++
						}
					}
				case *ssa.Go, *ssa.Defer:
					other++
				}
			}
			if other == 0 && na > 0 && nd == 0 {
				pv.adders[m] = true
			}
			if other == 0 && nd > 0 && na == 0 {
				pv.removers[m] = true
			}
		}
		restore()
	}
	pv.eSend = w.Method("actor", "Engine", "Send")
	g := w.FGI(recv)
	site := w.fnPos(recv)

	// ---- R3: every change of the member set is reported to the agent
	{
		nAdd, nRem := 0, 0
		var badAdd, badRem []string
		for _, cs := range pv.changeSites() {
			ok := pv.reportedAfter(cs.fn, cs.n, 0)
			if cs.add {
				nAdd++
				if !ok {
					badAdd = append(badAdd, w.pos(cs.c.Pos()))
				}
			} else {
				nRem++
				if !ok {
					badRem = append(badRem, w.pos(cs.c.Pos()))
				}
			}
		}
		r.Check(nAdd > 0 && len(badAdd) == 0, "C20.R3", "SelfManaged:additions-reported", "after a member was added the member list is sent to the agent before the message is done (in the same function or by every caller)", site,
			fmt.Sprintf("%d additions, not certainly followed by Send(engine, cluster.PID(), &Members{members.Slice()}): %v — the agent is not told about new members", nAdd, badAdd))
		r.Check(nRem > 0 && len(badRem) == 0, "C20.R3", "SelfManaged:removals-reported", "after a member was removed the member list is sent to the agent before the message is done", site,
			fmt.Sprintf("%d removals, not certainly followed by the report: %v — the agent is not told that a member is gone", nRem, badRem))
		// exactly the given member is removed, and only if it is contained (or unconditionally)
		okRem := nRem > 0
		for _, cs := range pv.changeSites() {
			if cs.add {
				continue
			}
			cg := w.FGI(cs.fn)
			set, arg := w.pathOf(cs.c.Call.Args[0]), w.pathOf(cs.c.Call.Args[1])
			contains, _ := w.callEdges(cg, "call:(*cluster.MemberSet).Contains("+set+","+arg+")")
			anyContains, _ := w.callEdges(cg, "call:(*cluster.MemberSet).Contains(")
			if len(anyContains) > 0 && (len(contains) == 0 || !cg.OnlyVia(contains, cs.n)) {
				// guarded by a containment test of something else, or on its false edge
				if !cg.OnlyVia(contains, cs.n) {
					for _, e := range anyContains {
						if cg.OnlyVia([]Edge{e}, cs.n) {
							okRem = false
						}
					}
					_, notContains := w.callEdges(cg, "call:(*cluster.MemberSet).Contains("+set+","+arg+")")
					if len(notContains) > 0 && cg.OnlyVia(notContains, cs.n) {
						okRem = false
					}
				}
			}
			if len(contains) > 0 {
				// a contained member is always removed
				R := setOf(len(cg.ins), cs.n)
				if !actionOnEdge(cg, contains, R) {
					okRem = false
				}
			}
			for _, in := range cg.ins {
				if _, isGo := in.(*ssa.Go); isGo {
					okRem = false
				}
			}
		}
		r.Check(okRem, "C20.R3", "SelfManaged:removes-that-member", "a removal removes exactly the member it was given, whenever the set contains it", site, "another member (or none) is removed")
		// memberLeave: the removed member is the one GetByHost finds for the reported address
		ml := w.caseEdges(g, "cluster.memberLeave")
		okL := false
		pv.changesUnder(g, recv, ml, false, 0, func(_ int, mp, _, _ string) {
			if strings.HasPrefix(mp, "call:(*cluster.MemberSet).GetByHost(P0.members,assert<cluster.memberLeave>(") && strings.HasSuffix(mp, "#0.ListenAddr)") {
				okL = true
			}
		})
		if okL && len(ml) > 0 {
			// ... on every path: an unreachable report for a member is never ignored. From the memberLeave case every
			// path to the end of the message passes the removal, or the edge on which GetByHost found nobody.
			rem := make([]bool, len(g.ins))
			pv.changesUnder(g, recv, ml, false, 0, func(n int, mp, _, _ string) {
				if strings.HasPrefix(mp, "call:(*cluster.MemberSet).GetByHost(P0.members,assert<cluster.memberLeave>(") {
					rem[n] = true
				}
			})
			notFound, _ := w.nilEdges(g, "re:call:\\(\\*cluster\\.MemberSet\\)\\.GetByHost\\(P0\\.members,assert<cluster\\.memberLeave>.*")
			cut := map[Edge]bool{}
			for _, e := range notFound {
				cut[e] = true
			}
			// (a member the set does not contain needs no removal)
			_, notContained := w.callEdges(g, "call:(*cluster.MemberSet).Contains(P0.members,call:(*cluster.MemberSet).GetByHost(P0.members,assert<cluster.memberLeave>(")
			for _, e := range notContained {
				cut[e] = true
			}
			var starts []int
			for _, e := range ml {
				starts = append(starts, e.to)
			}
			rr := g.reach(starts, rem, cut)
			for _, x := range g.returns {
				if rr[x] {
					okL = false
				}
			}
		}
		r.Check(okL && len(ml) > 0, "C20.R3", fname(recv)+":memberLeave", "the member GetByHost finds for the reported address is removed, on every path where one is found", site,
			"no memberLeave case that always removes the member found for msg.ListenAddr: an unreachable member can stay in the list")
		// the report exists at all (content is part of its definition)
		nRep := 0
		for _, fn := range pv.funcs {
			for _, b := range pv.sendNodes(fn, isAgentTarget, 3) {
				if b {
					nRep++
				}
			}
		}
		if nRep == 0 {
			// a helper with a target parameter: look at it from its call sites
			for _, fn := range pv.funcs {
				for _, b := range pv.sendNodes(fn, isAgentTarget, 0) {
					if b {
						nRep++
					}
				}
			}
		}
		r.Check(nRep > 0, "C20.R3", "SelfManaged:report", "the report is Send(cluster.engine, cluster.PID(), &Members{Members: members.Slice()})", site,
			"nothing sends the provider's current member list to the local agent")
		// adds-each: the function that adds the elements of a list visits every element and adds each unknown one
		pv.checkAddsEach(r, addM)
	}
	// ---- R2: Handshake, Members, Started
	{
		hs := w.caseEdges(g, "*cluster.Handshake")
		ok := len(hs) > 0
		detail := "no Handshake case"
		added := make([]bool, len(g.ins))
		pv.changesUnder(g, recv, hs, true, 0, func(n int, mp, _, viaArg string) {
			for _, p := range []string{mp, viaArg} {
				if strings.HasSuffix(p, "#0.Member") && strings.HasPrefix(p, "assert<*cluster.Handshake>(") {
					added[n] = true
				}
			}
		})
		isSender := func(p string) bool { return p == "call:(*actor.Context).Sender(P1)" }
		reply := pv.sendNodes(recv, isSender, 0)
		nReply := 0
		for _, n := range members(reply) {
			if !g.OnlyVia(hs, n) {
				continue
			}
			nReply++
			// the list is read after the peer was added
			readAt := n
			if okS, sl := pv.sendsMembersShallow(g.ins[n], isSender); okS {
				if si, isI := sl.(ssa.Instruction); isI {
					readAt = g.idx[si]
				}
			}
			if !anyOf(added) {
				ok, detail = false, "the member list is read before the handshaking peer was added: the peer does not learn about itself / the agent is not told"
			} else if !g.Before(added, readAt) {
				// written out in the case: `if !members.Contains(m) { members.Add(m) }` — where the set already contains the
				// peer nothing has to be added
				known, _ := w.callEdges(g, "call:(*cluster.MemberSet).Contains(P0.members,assert<*cluster.Handshake>(")
				cut := map[Edge]bool{}
				for _, e := range known {
					cut[e] = true
				}
				var starts []int
				for _, e := range hs {
					starts = append(starts, e.to)
				}
				if len(known) == 0 || g.reach(starts, added, cut)[readAt] {
					ok, detail = false, "the member list is read before the handshaking peer was added: the peer does not learn about itself / the agent is not told"
				}
			}
		}
		if ok && nReply == 0 {
			ok, detail = false, "the Handshake case sends no reply &Members{members.Slice()} to the handshake's sender"
			// diagnose a reply to somebody else
			for _, n := range members(pv.sendNodes(recv, func(string) bool { return true }, 0)) {
				if g.OnlyVia(hs, n) && !reply[n] && !pv.sendNodes(recv, isAgentTarget, 0)[n] {
					detail = "the reply goes to somebody else than the handshake's sender"
				}
			}
		}
		if ok {
			rr := reachFromEdges(g, hs, reply)
			for _, x := range g.returns {
				if rr[x] {
					ok, detail = false, "a Handshake can go unanswered"
				}
			}
		}
		r.Check(ok, "C20.R2", fname(recv)+":Handshake", "the peer (msg.Member) is added, then &Members{members.Slice()} is sent to c.Sender()", site, detail)
		ms := w.caseEdges(g, "*cluster.Members")
		okM := false
		addedM := make([]bool, len(g.ins))
		pv.changesUnder(g, recv, ms, true, 0, func(n int, mp, _, viaArg string) {
			// through the list helper: the helper is given msg.Members and adds its elements; inline: the loop adds msg.Members[i]
			if strings.HasSuffix(viaArg, "#0.Members") || (strings.Contains(mp, "#0.Members[") && strings.HasPrefix(mp, "assert<*cluster.Members>(")) {
				addedM[n] = true
			}
		})
		if len(ms) > 0 && anyOf(addedM) {
			okM = true
			rr := reachFromEdges(g, ms, addedM)
			for _, x := range g.returns {
				if rr[x] {
					okM = false
				}
			}
			// written as a loop in the case itself: the loop over msg.Members is reached on every path of the case and
			// each of its iterations passes the addition (whether each unknown element is added: adds-each, R3)
			if !okM {
				bound, _ := g.CondEdges(func(v ssa.Value) (bool, bool) {
					b, ok := v.(*ssa.BinOp)
					if !ok || b.Op != token.LSS {
						return true, false
					}
					y := w.pathOf(b.Y)
					return true, strings.HasPrefix(y, "len(assert<*cluster.Members>(") && strings.HasSuffix(y, "#0.Members)")
				})
				hdr := make([]bool, len(g.ins))
				for _, e := range bound {
					hdr[e.from] = true
				}
				okM = len(bound) > 0
				rh := reachFromEdges(g, ms, hdr)
				for _, x := range g.returns {
					if rh[x] {
						okM = false
					}
				}
				knownM, _ := w.callEdges(g, "call:(*cluster.MemberSet).Contains(P0.members,assert<*cluster.Members>(")
				cutM := map[Edge]bool{}
				for _, e := range knownM {
					cutM[e] = true
				}
				for _, e := range bound {
					ri := g.reach([]int{e.to}, addedM, cutM)
					if ri[e.from] {
						okM = false
					}
					for _, x := range g.returns {
						if ri[x] {
							okM = false
						}
					}
				}
			}
		}
		r.Check(okM, "C20.R2", fname(recv)+":Members", "a received member list is added in full", site, "members learnt from a peer are dropped")
		st := w.caseEdges(g, "actor.Started")
		okS := false
		pv.changesUnder(g, recv, st, true, 0, func(n int, mp, _, viaArg string) {
			if mp == "call:(*cluster.Cluster).Member(P0.cluster)" || viaArg == "call:(*cluster.Cluster).Member(P0.cluster)" {
				if g.After(n, pv.sendNodes(recv, isAgentTarget, 0)) {
					okS = true
				}
			}
		})
		r.Check(okS && len(st) > 0, "C20.R2", fname(recv)+":Started", "on start the provider adds its own member and reports the list to the agent", site, "the node is missing from its own membership view")
	}
	// ---- R5: a case for each protocol message, reaching its effect
	{
		pingT := w.Named("actor", "Ping")
		evPing := Ev{Name: "ping-literal", M: func(in ssa.Instruction) bool {
			al, ok := in.(*ssa.Alloc)
			if !ok {
				return false
			}
			n, _ := structOf(al.Type())
			return sameNamed(n, pingT) && pingT != nil
		}}
		for _, c := range []struct {
			typ string
			eff func(es []Edge) bool
		}{
			{"*cluster.Handshake", func(es []Edge) bool {
				hit := false
				pv.changesUnder(g, recv, es, true, 0, func(int, string, string, string) { hit = true })
				return hit
			}},
			{"*cluster.Members", func(es []Edge) bool {
				hit := false
				pv.changesUnder(g, recv, es, true, 0, func(int, string, string, string) { hit = true })
				return hit
			}},
			{"cluster.memberLeave", func(es []Edge) bool { return true }},
			{"cluster.memberPing", func(es []Edge) bool {
				P := w.Nodes(g, evPing, false)
				rr := reachFromEdges(g, es, P)
				for _, x := range g.returns {
					if rr[x] {
						return false
					}
				}
				return anyOf(P)
			}},
		} {
			es := w.caseEdges(g, c.typ)
			ok := len(es) > 0 && c.eff(es)
			r.Check(ok, "C20.R5", fname(recv)+":case "+c.typ, "the provider handles "+c.typ, site, "the provider ignores "+c.typ)
		}
	}
}

// checkAddsEach: the loop that adds the elements of a member list visits every element (it is left
// only through its bound) and adds each element the set does not contain.
func (pv *provider) checkAddsEach(r *Report, addM *ssa.Function) {
	w := pv.w
	key := "SelfManaged:adds-each"
	what := "every listed member is added to the provider's member set"
	// the function holding an Add of an element of a slice: S[i]
	var F *ssa.Function
	var S string
	for _, cs := range pv.changeSites() {
		if !cs.add {
			continue
		}
		w.FGI(cs.fn)
		p := w.pathOf(cs.c.Call.Args[1])
		if i := strings.LastIndex(p, "["); i > 0 && strings.HasSuffix(p, "]") {
			F, S = cs.fn, p[:i]
		}
	}
	// the other shape: the loop hands each element S[i] to a helper that adds its parameter unless the set contains it
	var viaHelper []int
	if F == nil {
		type addSite struct {
			fn *ssa.Function
			n  int
			c  *ssa.Call
		}
		var adds []addSite
		{
			restore := w.noCtx()
			for _, fn := range pv.funcs {
				hg := w.FG(fn)
				for i, in := range hg.ins {
					if c, ok := in.(*ssa.Call); ok && pv.adders[c.Call.StaticCallee()] && len(c.Call.Args) >= 2 && ownSet(w.pathOf(c.Call.Args[0])) {
						adds = append(adds, addSite{fn, i, c})
					}
				}
			}
			restore()
		}
		for _, cs := range adds {
			H := cs.fn
			restore := w.noCtx()
			hg := w.FG(H)
			pp := w.pathOf(cs.c.Call.Args[1])
			k := 0
			if _, err := fmt.Sscanf(pp, "P%d", &k); err != nil || pp != fmt.Sprintf("P%d", k) || k <= 0 {
				restore()
				continue
			}
			AH := make([]bool, len(hg.ins))
			AH[cs.n] = true
			known, _ := hg.CondEdges(func(v ssa.Value) (bool, bool) {
				q := w.pathOf(v)
				return true, strings.HasPrefix(q, "call:(*cluster.MemberSet).Contains(") && strings.HasSuffix(q, ","+pp+")")
			})
			cut := map[Edge]bool{}
			for _, e := range known {
				cut[e] = true
			}
			adder := true
			rr := hg.reach(hg.entry(), AH, cut)
			for _, x := range hg.returns {
				if rr[x] {
					adder = false
				}
			}
			for _, in := range hg.ins {
				switch in.(type) {
				case *ssa.Go, *ssa.Defer:
					adder = false
				}
			}
			restore()
			if !adder {
				continue
			}
			for _, fn := range pv.funcs {
				if fn == H {
					continue
				}
				g := w.FGI(fn)
				for i, in := range g.ins {
					c, isCall := in.(*ssa.Call)
					if !isCall || g.inl[i] || c.Call.StaticCallee() != H || k >= len(c.Call.Args) {
						continue
					}
					q := w.pathOf(c.Call.Args[k])
					if j := strings.LastIndex(q, "["); j > 0 && strings.HasSuffix(q, "]") {
						F, S = fn, q[:j]
						viaHelper = append(viaHelper, i)
					}
				}
			}
		}
	}
	if F == nil {
		r.Fail("C20.R3", key, what, w.fnPos(addM), "no loop adds the elements of a received member list")
		return
	}
	ag := w.FGI(F)
	okAdd := true
	for _, in := range ag.ins {
		if _, isGo := in.(*ssa.Go); isGo {
			okAdd = false
		}
	}
	bound, _ := ag.CondEdges(func(v ssa.Value) (bool, bool) {
		b, ok := v.(*ssa.BinOp)
		return true, ok && b.Op == token.LSS && w.pathOf(b.Y) == "len("+S+")"
	})
	var exits []Edge
	for _, e := range bound {
		fe, _ := ag.EdgeOf(e.from, false)
		exits = append(exits, fe)
	}
	if len(exits) == 0 {
		okAdd = false
	}
	A := make([]bool, len(ag.ins))
	for _, cs := range pv.changeSites() {
		if cs.add && cs.fn == F && strings.HasPrefix(w.pathOf(cs.c.Call.Args[1]), S+"[") {
			A[cs.n] = true
		}
	}
	for _, n := range viaHelper {
		if n < len(A) && ag.ins[n].Parent() == F {
			A[n] = true
		}
	}
	// inside the loop: from the "not contained" edge (or from the loop body's entry when there is no test) the
	// next iteration or the exit is not reached without the Add
	_, unknown := ag.CondEdges(func(v ssa.Value) (bool, bool) {
		p := w.pathOf(v)
		return true, strings.HasPrefix(p, "call:(*cluster.MemberSet).Contains(") && strings.Contains(p, ","+S+"[")
	})
	starts := unknown
	if len(starts) == 0 {
		starts = bound
	}
	for _, e := range starts {
		rr := ag.reach([]int{e.to}, A, nil)
		for _, bnd := range bound {
			if rr[bnd.from] {
				okAdd = false
			}
		}
		for _, x := range ag.returns {
			if rr[x] {
				okAdd = false
			}
		}
	}
	// the loop is left only through its bound: no return/break inside the body
	for _, e := range bound {
		body := ag.reach([]int{e.to}, setOf(len(ag.ins), e.from), nil)
		for _, x := range ag.returns {
			if body[x] {
				okAdd = false
			}
		}
	}
	r.Check(okAdd, "C20.R3", key, what, w.fnPos(F), "listed members are not added")
}

// checkHandshakesOut: a handshake announces this node: it carries the cluster's own member info and is sent with the
// provider's own PID as sender — that is where the peer sends its member list back to. The provider's PID is its
// Context's PID, or (in the discovery goroutine, which has no Context) the PID built from the cluster's address and
// "provider/"+its own id.
func checkHandshakesOut(w *World, r *Report, rule string) {
	sws := w.Method("actor", "Engine", "SendWithSender")
	hsT := w.Named("cluster", "Handshake")
	n := 0
	for _, fn := range w.Funcs {
		if !w.isLib(fn) || fnPkgPath(fn) != modPath+"/cluster" {
			continue
		}
		g := w.FGI(fn)
		for i, in := range g.ins {
			c, ok := in.(*ssa.Call)
			if !ok || (g.inl != nil && g.inl[i]) || c.Call.StaticCallee() != sws || len(c.Call.Args) != 4 {
				continue
			}
			nt, fs, lit := w.structLit(c.Call.Args[2])
			if !lit || !sameNamed(nt, hsT) {
				continue
			}
			n++
			key := fmt.Sprintf("%s:handshake-out", fname(rootFn(fn)))
			mem, snd := "", w.pathOf(c.Call.Args[3])
			if fs["Member"] != nil {
				mem = w.pathOf(fs["Member"])
			}
			okM := strings.HasPrefix(mem, "call:(*cluster.Cluster).Member(") && strings.HasSuffix(mem, ".cluster)")
			okS := strings.HasPrefix(snd, "call:(*actor.Context).PID(") || strings.HasSuffix(snd, ".pid")
			if !okS && strings.HasPrefix(snd, "call:actor.NewPID(") {
				args := splitTop(snd[len("call:actor.NewPID("):len(snd)-1], ',')
				if len(args) == 2 && strings.HasSuffix(args[0], ".cluster.agentPID.Address") &&
					strings.HasPrefix(args[1], "(K:\"provider/\"+call:(*cluster.Cluster).ID(") && strings.HasSuffix(args[1], ".cluster))") {
					okS = true
				}
			}
			r.Check(okM && okS, rule, key, "an outgoing handshake carries the cluster's own member info and names the provider itself as sender", w.pos(c.Pos()),
				"handshake with Member="+mem+" and sender "+snd+": the peer adds somebody else, or answers with its member list to a PID that does not exist (the list is a dead letter and this node never learns the members the peer knows)")
		}
	}
	r.Check(n > 0, rule, "SelfManaged:handshakes-out", "the provider sends handshakes", "-", "no SendWithSender(…, &Handshake{…}, …) found in package cluster")
}
