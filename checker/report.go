package main

import (
	"crypto/sha1"
	"encoding/json"
	"fmt"
	"os"
	"path/filepath"
	"sort"
	"strings"
)

type Verdict string

const (
	Discharged Verdict = "discharged"
	Violated   Verdict = "violated"
	Undecided  Verdict = "undecided"
)

// Obligation is one instance of one rule on one construct of the current source.
type Obligation struct {
	Rule    string  `json:"rule"`
	Key     string  `json:"key"` // rule + construct, never a line number
	What    string  `json:"what"`
	Site    string  `json:"site"`
	Verdict Verdict `json:"verdict"`
	Detail  string  `json:"detail,omitempty"`
	Known   string  `json:"known_finding,omitempty"`
}

type Report struct {
	Prop      string
	Obs       []*Obligation
	keys      map[string]*Obligation
	minCounts map[string]int
	ruleDoc   map[string]string
	notes     []string
}

func newReport(prop string) *Report {
	return &Report{Prop: prop, keys: map[string]*Obligation{}, minCounts: map[string]int{}, ruleDoc: map[string]string{}}
}

// Rule registers a rule with a one-line description and the minimum number of
// instances confirmed by hand on the pinned tree.
func (r *Report) Rule(id, doc string, min int) {
	r.ruleDoc[id] = doc
	r.minCounts[id] = min
}

func (r *Report) add(rule, construct, what, site string, v Verdict, detail string) *Obligation {
	key := rule + "|" + construct
	if o, ok := r.keys[key]; ok {
		// same obligation reached twice (e.g. via two instantiations): keep the worst verdict
		if rank(v) > rank(o.Verdict) {
			o.Verdict, o.Detail, o.Site = v, detail, site
		}
		return o
	}
	o := &Obligation{Rule: rule, Key: key, What: what, Site: site, Verdict: v, Detail: detail}
	r.keys[key] = o
	r.Obs = append(r.Obs, o)
	return o
}

func rank(v Verdict) int {
	switch v {
	case Violated:
		return 2
	case Undecided:
		return 1
	}
	return 0
}

func (r *Report) OK(rule, construct, what, site string) {
	r.add(rule, construct, what, site, Discharged, "")
}
func (r *Report) Fail(rule, construct, what, site, detail string) {
	r.add(rule, construct, what, site, Violated, detail)
}
func (r *Report) Unknown(rule, construct, what, site, detail string) {
	r.add(rule, construct, what, site, Undecided, detail)
}

// Check is the common form: ok ? discharged : violated(detail).
func (r *Report) Check(ok bool, rule, construct, what, site, detail string) bool {
	if ok {
		r.OK(rule, construct, what, site)
	} else {
		r.Fail(rule, construct, what, site, detail)
	}
	return ok
}

func (r *Report) Note(s string) { r.notes = append(r.notes, s) }

// ---- known findings --------------------------------------------------------

type KnownFinding struct {
	Property string `json:"property"`
	Key      string `json:"key"`
	Status   string `json:"status"` // "known" | "fixed"
	Commit   string `json:"commit,omitempty"`
	What     string `json:"what"`
}

func loadKnown(path string) ([]KnownFinding, error) {
	b, err := os.ReadFile(path)
	if err != nil {
		if os.IsNotExist(err) {
			return nil, nil
		}
		return nil, err
	}
	var k []KnownFinding
	if err := json.Unmarshal(b, &k); err != nil {
		return nil, err
	}
	return k, nil
}

// ---- output ----------------------------------------------------------------

type runInfo struct {
	Tier      string
	Seed      int64
	Wall      float64
	Packages  []string
	Functions int
	VerifDir  string
	Extra     map[string]any
}

// finish prints KNOWN-FINDING / VIOLATION lines, writes replay files and the evidence file, returns the exit code.
func (r *Report) finish(known []KnownFinding, info runInfo) int {
	// vacuity: every rule must have produced at least its hand-confirmed number of instances
	counts := map[string]int{}
	for _, o := range r.Obs {
		counts[o.Rule]++
	}
	var rules []string
	for id := range r.ruleDoc {
		rules = append(rules, id)
	}
	sort.Strings(rules)
	for _, id := range rules {
		if counts[id] < r.minCounts[id] {
			r.add(id, "instance-count", fmt.Sprintf("rule %s must match at least %d constructs", id, r.minCounts[id]), "-",
				Undecided, fmt.Sprintf("only %d instances found: the rule's anchors no longer resolve and the rule would pass vacuously", counts[id]))
		}
	}
	sort.SliceStable(r.Obs, func(i, j int) bool { return r.Obs[i].Key < r.Obs[j].Key })

	knownBy := map[string]KnownFinding{}
	for _, k := range known {
		if k.Property == r.Prop && k.Status == "known" {
			knownBy[k.Key] = k
		}
	}
	outDir := filepath.Join(info.VerifDir, "out", r.Prop)
	_ = os.RemoveAll(outDir)
	_ = os.MkdirAll(outDir, 0o755)

	exit := 0
	discharged, violations, knownHit := 0, 0, 0
	var knownLines []string
	for _, o := range r.Obs {
		switch o.Verdict {
		case Discharged:
			discharged++
		case Violated, Undecided:
			if o.Verdict == Violated {
				if k, ok := knownBy[o.Key]; ok {
					o.Known = k.What
					knownHit++
					knownLines = append(knownLines, fmt.Sprintf("KNOWN-FINDING: property=%s %s [%s at %s]", r.Prop, k.What, o.Key, o.Site))
					continue
				}
			}
			violations++
			exit = 1
			h := sha1.Sum([]byte(o.Key))
			path := filepath.Join(outDir, fmt.Sprintf("%x.json", h[:6]))
			rep := map[string]any{
				"property": r.Prop, "rule": o.Rule, "rule_doc": r.ruleDoc[o.Rule], "key": o.Key, "what": o.What, "site": o.Site,
				"verdict": o.Verdict, "detail": o.Detail,
				"replay": fmt.Sprintf("./check.sh --replay %s", path),
			}
			b, _ := json.MarshalIndent(rep, "", " ")
			_ = os.WriteFile(path, b, 0o644)
			tag := "violated"
			if o.Verdict == Undecided {
				tag = "undecided"
			}
			fmt.Printf("  %s %s: %s\n    at %s\n    %s\n", tag, o.Key, o.What, o.Site, o.Detail)
			fmt.Printf("VIOLATION property=%s replay=%s\n", r.Prop, path)
		}
	}
	for _, l := range knownLines {
		fmt.Println(l)
	}

	// evidence
	var samples []any
	perRule := map[string]int{}
	for _, o := range r.Obs {
		if perRule[o.Rule] < 3 || o.Verdict != Discharged {
			perRule[o.Rule]++
			samples = append(samples, o)
		}
	}
	distinct := 0
	for _, o := range r.Obs {
		if o.Site != "-" {
			distinct++
		}
	}
	ruleList := []map[string]any{}
	for _, id := range rules {
		ruleList = append(ruleList, map[string]any{"id": id, "doc": r.ruleDoc[id], "instances": counts[id], "min_instances": r.minCounts[id]})
	}
	cov := map[string]any{
		"explanation": "Static analysis of /repo's current working tree (go/packages + go/ssa, no execution). Each obligation is one instance of a structural rule " +
			"(a necessary condition of " + r.Prop + ") on one construct; see DESIGN.md sections 4, 9 and Part II. NOT decided by this check: " + notDecided[r.Prop] + " " + strings.Join(r.notes, " "),
		"obligations":         len(r.Obs),
		"discharged":          discharged,
		"evaluations":         len(r.Obs),
		"distinct_nontrivial": distinct,
		"rule":                "an obligation is distinct by rule+construct key and non-trivial when its anchor resolved to a source position in /repo",
		"samples":             samples,
		"rules":               ruleList,
		"packages":            info.Packages,
		"functions_analysed":  info.Functions,
		"known_findings_hit":  knownHit,
		"exhaustive":          true,
		"checker_cmd":         fmt.Sprintf("./check.sh %s %s", r.Prop, info.Tier),
		"trusted_base":        []string{"go/types", "go/ssa (x/tools v0.29.0)", "Go memory model for sync/atomic and sync.Mutex"},
	}
	for k, v := range info.Extra {
		cov[k] = v
	}
	ev := map[string]any{
		"property_id": r.Prop,
		"tier":        info.Tier,
		"seed":        info.Seed,
		"level":       "other",
		"coverage":    cov,
		"assumptions": []string{
			"the rules are necessary structural conditions; sufficiency is argued in DESIGN.md, value clauses (index arithmetic, timing, payload equality) are not decided",
			"code outside the module (drpc, protobuf, zeroconf, runtime) behaves as documented",
		},
		"wall_s":     info.Wall,
		"violations": violations,
	}
	b, _ := json.MarshalIndent(ev, "", " ")
	_ = os.MkdirAll(filepath.Join(info.VerifDir, "evidence"), 0o755)
	if err := os.WriteFile(filepath.Join(info.VerifDir, "evidence", r.Prop+".json"), b, 0o644); err != nil {
		fmt.Println("cannot write evidence:", err)
		exit = 1
	}
	fmt.Printf("%s %s: %d obligations, %d discharged, %d known findings, %d violations/undecided (%.1fs)\n",
		r.Prop, info.Tier, len(r.Obs), discharged, knownHit, violations, info.Wall)
	return exit
}
