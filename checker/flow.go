package main

import (
	"fmt"
	"go/token"
	"go/types"
	"sort"
	"strings"

	"golang.org/x/tools/go/ssa"
)

// ---------------------------------------------------------------------------
// E-FLOW: value provenance as position-free access paths.
//
//	P0, P1 ...        parameters by index (receiver is P0 for methods)
//	FV:name           free variable of a closure
//	<path>.field      field load
//	K:nil  K:1  K:"x" constants
//	call:f(a,b)       result of a call
//	len(<path>)       builtin
//	lit:T{f=..,g=..}  struct literal (fields sorted)
//	mi:T(<path>)      only for display; MakeInterface is transparent in paths
// ---------------------------------------------------------------------------

type flowCtx struct {
	w     *World
	depth int
	seen  map[ssa.Value]bool
}

func (w *World) pathOf(v ssa.Value) string {
	c := &flowCtx{w: w, seen: map[ssa.Value]bool{}}
	p := c.path(v)
	if w.cur != nil && w.cur.alias != nil {
		p = applyAlias(p, w.cur.alias)
	}
	return pinnedTypeNames(p)
}

func paramIndex(p *ssa.Parameter) int {
	for i, q := range p.Parent().Params {
		if q == p {
			return i
		}
	}
	return -1
}

// singleStore returns the only value ever stored directly into alloc a, if there is exactly one.
func singleStore(a *ssa.Alloc) ssa.Value {
	var val ssa.Value
	n := 0
	if a.Referrers() == nil {
		return nil
	}
	for _, r := range *a.Referrers() {
		if st, ok := r.(*ssa.Store); ok && st.Addr == a {
			val = st.Val
			n++
		}
	}
	if n == 1 {
		return val
	}
	return nil
}

func (c *flowCtx) path(v ssa.Value) string {
	if v == nil {
		return "?"
	}
	c.depth++
	defer func() { c.depth-- }()
	if c.depth > 40 {
		return "…"
	}
	switch x := v.(type) {
	case *ssa.Parameter:
		if a, ok := c.w.subParam(x); ok {
			return c.path(a)
		}
		return fmt.Sprintf("P%d", paramIndex(x))
	case *ssa.FreeVar:
		return "FV:" + x.Name()
	case *ssa.Const:
		if x.IsNil() {
			return "K:nil"
		}
		if x.Value == nil {
			return "K:zero"
		}
		return "K:" + x.Value.ExactString()
	case *ssa.Global:
		return "G:" + x.Name()
	case *ssa.Function:
		return "F:" + fname(x)
	case *ssa.MakeInterface:
		return c.path(x.X)
	case *ssa.ChangeType:
		return c.path(x.X)
	case *ssa.ChangeInterface:
		return c.path(x.X)
	case *ssa.Convert:
		return "conv<" + types.TypeString(x.Type(), shortQ) + ">(" + c.path(x.X) + ")"
	case *ssa.UnOp:
		if x.Op == token.MUL {
			return c.addr(x.X)
		}
		if x.Op == token.ARROW {
			return "<-" + c.path(x.X)
		}
		return x.Op.String() + c.path(x.X)
	case *ssa.Field:
		sn, s := structOf(x.X.Type())
		name := "?"
		if s != nil {
			name = pinnedFieldName(sn, s, x.Field)
		}
		return c.path(x.X) + "." + name
	case *ssa.FieldAddr:
		return "&" + c.addr(x)
	case *ssa.IndexAddr:
		return "&" + c.addr(x)
	case *ssa.Alloc:
		if lit, ok := c.literal(x); ok {
			return "&" + lit
		}
		if s := singleStore(x); s != nil {
			return "&new(" + c.path(s) + ")"
		}
		return "&alloc:" + x.Name()
	case *ssa.Call:
		if rs, ok := c.w.subCall(x); ok && len(rs) == 1 {
			return c.path(rs[0])
		}
		if rss := c.w.subCallMulti(x); len(rss) > 1 && len(rss[0]) == 1 && !c.seen[x] {
			// a spliced helper with several returns reads as the merge of what it returns
			c.seen[x] = true
			var es []string
			for _, rs := range rss {
				es = append(es, c.path(rs[0]))
			}
			delete(c.seen, x)
			sort.Strings(es)
			es = dedup(es)
			if len(es) == 1 {
				return es[0]
			}
			return "phi(" + strings.Join(es, "|") + ")"
		}
		return c.call(&x.Call)
	case *ssa.Extract:
		if call, ok := x.Tuple.(*ssa.Call); ok {
			if rs, ok := c.w.subCall(call); ok && x.Index < len(rs) {
				return c.path(rs[x.Index])
			}
		}
		return c.path(x.Tuple) + "#" + fmt.Sprint(x.Index)
	case *ssa.TypeAssert:
		s := "assert<" + types.TypeString(x.AssertedType, shortQ) + ">(" + c.path(x.X) + ")"
		return s
	case *ssa.Lookup:
		return c.path(x.X) + "[" + c.path(x.Index) + "]"
	case *ssa.Index:
		return c.path(x.X) + "[" + c.path(x.Index) + "]"
	case *ssa.Slice:
		s := c.path(x.X) + "["
		if x.Low != nil {
			s += c.path(x.Low)
		}
		s += ":"
		if x.High != nil {
			s += c.path(x.High)
		}
		return s + "]"
	case *ssa.BinOp:
		return "(" + c.path(x.X) + x.Op.String() + c.path(x.Y) + ")"
	case *ssa.Phi:
		if c.seen[x] {
			return "phi↺"
		}
		c.seen[x] = true
		var es []string
		for _, e := range x.Edges {
			es = append(es, c.path(e))
		}
		delete(c.seen, x)
		sort.Strings(es)
		es = dedup(es)
		if len(es) == 1 {
			return es[0]
		}
		return "phi(" + strings.Join(es, "|") + ")"
	case *ssa.MakeClosure:
		f := x.Fn.(*ssa.Function)
		var bs []string
		for _, b := range x.Bindings {
			bs = append(bs, c.path(b))
		}
		return "closure:" + fname(f) + "[" + strings.Join(bs, ",") + "]"
	case *ssa.MakeMap:
		return "makemap<" + types.TypeString(x.Type(), shortQ) + ">"
	case *ssa.MakeSlice:
		return "makeslice(" + c.path(x.Len) + ")"
	case *ssa.MakeChan:
		return "makechan(" + c.path(x.Size) + ")"
	case *ssa.Next:
		return "next(" + c.path(x.Iter) + ")"
	case *ssa.Range:
		return "range(" + c.path(x.X) + ")"
	case *ssa.Builtin:
		return "builtin:" + x.Name()
	}
	return fmt.Sprintf("?%T", v)
}

func dedup(xs []string) []string {
	var out []string
	for i, x := range xs {
		if i == 0 || x != xs[i-1] {
			out = append(out, x)
		}
	}
	return out
}

func shortQ(p *types.Package) string {
	if p == nil {
		return ""
	}
	return p.Name()
}

// addr renders the value stored at address a (i.e. the path of *a).
func (c *flowCtx) addr(a ssa.Value) string {
	switch x := a.(type) {
	case *ssa.FieldAddr:
		sn, s := structOf(x.X.Type())
		name := "?"
		if s != nil {
			name = pinnedFieldName(sn, s, x.Field)
		}
		// field of a local struct literal: use the stored value
		if al, ok := x.X.(*ssa.Alloc); ok {
			if v := c.fieldStore(al, x.Field); v != nil {
				return c.path(v)
			}
		}
		return c.base(x.X) + "." + name
	case *ssa.IndexAddr:
		return c.base(x.X) + "[" + c.path(x.Index) + "]"
	case *ssa.Alloc:
		if lit, ok := c.literal(x); ok {
			return lit
		}
		if s := singleStore(x); s != nil {
			return c.path(s)
		}
		return "alloc:" + x.Name()
	case *ssa.Global:
		return "G:" + x.Name()
	case *ssa.FreeVar:
		// captured variable (by reference)
		return "FV:" + x.Name()
	}
	return "*" + c.path(a)
}

// base renders a pointer-typed or slice-typed base expression.
func (c *flowCtx) base(v ssa.Value) string {
	switch x := v.(type) {
	case *ssa.Alloc:
		// local variable holding a struct: treat as the variable itself
		if lit, ok := c.literal(x); ok {
			return lit
		}
		if s := singleStore(x); s != nil {
			return c.path(s)
		}
		return "alloc:" + x.Name()
	case *ssa.FieldAddr:
		// embedded / nested struct: &a.b -> a.b
		return c.addr(x)
	}
	return c.path(v)
}

func (c *flowCtx) fieldStore(a *ssa.Alloc, field int) ssa.Value {
	if a.Referrers() == nil {
		return nil
	}
	var val ssa.Value
	n := 0
	for _, r := range *a.Referrers() {
		if st, ok := r.(*ssa.Store); ok && st.Addr == ssa.Value(a) {
			return nil // the whole struct is assigned (parameter copy): a field store is not the only source
		}
	}
	for _, r := range *a.Referrers() {
		fa, ok := r.(*ssa.FieldAddr)
		if !ok || fa.Field != field || fa.Referrers() == nil {
			continue
		}
		for _, rr := range *fa.Referrers() {
			if st, ok := rr.(*ssa.Store); ok && st.Addr == fa {
				val = st.Val
				n++
			}
		}
	}
	if n == 1 {
		return val
	}
	return nil
}

// literal renders alloc a as a struct literal if it is only initialised field by field.
func (c *flowCtx) literal(a *ssa.Alloc) (string, bool) {
	fs, ok := c.w.litFields(a)
	if !ok {
		return "", false
	}
	n, _ := structOf(a.Type())
	name := "struct"
	if n != nil {
		name = pinnedShortName(n)
	}
	var ks []string
	for k := range fs {
		ks = append(ks, k)
	}
	sort.Strings(ks)
	var parts []string
	for _, k := range ks {
		parts = append(parts, k+"="+c.path(fs[k]))
	}
	return "lit:" + name + "{" + strings.Join(parts, ",") + "}", true
}

// litFields returns the values stored into the fields of a struct allocated at a,
// provided a is a struct alloc whose fields are each stored at most once.
func (w *World) litFields(a *ssa.Alloc) (map[string]ssa.Value, bool) {
	sn, s := structOf(a.Type())
	if s == nil || a.Referrers() == nil {
		return nil, false
	}
	out := map[string]ssa.Value{}
	for _, r := range *a.Referrers() {
		fa, ok := r.(*ssa.FieldAddr)
		if !ok {
			if st, ok := r.(*ssa.Store); ok && st.Addr == a {
				return nil, false // whole-struct store: not a literal
			}
			continue
		}
		if fa.Referrers() == nil {
			continue
		}
		for _, rr := range *fa.Referrers() {
			if st, ok := rr.(*ssa.Store); ok && st.Addr == fa {
				name := pinnedFieldName(sn, s, fa.Field)
				if _, dup := out[name]; dup {
					return nil, false
				}
				out[name] = st.Val
			}
		}
	}
	return out, true
}

// structLit resolves v (a struct value, a pointer to a fresh struct, or an interface
// wrapping either) to its literal fields.
func (w *World) structLit(v ssa.Value) (*types.Named, map[string]ssa.Value, bool) {
	for i := 0; i < 8; i++ {
		switch x := v.(type) {
		case *ssa.MakeInterface:
			v = x.X
			continue
		case *ssa.ChangeType:
			v = x.X
			continue
		case *ssa.UnOp:
			if x.Op == token.MUL {
				if a, ok := x.X.(*ssa.Alloc); ok {
					fs, ok := w.litFields(a)
					n, _ := structOf(a.Type())
					return n, fs, ok
				}
			}
			return nil, nil, false
		case *ssa.Alloc:
			fs, ok := w.litFields(x)
			n, _ := structOf(x.Type())
			return n, fs, ok
		case *ssa.Const:
			// zero value struct literal T{}
			n, s := structOf(x.Type())
			if s != nil {
				return n, map[string]ssa.Value{}, true
			}
			return nil, nil, false
		}
		break
	}
	return nil, nil, false
}

func (c *flowCtx) call(cc *ssa.CallCommon) string {
	var as []string
	for _, a := range cc.Args {
		as = append(as, c.path(a))
	}
	if cc.IsInvoke() {
		return "call:" + ifaceMethodName(cc.Method) + "(" + strings.Join(append([]string{c.path(cc.Value)}, as...), ",") + ")"
	}
	if b, ok := cc.Value.(*ssa.Builtin); ok {
		return b.Name() + "(" + strings.Join(as, ",") + ")"
	}
	if f := cc.StaticCallee(); f != nil {
		return "call:" + fname(origin(f)) + "(" + strings.Join(as, ",") + ")"
	}
	return "call:dyn[" + c.path(cc.Value) + "](" + strings.Join(as, ",") + ")"
}

func ifaceMethodName(m *types.Func) string {
	r := m.Type().(*types.Signature).Recv()
	if r != nil {
		if n, ok := types.Unalias(r.Type()).(*types.Named); ok {
			return pinnedShortName(n) + "." + m.Name()
		}
	}
	return m.Name()
}

// argPaths renders the arguments of a call (including the receiver for static method calls).
func (w *World) argPaths(cc *ssa.CallCommon) []string {
	var out []string
	for _, a := range cc.Args {
		out = append(out, w.pathOf(a))
	}
	return out
}

// calls returns every call instruction (Call, Go, Defer) in fn satisfying ev.
func (w *World) callsIn(fn *ssa.Function, ev Ev) []ssa.CallInstruction {
	var out []ssa.CallInstruction
	for _, in := range w.FGI(fn).ins {
		if ci, ok := in.(ssa.CallInstruction); ok && ev.M(in) {
			out = append(out, ci)
		}
	}
	return out
}

// isKind returns how a call instruction is issued: "call", "go" or "defer".
func callKind(ci ssa.CallInstruction) string {
	switch ci.(type) {
	case *ssa.Go:
		return "go"
	case *ssa.Defer:
		return "defer"
	}
	return "call"
}
