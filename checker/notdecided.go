package main

// notDecided: per property, the clauses that this family of technique does not decide (value clauses).
var notDecided = map[string]string{
	"C01": "order and exactly-once inside the ring beyond origin-dependence of each transfer (index arithmetic on grow/wrap/PopN); arithmetic of msgs[processed:].",
	"C02": "memory-model subtleties beyond 'all accesses are sync/atomic'; custom Scheduler implementations (none can be injected).",
	"C03": "fairness of the Go scheduler.",
	"C04": "exact contents of the replay buffer; messages stranded in the ring of a stopped inbox.",
	"C05": "that the replay slice is exactly msgs[nproc:] (arithmetic); a panicking Producer.",
	"C06": "counter overflow; timing of RestartDelay.",
	"C07": "pills/messages stranded in a stopped inbox's ring or batch tail; a Poison racing the actor's own stop; timing.",
	"C08": "the Len()-then-ForEach snapshot race in Children(); pills stranded in an already stopped child inbox.",
	"C09": "termination of event cascades in general; the window between inbox.Stop and Registry.Remove.",
	"C10": "Registry.Remove is by id, not by identity (a stale cleanup evicting a successor).",
	"C11": "uniqueness of the random response id (collision probability); timing; a responder blocking on a second reply.",
	"C12": "per-subscriber order beyond the structural order rules imported from C01/C14.",
	"C13": "equivalent but unrecognised loop shapes of the applicator (fail closed).",
	"C14": "FIFO order, grow-while-wrapped copy and PopN across the wrap as index arithmetic: only origin-dependence, locking and length accounting are decided.",
	"C15": "payload equality (protobuf round trip); the nil-sender encoding is a known finding.",
	"C16": "generated UnmarshalVT decoders, protobuf and drpc internals (trusted).",
	"C17": "once/in-order delivery over TCP, dead-lettering of messages already queued in a writer, accept-after-Stop inside drpc, concurrent Stop calls.",
	"C18": "set algebra beyond key agreement; duplicate entries are handled by construction (NewMemberSet) and checked only structurally.",
	"C19": "convergence once notifications are delivered; uniqueness under concurrent activations from two members.",
	"C20": "zeroconf discovery; ping timing.",
}
