package main

import (
	"encoding/json"
	"flag"
	"fmt"
	"os"
	"path/filepath"
	"runtime/debug"
	"sort"
	"strconv"
	"strings"
	"time"

	"golang.org/x/tools/go/ssa"
)

type propCheck func(w *World, r *Report)

var props = map[string]propCheck{}

func register(id string, f propCheck) { props[id] = f }

func main() {
	var (
		prop   = flag.String("p", "", "property id (C01..C20)")
		tier   = flag.String("tier", "quick", "quick | thorough")
		repo   = flag.String("repo", "/repo", "repository to analyse")
		verif  = flag.String("verif", "/verif", "verif directory (evidence, out, known findings)")
		replay = flag.String("replay", "", "replay file: re-evaluate that obligation")
		dump   = flag.String("dump", "", "debug: dump call paths of functions whose name contains this string")
		noEv   = flag.Bool("no-evidence", false, "do not write evidence/replay files (used by the variant sweep)")
		jsonO  = flag.Bool("json", false, "print obligations as JSON (used by the variant sweep)")
	)
	extra := flag.String("extra", "", "JSON object merged into the evidence coverage (results of the variant sweep)")
	dumpTypes := flag.Bool("dump-types", false, "print the unexported named types of the module (the pinned table of inline.go) and exit")
	dumpFields := flag.Bool("dump-fields", false, "print the fields of the module's struct types (the pinned table of inline.go) and exit")
	dumpFn := flag.Bool("dump-funcs", false, "print the names of the library functions (the pinned table of inline.go) and exit")
	genV := flag.String("gen-variants", "", "write single-edit variants of the library sources of -repo into this directory and exit")
	sweepDir := flag.String("sweep", "", "analyse every variant directory under this directory in-process (overlay on -repo); with -p")
	shard := flag.String("shard", "0/1", "i/n: analyse only every n-th variant starting at i")
	flag.Parse()
	if *sweepDir != "" {
		ids := []string{*prop}
		if *prop == "all" || *prop == "" {
			ids = nil
			for id := range props {
				ids = append(ids, id)
			}
			sort.Strings(ids)
		}
		known := map[string]bool{}
		if ks, err := loadKnown(filepath.Join(*verif, "known_findings.json")); err == nil {
			for _, k := range ks {
				if k.Status == "known" {
					known[k.Key] = true
				}
			}
		}
		var si, sn int
		fmt.Sscanf(*shard, "%d/%d", &si, &sn)
		if sn < 1 {
			sn = 1
		}
		if err := sweepInProcess(*repo, *sweepDir, ids, si, sn, known); err != nil {
			fmt.Println(err)
			os.Exit(2)
		}
		return
	}
	if *genV != "" {
		if err := genVariants(*repo, *genV); err != nil {
			fmt.Println(err)
			os.Exit(2)
		}
		return
	}
	seed := int64(0)
	if s := os.Getenv("VERIF_SEED"); s != "" {
		seed, _ = strconv.ParseInt(s, 10, 64)
	}
	if t := os.Getenv("VERIF_TIER"); t != "" && !isFlagSet("tier") {
		*tier = t
	}
	if *replay != "" {
		os.Exit(doReplay(*replay, *repo, *verif))
	}
	start := time.Now()
	w, err := loadWorld(*repo, *tier)
	if *dumpTypes && err == nil {
		for _, n := range w.libTypeTable() {
			fmt.Println(n)
		}
		return
	}
	if *dumpFields && err == nil {
		for _, n := range w.libStructFields() {
			fmt.Println(n)
		}
		return
	}
	if *dumpFn && err == nil {
		for _, n := range w.libFuncNames() {
			fmt.Println(n)
		}
		return
	}
	if err == nil {
		prepareInlining(w)
	}
	if *dump != "" {
		if err != nil {
			fmt.Println(err)
			os.Exit(2)
		}
		dumpFuncs(w, *dump)
		return
	}
	ids := []string{*prop}
	if *prop == "all" {
		ids = nil
		for id := range props {
			ids = append(ids, id)
		}
		sort.Strings(ids)
	}
	exit := 0
	known, kerr := loadKnown(filepath.Join(*verif, "known_findings.json"))
	for _, id := range ids {
		f, ok := props[id]
		if !ok {
			fmt.Printf("unknown property %q\n", id)
			os.Exit(2)
		}
		r := newReport(id)
		t0 := time.Now()
		if err != nil {
			r.Rule(id+".load", "the module loads and type-checks", 1)
			r.Unknown(id+".load", "load", "load and type-check "+*repo, "-", err.Error())
		} else if kerr != nil {
			r.Rule(id+".load", "known_findings.json parses", 1)
			r.Unknown(id+".load", "known-findings", "read known_findings.json", "-", kerr.Error())
		} else {
			runGuarded(w, r, f)
		}
		info := runInfo{Tier: *tier, Seed: seed, VerifDir: *verif, Extra: map[string]any{}}
		if w != nil {
			for k := range w.SP {
				info.Packages = append(info.Packages, k)
			}
			sort.Strings(info.Packages)
			info.Functions = len(w.Funcs)
		}
		if *extra != "" {
			if b, e := os.ReadFile(*extra); e == nil {
				var m map[string]any
				if json.Unmarshal(b, &m) == nil {
					for k, v := range m {
						info.Extra[k] = v
					}
				}
			}
		}
		if w != nil {
			// how the tree was read: helpers spliced into their callers, handlers read in place, renamed private names
			var spliced, virt []string
			for h := range w.inlSites {
				spliced = append(spliced, rawName(h))
			}
			for f := range w.virt {
				virt = append(virt, fname(f))
			}
			sort.Strings(spliced)
			sort.Strings(virt)
			if len(spliced) > 0 {
				info.Extra["spliced_fresh_helpers"] = spliced
			}
			if len(virt) > 0 {
				info.Extra["handlers_read_in_place"] = virt
			}
			if len(typeRenameTo) > 0 {
				info.Extra["renamed_private_types"] = typeRenameTo
			}
		}
		info.Wall = time.Since(t0).Seconds()
		if len(ids) == 1 {
			info.Wall = time.Since(start).Seconds()
		}
		if *jsonO {
			b, _ := json.Marshal(r.Obs)
			fmt.Println(string(b))
		}
		if *noEv {
			continue
		}
		if c := r.finish(known, info); c != 0 {
			exit = c
		}
	}
	os.Exit(exit)
}

func isFlagSet(name string) bool {
	set := false
	flag.Visit(func(f *flag.Flag) {
		if f.Name == name {
			set = true
		}
	})
	return set
}

// runGuarded turns an analyser panic into an undecided obligation (fail closed).
func runGuarded(w *World, r *Report, f propCheck) {
	defer func() {
		if v := recover(); v != nil {
			id := r.Prop + ".internal"
			r.Rule(id, "the analyser completes", 1)
			st := string(debug.Stack())
			if len(st) > 1500 {
				st = st[:1500]
			}
			r.Unknown(id, "panic", "analyser panicked", "-", fmt.Sprintf("%v\n%s", v, st))
		}
	}()
	f(w, r)
}

func doReplay(path, repo, verif string) int {
	b, err := os.ReadFile(path)
	if err != nil {
		fmt.Println(err)
		return 2
	}
	var rep struct {
		Property string `json:"property"`
		Key      string `json:"key"`
	}
	if err := json.Unmarshal(b, &rep); err != nil {
		fmt.Println(err)
		return 2
	}
	f, ok := props[rep.Property]
	if !ok {
		fmt.Println("unknown property in replay file")
		return 2
	}
	w, err := loadWorld(repo, "quick")
	if err != nil {
		fmt.Println(err)
		return 1
	}
	r := newReport(rep.Property)
	runGuarded(w, r, f)
	for _, o := range r.Obs {
		if o.Key == rep.Key {
			js, _ := json.MarshalIndent(o, "", " ")
			fmt.Println(string(js))
			if o.Verdict != Discharged {
				fmt.Printf("VIOLATION property=%s replay=%s\n", rep.Property, path)
				return 1
			}
			fmt.Println("obligation is discharged on the current tree")
			return 0
		}
	}
	fmt.Println("obligation", rep.Key, "no longer exists on the current tree")
	return 0
}

func dumpFuncs(w *World, sub string) {
	for _, fn := range w.Funcs {
		if !strings.Contains(fn.String(), sub) {
			continue
		}
		fmt.Println("==", fname(fn), w.fnPos(fn))
		for _, b := range fn.Blocks {
			for _, in := range b.Instrs {
				switch x := in.(type) {
				case ssa.CallInstruction:
					c := x.Common()
					fc := &flowCtx{w: w, seen: map[ssa.Value]bool{}}
					fmt.Printf("  b%d %-6s %s\n", b.Index, callKind(x), fc.call(c))
				case *ssa.Store:
					fmt.Printf("  b%d store  %s <- %s\n", b.Index, w.pathOf(x.Addr), w.pathOf(x.Val))
				case *ssa.Return:
					var rs []string
					for _, v := range x.Results {
						rs = append(rs, w.pathOf(v))
					}
					fmt.Printf("  b%d return %s\n", b.Index, strings.Join(rs, ", "))
				case *ssa.If:
					fmt.Printf("  b%d if     %s -> b%d / b%d\n", b.Index, w.pathOf(x.Cond), b.Succs[0].Index, b.Succs[1].Index)
				case *ssa.MapUpdate:
					fmt.Printf("  b%d mapupd %s[%s] <- %s\n", b.Index, w.pathOf(x.Map), w.pathOf(x.Key), w.pathOf(x.Value))
				case *ssa.Send:
					fmt.Printf("  b%d send   %s <- %s\n", b.Index, w.pathOf(x.Chan), w.pathOf(x.X))
				}
			}
		}
	}
}
