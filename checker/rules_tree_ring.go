package main

import (
	"fmt"
	"go/token"
	"go/types"
	"strings"

	"golang.org/x/tools/go/ssa"
)

func init() {
	register("C08", checkC08)
	register("C14", checkC14)
}

// ---------------------------------------------------------------------------
// C08 — supervision tree
// ---------------------------------------------------------------------------

func checkC08(w *World, r *Report) {
	r.Rule("C08.R1", "the stop function poisons every child and waits for it before the parent's inbox stops, before it is unregistered, before its Stopped and before its stop context is cancelled", 3)
	r.Rule("C08.R2", "a stopping child removes itself from its parent's children, whenever it has a parent", 1)
	r.Rule("C08.R3", "SpawnChild links the child to the parent before it is started, records it in children afterwards, and derives its kind from the parent's id", 3)
	r.Rule("C08.R4", "Parent() names the spawning context's pid; Children()/Child() read only the children map; only SpawnChild and the stop function write it; only SpawnChild sets the parent link", 5)
	r.Rule("C08.R5", "pill linearity (a parent waits on the pill it sends to each child)", 2)
	pr := w.findProcRoles()
	if pr.fail(r, "C08.R1") {
		return
	}
	checkChildrenRegion(w, r, pr, "C08.R1")
	pr.lta.export(r, "C08.R1", []string{"cancel-before-stopped"}, "the parent's stop context is cancelled last")

	ctxT := pr.ctxT
	// R2
	{
		g := w.FGI(pr.stopFn)
		del := w.Method("safemap", "SafeMap", "Delete")
		_, nonNil := w.nilEdges(g, "~.context.parentCtx")
		isNil, _ := w.nilEdges(g, "~.context.parentCtx")
		D := make([]bool, len(g.ins))
		for i, in := range g.ins {
			if c := callOf(in); c != nil && c.StaticCallee() != nil && origin(c.StaticCallee()) == del {
				if _, isCall := in.(*ssa.Call); isCall && strings.HasSuffix(w.pathOf(c.Args[0]), ".context.parentCtx.children") && strings.HasSuffix(w.pathOf(c.Args[1]), ".pid.ID") {
					D[i] = true
				}
			}
		}
		ok := len(nonNil) > 0 && anyOf(D)
		cut := map[Edge]bool{}
		for _, e := range isNil {
			cut[e] = true
		}
		reach := g.reach(g.entry(), D, cut)
		for _, x := range g.returns {
			if reach[x] {
				ok = false
			}
		}
		r.Check(ok, "C08.R2", fname(pr.stopFn)+":leaves-parent", "parentCtx.children.Delete(p.pid.ID) on every path with a parent", w.fnPos(pr.stopFn),
			"a child that stops on its own stays listed in its parent's Children(); the parent later poisons a dead PID")
		// ... and before the id is released: once unregistered the parent may respawn the same id,
		// a later Delete would remove the successor's entry.
		okB := anyOf(D)
		rem := w.Nodes(g, EvCall("Registry.Remove", w.Method("actor", "Registry", "Remove")), false)
		for _, rm := range members(rem) {
			if reach[rm] {
				okB = false
			}
		}
		r.Check(okB, "C08.R2", fname(pr.stopFn)+":leaves-parent-before-unregistering", "the child leaves its parent's children before its id is released in the registry", w.fnPos(pr.stopFn),
			"the id can be re-spawned by the parent between Registry.Remove and the Delete: the old child then deletes its successor from Children(), which is no longer supervised")
	}
	// R3
	sc := w.Method("actor", "Context", "SpawnChild")
	if sc == nil {
		r.Unknown("C08.R3", "Context.SpawnChild", "SpawnChild exists", "-", "not found")
	} else {
		g := w.FGI(sc)
		site := w.fnPos(sc)
		spawnProc := w.Method("actor", "Engine", "SpawnProc")
		set := w.Method("safemap", "SafeMap", "Set")
		link := make([]bool, len(g.ins))
		for i, in := range g.ins {
			if st, ok := in.(*ssa.Store); ok {
				if fa, ok := st.Addr.(*ssa.FieldAddr); ok && isFieldOf(fa, ctxT, "parentCtx") && w.pathOf(st.Val) == "P0" {
					link[i] = true
				}
			}
		}
		sp := w.callsIn(sc, EvCall("SpawnProc", spawnProc))
		ok := len(sp) == 1 && anyOf(link)
		var spN int
		if ok {
			spN = g.idx[sp[0].(ssa.Instruction)]
			if !g.Before(link, spN) || callKind(sp[0]) != "call" {
				ok = false
			}
			// the linked context is the context of the process being spawned
			procArg := w.pathOf(sp[0].Common().Args[1])
			for _, n := range members(link) {
				st := g.ins[n].(*ssa.Store)
				if !strings.Contains(w.pathOf(st.Addr), procArg) {
					ok = false
				}
			}
		}
		r.Check(ok, "C08.R3", fname(sc)+":link-before-start", "the child's parentCtx is set to the spawning context before SpawnProc starts it", site,
			"the child can run (and stop) before it knows its parent: Parent() is nil in Started, and a child that stops early never leaves the parent's children")
		okSet := false
		if len(sp) == 1 {
			S := make([]bool, len(g.ins))
			for i, in := range g.ins {
				if c := callOf(in); c != nil && c.StaticCallee() != nil && origin(c.StaticCallee()) == set {
					if _, isCall := in.(*ssa.Call); isCall && w.pathOf(c.Args[0]) == "P0.children" {
						pid := w.pathOf(sp[0].(*ssa.Call))
						if w.pathOf(c.Args[2]) == pid && w.pathOf(c.Args[1]) == pid+".ID" {
							S[i] = true
						}
					}
				}
			}
			okSet = anyOf(S) && g.After(spN, S)
		}
		r.Check(okSet, "C08.R3", fname(sc)+":records-child", "after SpawnProc, children.Set(pid.ID, pid) on every path", site,
			"a spawned child is not recorded: the parent's shutdown does not stop it and Children() does not list it")
		// kind derived from the parent's id
		okKind := false
		for _, in := range g.ins {
			if st, ok := in.(*ssa.Store); ok {
				if fa, ok := st.Addr.(*ssa.FieldAddr); ok {
					if name, _ := fieldName(fa); name == "Kind" {
						p := w.pathOf(st.Val)
						if strings.Contains(p, "Context).PID(P0).ID") || strings.Contains(p, "P0.pid.ID") {
							okKind = strings.Contains(p, "P2")
						}
					}
				}
			}
		}
		r.Check(okKind, "C08.R3", fname(sc)+":child-kind", "the child's kind is parentID + separator + name", site, "the child's id does not extend the parent's id")
	}
	// R4
	{
		par := w.Method("actor", "Context", "Parent")
		if ok, why := w.returnsOnly2(par, "P0.parentCtx.pid", "K:nil"); ok {
			g := w.FGI(par)
			_, nonNil := w.nilEdges(g, "P0.parentCtx")
			okE := true
			for _, x := range g.returns {
				if w.pathOf(g.ins[x].(*ssa.Return).Results[0]) == "P0.parentCtx.pid" && !g.OnlyVia(nonNil, x) {
					okE = false
				}
				if w.pathOf(g.ins[x].(*ssa.Return).Results[0]) == "K:nil" && g.OnlyVia(nonNil, x) {
					okE = false
				}
			}
			r.Check(okE, "C08.R4", "Context.Parent", "Parent() returns parentCtx.pid when there is a parent, nil otherwise", w.fnPos(par), "Parent() returns nil although a parent exists")
		} else {
			r.Fail("C08.R4", "Context.Parent", "Parent() returns parentCtx.pid when there is a parent, nil otherwise", w.fnPos(par), "returns "+why)
		}
		child := w.Method("actor", "Context", "Child")
		if ok, why := w.returnsOnly(child, "re:call:\\(\\*safemap\\.SafeMap\\[K, V\\]\\)\\.Get\\(P0\\.children,P1\\)#0"); ok {
			r.OK("C08.R4", "Context.Child", "Child(id) reads children[id]", w.fnPos(child))
		} else {
			r.Fail("C08.R4", "Context.Child", "Child(id) reads children[id]", w.fnPos(child), why)
		}
		children := w.Method("actor", "Context", "Children")
		okC := false
		if children != nil {
			fe := w.Method("safemap", "SafeMap", "ForEach")
			for _, ci := range w.callsIn(children, EvCall("ForEach", fe)) {
				c := ci.Common()
				if w.pathOf(c.Args[0]) == "P0.children" {
					if mc, ok := c.Args[1].(*ssa.MakeClosure); ok {
						cf := mc.Fn.(*ssa.Function)
						// the visitor is a closure over a local counter, or a method value of a small collector
						// (slice + next index) that was built around the slice Children returns
						ctr, sliceField := "FV:", ""
						var val ssa.Value
						if len(cf.Params) == 2 {
							val = cf.Params[1]
						}
						collectorOK := true
						if t := thinWrapperTarget(cf); t != nil && cf.Synthetic != "" && len(t.Params) == 3 && len(mc.Bindings) == 1 {
							cf, val, ctr = t, t.Params[2], "P0."
							collectorOK = false
						}
						restoreCtx := func() {}
						if ctr == "P0." {
							restoreCtx = w.noCtx() // the collector's method is read in its own terms
						}
						cg := w.FGI(cf)
						slot := make([]bool, len(cg.ins))
						bump := make([]bool, len(cg.ins))
						for i, in := range cg.ins {
							if st, ok := in.(*ssa.Store); ok && val != nil && st.Val == val {
								if ia, isIdx := st.Addr.(*ssa.IndexAddr); isIdx && strings.HasPrefix(w.pathOf(ia.Index), ctr) {
									slot[i] = true
									if ctr == "P0." {
										sliceField = strings.TrimPrefix(w.pathOf(ia.X), "P0.")
									}
								}
							}
							if st, ok := in.(*ssa.Store); ok {
								if p := w.pathOf(st.Val); strings.HasPrefix(p, "("+ctr) && strings.HasSuffix(p, "+K:1)") {
									bump[i] = true
								}
							}
						}
						restoreCtx()
						if ctr == "P0." && sliceField != "" {
							// the collector handed to ForEach holds the returned slice and starts at index 0
							al, _ := mc.Bindings[0].(*ssa.Alloc)
							// `col := T{...}`: the literal is built in a temporary and copied into the variable
							if al != nil && al.Referrers() != nil {
								var whole []*ssa.Store
								for _, ref := range *al.Referrers() {
									if st, ok := ref.(*ssa.Store); ok && st.Addr == ssa.Value(al) {
										whole = append(whole, st)
									}
								}
								if len(whole) == 1 {
									if ld, ok := whole[0].Val.(*ssa.UnOp); ok && ld.Op == token.MUL {
										if tmp, ok := ld.X.(*ssa.Alloc); ok {
											al = tmp
										}
									}
								}
							}
							if al == nil {
								al = new(ssa.Alloc)
							}
							if fs, lit := w.litFields(al); lit && fs[sliceField] != nil {
								collectorOK = true
								for f, v := range fs {
									if f != sliceField && w.pathOf(v) != "K:0" {
										collectorOK = false
									}
								}
								for _, in := range w.insOf(children) {
									if ret, ok := in.(*ssa.Return); ok && w.pathOf(ret.Results[0]) != w.pathOf(fs[sliceField]) {
										collectorOK = false
									}
								}
							}
						}
						// each child goes into its own slot: store at the counter, then advance it, once per call
						okC = cg.Once(slot) && cg.Once(bump) && collectorOK
						for _, sn := range members(slot) {
							if !cg.After(sn, bump) {
								okC = false
							}
						}
						for _, bn := range members(bump) {
							if !cg.Before(slot, bn) {
								okC = false
							}
						}
						// the returned slice is the one the closure fills
						for _, in := range w.insOf(children) {
							{
								if ret, ok := in.(*ssa.Return); ok {
									if !strings.HasPrefix(w.pathOf(ret.Results[0]), "makeslice(call:(*safemap.SafeMap[K, V]).Len(P0.children)") {
										okC = false
									}
								}
							}
						}
					}
				}
			}
		}
		childrenDetail := ""
		if !okC && children != nil {
			for _, in := range w.insOf(children) {
				if ret, ok := in.(*ssa.Return); ok {
					childrenDetail += " returns " + w.pathOf(ret.Results[0])
				}
			}
		}
		r.Check(okC, "C08.R4", "Context.Children", "Children() returns the values of the children map", w.fnPos(children), "Children() does not list exactly the entries of the children map"+childrenDetail)
		// writers of Context.children contents
		set := w.Method("safemap", "SafeMap", "Set")
		del := w.Method("safemap", "SafeMap", "Delete")
		var writers []string
		for _, fn := range w.Funcs {
			if !w.isLib(fn) || fnPkgPath(fn) != modPath+"/actor" {
				continue
			}
			for _, in := range w.insOf(fn) {
				{
					if c := callOf(in); c != nil && c.StaticCallee() != nil {
						o := origin(c.StaticCallee())
						if (o == set || o == del) && strings.HasSuffix(w.pathOf(c.Args[0]), "children") {
							if fn != sc && fn != pr.stopFn {
								writers = append(writers, fname(fn))
							}
						}
					}
					if st, ok := in.(*ssa.Store); ok {
						if fa, ok := st.Addr.(*ssa.FieldAddr); ok && isFieldOf(fa, ctxT, "children") {
							if _, fresh := fa.X.(*ssa.Alloc); !fresh {
								writers = append(writers, fname(fn)+"(replaces map)")
							}
						}
					}
				}
			}
		}
		r.Check(len(writers) == 0, "C08.R4", "Context.children:writers", "only SpawnChild and the stop function change a context's children", w.fnPos(sc), fmt.Sprintf("other writers: %v", writers))
		// the parent link is set once, by SpawnChild (or in a fresh context), and never cleared or changed
		var pw []string
		for _, fn := range w.Funcs {
			if !w.isLib(fn) || fnPkgPath(fn) != modPath+"/actor" {
				continue
			}
			for _, in := range w.insOf(fn) {
				if st, ok := in.(*ssa.Store); ok {
					if fa, ok := st.Addr.(*ssa.FieldAddr); ok && isFieldOf(fa, ctxT, "parentCtx") {
						if _, fresh := fa.X.(*ssa.Alloc); fresh || fn == sc {
							continue
						}
						pw = append(pw, fname(fn)+" at "+w.pos(st.Pos()))
					}
				}
			}
		}
		r.Check(len(pw) == 0, "C08.R4", "Context.parentCtx:writers", "a context's parent link is written only by SpawnChild", w.fnPos(sc),
			fmt.Sprintf("also written by %v: Parent() changes during the actor's life (e.g. is nil while it handles Stopped)", pw))
	}
	checkContextFixed(w, r, "C08.R4")
	checkCancelDeferred(w, r, "C08.R1")
	checkPillLinearity(w, r, pr, "C08.R5")
	// the safemap under the children map keeps its own lock discipline
	sm := w.Named("safemap", "SafeMap")
	if sm != nil {
		w.exportLock(r, "C08.R4", &lockSpec{named: sm, mutex: "mu", guarded: map[string]bool{"data": true}}, w.fnPos(w.Method("safemap", "SafeMap", "Set")))
	}
	checkSafeMapLen(w, r, "C08.R4")
	if r.Prop == "C08" {
		// the parent's stop function and a child-spawning handler never run side by side: one worker per actor, also after
		// a restart (C02.R1-R5); Stop/Poison of a child always sends that child a pill of its own and waits on that pill's
		// context (C07.R1); the stop function runs after the drain, not before it (C07.R3)
		r.Rule("C08.R6", "one worker per actor (C02.R1-R5); every Stop/Poison makes its own pill and context (C07.R1); Invoke stops after the drain (C07.R3)", 10)
		importRules(w, r, checkC02, "C02", "C08.R6", func(o *Obligation) bool {
			return o.Rule == "C02.R1" || o.Rule == "C02.R2" || o.Rule == "C02.R3" || o.Rule == "C02.R4" || o.Rule == "C02.R5"
		})
		importRules(w, r, checkC07, "C07", "C08.R6", func(o *Obligation) bool { return o.Rule == "C07.R1" || o.Rule == "C07.R3" })
	}
}

// ---------------------------------------------------------------------------
// C14 — RingBuffer: mutual exclusion and length accounting (FIFO order is not decided)
// ---------------------------------------------------------------------------

func checkC14(w *World, r *Report) {
	r.Rule("C14.R1", "every access to the ring's content, its buffer fields and len happens under mu (len: atomic writes under mu, lock-free reads atomic); mu is released on every exit; Len is one atomic load", 5)
	r.Rule("C14.R2", "Push: exactly one atomic len+1 and exactly one store of the item parameter into the ring, on every path", 2)
	r.Rule("C14.R3", "Pop/PopN report false exactly on the len==0 edge and change nothing there; a true return carries exactly one atomic decrement: 1 for Pop, for PopN the length of the returned slice, which is min(n, len)", 6)
	rb := w.Named("ringbuffer", "RingBuffer")
	buf := w.Named("ringbuffer", "buffer")
	push := w.Method("ringbuffer", "RingBuffer", "Push")
	pop := w.Method("ringbuffer", "RingBuffer", "Pop")
	popn := w.Method("ringbuffer", "RingBuffer", "PopN")
	ln := w.Method("ringbuffer", "RingBuffer", "Len")
	if rb == nil || buf == nil || push == nil || pop == nil || popn == nil || ln == nil {
		r.Unknown("C14.R1", "anchors", "resolve ringbuffer.RingBuffer", "-", "RingBuffer / buffer / Push / Pop / PopN / Len not found")
		return
	}
	w.exportLock(r, "C14.R1", &lockSpec{named: rb, mutex: "mu", guarded: map[string]bool{"content": true}, deep: []*types.Named{buf}, atomicW: map[string]bool{"len": true}}, w.fnPos(push))
	// each operation is ONE critical section: what it read (positions, the need to grow) is still true when it writes.
	// A lock given up and taken again in mid-operation keeps every access "under the lock" and is still a lost update.
	for _, op := range []*ssa.Function{push, pop, popn} {
		g := w.FGI(op)
		locks := make([]bool, len(g.ins))
		for n, in := range g.ins {
			if c := callOf(in); c != nil && c.StaticCallee() != nil && c.StaticCallee().Pkg != nil && c.StaticCallee().Pkg.Pkg.Path() == "sync" {
				if nm := c.StaticCallee().Name(); nm == "Lock" || nm == "RLock" {
					locks[n] = true
				}
			}
		}
		once, _ := g.AtMostOnce(locks)
		r.Check(once && anyOf(locks), "C14.R1", "RingBuffer."+op.Name()+":one-critical-section", "the operation takes the lock once: everything it reads and writes happens in one critical section", w.fnPos(op),
			"the lock is taken more than once on a path (released and re-acquired in mid-operation): another Push/Pop/PopN runs in between on positions this operation has already read or advanced")
	}
	if ok, why := w.returnsOnly(ln, "call:sync/atomic.LoadInt64(&P0.len)"); ok {
		r.OK("C14.R1", "RingBuffer.Len", "Len() is a single atomic load of len", w.fnPos(ln))
	} else {
		r.Fail("C14.R1", "RingBuffer.Len", "Len() is a single atomic load of len", w.fnPos(ln), why)
	}
	r.Rule("C14.R4", "every element transfer (grow copy, slot written, slot read, PopN copy) depends on the ring origin head/tail, in ascending order, and the origin moves by the number of elements handled", 6)
	checkRingOrigin(w, r, "C14.R4")
	r.Rule("C14.R5", "ring index arithmetic where it is affine: growing is a rotation by the old head, PopN reads from head+1+i and advances by the count, Pop advances by one and reads the new head", 3)
	checkRingRotation(w, r, "C14.R5")
	ops := w.atomicOpsOn(rb, "len")
	// R2
	{
		g := w.FGI(push)
		inc := make([]bool, len(g.ins))
		other := false
		for _, op := range ops {
			if op.fn != push || op.kind == "Load" {
				continue
			}
			if op.kind == "Add" && op.new == "1" {
				inc[op.node] = true
			} else {
				other = true
			}
		}
		r.Check(g.Once(inc) && !other, "C14.R2", "RingBuffer.Push:len+1", "Push adds exactly 1 to len, once, on every path", w.fnPos(push), "Len drifts from pushes minus pops: the inbox worker mis-judges emptiness")
		st := make([]bool, len(g.ins))
		for i, in := range g.ins {
			if s, ok := in.(*ssa.Store); ok && w.pathOf(s.Val) == "P1" {
				if ia, ok := s.Addr.(*ssa.IndexAddr); ok && strings.HasSuffix(w.pathOf(ia.X), ".items") {
					st[i] = true
				}
			}
		}
		r.Check(g.Once(st), "C14.R2", "RingBuffer.Push:stores-item", "Push stores its item into the ring exactly once on every path", w.fnPos(push), "a pushed element is lost or stored twice")
	}
	// R3
	for _, fn := range []*ssa.Function{pop, popn} {
		g := w.FGI(fn)
		site := w.fnPos(fn)
		name := "RingBuffer." + fn.Name()
		empty, nonEmpty := g.CondEdges(func(v ssa.Value) (bool, bool) {
			b, ok := v.(*ssa.BinOp)
			if !ok {
				return false, false
			}
			x, y := w.pathOf(b.X), w.pathOf(b.Y)
			if x == "K:0" {
				x, y = y, x
				switch b.Op {
				case token.LSS:
					return false, y == "P0.len" // 0 < len : non-empty when true
				case token.GEQ:
					return true, y == "P0.len" // 0 >= len
				}
			}
			if x != "P0.len" || y != "K:0" {
				return false, false
			}
			switch b.Op {
			case token.EQL, token.LEQ:
				return true, true
			case token.NEQ, token.GTR:
				return false, true
			}
			return false, false
		})
		dec := make([]bool, len(g.ins))
		var decOps []atomicOp
		for _, op := range ops {
			if op.fn == fn && op.kind != "Load" {
				dec[op.node] = true
				decOps = append(decOps, op)
			}
		}
		okF, okT := len(empty) > 0, true
		detF, detT := "no len == 0 test", ""
		emptyReach := reachFromEdges(g, empty, nil)
		for _, rc := range g.retCases() {
			rs := rc.res
			flag := w.pathOf(rs[len(rs)-1])
			switch flag {
			case "K:false":
				if !rc.onlyVia(g, empty) {
					okF, detF = false, "a `false` return is reachable with a non-empty ring"
				}
			case "K:true":
				if rc.reachedFrom(g, empty) {
					okT, detT = false, "a `true` return is reachable on the empty edge"
				}
				// exactly one decrement on every path to this return
				if !rc.before(g, dec) {
					okT, detT = false, "a `true` return is reachable without decrementing len"
				}
			default:
				okT, detT = false, "the ok result is not a constant: "+flag
			}
		}
		for _, n := range members(dec) {
			if emptyReach[n] {
				okF, detF = false, "len is changed on the empty edge"
			}
		}
		if ok, _ := g.AtMostOnce(dec); !ok {
			okT, detT = false, "len is decremented more than once on a path"
		}
		_ = nonEmpty
		r.Check(okF, "C14.R3", name+":false-iff-empty", fn.Name()+" reports false only on the len == 0 edge and changes nothing there", site, detF)
		r.Check(okT, "C14.R3", name+":true-decrements-once", "every true return of "+fn.Name()+" carries exactly one atomic decrement of len", site, detT)
		// the amount
		okA := len(decOps) == 1
		detA := "expected exactly one atomic Add on len"
		if okA {
			op := decOps[0]
			if fn == pop {
				okA = op.kind == "Add" && op.new == "-1"
				detA = "Pop must decrement len by exactly 1"
			} else {
				// PopN: delta == -(length of the returned slice) and that length is min(n, len)
				var ms *ssa.MakeSlice
				alias := ""
				for _, rc := range g.retCases() {
					if m, ok := rc.res[0].(*ssa.MakeSlice); ok {
						ms = m
						continue
					}
					if k, isK := rc.res[0].(*ssa.Const); isK && k.IsNil() {
						continue
					}
					// every batch handed out is a slice made by this call: never (a part of) the ring's own storage
					alias = w.pathOf(rc.res[0])
				}
				if alias != "" {
					r.Fail("C14.R3", name+":fresh-batch", "PopN hands out a slice made by the call itself", site,
						"PopN returns "+alias+": the batch aliases slots that are already released, a later Push that laps the ring overwrites elements the caller still holds")
				} else {
					r.OK("C14.R3", name+":fresh-batch", "PopN hands out a slice made by the call itself", site)
				}
				delta := op.call.Call.Args[1]
				okA = false
				detA = "PopN must decrement len by the length of the slice it returns"
				if u, ok := delta.(*ssa.UnOp); ok && u.Op == token.SUB && ms != nil && stripConv(u.X) == stripConv(ms.Len) {
					okA = true
					// min(n, len)
					nv := stripConv(ms.Len)
					if !isMinOfParamAndLen(w, g, nv) {
						okA = false
						detA = "the number of popped elements is not min(n, len): " + w.pathOf(nv)
					}
				}
			}
		}
		r.Check(okA, "C14.R3", name+":amount", "the decrement equals the number of elements handed out", site, detA)
	}
}

func stripConv(v ssa.Value) ssa.Value {
	for {
		switch x := v.(type) {
		case *ssa.Convert:
			v = x.X
		case *ssa.ChangeType:
			v = x.X
		default:
			return v
		}
	}
}

// isMinOfParamAndLen recognises n' = min(n, len): a phi of P1 and the loaded len selected by
// `n >= len` / `n > len` (len chosen on the true edge), the mirrored forms, or the builtin min.
func isMinOfParamAndLen(w *World, g *FG, v ssa.Value) bool {
	if args, ok := isBuiltinCall(v, "min"); ok && len(args) == 2 {
		a, b := w.pathOf(args[0]), w.pathOf(args[1])
		return (a == "P1" && b == "P0.len") || (a == "P0.len" && b == "P1")
	}
	ph, ok := v.(*ssa.Phi)
	if !ok || len(ph.Edges) != 2 {
		return false
	}
	blk := ph.Block()
	for i, e := range ph.Edges {
		if w.pathOf(e) != "P0.len" {
			continue
		}
		other := ph.Edges[1-i]
		if w.pathOf(other) != "P1" {
			return false
		}
		// the len edge comes from a block entered on the edge where n >= len (or n > len)
		pred := blk.Preds[i]
		for _, pp := range pred.Preds {
			iff, ok := pp.Instrs[len(pp.Instrs)-1].(*ssa.If)
			if !ok {
				continue
			}
			b, ok := iff.Cond.(*ssa.BinOp)
			if !ok {
				continue
			}
			x, y := w.pathOf(b.X), w.pathOf(b.Y)
			onTrue := pp.Succs[0] == pred
			big := false // "n is at least len" holds on this edge
			switch {
			case x == "P1" && y == "P0.len" && (b.Op == token.GEQ || b.Op == token.GTR):
				big = onTrue
			case x == "P1" && y == "P0.len" && (b.Op == token.LSS || b.Op == token.LEQ):
				big = !onTrue
			case x == "P0.len" && y == "P1" && (b.Op == token.LEQ || b.Op == token.LSS):
				big = onTrue
			case x == "P0.len" && y == "P1" && (b.Op == token.GTR || b.Op == token.GEQ):
				big = !onTrue
			}
			if big {
				return true
			}
		}
	}
	return false
}
