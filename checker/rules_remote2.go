package main

// C17.R2 / R4 — the stream router, read on the flattened graph of streamRouter.Receive: whether the
// *streamDeliver and RemoteUnreachableEvent cases are written in place, in handler methods, or split
// between a lookup helper and the case body does not matter.

import (
	"go/types"
	"fmt"
	"strings"

	"golang.org/x/tools/go/ssa"
)

func checkRouter(w *World, r *Report, eSend *ssa.Function) {
	rrecv := w.Method("remote", "streamRouter", "Receive")
	if rrecv == nil {
		r.Unknown("C17.R2", "router", "router methods", "-", "streamRouter.Receive not found")
		r.Unknown("C17.R4", "router", "router methods", "-", "streamRouter.Receive not found")
		return
	}
	g := w.FGFlat(rrecv)
	old := w.cur
	w.cur = g
	w.curLock++
	defer func() { w.curLock--; w.cur = old }()
	site := w.fnPos(rrecv)
	es := w.caseEdges(g, "*remote.streamDeliver")
	eu := w.caseEdges(g, "actor.RemoteUnreachableEvent")
	isMsg := func(p string) bool {
		return strings.HasPrefix(p, "assert<*remote.streamDeliver>(") && strings.HasSuffix(p, "#0")
	}
	isAddr := func(p string) bool {
		return strings.HasPrefix(p, "assert<*remote.streamDeliver>(") && strings.HasSuffix(p, "#0.target.Address")
	}
	// ---- R2
	{
		var lk *ssa.Lookup
		for i, in := range g.ins {
			if l, ok := in.(*ssa.Lookup); ok && w.pathOf(l.X) == "P0.streams" && len(es) > 0 && g.OnlyVia(es, i) {
				lk = l
			}
		}
		ok := lk != nil && isAddr(w.pathOf(lk.Index))
		detail := "the writer table is not looked up by msg.target.Address"
		if len(es) == 0 {
			ok, detail = false, "no *streamDeliver case"
		}
		if ok {
			_, miss := g.CondEdges(func(v ssa.Value) (bool, bool) {
				if e, isE := v.(*ssa.Extract); isE && e.Tuple == ssa.Value(lk) && e.Index == 1 {
					return true, true
				}
				return false, false
			})
			var spawn []*ssa.Call
			sp := w.Method("actor", "Engine", "SpawnProc")
			for i, in := range g.ins {
				if c, isC := in.(*ssa.Call); isC && !g.inl[i] && c.Call.StaticCallee() == sp && sp != nil {
					spawn = append(spawn, c)
				}
			}
			if len(spawn) != 1 || len(miss) == 0 || !g.OnlyVia(miss, g.idx[spawn[0]]) {
				ok, detail = false, "a writer is spawned outside the miss edge (one writer per message)"
			} else {
				spp := w.pathOf(spawn[0])
				addr := w.pathOf(lk.Index)
				viaCtor := strings.Contains(spp, "newStreamWriter(P0.engine,P0.pid,"+addr+",")
				viaLit := strings.Contains(spp, "routerPID=P0.pid") && strings.Contains(spp, "writeToAddr="+addr) && strings.Contains(spp, "engine=P0.engine")
				if !viaCtor && !viaLit {
					ok, detail = false, "the writer is not created for msg.target.Address with the router's pid: "+spp
				}
				rec := false
				for i, in := range g.ins {
					if mu, isM := in.(*ssa.MapUpdate); isM && w.pathOf(mu.Map) == "P0.streams" && w.pathOf(mu.Key) == addr && w.pathOf(mu.Value) == spp && g.OnlyVia(miss, i) {
						rec = g.After(g.idx[spawn[0]], setOf(len(g.ins), i))
					}
				}
				if ok && !rec {
					ok, detail = false, "the new writer is not recorded under its address on the miss edge: the next message spawns another one (duplicate id) and ordering between the two is lost"
				}
				// every miss path spawns
				if ok && !actionOnEdge(g, miss, setOf(len(g.ins), g.idx[spawn[0]])) {
					ok, detail = false, "a miss does not always spawn a writer"
				}
			}
		}
		r.Check(ok, "C17.R2", "streamRouter:one-writer-per-address", "streams[msg.target.Address] is consulted; a writer is spawned and stored only on the miss edge", site, detail)
		// the delivery is forwarded exactly once to the writer of its address
		S := make([]bool, len(g.ins))
		for i, in := range g.ins {
			if c, isC := in.(*ssa.Call); isC && !g.inl[i] && c.Call.StaticCallee() == eSend && eSend != nil && len(c.Call.Args) == 3 {
				if w.pathOf(c.Call.Args[0]) == "P0.engine" && isMsg(w.pathOf(c.Call.Args[2])) && len(es) > 0 && g.OnlyVia(es, i) {
					tp := w.pathOf(c.Call.Args[1])
					if strings.Contains(tp, "P0.streams[") || strings.Contains(tp, "SpawnProc(") {
						S[i] = true
					}
				}
			}
		}
		okF := anyOf(S) && len(es) > 0
		if okF {
			rr := reachFromEdges(g, es, S)
			for _, x := range g.returns {
				if rr[x] {
					okF = false
				}
			}
			for _, s := range members(S) {
				after := g.reach(g.succ[s], nil, nil)
				for _, s2 := range members(S) {
					if after[s2] {
						okF = false
					}
				}
			}
		}
		r.Check(okF, "C17.R2", "streamRouter:forwards-delivery", "a *streamDeliver is sent exactly once, unchanged, to the writer found or spawned for its address", site,
			"A delivery is not forwarded exactly once to the address's writer.")
		r.Check(len(es) > 0, "C17.R2", "streamRouter:dispatch-deliver", "the router has a case for *streamDeliver", site, "streamDeliver messages are not routed")
	}
	// ---- R4
	{
		D := make([]bool, len(g.ins))
		for i, in := range g.ins {
			if c, isC := in.(*ssa.Call); isC {
				if args, isD := isBuiltinCall(c, "delete"); isD && w.pathOf(args[0]) == "P0.streams" {
					kp := w.pathOf(args[1])
					if strings.HasPrefix(kp, "assert<actor.RemoteUnreachableEvent>(") && strings.HasSuffix(kp, "#0.ListenAddr") {
						D[i] = true
					}
				}
			}
		}
		ok := anyOf(D) && len(eu) > 0
		if ok {
			rr := reachFromEdges(g, eu, D)
			for _, x := range g.returns {
				if rr[x] {
					ok = false
				}
			}
		}
		r.Check(ok, "C17.R4", "streamRouter:forgets-writer", "on RemoteUnreachableEvent: delete(streams, ev.ListenAddr) on every path", site, "the router keeps the dead writer: every later message for that address dead-letters, no re-dial")
		r.Check(len(eu) > 0, "C17.R4", "streamRouter:dispatch-unreachable", "the router has a case for RemoteUnreachableEvent", site, "RemoteUnreachableEvent is ignored by the router")
	}
}

// checkCodec: C15.R8 — the serializer the writer is built with and the deserializer the reader is built
// with belong to one codec family (proto.Marshal/proto.Unmarshal, or MarshalVT/UnmarshalVT), on every
// path: what one side accepts the other can decode. And the active deserializer returns a message
// created by this very call, never one that lives in package-level state (all inbound messages of a
// type would be one object).
func checkCodec(w *World, r *Report, rule string) {
	// the concrete types stored into streamWriter.serializer / streamReader.deserializer
	active := func(structName, field, method string) (*ssa.Function, string) {
		named := w.Named("remote", structName)
		if named == nil {
			return nil, ""
		}
		var found *ssa.Function
		tn := ""
		for _, fn := range w.Funcs {
			if !w.isLib(fn) || fnPkgPath(fn) != modPath+"/remote" {
				continue
			}
			for _, b := range fn.Blocks {
				for _, in := range b.Instrs {
					st, ok := in.(*ssa.Store)
					if !ok {
						continue
					}
					fa, ok := st.Addr.(*ssa.FieldAddr)
					if !ok || !isFieldOf(fa, named, field) {
						continue
					}
					if mi, ok := st.Val.(*ssa.MakeInterface); ok {
						if nt, _ := structOf(mi.X.Type()); nt != nil {
							if m := w.Method("remote", nt.Obj().Name(), method); m != nil {
								found, tn = m, nt.Obj().Name()
							}
						}
					}
				}
			}
		}
		return found, tn
	}
	ser, serT := active("streamWriter", "serializer", "Serialize")
	des, desT := active("streamReader", "deserializer", "Deserialize")
	if ser == nil || des == nil {
		r.Unknown(rule, "codec:active", "the serializer of the stream writer and the deserializer of the stream reader are concrete types of package remote", "-",
			"could not resolve the value stored into streamWriter.serializer / streamReader.deserializer")
		return
	}
	family := func(fn *ssa.Function, protoFn, vtMethod string) (usesProto, usesVT bool) {
		for _, in := range w.insOf(fn) {
			c := callOf(in)
			if c == nil {
				continue
			}
			if f := c.StaticCallee(); f != nil && f.String() == "google.golang.org/protobuf/proto."+protoFn {
				usesProto = true
			}
			if c.IsInvoke() && c.Method.Name() == vtMethod {
				usesVT = true
			}
		}
		return
	}
	sp, sv := family(ser, "Marshal", "MarshalVT")
	dp, dv := family(des, "Unmarshal", "UnmarshalVT")
	ok := (sp || sv) && (dp || dv) && !(sp && sv) && !(dp && dv) && sp == dp
	r.Check(ok, rule, "codec:same-family", "the writer's "+serT+".Serialize and the reader's "+desT+".Deserialize use one codec family on every path", w.fnPos(ser),
		fmt.Sprintf("Serialize uses proto.Marshal=%v MarshalVT=%v, Deserialize uses proto.Unmarshal=%v UnmarshalVT=%v: the two codecs do not accept the same payloads (the generated marshal code skips validation the reflective unmarshal enforces), so a message the writer ships can end the peer's stream and take the rest of its batch with it", sp, sv, dp, dv))
	// freshness of the decoded message
	g := w.FGI(des)
	fresh := true
	detail := ""
	for _, rc := range g.retCases() {
		if len(rc.res) != 2 {
			continue
		}
		if k, isK := rc.res[0].(*ssa.Const); isK && k.IsNil() {
			continue
		}
		if src := w.fromPackageState(rc.res[0], 0, map[ssa.Value]bool{}); src != "" {
			fresh, detail = false, "the returned message comes from "+src
		}
	}
	r.Check(fresh, rule, "codec:fresh-message", "the active deserializer returns a message created by the call itself", w.fnPos(des),
		detail+": every inbound message of that type is the same object, a later payload overwrites the ones delivered before")
	// the type is the one the message names, by its full name and nothing less (a lookup that strips or rewrites the
	// name — FindMessageByURL drops everything up to the last '/' — decodes a payload as a type the peer did not name)
	{
		okN := true
		detail := ""
		n := 0
		for _, in := range w.insOf(des) {
			c := callOf(in)
			if c == nil || c.StaticCallee() == nil {
				continue
			}
			f := c.StaticCallee()
			if f.Pkg != nil && strings.HasSuffix(f.Pkg.Pkg.Path(), "reflect/protoregistry") {
				n++
				if f.Name() != "FindMessageByName" {
					okN, detail = false, "the type is looked up with "+f.Name()
					continue
				}
				if p := w.pathOf(c.Args[len(c.Args)-1]); p != "P2" && !(strings.HasPrefix(p, "conv<") && strings.HasSuffix(p, ">(P2)")) {
					okN, detail = false, "the type is looked up by "+p+", not by the message's type name"
				}
			}
		}
		if n > 0 {
			r.Check(okN, rule, "codec:type-by-exact-name", "the active deserializer resolves the message type by the full type name it was given", w.fnPos(des),
				detail+": a type name the sender never registered is accepted and decoded as some other type")
		}
	}
	// what is a valid encoding is the codec's business alone: Deserialize takes no decision of its own on the payload
	// bytes (a message whose fields are all at their default encodes to zero bytes; a length test refuses it)
	{
		var data *ssa.Parameter
		for _, p := range des.Params {
			if sl, ok := p.Type().Underlying().(*types.Slice); ok {
				if b, ok := sl.Elem().Underlying().(*types.Basic); ok && b.Kind() == types.Byte {
					data = p
				}
			}
		}
		var decides []string
		if data != nil {
			taint := map[ssa.Value]bool{data: true}
			work := []ssa.Value{data}
			for len(work) > 0 {
				v := work[len(work)-1]
				work = work[:len(work)-1]
				if v.Referrers() == nil {
					continue
				}
				for _, ref := range *v.Referrers() {
					switch x := ref.(type) {
					case *ssa.If:
						// a refusal of its own: from this branch a return with an error that is not nil is reached
						// without the codec having been asked
						dg := w.FGI(des)
						n := dg.idx[x]
						asked := make([]bool, len(dg.ins))
						for i, in := range dg.ins {
							if c := callOf(in); c != nil {
								if f := c.StaticCallee(); f != nil && strings.HasPrefix(f.String(), "google.golang.org/protobuf/proto.Unmarshal") {
									asked[i] = true
								}
								if c.IsInvoke() && c.Method.Name() == "UnmarshalVT" {
									asked[i] = true
								}
							}
						}
						rr := dg.reach(dg.succ[n], asked, nil)
						for _, rx := range dg.returns {
							if !rr[rx] {
								continue
							}
							ret := dg.ins[rx].(*ssa.Return)
							if len(ret.Results) == 2 {
								if k, isK := ret.Results[1].(*ssa.Const); !isK || !k.IsNil() {
									decides = append(decides, w.pos(x.Cond.Pos()))
								}
							}
						}
					case *ssa.Call:
						if b, ok := x.Call.Value.(*ssa.Builtin); ok && (b.Name() == "len" || b.Name() == "cap") && !taint[x] {
							taint[x] = true
							work = append(work, x)
						}
					case *ssa.BinOp, *ssa.UnOp, *ssa.Slice, *ssa.Convert, *ssa.ChangeType, *ssa.Phi, *ssa.Index, *ssa.IndexAddr:
						if val, ok := ref.(ssa.Value); ok && !taint[val] {
							taint[val] = true
							work = append(work, val)
						}
					}
				}
			}
		}
		r.Check(data != nil && len(decides) == 0, rule, "codec:payload-not-judged", "the active deserializer refuses no payload on its own: no branch on something computed from the payload bytes leads to an error return without the codec having been asked", w.fnPos(des),
			"Deserialize branches on the payload at "+strings.Join(decides, ", ")+": an encoding the peer's codec produced (a message with all fields at their default is zero bytes long) is refused, the reader returns and the rest of the batch is lost with the stream")
	}
}

// fromPackageState: v is (derived from) a value held in a package-level variable of the module: where from, else "".
func (w *World) fromPackageState(v ssa.Value, depth int, seen map[ssa.Value]bool) string {
	if v == nil || depth > 6 || seen[v] {
		return ""
	}
	seen[v] = true
	switch x := v.(type) {
	case *ssa.Global:
		if x.Pkg != nil && strings.HasPrefix(x.Pkg.Pkg.Path(), modPath) {
			return "package variable " + x.Name()
		}
	case *ssa.UnOp:
		return w.fromPackageState(x.X, depth+1, seen)
	case *ssa.Lookup:
		return w.fromPackageState(x.X, depth+1, seen)
	case *ssa.Index:
		return w.fromPackageState(x.X, depth+1, seen)
	case *ssa.IndexAddr:
		return w.fromPackageState(x.X, depth+1, seen)
	case *ssa.FieldAddr:
		return w.fromPackageState(x.X, depth+1, seen)
	case *ssa.Field:
		return w.fromPackageState(x.X, depth+1, seen)
	case *ssa.Extract:
		if c, ok := x.Tuple.(*ssa.Call); ok {
			if f := c.Call.StaticCallee(); f != nil && w.inMod[f] && f.Blocks != nil {
				fg := w.FG(f)
				for _, rn := range fg.returns {
					rs := fg.ins[rn].(*ssa.Return).Results
					if x.Index < len(rs) {
						if s := w.fromPackageState(rs[x.Index], depth+1, seen); s != "" {
							return s + " (via " + fname(f) + ")"
						}
					}
				}
			}
			return ""
		}
		return w.fromPackageState(x.Tuple, depth+1, seen)
	case *ssa.Call:
		if f := x.Call.StaticCallee(); f != nil && w.inMod[f] && f.Blocks != nil {
			fg := w.FG(f)
			for _, rn := range fg.returns {
				rs := fg.ins[rn].(*ssa.Return).Results
				if len(rs) > 0 {
					if s := w.fromPackageState(rs[0], depth+1, seen); s != "" {
						return s + " (via " + fname(f) + ")"
					}
				}
			}
		}
		return ""
	case *ssa.MakeInterface:
		return w.fromPackageState(x.X, depth+1, seen)
	case *ssa.ChangeInterface:
		return w.fromPackageState(x.X, depth+1, seen)
	case *ssa.ChangeType:
		return w.fromPackageState(x.X, depth+1, seen)
	case *ssa.TypeAssert:
		return w.fromPackageState(x.X, depth+1, seen)
	case *ssa.Phi:
		for _, e := range x.Edges {
			if s := w.fromPackageState(e, depth+1, seen); s != "" {
				return s
			}
		}
	}
	return ""
}
