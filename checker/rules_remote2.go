package main

// C17.R2 / R4 — the stream router, read on the flattened graph of streamRouter.Receive: whether the
// *streamDeliver and RemoteUnreachableEvent cases are written in place, in handler methods, or split
// between a lookup helper and the case body does not matter.

import (
	"strings"

	"golang.org/x/tools/go/ssa"
)

func checkRouter(w *World, r *Report, eSend *ssa.Function) {
	rrecv := w.Method("remote", "streamRouter", "Receive")
	if rrecv == nil {
		r.Unknown("C17.R2", "router", "router methods", "-", "streamRouter.Receive not found")
		r.Unknown("C17.R4", "router", "router methods", "-", "streamRouter.Receive not found")
		return
	}
	g := w.FGFlat(rrecv)
	old := w.cur
	w.cur = g
	w.curLock++
	defer func() { w.curLock--; w.cur = old }()
	site := w.fnPos(rrecv)
	es := w.caseEdges(g, "*remote.streamDeliver")
	eu := w.caseEdges(g, "actor.RemoteUnreachableEvent")
	isMsg := func(p string) bool {
		return strings.HasPrefix(p, "assert<*remote.streamDeliver>(") && strings.HasSuffix(p, "#0")
	}
	isAddr := func(p string) bool {
		return strings.HasPrefix(p, "assert<*remote.streamDeliver>(") && strings.HasSuffix(p, "#0.target.Address")
	}
	// ---- R2
	{
		var lk *ssa.Lookup
		for i, in := range g.ins {
			if l, ok := in.(*ssa.Lookup); ok && w.pathOf(l.X) == "P0.streams" && len(es) > 0 && g.OnlyVia(es, i) {
				lk = l
			}
		}
		ok := lk != nil && isAddr(w.pathOf(lk.Index))
		detail := "the writer table is not looked up by msg.target.Address"
		if len(es) == 0 {
			ok, detail = false, "no *streamDeliver case"
		}
		if ok {
			_, miss := g.CondEdges(func(v ssa.Value) (bool, bool) {
				if e, isE := v.(*ssa.Extract); isE && e.Tuple == ssa.Value(lk) && e.Index == 1 {
					return true, true
				}
				return false, false
			})
			var spawn []*ssa.Call
			sp := w.Method("actor", "Engine", "SpawnProc")
			for i, in := range g.ins {
				if c, isC := in.(*ssa.Call); isC && !g.inl[i] && c.Call.StaticCallee() == sp && sp != nil {
					spawn = append(spawn, c)
				}
			}
			if len(spawn) != 1 || len(miss) == 0 || !g.OnlyVia(miss, g.idx[spawn[0]]) {
				ok, detail = false, "a writer is spawned outside the miss edge (one writer per message)"
			} else {
				spp := w.pathOf(spawn[0])
				addr := w.pathOf(lk.Index)
				viaCtor := strings.Contains(spp, "newStreamWriter(P0.engine,P0.pid,"+addr+",")
				viaLit := strings.Contains(spp, "routerPID=P0.pid") && strings.Contains(spp, "writeToAddr="+addr) && strings.Contains(spp, "engine=P0.engine")
				if !viaCtor && !viaLit {
					ok, detail = false, "the writer is not created for msg.target.Address with the router's pid: "+spp
				}
				rec := false
				for i, in := range g.ins {
					if mu, isM := in.(*ssa.MapUpdate); isM && w.pathOf(mu.Map) == "P0.streams" && w.pathOf(mu.Key) == addr && w.pathOf(mu.Value) == spp && g.OnlyVia(miss, i) {
						rec = g.After(g.idx[spawn[0]], setOf(len(g.ins), i))
					}
				}
				if ok && !rec {
					ok, detail = false, "the new writer is not recorded under its address on the miss edge: the next message spawns another one (duplicate id) and ordering between the two is lost"
				}
				// every miss path spawns
				if ok && !actionOnEdge(g, miss, setOf(len(g.ins), g.idx[spawn[0]])) {
					ok, detail = false, "a miss does not always spawn a writer"
				}
			}
		}
		r.Check(ok, "C17.R2", "streamRouter:one-writer-per-address", "streams[msg.target.Address] is consulted; a writer is spawned and stored only on the miss edge", site, detail)
		// the delivery is forwarded exactly once to the writer of its address
		S := make([]bool, len(g.ins))
		for i, in := range g.ins {
			if c, isC := in.(*ssa.Call); isC && !g.inl[i] && c.Call.StaticCallee() == eSend && eSend != nil && len(c.Call.Args) == 3 {
				if w.pathOf(c.Call.Args[0]) == "P0.engine" && isMsg(w.pathOf(c.Call.Args[2])) && len(es) > 0 && g.OnlyVia(es, i) {
					tp := w.pathOf(c.Call.Args[1])
					if strings.Contains(tp, "P0.streams[") || strings.Contains(tp, "SpawnProc(") {
						S[i] = true
					}
				}
			}
		}
		okF := anyOf(S) && len(es) > 0
		if okF {
			rr := reachFromEdges(g, es, S)
			for _, x := range g.returns {
				if rr[x] {
					okF = false
				}
			}
			for _, s := range members(S) {
				after := g.reach(g.succ[s], nil, nil)
				for _, s2 := range members(S) {
					if after[s2] {
						okF = false
					}
				}
			}
		}
		r.Check(okF, "C17.R2", "streamRouter:forwards-delivery", "a *streamDeliver is sent exactly once, unchanged, to the writer found or spawned for its address", site,
			"A delivery is not forwarded exactly once to the address's writer.")
		r.Check(len(es) > 0, "C17.R2", "streamRouter:dispatch-deliver", "the router has a case for *streamDeliver", site, "streamDeliver messages are not routed")
	}
	// ---- R4
	{
		D := make([]bool, len(g.ins))
		for i, in := range g.ins {
			if c, isC := in.(*ssa.Call); isC {
				if args, isD := isBuiltinCall(c, "delete"); isD && w.pathOf(args[0]) == "P0.streams" {
					kp := w.pathOf(args[1])
					if strings.HasPrefix(kp, "assert<actor.RemoteUnreachableEvent>(") && strings.HasSuffix(kp, "#0.ListenAddr") {
						D[i] = true
					}
				}
			}
		}
		ok := anyOf(D) && len(eu) > 0
		if ok {
			rr := reachFromEdges(g, eu, D)
			for _, x := range g.returns {
				if rr[x] {
					ok = false
				}
			}
		}
		r.Check(ok, "C17.R4", "streamRouter:forgets-writer", "on RemoteUnreachableEvent: delete(streams, ev.ListenAddr) on every path", site, "the router keeps the dead writer: every later message for that address dead-letters, no re-dial")
		r.Check(len(eu) > 0, "C17.R4", "streamRouter:dispatch-unreachable", "the router has a case for RemoteUnreachableEvent", site, "RemoteUnreachableEvent is ignored by the router")
	}
}
