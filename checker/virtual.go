package main

// Virtual handlers. A Receive function dispatches each message type to a handler method; rules about
// a message type are written against that handler (its parameters are P0 = receiver, then the context
// and/or the message). When a maintainer writes the handler's body in place in the type switch (or
// splits it differently), the handler method no longer exists. virtualHandler then stands in for it:
// the part of the flattened Receive graph (FGFlat: private helpers spliced in) that is reachable from
// the case's edge, presented as a function of its own — graph queries start at the case edge, and
// access paths read the asserted message as the handler's message parameter. A virtual handler is only
// made when the real one is missing; nothing changes on a tree that still has its handlers.

import (
	"sort"
	"strings"

	"golang.org/x/tools/go/ssa"
)

type pathAlias struct{ from, to string }

// region builds the sub-graph of g reachable from the given edges as a graph of its own.
func (g *FG) region(es []Edge) *FG {
	var starts []int
	for _, e := range es {
		starts = append(starts, e.to)
	}
	live := g.reach(starts, nil, nil)
	v := &FG{fn: g.fn, idx: map[ssa.Instruction]int{}, first: map[*ssa.BasicBlock]int{}, inl: map[int]bool{},
		psub: g.psub, csub: g.csub, csubM: g.csubM}
	remap := make([]int, len(g.ins))
	for i := range remap {
		remap[i] = -1
	}
	for i, in := range g.ins {
		if live[i] {
			remap[i] = len(v.ins)
			v.idx[in] = len(v.ins)
			v.ins = append(v.ins, in)
		}
	}
	for b, f := range g.first {
		if f < len(remap) && remap[f] >= 0 {
			v.first[b] = remap[f]
		}
	}
	v.succ = make([][]int, len(v.ins))
	v.pred = make([][]int, len(v.ins))
	for i := range g.ins {
		if remap[i] < 0 {
			continue
		}
		for _, s := range g.succ[i] {
			if remap[s] >= 0 {
				v.succ[remap[i]] = append(v.succ[remap[i]], remap[s])
				v.pred[remap[s]] = append(v.pred[remap[s]], remap[i])
			}
		}
		if g.inl[i] {
			v.inl[remap[i]] = true
		}
	}
	conv := func(xs []int) []int {
		var out []int
		for _, x := range xs {
			if remap[x] >= 0 {
				out = append(out, remap[x])
			}
		}
		return out
	}
	v.returns, v.panics, v.defers, v.rundef = conv(g.returns), conv(g.panics), conv(g.defers), conv(g.rundef)
	seen := map[int]bool{}
	for _, s := range starts {
		if remap[s] >= 0 && !seen[remap[s]] {
			seen[remap[s]] = true
			v.entries = append(v.entries, remap[s])
		}
	}
	sort.Ints(v.entries)
	return v
}

// virtualHandler returns a stand-in for the missing handler of message type typ in recv, named as the
// pinned handler; the asserted message (plus suffix, e.g. ".Members") reads as parameter msgParam. nil
// when recv has no such case.
func (w *World) virtualHandler(recv *ssa.Function, typ, pinned, suffix string, msgParam int) *ssa.Function {
	if recv == nil {
		return nil
	}
	defer w.noCtx()()
	flat := w.FGFlat(recv)
	w.cur = flat
	es := w.caseEdges(flat, typ)
	if len(es) == 0 {
		return nil
	}
	// the asserted message
	msg := ""
	for _, e := range es {
		if iff, ok := flat.ins[e.from].(*ssa.If); ok {
			if ex, ok := iff.Cond.(*ssa.Extract); ok {
				msg = w.pathOf(ex.Tuple) + "#0"
			}
		}
	}
	if msg == "" {
		return nil
	}
	v := flat.region(es)
	if len(v.entries) == 0 {
		return nil
	}
	v.alias = []pathAlias{{msg + suffix, "P" + string(rune('0'+msgParam))}}
	fake := &ssa.Function{}
	if w.virt == nil {
		w.virt = map[*ssa.Function]*FG{}
	}
	w.virt[fake] = v
	w.virtHost = map[*ssa.Function]*ssa.Function{}
	fnAlias[fake] = pinned
	if w.virtOf == nil {
		w.virtOf = map[*ssa.Function]*ssa.Function{}
	}
	w.virtOf[fake] = recv
	return fake
}

func (w *World) isVirtual(fn *ssa.Function) bool {
	_, ok := w.virt[fn]
	return ok
}

func applyAlias(p string, as []pathAlias) string {
	for _, a := range as {
		if a.from != "" {
			p = strings.ReplaceAll(p, a.from, a.to)
		}
	}
	return p
}
