package main

import (
	"fmt"
	"go/token"
	"go/types"
	"os"
	"sort"
	"strings"

	"golang.org/x/tools/go/callgraph"
	"golang.org/x/tools/go/callgraph/cha"
	"golang.org/x/tools/go/callgraph/vta"
	"golang.org/x/tools/go/packages"
	"golang.org/x/tools/go/ssa"
	"golang.org/x/tools/go/ssa/ssautil"
)

const modPath = "github.com/anthdm/hollywood"

// World is the resolved program: type-checked packages, SSA and call graph.
type World struct {
	Dir   string
	Tier  string
	Fset  *token.FileSet
	Pkgs  []*packages.Package
	Prog  *ssa.Program
	SP    map[string]*ssa.Package // keyed by path below the module ("actor", "remote", ...)
	TP    map[string]*packages.Package
	Funcs []*ssa.Function // every function with a body that belongs to the module (incl. closures)
	inMod map[*ssa.Function]bool
	cg    *callgraph.Graph

	sumMust map[string]bool
	sumMay  map[string]bool
	fgs     map[*ssa.Function]*FG
	// inlining of freshly extracted private helpers (inline.go)
	fgis     map[*ssa.Function]*FG
	fgflat   map[*ssa.Function]*FG
	inlSites map[*ssa.Function][]*ssa.Call // helper -> its call sites
	cur      *FG                           // graph whose splices give access paths their context
	gsub     *FG                           // substitutions of helpers with a single call site (context-free)
	curLock  int                           // >0: FGI does not change cur (withArgs)
	virt     map[*ssa.Function]*FG            // virtual handlers (virtual.go)
	virtOf   map[*ssa.Function]*ssa.Function  // virtual handler -> the Receive function it lives in
	virtHost map[*ssa.Function]*ssa.Function
}

var libPkgs = []string{"actor", "remote", "cluster", "ringbuffer", "safemap"}

func loadWorld(dir, tier string) (*World, error) {
	env := []string{}
	for _, e := range os.Environ() {
		if strings.HasPrefix(e, "GOWORK=") || strings.HasPrefix(e, "GOFLAGS=") {
			continue
		}
		env = append(env, e)
	}
	env = append(env, "GOFLAGS=-mod=mod", "GOPROXY=off", "GOSUMDB=off", "GOTOOLCHAIN=local", "GOWORK=off")
	cfg := &packages.Config{
		Mode: packages.NeedName | packages.NeedFiles | packages.NeedCompiledGoFiles | packages.NeedImports |
			packages.NeedTypes | packages.NeedTypesSizes | packages.NeedSyntax |
			packages.NeedTypesInfo | packages.NeedModule,
		Dir: dir,
		Env: env,
	}
	var patterns []string
	if tier == "thorough" {
		// whole module: examples add Receiver/Processer implementations and API callers. Test variants of the
		// packages are not loaded: they would duplicate every library function in the SSA program.
		patterns = []string{"./..."}
	} else {
		for _, p := range libPkgs {
			patterns = append(patterns, "./"+p)
		}
	}
	pkgs, err := packages.Load(cfg, patterns...)
	if err != nil {
		return nil, fmt.Errorf("load: %w", err)
	}
	var errs []string
	packages.Visit(pkgs, nil, func(p *packages.Package) {
		if !strings.HasPrefix(p.PkgPath, modPath) {
			return
		}
		for _, e := range p.Errors {
			errs = append(errs, e.Error())
		}
	})
	if len(errs) > 0 {
		return nil, fmt.Errorf("type-check errors in module: %s", strings.Join(errs, "; "))
	}
	w := &World{Dir: dir, Tier: tier, Pkgs: pkgs, SP: map[string]*ssa.Package{}, TP: map[string]*packages.Package{},
		inMod: map[*ssa.Function]bool{}, sumMust: map[string]bool{}, sumMay: map[string]bool{}, fgs: map[*ssa.Function]*FG{}}
	prog, spkgs := ssautil.Packages(pkgs, ssa.InstantiateGenerics)
	prog.Build()
	w.Prog = prog
	w.Fset = prog.Fset
	for i, p := range pkgs {
		if spkgs[i] == nil {
			continue
		}
		if !strings.HasPrefix(p.PkgPath, modPath+"/") {
			continue
		}
		// in the thorough tier packages appear several times (p, p [p.test], p_test): keep the plain one for anchors.
		rel := strings.TrimPrefix(p.PkgPath, modPath+"/")
		if p.ID != p.PkgPath {
			continue
		}
		w.SP[rel] = spkgs[i]
		w.TP[rel] = p
	}
	n := 0
	for _, l := range libPkgs {
		if w.SP[l] != nil {
			n++
		}
	}
	if n != len(libPkgs) {
		return nil, fmt.Errorf("expected the %d library packages of %s, found %d", len(libPkgs), modPath, n)
	}
	addFn := func(fn *ssa.Function) {
		if fn == nil || fn.Blocks == nil || w.inMod[fn] {
			return
		}
		if p := fnPkgPath(fn); strings.HasPrefix(p, modPath) {
			w.inMod[fn] = true
			w.Funcs = append(w.Funcs, fn)
		}
	}
	for fn := range ssautil.AllFunctions(prog) {
		addFn(fn)
		// generic bodies are analysed too (the instantiations alone would hide the generic source form)
		if o := fn.Origin(); o != nil {
			addFn(o)
			for _, a := range o.AnonFuncs {
				addFn(a)
			}
		}
	}
	sort.Slice(w.Funcs, func(i, j int) bool { return w.Funcs[i].String() < w.Funcs[j].String() })
	return w, nil
}

func fnPkgPath(fn *ssa.Function) string {
	for f := fn; f != nil; f = f.Parent() {
		if f.Pkg != nil {
			return f.Pkg.Pkg.Path()
		}
		if o := f.Origin(); o != nil && o.Pkg != nil {
			return o.Pkg.Pkg.Path()
		}
		if f.Object() != nil && f.Object().Pkg() != nil {
			return f.Object().Pkg().Path()
		}
	}
	return ""
}

// isLib reports whether fn belongs to one of the five library packages (non-test code).
func (w *World) isLib(fn *ssa.Function) bool {
	p := fnPkgPath(fn)
	for _, l := range libPkgs {
		if p == modPath+"/"+l {
			if pos := fn.Pos(); pos.IsValid() {
				if strings.HasSuffix(w.Fset.Position(pos).Filename, "_test.go") {
					return false
				}
			}
			return true
		}
	}
	return false
}

func (w *World) CG() *callgraph.Graph {
	if w.cg == nil {
		all := ssautil.AllFunctions(w.Prog)
		w.cg = vta.CallGraph(all, cha.CallGraph(w.Prog))
	}
	return w.cg
}

// ---- anchors -------------------------------------------------------------

func (w *World) Named(pkg, name string) *types.Named {
	sp := w.SP[pkg]
	if sp == nil {
		return nil
	}
	o := sp.Pkg.Scope().Lookup(name)
	if o == nil {
		if nn, ok := typeRenameFrom[pkg+"."+name]; ok {
			o = sp.Pkg.Scope().Lookup(nn) // a renamed private type (inline.go)
		}
	}
	if o == nil {
		return nil
	}
	n, _ := o.Type().(*types.Named)
	return n
}

// Method returns the SSA function for method name of type pkg.typ (pointer or value receiver).
func (w *World) Method(pkg, typ, name string) *ssa.Function {
	n := w.Named(pkg, typ)
	if n == nil {
		return nil
	}
	for i := 0; i < n.NumMethods(); i++ {
		m := n.Method(i)
		if m.Name() == name {
			return w.Prog.FuncValue(m)
		}
	}
	// private helpers may be renamed: fall back to their role, given as a signature that is unique on the type
	if sig, ok := roleSigs[pkg+"."+typ+"."+name]; ok {
		var found *ssa.Function
		cnt := 0
		for i := 0; i < n.NumMethods(); i++ {
			m := n.Method(i)
			s := m.Type().(*types.Signature)
			if sigKey(s) == sig {
				found = w.Prog.FuncValue(m)
				cnt++
			}
		}
		if cnt == 1 {
			fnAlias[found] = "(*" + pkg + "." + typ + ")." + name
			return found
		}
	}
	return nil
}

// fnAlias gives functions that were resolved by role the name they have on the pinned tree, so that
// obligation keys and access paths do not change when a private helper is renamed.
var fnAlias = map[*ssa.Function]string{}

func aliasRole(fn *ssa.Function, pinned string) {
	if fn != nil && fname(fn) != pinned {
		fnAlias[fn] = pinned
	}
}

// roleSigs: private methods that rules anchor on, identified by signature when their name changes.
var roleSigs = map[string]string{
	"actor.Registry.add":                        "(actor.Processer)()",
	"actor.Registry.get":                        "(*actor.PID)(actor.Processer)",
	"actor.Registry.getByID":                    "(string)(actor.Processer)",
	"actor.Engine.sendPoisonPill":               "(context.Context,bool,*actor.PID)(context.Context)",
	"remote.streamRouter.deliverStream":         "(*remote.streamDeliver)()",
	"remote.streamRouter.handleTerminateStream": "(actor.RemoteUnreachableEvent)()",
}

func sigKey(s *types.Signature) string {
	f := func(t *types.Tuple) string {
		var xs []string
		for i := 0; i < t.Len(); i++ {
			xs = append(xs, types.TypeString(t.At(i).Type(), shortQ))
		}
		return "(" + strings.Join(xs, ",") + ")"
	}
	return f(s.Params()) + f(s.Results())
}

func (w *World) Func(pkg, name string) *ssa.Function {
	sp := w.SP[pkg]
	if sp == nil {
		return nil
	}
	return sp.Func(name)
}

// IfaceMethod returns the *types.Func of an interface method.
func (w *World) IfaceMethod(pkg, iface, name string) *types.Func {
	n := w.Named(pkg, iface)
	if n == nil {
		return nil
	}
	it, ok := n.Underlying().(*types.Interface)
	if !ok {
		return nil
	}
	for i := 0; i < it.NumMethods(); i++ {
		if it.Method(i).Name() == name {
			return it.Method(i)
		}
	}
	return nil
}

// MethodsOf returns all source-level methods (with bodies) declared on pkg.typ, plus their closures.
func (w *World) MethodsOf(pkg, typ string) []*ssa.Function {
	n := w.Named(pkg, typ)
	if n == nil {
		return nil
	}
	var out []*ssa.Function
	var add func(f *ssa.Function)
	add = func(f *ssa.Function) {
		out = append(out, f)
		for _, a := range f.AnonFuncs {
			add(a)
		}
	}
	for i := 0; i < n.NumMethods(); i++ {
		if f := w.Prog.FuncValue(n.Method(i)); f != nil && f.Blocks != nil {
			add(f)
		}
	}
	return out
}

func (w *World) pos(p token.Pos) string {
	if !p.IsValid() {
		return "-"
	}
	ps := w.Fset.Position(p)
	f := ps.Filename
	if strings.HasPrefix(f, w.Dir+"/") {
		f = strings.TrimPrefix(f, w.Dir+"/")
	}
	return fmt.Sprintf("%s:%d", f, ps.Line)
}

func (w *World) fnPos(fn *ssa.Function) string {
	if fn == nil {
		return "-"
	}
	if host, ok := w.virtOf[fn]; ok {
		return w.pos(host.Pos())
	}
	return w.pos(fn.Pos())
}

// fname is a stable, position-free display name of a function.
func fname(fn *ssa.Function) string {
	if fn == nil {
		return "<nil>"
	}
	if a, ok := fnAlias[fn]; ok {
		return a
	}
	if p := fn.Parent(); p != nil {
		if _, ok := fnAlias[rootFn(p)]; ok && strings.HasPrefix(fn.Name(), p.Name()) {
			return fname(p) + strings.TrimPrefix(fn.Name(), p.Name())
		}
	}
	s := fn.String()
	s = strings.ReplaceAll(s, modPath+"/", "")
	return pinnedTypeNames(s)
}

// origin returns the generic origin of an instantiated function, or fn itself.
func origin(fn *ssa.Function) *ssa.Function {
	if fn == nil {
		return nil
	}
	if o := fn.Origin(); o != nil {
		return o
	}
	return fn
}
