package main

import (
	"fmt"
	"go/token"
	"go/types"

	"golang.org/x/tools/go/ssa"
)

// ---------------------------------------------------------------------------
// E-ORD: path-order queries on the instruction-level control-flow graph.
// ---------------------------------------------------------------------------

// FG is the instruction-level CFG of one function.
type FG struct {
	fn      *ssa.Function
	ins     []ssa.Instruction
	idx     map[ssa.Instruction]int
	succ    [][]int
	pred    [][]int
	first   map[*ssa.BasicBlock]int
	returns []int
	panics  []int
	defers  []int
	rundef  []int
	corr    []ssa.Value // boolean SSA values tested by more than one If (see corr.go)
	inl     map[int]bool // call nodes whose callee's body is spliced in behind them (see inline.go)
	psub    map[*ssa.Parameter]ssa.Value
	csub    map[*ssa.Call][]ssa.Value
	csubM   map[*ssa.Call][][]ssa.Value // helpers with several returns: every result tuple
	entries []int                       // region graphs: where the region is entered (virtual.go)
	alias   []pathAlias                 // region graphs: how access paths are renamed
}

type Edge struct{ from, to int }

func (w *World) FG(fn *ssa.Function) *FG {
	if g, ok := w.virt[fn]; ok {
		return g
	}
	if g, ok := w.fgs[fn]; ok {
		return g
	}
	g := &FG{fn: fn, idx: map[ssa.Instruction]int{}, first: map[*ssa.BasicBlock]int{}}
	for _, b := range fn.Blocks {
		g.first[b] = len(g.ins)
		for _, in := range b.Instrs {
			g.idx[in] = len(g.ins)
			g.ins = append(g.ins, in)
		}
	}
	g.succ = make([][]int, len(g.ins))
	g.pred = make([][]int, len(g.ins))
	for _, b := range fn.Blocks {
		base := g.first[b]
		for i, in := range b.Instrs {
			n := base + i
			switch in.(type) {
			case *ssa.Return:
				g.returns = append(g.returns, n)
			case *ssa.Panic:
				g.panics = append(g.panics, n)
			case *ssa.Defer:
				g.defers = append(g.defers, n)
			case *ssa.RunDefers:
				g.rundef = append(g.rundef, n)
			}
			if i+1 < len(b.Instrs) {
				g.succ[n] = append(g.succ[n], n+1)
			} else {
				for _, s := range b.Succs {
					g.succ[n] = append(g.succ[n], g.first[s])
				}
			}
		}
	}
	for n, ss := range g.succ {
		for _, s := range ss {
			g.pred[s] = append(g.pred[s], n)
		}
	}
	w.fgs[fn] = g
	return g
}

// reach returns the set of nodes reachable from starts (inclusive) without entering
// avoided nodes and without crossing cut edges.
func (g *FG) reach(starts []int, avoid []bool, cut map[Edge]bool) []bool {
	if g.corrInit(); len(g.corr) > 0 {
		return g.reachCorr(starts, avoid, cut)
	}
	seen := make([]bool, len(g.ins))
	var stack []int
	for _, s := range starts {
		if s < 0 || s >= len(g.ins) || seen[s] || (avoid != nil && avoid[s]) {
			continue
		}
		seen[s] = true
		stack = append(stack, s)
	}
	for len(stack) > 0 {
		n := stack[len(stack)-1]
		stack = stack[:len(stack)-1]
		for _, s := range g.succ[n] {
			if seen[s] || (avoid != nil && avoid[s]) || (cut != nil && cut[Edge{n, s}]) {
				continue
			}
			seen[s] = true
			stack = append(stack, s)
		}
	}
	return seen
}

func (g *FG) entry() []int {
	if len(g.ins) == 0 {
		return nil
	}
	if g.entries != nil {
		return g.entries
	}
	return []int{0}
}

func setOf(n int, xs ...int) []bool {
	s := make([]bool, n)
	for _, x := range xs {
		s[x] = true
	}
	return s
}

func members(s []bool) []int {
	var out []int
	for i, b := range s {
		if b {
			out = append(out, i)
		}
	}
	return out
}

func anyOf(s []bool) bool {
	for _, b := range s {
		if b {
			return true
		}
	}
	return false
}

func union(a, b []bool) []bool {
	out := make([]bool, len(a))
	for i := range a {
		out[i] = a[i] || b[i]
	}
	return out
}

// Before: every path entry -> b passes a node of A first.
func (g *FG) Before(A []bool, b int) bool {
	if A[b] {
		return true
	}
	return !g.reach(g.entry(), A, nil)[b]
}

// After: every path from a (exclusive) to a normal return passes a node of B.
func (g *FG) After(a int, B []bool) bool {
	r := g.reach(g.succ[a], B, nil)
	for _, x := range g.returns {
		if r[x] {
			return false
		}
	}
	return true
}

// AfterEntry: every path entry -> normal return passes a node of B.
func (g *FG) AfterEntry(B []bool) bool {
	r := g.reach(g.entry(), B, nil)
	for _, x := range g.returns {
		if r[x] {
			return false
		}
	}
	return true
}

// Never: no node of B is reachable from a (exclusive).
func (g *FG) Never(a int, B []bool) (bool, int) {
	r := g.reach(g.succ[a], nil, nil)
	for i, b := range B {
		if b && r[i] {
			return false, i
		}
	}
	return true, -1
}

// AtMostOnce: no node of A is reachable from another (or the same) node of A.
func (g *FG) AtMostOnce(A []bool) (bool, int) {
	for _, a := range members(A) {
		if ok, x := g.Never(a, A); !ok {
			return false, x
		}
	}
	return true, -1
}

// Once: exactly one A on every entry -> return path.
func (g *FG) Once(A []bool) bool {
	if !g.AfterEntry(A) {
		return false
	}
	ok, _ := g.AtMostOnce(A)
	return ok
}

// OnlyVia: every path entry -> x crosses one of the edges.
func (g *FG) OnlyVia(edges []Edge, x int) bool {
	if len(edges) == 0 {
		return false
	}
	cut := map[Edge]bool{}
	for _, e := range edges {
		cut[e] = true
	}
	return !g.reach(g.entry(), nil, cut)[x]
}

// EdgesOf returns the true (pol) or false (!pol) out-edge of the If instruction at node n.
func (g *FG) EdgeOf(n int, pol bool) (Edge, bool) {
	if _, ok := g.ins[n].(*ssa.If); !ok || len(g.succ[n]) != 2 {
		return Edge{}, false
	}
	if pol {
		return Edge{n, g.succ[n][0]}, true
	}
	return Edge{n, g.succ[n][1]}, true
}

// CondEdges finds every If whose condition satisfies match; match reports the polarity
// on which the recognised predicate holds. Negations (!x) are unwrapped.
func (g *FG) CondEdges(match func(v ssa.Value) (holdsWhenTrue bool, ok bool)) (pos []Edge, neg []Edge) {
	for n, in := range g.ins {
		iff, ok := in.(*ssa.If)
		if !ok {
			continue
		}
		c := iff.Cond
		flip := false
		for {
			if u, ok := c.(*ssa.UnOp); ok && u.Op == token.NOT {
				c = u.X
				flip = !flip
				continue
			}
			break
		}
		h, ok := match(c)
		if !ok {
			continue
		}
		if flip {
			h = !h
		}
		te, _ := g.EdgeOf(n, true)
		fe, _ := g.EdgeOf(n, false)
		if h {
			pos = append(pos, te)
			neg = append(neg, fe)
		} else {
			pos = append(pos, fe)
			neg = append(neg, te)
		}
	}
	return
}

// Fact is a branch condition known to hold (or not) whenever a node executes.
type Fact struct {
	Cond ssa.Value
	Val  bool
}

// FactsAt returns the branch conditions that are decided on every path to node n
// (for the most recent evaluation of the condition).
func (g *FG) FactsAt(n int) []Fact {
	var out []Fact
	for i, in := range g.ins {
		iff, ok := in.(*ssa.If)
		if !ok {
			continue
		}
		te, _ := g.EdgeOf(i, true)
		fe, _ := g.EdgeOf(i, false)
		if te.to == fe.to {
			continue
		}
		if g.OnlyVia([]Edge{te}, n) {
			out = append(out, normFact(iff.Cond, true))
		} else if g.OnlyVia([]Edge{fe}, n) {
			out = append(out, normFact(iff.Cond, false))
		}
	}
	// a named short-circuit result: b := x && y is phi(false, y) — b true means y true and
	// everything that guards the evaluation of y (x); b := x || y is phi(true, y) — b false likewise
	for depth, from := 0, 0; depth < 3 && from < len(out); depth++ {
		end := len(out)
		for _, f := range out[from:end] {
			ph, ok := f.Cond.(*ssa.Phi)
			if !ok {
				continue
			}
			var other ssa.Value
			var pred *ssa.BasicBlock
			good := true
			for j, e := range ph.Edges {
				if k, isK := e.(*ssa.Const); isK && k.Value != nil && k.Value.ExactString() == fmt.Sprint(!f.Val) {
					continue
				}
				if other != nil {
					good = false
				}
				other, pred = e, ph.Block().Preds[j]
			}
			if !good || other == nil || pred == nil {
				continue
			}
			out = append(out, normFact(other, f.Val))
			if last := g.first[pred] + len(pred.Instrs) - 1; last != n {
				for _, pf := range g.factsAtNoExpand(last) {
					out = append(out, pf)
				}
			}
		}
		from = end
	}
	return out
}

func (g *FG) factsAtNoExpand(n int) []Fact {
	var out []Fact
	for i, in := range g.ins {
		iff, ok := in.(*ssa.If)
		if !ok {
			continue
		}
		te, _ := g.EdgeOf(i, true)
		fe, _ := g.EdgeOf(i, false)
		if te.to == fe.to {
			continue
		}
		if g.OnlyVia([]Edge{te}, n) {
			out = append(out, normFact(iff.Cond, true))
		} else if g.OnlyVia([]Edge{fe}, n) {
			out = append(out, normFact(iff.Cond, false))
		}
	}
	return out
}

func normFact(c ssa.Value, v bool) Fact {
	for {
		if u, ok := c.(*ssa.UnOp); ok && u.Op == token.NOT {
			c = u.X
			v = !v
			continue
		}
		return Fact{c, v}
	}
}

// ---------------------------------------------------------------------------
// Events
// ---------------------------------------------------------------------------

// Ev recognises an event on a single instruction. Calls, defers and go statements are
// presented as the instruction itself; use callOf to look at the call.
type Ev struct {
	Name string
	M    func(in ssa.Instruction) bool
	// Shallow: do not look through calls into module functions.
	Shallow bool
}

func callOf(in ssa.Instruction) *ssa.CallCommon {
	if c, ok := in.(ssa.CallInstruction); ok {
		return c.Common()
	}
	return nil
}

func (w *World) calleeOf(c *ssa.CallCommon) *ssa.Function {
	if c == nil {
		return nil
	}
	if f := c.StaticCallee(); f != nil {
		return f
	}
	return nil
}

const sumDepth = 6

// Nodes marks the instructions of fg at which ev happens. In must mode a call counts
// only if the callee performs ev on all its normal paths; in may mode if it can perform
// it on some path (including literal closures it creates). go statements never count;
// deferred calls count at the RunDefers they run at.
func (w *World) Nodes(g *FG, ev Ev, must bool) []bool {
	return w.nodesD(g, ev, must, 0)
}

func (w *World) nodesD(g *FG, ev Ev, must bool, depth int) []bool {
	out := make([]bool, len(g.ins))
	does := func(in ssa.Instruction) bool {
		if ev.M(in) {
			return true
		}
		if ev.Shallow || depth >= sumDepth {
			return false
		}
		c := callOf(in)
		if c == nil {
			return false
		}
		callee := w.calleeOf(c)
		if callee != nil && w.inMod[origin(callee)] || callee != nil && w.inMod[callee] {
			if callee.Blocks == nil {
				callee = origin(callee)
			}
			if must {
				return w.mustDo(callee, ev, depth+1)
			}
			if w.mayDo(callee, ev, depth+1) {
				return true
			}
		}
		if !must {
			// literal closures passed as arguments may be called synchronously by the callee
			// (not by Scheduler.Schedule: its implementations are checked to run it on another goroutine, C02.R3)
			args := c.Args
			if w.evSchedule().M(in) {
				args = nil
			}
			for _, a := range args {
				if mc, ok := a.(*ssa.MakeClosure); ok {
					if f, ok := mc.Fn.(*ssa.Function); ok && f.Parent() != nil && w.mayDo(f, ev, depth+1) {
						return true
					}
				}
			}
			if mc, ok := c.Value.(*ssa.MakeClosure); ok {
				if f, ok := mc.Fn.(*ssa.Function); ok && w.mayDo(f, ev, depth+1) {
					return true
				}
			}
		} else {
			if mc, ok := c.Value.(*ssa.MakeClosure); ok {
				if f, ok := mc.Fn.(*ssa.Function); ok && w.mustDo(f, ev, depth+1) {
					return true
				}
			}
		}
		return false
	}
	for n, in := range g.ins {
		switch in.(type) {
		case *ssa.Go, *ssa.Defer:
			continue
		case *ssa.RunDefers:
			for _, d := range g.defers {
				if !w.deferDoes(g.ins[d].(*ssa.Defer), ev, must, depth, does) {
					continue
				}
				if must {
					if g.Before(setOf(len(g.ins), d), n) {
						out[n] = true
					}
				} else if g.reach([]int{d}, nil, nil)[n] {
					out[n] = true
				}
			}
		default:
			if g.inl[n] {
				continue // the callee's own instructions follow in this graph
			}
			if does(in) {
				out[n] = true
			}
		}
	}
	return out
}

// recoverEdges returns the edges of fn on which `recover() != nil` holds: they are taken only
// when the deferred function runs because of a panic.
func (w *World) recoverEdges(g *FG) []Edge {
	pos, _ := g.CondEdges(func(v ssa.Value) (bool, bool) {
		b, ok := v.(*ssa.BinOp)
		if !ok {
			return false, false
		}
		for _, pair := range [][2]ssa.Value{{b.X, b.Y}, {b.Y, b.X}} {
			if _, isRec := isBuiltinCall(pair[0], "recover"); isRec {
				if k, ok := pair[1].(*ssa.Const); ok && k.IsNil() {
					return b.Op == token.NEQ, b.Op == token.NEQ || b.Op == token.EQL
				}
			}
		}
		return false, false
	})
	return pos
}

// deferDoes decides whether a deferred call performs ev when it runs at a NORMAL exit:
// the part of a deferred closure guarded by recover() != nil runs on panic exits only.
func (w *World) deferDoes(d *ssa.Defer, ev Ev, must bool, depth int, does func(ssa.Instruction) bool) bool {
	defer w.noCtx()()
	f := deferredFn(d)
	if f == nil || f.Blocks == nil {
		return does(d)
	}
	g := w.FG(f)
	rec := w.recoverEdges(g)
	if len(rec) == 0 {
		return does(d)
	}
	if ev.M(d) {
		return true
	}
	cut := map[Edge]bool{}
	for _, e := range rec {
		cut[e] = true
	}
	nodes := w.nodesD(g, ev, must, depth+1)
	if must {
		r := g.reach(g.entry(), nodes, cut)
		for _, x := range g.returns {
			if r[x] {
				return false
			}
		}
		return true
	}
	r := g.reach(g.entry(), nil, cut)
	for i, b := range nodes {
		if b && r[i] {
			return true
		}
	}
	return false
}

func (w *World) mustDo(fn *ssa.Function, ev Ev, depth int) bool {
	defer w.noCtx()()
	if fn == nil || fn.Blocks == nil {
		return false
	}
	key := "must|" + ev.Name + "|" + fn.String()
	if v, ok := w.sumMust[key]; ok {
		return v
	}
	w.sumMust[key] = false // recursion guard
	g := w.FG(fn)
	r := g.AfterEntry(w.nodesD(g, ev, true, depth))
	w.sumMust[key] = r
	return r
}

func (w *World) mayDo(fn *ssa.Function, ev Ev, depth int) bool {
	defer w.noCtx()()
	if fn == nil || fn.Blocks == nil {
		return false
	}
	key := "may|" + ev.Name + "|" + fn.String()
	if v, ok := w.sumMay[key]; ok {
		return v
	}
	w.sumMay[key] = false
	g := w.FG(fn)
	r := anyOf(w.nodesD(g, ev, false, depth))
	w.sumMay[key] = r
	return r
}

// ---------------------------------------------------------------------------
// Event constructors
// ---------------------------------------------------------------------------

// EvCall: a call (static) of fn (or an instantiation of it).
func EvCall(name string, fns ...*ssa.Function) Ev {
	return Ev{Name: "call:" + name, M: func(in ssa.Instruction) bool {
		c := callOf(in)
		if c == nil {
			return false
		}
		f := c.StaticCallee()
		if f == nil {
			return false
		}
		for _, x := range fns {
			if x != nil && (f == x || origin(f) == x) {
				return true
			}
		}
		return false
	}}
}

// EvInvoke: a dynamic call of interface method m, or a static call of a concrete
// method that implements it on a type from the module.
func EvInvoke(name string, m *types.Func) Ev {
	return Ev{Name: "invoke:" + name, Shallow: false, M: func(in ssa.Instruction) bool {
		c := callOf(in)
		if c == nil || m == nil {
			return false
		}
		if c.IsInvoke() {
			return c.Method == m || (c.Method.Name() == m.Name() && sameIface(c.Method, m))
		}
		return false
	}}
}

func sameIface(a, b *types.Func) bool {
	ra := a.Type().(*types.Signature).Recv()
	rb := b.Type().(*types.Signature).Recv()
	if ra == nil || rb == nil {
		return false
	}
	return types.Identical(ra.Type(), rb.Type())
}

// EvStoreField: a store to field name of struct type named.
func EvStoreField(named *types.Named, field string) Ev {
	return Ev{Name: "store:" + pinnedShortName(named) + "." + field, M: func(in ssa.Instruction) bool {
		st, ok := in.(*ssa.Store)
		if !ok {
			return false
		}
		fa, ok := st.Addr.(*ssa.FieldAddr)
		if !ok {
			return false
		}
		return isFieldOf(fa, named, field)
	}}
}

func structOf(t types.Type) (*types.Named, *types.Struct) {
	if p, ok := t.Underlying().(*types.Pointer); ok {
		t = p.Elem()
	}
	t = types.Unalias(t)
	n, _ := t.(*types.Named)
	s, _ := t.Underlying().(*types.Struct)
	return n, s
}

func sameNamed(a, b *types.Named) bool {
	if a == nil || b == nil {
		return false
	}
	return a.Origin().Obj() == b.Origin().Obj()
}

func isFieldOf(fa *ssa.FieldAddr, named *types.Named, field string) bool {
	n, s := structOf(fa.X.Type())
	if s == nil || !sameNamed(n, named) {
		return false
	}
	return pinnedFieldName(n, s, fa.Field) == field
}

func fieldName(fa *ssa.FieldAddr) (string, *types.Named) {
	n, s := structOf(fa.X.Type())
	if s == nil {
		return "", nil
	}
	return pinnedFieldName(n, s, fa.Field), n
}

// EvOr combines events.
func EvOr(name string, evs ...Ev) Ev {
	return Ev{Name: "or:" + name, M: func(in ssa.Instruction) bool {
		for _, e := range evs {
			if e.M(in) {
				return true
			}
		}
		return false
	}}
}

// isBuiltinCall reports a call of builtin name and returns its args.
func isBuiltinCall(v ssa.Value, name string) ([]ssa.Value, bool) {
	c, ok := v.(*ssa.Call)
	if !ok {
		return nil, false
	}
	b, ok := c.Call.Value.(*ssa.Builtin)
	if !ok || b.Name() != name {
		return nil, false
	}
	return c.Call.Args, true
}
