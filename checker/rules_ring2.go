package main

import (
	"go/token"
	"strings"

	"golang.org/x/tools/go/ssa"
)

// checkRingOrigin: C14.R4 — dependence of every element transfer on the ring origin.
// This is not a proof of FIFO order (index arithmetic is not decided); it is the necessary
// condition that the physical slot touched depends on head/tail at all: a transfer that ignores the
// origin (flat copy into a buffer whose head is reset) reorders whenever the ring is rotated.
func checkRingOrigin(w *World, r *Report, rule string) {
	push := w.Method("ringbuffer", "RingBuffer", "Push")
	pop := w.Method("ringbuffer", "RingBuffer", "Pop")
	popn := w.Method("ringbuffer", "RingBuffer", "PopN")
	bufT := w.Named("ringbuffer", "buffer")
	if push == nil || pop == nil || popn == nil || bufT == nil {
		r.Unknown(rule, "ring", "ring buffer methods", "-", "not found")
		return
	}
	isItems := func(v ssa.Value) bool { return strings.HasSuffix(w.pathOf(v), ".items") }
	// ---- Push: grow transfer
	{
		g := w.FGI(push)
		site := w.fnPos(push)
		var lit *ssa.Alloc
		for _, al := range w.allocsOf(push, bufT) {
			lit = al
		}
		key := "RingBuffer.Push:grow-transfer"
		what := "when the ring grows, the elements are moved into the new buffer by a transfer whose source position depends on the old head/tail"
		if lit == nil {
			r.OK(rule, key, what+" (no reallocation in Push)", site)
		} else {
			fs, _ := w.litFields(lit)
			newItems := fs["items"]
			headConst := fs["head"] == nil || strings.HasPrefix(w.pathOf(fs["head"]), "K:")
			ok := false
			detail := "no transfer from the old items into the new buffer found"
			for _, in := range g.ins {
				switch x := in.(type) {
				case *ssa.Store:
					// newBuff[i] = items[idx]
					ia, isIA := x.Addr.(*ssa.IndexAddr)
					if !isIA || newItems == nil || w.pathOf(ia.X) != w.pathOf(newItems) {
						continue
					}
					src := w.pathOf(x.Val)
					if strings.Contains(src, ".items[") {
						idx := src[strings.Index(src, ".items[")+7:]
						if strings.Contains(idx, ".tail") || strings.Contains(idx, ".head") {
							ok = true
						} else if headConst {
							detail = "elements are copied from items[" + strings.TrimSuffix(idx, "]") + "], a position that ignores head/tail, into a buffer whose head is reset: a ring that was rotated when it filled up comes out reordered (and one element is lost)"
						}
					}
				case *ssa.Call:
					if args, isC := isBuiltinCall(x, "copy"); isC && len(args) == 2 {
						src := w.pathOf(args[1])
						dst := w.pathOf(args[0])
						if strings.Contains(src, ".items") {
							if strings.Contains(src, ".head") || strings.Contains(src, ".tail") || strings.Contains(dst, ".head") || strings.Contains(dst, ".tail") {
								ok = true
							} else if headConst {
								detail = "copy(" + dst + ", " + src + ") moves the old slots un-rotated into a buffer whose head is reset: a ring that was rotated when it filled up comes out reordered (and one element is lost)"
							}
						}
					}
				}
			}
			if !headConst {
				// head preserved: the transfer must still depend on the origin (the wrapped segment has to move)
				if !ok {
					detail = "the grown buffer keeps the old head but no transfer depends on head/tail: the wrapped segment stays in front of the tail"
				}
			}
			r.Check(ok, rule, key, what, site, detail)
		}
		// slot written: depends on tail
		okW := false
		for _, in := range g.ins {
			if st, isSt := in.(*ssa.Store); isSt && w.pathOf(st.Val) == "P1" {
				if ia, isIA := st.Addr.(*ssa.IndexAddr); isIA && isItems(ia.X) && strings.Contains(w.pathOf(ia.Index), ".tail") {
					okW = true
				}
			}
		}
		r.Check(okW, rule, "RingBuffer.Push:slot", "the pushed item is stored at a position derived from tail", site, "the item is stored at a position that does not depend on tail")
		// tail advances on every path before the store
		adv := make([]bool, len(g.ins))
		for i, in := range g.ins {
			if st, isSt := in.(*ssa.Store); isSt {
				if fa, isFA := st.Addr.(*ssa.FieldAddr); isFA && isFieldOf(fa, bufT, "tail") {
					adv[i] = true
				}
			}
		}
		r.Check(g.AfterEntry(adv), rule, "RingBuffer.Push:advances-tail", "every Push moves tail", site, "a Push can leave tail where it was: the next Push overwrites the element")
	}
	// ---- Pop
	{
		g := w.FGI(pop)
		site := w.fnPos(pop)
		okR := false
		for _, rc := range g.retCases() {
			rs := rc.res
			if w.pathOf(rs[len(rs)-1]) != "K:true" {
				continue
			}
			p := w.pathOf(rs[0])
			if strings.Contains(p, ".items[") && strings.Contains(p[strings.Index(p, ".items["):], ".head") {
				okR = true
				// the element is read before the slot is cleared
				if ld, isI := rs[0].(ssa.Instruction); isI {
					for i, in := range g.ins {
						if st, isSt := in.(*ssa.Store); isSt {
							if ia, isIA := st.Addr.(*ssa.IndexAddr); isIA && isItems(ia.X) && i < g.idx[ld] && g.reach([]int{i}, nil, nil)[g.idx[ld]] {
								okR = false
							}
						}
					}
				}
			}
		}
		adv := make([]bool, len(g.ins))
		for i, in := range g.ins {
			if st, isSt := in.(*ssa.Store); isSt {
				if fa, isFA := st.Addr.(*ssa.FieldAddr); isFA && isFieldOf(fa, bufT, "head") {
					adv[i] = true
				}
			}
		}
		for _, rc := range g.retCases() {
			rs := rc.res
			if w.pathOf(rs[len(rs)-1]) == "K:true" && !rc.before(g, adv) {
				okR = false
			}
		}
		r.Check(okR, rule, "RingBuffer.Pop:slot", "Pop returns the element at a position derived from head, read before the slot is cleared, and moves head", site,
			"Pop returns something else than the element at the head of the ring (or the cleared slot), or does not advance")
	}
	// ---- PopN
	{
		g := w.FGI(popn)
		site := w.fnPos(popn)
		ok := false
		detail := "no element-wise transfer items[(head+...+i) % mod] -> result[i] found"
		var idxPhi ssa.Value
		for _, in := range g.ins {
			st, isSt := in.(*ssa.Store)
			if !isSt {
				continue
			}
			ia, isIA := st.Addr.(*ssa.IndexAddr)
			if !isIA || !strings.HasPrefix(w.pathOf(ia.X), "makeslice(") {
				continue
			}
			src := w.pathOf(st.Val)
			if !strings.Contains(src, ".items[") {
				continue
			}
			idx := src[strings.Index(src, ".items[")+7:]
			di := w.pathOf(ia.Index)
			switch {
			case !strings.Contains(idx, ".head"):
				detail = "the source position " + idx + " does not depend on head"
			case !strings.Contains(idx, ".mod"):
				detail = "the source position is not reduced modulo the buffer size: a batch that wraps reads past the end"
			case !strings.Contains(idx, di):
				detail = "result[" + di + "] is not filled from the position offset by the same counter"
			default:
				ok = true
				idxPhi = ia.Index
			}
		}
		if ok {
			// ascending unit stride from 0 (index loop: phi(0, i+1); range loop: phi(-1, v)+1)
			asc := ascendingFromZero(stripConv(idxPhi))
			if !asc {
				ok, detail = false, "the transfer does not run i = 0,1,2,...: elements come out in another order"
			}
		}
		if !ok {
			// a form the textual test does not recognise (e.g. an incrementally advanced position) but whose
			// offsets the affine rule decides: result[i] = items[head+1+i mod size]
			if decided, holds := popnTransferAffine(w); decided && holds {
				ok = true
			}
		}
		r.Check(ok, rule, "RingBuffer.PopN:transfer", "PopN copies result[i] from the slot head+1+i (mod size) for ascending i", site, detail)
		// head advanced by the number of popped elements
		okH := false
		for _, in := range g.ins {
			if st, isSt := in.(*ssa.Store); isSt {
				if fa, isFA := st.Addr.(*ssa.FieldAddr); isFA && isFieldOf(fa, bufT, "head") {
					p := w.pathOf(st.Val)
					if strings.Contains(p, ".head+") && strings.Contains(p, "phi(P0.len|P1)") || strings.Contains(p, ".head+") && strings.Contains(p, "min(") {
						okH = true
					}
				}
			}
		}
		if !okH {
			// e.g. head = the running position after the loop: decided by the affine rule (C14.R5 PopN:offsets)
			if decided, holds := popnTransferAffine(w); decided && holds {
				okH = true
			}
		}
		r.Check(okH, rule, "RingBuffer.PopN:advances-head", "head advances by the number of elements handed out", site, "head does not move by the popped count: elements are popped twice or skipped")
	}
}


// ascendingFromZero recognises the induction variable of `for i := 0; ...; i++` and of `for i := range x`.
func ascendingFromZero(v ssa.Value) bool {
	switch x := v.(type) {
	case *ssa.Phi:
		if len(x.Edges) != 2 {
			return false
		}
		var init, step bool
		for _, e := range x.Edges {
			if constStr(e) == "0" {
				init = true
			}
			if b, ok := e.(*ssa.BinOp); ok && b.Op == token.ADD && b.X == ssa.Value(x) && constStr(b.Y) == "1" {
				step = true
			}
		}
		return init && step
	case *ssa.BinOp:
		ph, ok := x.X.(*ssa.Phi)
		if !ok || x.Op != token.ADD || constStr(x.Y) != "1" || len(ph.Edges) != 2 {
			return false
		}
		var init, step bool
		for _, e := range ph.Edges {
			if constStr(e) == "-1" {
				init = true
			}
			if e == ssa.Value(x) {
				step = true
			}
		}
		return init && step
	}
	return false
}
