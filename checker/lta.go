package main

import (
	"fmt"
	"go/constant"
	"go/token"
	"go/types"
	"sort"
	"strings"

	"golang.org/x/tools/go/ssa"
)

// ---------------------------------------------------------------------------
// E-LTA: lifecycle typestate analysis. An abstract interpreter over the SSA of
// the process machine M (all methods of actor.process and their closures).
// Nothing is executed: SSA instructions are interpreted over a finite abstract
// state; branches on untracked values fork; every delivery may panic.
// ---------------------------------------------------------------------------

const (
	incNone = iota
	incNew
	incInited
	incStarted
	incStopped
)
const (
	mUnk = iota
	mInit
	mStart
	mStop
	mUser
)

var incN = []string{"none", "new", "inited", "started", "stopped"}
var msgN = []string{"?", "Initialized", "Started", "Stopped", "user"}

const nBools = 4

// LSt is the abstract state of one process.
type LSt struct {
	Inc, Msg uint8
	Open     bool // inbox accepts scheduling
	Reg      bool // registered
	Dead     bool // inbox stopped and unregistered (cleanup ran)
	MB       uint8 // restart buffer: 0 empty, 1 maybe non-empty
	B        [nBools]uint8 // bool fields of process: 0 false, 1 true, 2 unknown
	Worker   bool // a worker may exist (inbox was opened on this path by a foreign goroutine's driver)
}

func (s LSt) String() string {
	return fmt.Sprintf("{inc=%s msg=%s inboxOpen=%v registered=%v dead=%v mbuf=%d flags=%v}", incN[s.Inc], msgN[s.Msg], s.Open, s.Reg, s.Dead, s.MB, s.B)
}

type lout struct {
	panic  bool
	st     LSt
	origin lorigin // for panicking outcomes: where the panic was raised (relative stack)
	rec    bool   // a deferred closure called recover() while panicking
}

type lorigin struct {
	stack string
	pos   token.Pos
	// quiet: raised by user code outside Receive (the Producer). Where it ends up is nobody's promise, so an escape is
	// not reported; what a recover handler that catches it does to the incarnations is analysed like any other path.
	quiet bool
}

func (o lorigin) via(fn string) lorigin { return lorigin{canonStack(fn, o.stack), o.pos, o.quiet} }

type lfinding struct {
	Kind  string
	Stack string // canonical relative stack + event
	Pos   token.Pos
	State string
}

type lsummary struct {
	outs  map[lout]bool
	finds map[string]lfinding
}

type labs uint8

const (
	aUnk labs = iota
	aNil
	aNonNil
	aTrue
	aFalse
	aMsgInit // interface parameter known to hold Initialized / Started / Stopped
	aMsgStart
	aMsgStop
)

type LTA struct {
	stopsMemo map[*ssa.Function]bool
	w         *World
	procT     *types.Named
	ctxT      *types.Named
	M         map[*ssa.Function]bool
	boolIdx   map[string]int
	recvM     *types.Func
	inStart   *types.Func
	inStop    *types.Func
	regRemove *ssa.Function
	applyMW   *ssa.Function
	invokeFn  *ssa.Function
	roleName  map[string]string // function name -> role label (set by findProcRoles)
	memo      map[string]*lsummary
	inprog    map[string]bool
	roundSeen map[string]bool
	changed   bool
	problems  []string
	findings  map[string]lfinding // final, keyed
	stats     struct{ summaries, rounds, deliveries, states, producers int }
	driver    string
}

func (w *World) runLTA() *LTA {
	defer w.noCtx()()
	a := &LTA{w: w, M: map[*ssa.Function]bool{}, boolIdx: map[string]int{}, memo: map[string]*lsummary{}, inprog: map[string]bool{}, findings: map[string]lfinding{}}
	a.procT = w.Named("actor", "process")
	a.ctxT = w.Named("actor", "Context")
	a.recvM = w.IfaceMethod("actor", "Receiver", "Receive")
	a.inStart = w.IfaceMethod("actor", "Inboxer", "Start")
	a.inStop = w.IfaceMethod("actor", "Inboxer", "Stop")
	a.regRemove = w.Method("actor", "Registry", "Remove")
	if a.procT == nil || a.ctxT == nil || a.recvM == nil || a.inStart == nil || a.inStop == nil || a.regRemove == nil {
		a.problems = append(a.problems, "anchors missing: actor.process / Context / Receiver.Receive / Inboxer.Start|Stop / Registry.Remove")
		return a
	}
	// middleware applicator by role: func(ReceiveFunc, ...MiddlewareFunc) ReceiveFunc in package actor
	for _, m := range w.SP["actor"].Members {
		f, ok := m.(*ssa.Function)
		if !ok || f.Signature.Recv() != nil {
			continue
		}
		sg := f.Signature
		if sg.Params().Len() == 2 && sg.Results().Len() == 1 && sg.Variadic() &&
			isReceiveFunc(sg.Params().At(0).Type()) && isReceiveFunc(sg.Results().At(0).Type()) {
			if a.applyMW != nil {
				a.problems = append(a.problems, "two middleware applicators: "+a.applyMW.Name()+" and "+f.Name())
			}
			a.applyMW = f
		}
	}
	if a.applyMW == nil {
		a.problems = append(a.problems, "no middleware applicator func(ReceiveFunc, ...MiddlewareFunc) ReceiveFunc found")
	}
	st := a.procT.Underlying().(*types.Struct)
	for i := 0; i < st.NumFields(); i++ {
		f := st.Field(i)
		if b, ok := f.Type().Underlying().(*types.Basic); ok && b.Kind() == types.Bool && len(a.boolIdx) < nBools {
			a.boolIdx[pinnedFieldName(a.procT, st, i)] = len(a.boolIdx)
		}
	}
	for _, f := range w.MethodsOf("actor", "process") {
		a.M[f] = true
	}
	start := w.Method("actor", "process", "Start")
	invoke := w.Method("actor", "process", "Invoke")
	a.invokeFn = invoke
	shutdown := w.Method("actor", "process", "Shutdown")
	if start == nil || invoke == nil || shutdown == nil {
		a.problems = append(a.problems, "actor.process does not implement Processer (Start/Invoke/Shutdown)")
		return a
	}
	if len(a.problems) > 0 {
		return a
	}
	var live map[LSt]bool
	for round := 0; round < 40; round++ {
		a.changed = false
		a.roundSeen = map[string]bool{}
		a.stats.rounds++
		a.findings = map[string]lfinding{}
		live = map[LSt]bool{}
		s0 := LSt{Inc: incNone, Reg: true}
		a.driver = "spawn"
		a.drive("spawn", start, s0, live, true)
		for {
			n := len(live)
			var ls []LSt
			for s := range live {
				ls = append(ls, s)
			}
			sort.Slice(ls, func(i, j int) bool { return ls[i].String() < ls[j].String() })
			for _, s := range ls {
				a.driver = "worker"
				a.drive("worker", invoke, s, live, true)
				a.driver = "shutdown"
				a.drive("shutdown", shutdown, s, nil, false)
			}
			if len(live) == n {
				break
			}
		}
		if !a.changed {
			break
		}
	}
	a.stats.summaries = len(a.memo)
	a.stats.states = len(live)
	return a
}

func isReceiveFunc(t types.Type) bool {
	sg, ok := t.Underlying().(*types.Signature)
	if !ok || sg.Params().Len() != 1 || sg.Results().Len() != 0 {
		return false
	}
	p, ok := sg.Params().At(0).Type().(*types.Pointer)
	if !ok {
		return false
	}
	n, ok := p.Elem().(*types.Named)
	return ok && n.Obj().Name() == "Context" && n.Obj().Pkg() != nil && n.Obj().Pkg().Name() == "actor"
}

func isProducerType(t types.Type) bool {
	n, ok := t.(*types.Named)
	return ok && n.Obj().Name() == "Producer" && n.Obj().Pkg() != nil && n.Obj().Pkg().Name() == "actor"
}

// drive analyses one entry point from state s and records findings / live successor states.
func (a *LTA) drive(name string, fn *ssa.Function, s LSt, live map[LSt]bool, panicsEscape bool) {
	if name == "worker" {
		s.Worker = false
	}
	sum := a.analyze(fn, nil, s, false)
	for _, f := range sortedFinds(sum.finds) {
		a.record(name, f)
	}
	for _, o := range sortedOuts(sum.outs) {
		if o.panic {
			if panicsEscape && !o.origin.quiet {
				a.record(name, lfinding{Kind: "panic-escapes", Stack: o.origin.stack, Pos: o.origin.pos, State: o.st.String()})
			}
			continue
		}
		if name == "spawn" && (o.st.Inc == incNone || o.st.Inc == incNew || o.st.Inc == incInited) {
			a.record(name, lfinding{Kind: "spawn-returns-before-Started", Stack: fn.Name(), State: o.st.String()})
		}
		if name == "spawn" && !o.st.Open && !o.st.Dead && o.st.Inc == incStarted {
			a.record(name, lfinding{Kind: "spawn-leaves-inbox-closed", Stack: fn.Name(), State: o.st.String()})
		}
		if o.st.Dead && o.st.Inc != incStopped && o.st.Inc != incNone {
			a.record(name, lfinding{Kind: "terminated-without-Stopped", Stack: fn.Name(), State: o.st.String()})
		}
		if live != nil && o.st.Open && !o.st.Dead {
			ns := o.st
			ns.Worker = false
			live[ns] = true
		}
	}
}

func (a *LTA) record(driver string, f lfinding) {
	key := f.Kind + "@" + driver + ":" + f.Stack
	if _, ok := a.findings[key]; !ok {
		a.findings[key] = f
	}
}

func sortedOuts(m map[lout]bool) []lout {
	var out []lout
	for o := range m {
		out = append(out, o)
	}
	sort.Slice(out, func(i, j int) bool { return fmt.Sprint(out[i]) < fmt.Sprint(out[j]) })
	return out
}

func sortedFinds(m map[string]lfinding) []lfinding {
	var ks []string
	for k := range m {
		ks = append(ks, k)
	}
	sort.Strings(ks)
	var out []lfinding
	for _, k := range ks {
		out = append(out, m[k])
	}
	return out
}

// canonStack prepends fn to a relative stack and removes cycles so that the set of stacks is finite.
func canonStack(fn, rest string) string {
	parts := append([]string{fn}, strings.Split(rest, ">")...)
	if rest == "" {
		parts = []string{fn}
	}
	// the last element may be "fn:event"; compare on the function part
	name := func(s string) string {
		if i := strings.Index(s, ":"); i >= 0 {
			return s[:i]
		}
		return s
	}
	for i := 0; i < len(parts); i++ {
		last := -1
		for j := i + 1; j < len(parts); j++ {
			if name(parts[j]) == name(parts[i]) {
				last = j
			}
		}
		if last > 0 {
			parts = append(parts[:i], parts[last:]...)
		}
	}
	return strings.Join(parts, ">")
}

type lframe struct {
	fn        *ssa.Function
	env       map[ssa.Value]labs
	defers    []*ssa.Defer
	panicking bool // this frame is a deferred call running while a panic unwinds
	recovered bool
	mwEmpty   bool
}

func (f *lframe) clone() *lframe {
	n := *f
	n.env = make(map[ssa.Value]labs, len(f.env))
	for k, v := range f.env {
		n.env[k] = v
	}
	n.defers = append([]*ssa.Defer(nil), f.defers...)
	return &n
}

func envKey(e map[ssa.Value]labs) string {
	ks := make([]string, 0, len(e))
	for k, v := range e {
		ks = append(ks, fmt.Sprintf("%s=%d", k.Name(), v))
	}
	sort.Strings(ks)
	return strings.Join(ks, ",")
}

func argsKey(args map[int]labs) string {
	var ks []string
	for k, v := range args {
		ks = append(ks, fmt.Sprintf("%d=%d", k, v))
	}
	sort.Strings(ks)
	return strings.Join(ks, ",")
}

// analyze returns the summary of calling fn in state st. deferredPanicking: fn is a
// deferred closure run while a panic is unwinding (recover() returns non-nil once).
func (a *LTA) analyze(fn *ssa.Function, args map[int]labs, st LSt, deferredPanicking bool) *lsummary {
	key := fmt.Sprintf("%s|%s|%s|%v|%v", a.driver, fn.String(), argsKey(args), st, deferredPanicking)
	if a.inprog[key] || a.roundSeen[key] {
		return a.memo[key]
	}
	a.inprog[key] = true
	a.roundSeen[key] = true
	sum := a.memo[key]
	if sum == nil {
		sum = &lsummary{outs: map[lout]bool{}, finds: map[string]lfinding{}}
		a.memo[key] = sum
	}
	self := fn.Name()
	addOut := func(o lout) {
		if !sum.outs[o] {
			sum.outs[o] = true
			a.changed = true
		}
	}
	addFind := func(f lfinding) {
		k := f.Kind + "@" + f.Stack
		if _, ok := sum.finds[k]; !ok {
			sum.finds[k] = f
			a.changed = true
		}
	}
	report := func(kind, event string, st LSt, pos token.Pos) {
		addFind(lfinding{Kind: kind, Stack: self + ":" + event, Pos: pos, State: st.String()})
	}
	absorbAs := func(callee *lsummary, as string) {
		for _, f := range sortedFinds(callee.finds) {
			f.Stack = canonStack(as, f.Stack)
			addFind(f)
		}
	}
	absorb := func(callee *lsummary) { absorbAs(callee, self) }

	type seenK struct {
		b, i int
		st   LSt
		env  string
		nd   int
		mw   bool
		rec  bool
	}
	seen := map[seenK]bool{}
	type item struct {
		b, i int
		st   LSt
		fr   *lframe
	}
	fr0 := &lframe{fn: fn, env: map[ssa.Value]labs{}, panicking: deferredPanicking}
	for i, p := range fn.Params {
		if v, ok := args[i]; ok {
			fr0.env[p] = v
		}
	}
	var work []item
	if len(fn.Blocks) > 0 {
		work = append(work, item{0, 0, st, fr0})
	}

	// runDefers runs the deferred calls registered in fr (LIFO) starting at idx.
	var runDefers func(fr *lframe, st LSt, panicking bool, origin lorigin, idx int, k func(st LSt, stillPanicking bool, origin lorigin))
	runDefers = func(fr *lframe, st LSt, panicking bool, origin lorigin, idx int, k func(LSt, bool, lorigin)) {
		if idx < 0 {
			k(st, panicking, origin)
			return
		}
		d := fr.defers[idx]
		switch v := d.Call.Value.(type) {
		case *ssa.MakeClosure:
			cfn := v.Fn.(*ssa.Function)
			cs := a.analyze(cfn, nil, st, panicking)
			absorb(cs)
			for _, o := range sortedOuts(cs.outs) {
				if o.panic {
					runDefers(fr, o.st, true, o.origin.via(self), idx-1, k)
				} else {
					runDefers(fr, o.st, panicking && !o.rec, origin, idx-1, k)
				}
			}
		default:
			if callee := d.Call.StaticCallee(); callee != nil && a.M[callee] {
				cs := a.analyze(callee, a.absArgs(fr, &d.Call), st, panicking)
				absorb(cs)
				for _, o := range sortedOuts(cs.outs) {
					if o.panic {
						runDefers(fr, o.st, true, o.origin.via(self), idx-1, k)
					} else {
						runDefers(fr, o.st, panicking && !o.rec, origin, idx-1, k)
					}
				}
				return
			}
			if isCancelFunc(d.Call.Value.Type()) || isFuncValue(d.Call.Value) {
				if fr.env[d.Call.Value] == aNil {
					report("nil-func-call", "defer "+a.w.pathOf(d.Call.Value), st, d.Pos())
					runDefers(fr, st, true, lorigin{stack: self + ":defer-nil-call", pos: d.Pos()}, idx-1, k)
					return
				}
				if isCancelFunc(d.Call.Value.Type()) {
					a.evCancel(report, st, d.Pos(), "defer")
				}
			}
			runDefers(fr, st, panicking, origin, idx-1, k)
		}
	}
	doPanic := func(fr *lframe, st LSt, origin lorigin) {
		runDefers(fr, st, true, origin, len(fr.defers)-1, func(st2 LSt, stillP bool, org lorigin) {
			if stillP {
				addOut(lout{panic: true, st: st2, origin: org})
			} else {
				// recovered: the function returns normally
				addOut(lout{st: st2, rec: false})
			}
		})
	}

	for len(work) > 0 {
		it := work[len(work)-1]
		work = work[:len(work)-1]
		fr := it.fr
		k := seenK{it.b, it.i, it.st, envKey(fr.env), len(fr.defers), fr.mwEmpty, fr.recovered}
		if seen[k] {
			continue
		}
		seen[k] = true
		blk := fn.Blocks[it.b]
		st := it.st
	instrs:
		for i := it.i; i < len(blk.Instrs); i++ {
			switch ins := blk.Instrs[i].(type) {
			case *ssa.Defer:
				fr.defers = append(fr.defers, ins)
			case *ssa.RunDefers:
				ii := i
				frc := fr
				runDefers(frc, st, false, lorigin{}, len(frc.defers)-1, func(st2 LSt, stillP bool, org lorigin) {
					if stillP {
						addOut(lout{panic: true, st: st2, origin: org})
						return
					}
					nf := frc.clone()
					nf.defers = nil
					work = append(work, item{it.b, ii + 1, st2, nf})
				})
				break instrs
			case *ssa.UnOp:
				if ins.Op == token.MUL {
					if fa, ok := ins.X.(*ssa.FieldAddr); ok {
						if name, n := fieldName(fa); sameNamed(n, a.procT) {
							if bi, ok := a.boolIdx[name]; ok {
								switch st.B[bi] {
								case 0:
									fr.env[ins] = aFalse
								case 1:
									fr.env[ins] = aTrue
								default:
									delete(fr.env, ins)
								}
							}
						}
					}
				}
			case *ssa.Store:
				if fa, ok := ins.Addr.(*ssa.FieldAddr); ok {
					name, n := fieldName(fa)
					switch {
					case sameNamed(n, a.ctxT) && name == "message":
						st.Msg = a.msgKindIn(fr, ins.Val)
					case sameNamed(n, a.ctxT) && name == "receiver":
						if st.Inc != incNone && st.Inc != incStopped {
							report("incarnation-replaced-without-Stopped", "new-receiver", st, ins.Pos())
							break instrs
						}
						st.Inc = incNew
					case sameNamed(n, a.procT) && name == "mbuffer":
						if c, ok := ins.Val.(*ssa.Const); ok && c.IsNil() {
							if st.MB == 1 && !st.Dead {
								report("restart-buffer-dropped", "mbuffer=nil", st, ins.Pos())
							}
							st.MB = 0
						} else {
							st.MB = 1
						}
					case sameNamed(n, a.procT):
						if bi, ok := a.boolIdx[name]; ok {
							if c, ok := ins.Val.(*ssa.Const); ok && c.Value != nil && c.Value.Kind() == constant.Bool {
								if constant.BoolVal(c.Value) {
									st.B[bi] = 1
								} else {
									st.B[bi] = 0
								}
							} else {
								st.B[bi] = 2
							}
						}
					}
				}
			case *ssa.Panic:
				doPanic(fr, st, lorigin{stack: self + ":panic", pos: ins.Pos()})
				break instrs
			case *ssa.Return:
				addOut(lout{st: st, rec: fr.recovered})
				break instrs
			case *ssa.If:
				c := a.evalCond(fr, st, ins.Cond)
				if c != aFalse {
					nf := fr.clone()
					a.refine(nf, ins.Cond, true)
					work = append(work, item{blk.Succs[0].Index, 0, a.refineState(st, ins.Cond, true), nf})
				}
				if c != aTrue {
					nf := fr.clone()
					a.refine(nf, ins.Cond, false)
					work = append(work, item{blk.Succs[1].Index, 0, a.refineState(st, ins.Cond, false), nf})
				}
				break instrs
			case *ssa.Jump:
				work = append(work, item{blk.Succs[0].Index, 0, st, fr})
				break instrs
			case *ssa.Go:
				// asynchronous: if it reaches the machine it is a confinement problem (reported by C02.R7 / C05.R2)
			case *ssa.Call:
				com := ins.Common()
				if b, ok := com.Value.(*ssa.Builtin); ok {
					if b.Name() == "recover" {
						if fr.panicking && !fr.recovered {
							fr.env[ins] = aNonNil
							fr.recovered = true
						} else {
							fr.env[ins] = aNil
						}
					}
					continue
				}
				kind, viaMW, why := a.classify(fr, com)
				switch kind {
				case "deliver":
					a.stats.deliveries++
					ev := "deliver(" + msgN[st.Msg] + ")"
					if !viaMW && !fr.mwEmpty {
						report("bypasses-middleware", ev, st, ins.Pos())
					}
					if why != "" {
						report(why, ev, st, ins.Pos())
						break instrs
					}
					if st.Open && st.Worker {
						report("delivery-concurrent-with-worker", ev, st, ins.Pos())
						break instrs
					}
					if !a.checkDeliver(report, &st, ins.Pos()) {
						break instrs
					}
					// the receiver (or a middleware) may panic
					doPanic(fr.clone(), st, lorigin{stack: self + ":" + ev, pos: ins.Pos()})
				case "unclassified-delivery":
					report("unclassified-delivery", "call "+a.w.pathOf(com.Value), st, ins.Pos())
					break instrs
				case "inboxStart":
					if st.Dead {
						report("inbox-started-after-cleanup", "Inboxer.Start", st, ins.Pos())
						break instrs
					}
					if !st.Open {
						if a.driver == "worker" {
							// the inbox was stopped earlier in this very activation: reopening it schedules a second
							// worker while this one is still inside its loop
							report("inbox-reopened-by-worker", "Inboxer.Start", st, ins.Pos())
						}
						st.Open = true
						st.Worker = true
					}
				case "inboxStop":
					st.Open = false
					if !st.Reg {
						st.Dead = true
					}
				case "regRemove":
					st.Reg = false
					if !st.Open {
						st.Dead = true
					}
				case "cancel":
					if fr.env[com.Value] == aNil {
						report("nil-func-call", "call "+a.w.pathOf(com.Value), st, ins.Pos())
						doPanic(fr.clone(), st, lorigin{stack: self + ":nil-call", pos: ins.Pos()})
						break instrs
					}
					a.evCancel(report, st, ins.Pos(), "call")
				case "":
					callee := com.StaticCallee()
					if callee == nil {
						if mc, ok := com.Value.(*ssa.MakeClosure); ok {
							callee, _ = mc.Fn.(*ssa.Function)
						}
					}
					if callee == nil && !com.IsInvoke() && isProducerType(com.Value.Type()) {
						// the Producer is user code: it may panic
						a.stats.producers++
						doPanic(fr.clone(), st, lorigin{stack: self + ":producer", pos: ins.Pos(), quiet: true})
					}
					if callee != nil && a.M[callee] {
						if callee == a.invokeFn && len(com.Args) == 2 && strings.HasSuffix(a.w.pathOf(com.Args[1]), ".mbuffer") && st.MB == 1 {
							st.MB = 2 // the pending restart buffer is being replayed
						}
						cs := a.analyze(callee, a.absArgs(fr, com), st, false)
						// a stop function called from the restart function anywhere but on the exhausted-budget edge is a
						// different path class than the (known) stop at the budget: it gets its own frame name
						if a.stopsInbox(callee) && a.callOffBudgetEdge(fn, ins) {
							absorbAs(cs, self+"[not-at-budget]")
						} else {
							absorb(cs)
						}
						ii := i
						for _, o := range sortedOuts(cs.outs) {
							if o.panic {
								doPanic(fr.clone(), o.st, o.origin.via(self))
							} else {
								work = append(work, item{it.b, ii + 1, o.st, fr.clone()})
							}
						}
						break instrs
					}
				}
			}
		}
	}
	delete(a.inprog, key)
	return sum
}


func (a *LTA) absArgs(fr *lframe, com *ssa.CallCommon) map[int]labs {
	args := map[int]labs{}
	for ai, av := range com.Args {
		if c, ok := av.(*ssa.Const); ok && c.IsNil() {
			args[ai] = aNil
		} else if v, ok := fr.env[av]; ok && (v == aNil || v == aNonNil || v >= aMsgInit) {
			args[ai] = v
		} else if _, isIface := av.Type().Underlying().(*types.Interface); isIface {
			// a lifecycle message handed to a helper (p.deliver(Stopped{})) keeps its kind
			switch a.msgKind(av) {
			case mInit:
				args[ai] = aMsgInit
			case mStart:
				args[ai] = aMsgStart
			case mStop:
				args[ai] = aMsgStop
			}
		}
	}
	return args
}

// msgKindIn: like msgKind, but a parameter carries the kind it was called with.
func (a *LTA) msgKindIn(fr *lframe, v ssa.Value) uint8 {
	switch fr.env[v] {
	case aMsgInit:
		return mInit
	case aMsgStart:
		return mStart
	case aMsgStop:
		return mStop
	}
	return a.msgKind(v)
}

func isCancelFunc(t types.Type) bool {
	if n, ok := types.Unalias(t).(*types.Named); ok {
		return n.Obj().Name() == "CancelFunc" && n.Obj().Pkg() != nil && n.Obj().Pkg().Path() == "context"
	}
	return false
}

func isFuncValue(v ssa.Value) bool {
	switch v.(type) {
	case *ssa.Function, *ssa.MakeClosure, *ssa.Builtin:
		return false
	}
	_, ok := v.Type().Underlying().(*types.Signature)
	return ok
}

type reporter func(kind, event string, st LSt, pos token.Pos)

func (a *LTA) evCancel(report reporter, st LSt, pos token.Pos, how string) {
	if st.Open || st.Reg || st.Inc != incStopped {
		report("cancel-before-stopped", how+" cancel", st, pos)
	}
}

func (a *LTA) checkDeliver(report reporter, st *LSt, pos token.Pos) bool {
	ev := "deliver(" + msgN[st.Msg] + ")"
	if st.Inc == incStopped {
		if st.Msg == mStop {
			report("Stopped-twice", ev, *st, pos)
		} else {
			report("delivery-after-Stopped", ev, *st, pos)
		}
		// reported, but the path is followed further (the incarnation stays "stopped"):
		// abandoning it would hide what happens next on a path that carries a known finding.
		return true
	}
	switch st.Msg {
	case mInit:
		if st.Inc != incNew {
			report("Initialized-out-of-order", ev, *st, pos)
			return false
		}
		st.Inc = incInited
	case mStart:
		if st.Inc != incInited {
			report("Started-out-of-order", ev, *st, pos)
			return false
		}
		st.Inc = incStarted
	case mUser:
		if st.Inc != incStarted {
			report("user-message-before-Started", ev, *st, pos)
			return false
		}
	case mStop:
		if st.Inc == incNone {
			report("Stopped-without-incarnation", ev, *st, pos)
			return false
		}
		st.Inc = incStopped
	default:
		report("delivery-of-unknown-message", ev, *st, pos)
		return false
	}
	return true
}

func (a *LTA) msgKind(v ssa.Value) uint8 {
	if mi, ok := v.(*ssa.MakeInterface); ok {
		if n, ok := types.Unalias(mi.X.Type()).(*types.Named); ok && n.Obj().Pkg() == a.procT.Obj().Pkg() {
			switch n.Obj().Name() {
			case "Initialized":
				return mInit
			case "Started":
				return mStart
			case "Stopped":
				return mStop
			}
		}
		return mUser
	}
	return mUser
}

// classify recognises the events of the machine at a call site.
// It returns kind, whether a delivery goes through the middleware chain, and for
// malformed chain applications a finding kind.
func (a *LTA) classify(fr *lframe, com *ssa.CallCommon) (kind string, viaMW bool, why string) {
	if com.IsInvoke() {
		switch {
		case com.Method == a.recvM:
			return "deliver", false, ""
		case com.Method == a.inStart:
			return "inboxStart", false, ""
		case com.Method == a.inStop:
			return "inboxStop", false, ""
		}
		return "", false, ""
	}
	if cal := com.StaticCallee(); cal != nil {
		if cal == a.regRemove {
			return "regRemove", false, ""
		}
		if a.M[cal] {
			return "", false, ""
		}
		return "", false, ""
	}
	if _, ok := com.Value.(*ssa.MakeClosure); ok {
		return "", false, ""
	}
	// dynamic call of a function value
	if c, ok := com.Value.(*ssa.Call); ok {
		if cal := c.Call.StaticCallee(); cal != nil && cal == a.applyMW {
			// applyMiddleware(<bound Receive>, Opts.Middleware...)(ctx)
			why := ""
			arg0 := c.Call.Args[0]
			if inner, ok := arg0.(*ssa.Call); ok && inner.Call.StaticCallee() == a.applyMW {
				why = "middleware-applied-twice"
			} else if mc, ok := arg0.(*ssa.MakeClosure); !ok || !strings.HasSuffix(mc.Fn.Name(), "Receive$bound") {
				why = "chain-does-not-end-in-the-receiver"
			}
			p := a.w.pathOf(c.Call.Args[1])
			if !strings.HasSuffix(p, ".Middleware") {
				return "deliver", false, why
			}
			return "deliver", true, why
		}
	}
	if isCancelFunc(com.Value.Type()) {
		return "cancel", false, ""
	}
	if isReceiveFunc(com.Value.Type()) {
		return "unclassified-delivery", false, ""
	}
	return "", false, ""
}

func (a *LTA) evalCond(fr *lframe, st LSt, c ssa.Value) labs {
	neg := false
	for {
		if u, ok := c.(*ssa.UnOp); ok && u.Op == token.NOT {
			c = u.X
			neg = !neg
			continue
		}
		break
	}
	flip := func(v labs) labs {
		if !neg {
			return v
		}
		switch v {
		case aTrue:
			return aFalse
		case aFalse:
			return aTrue
		}
		return v
	}
	if v, ok := fr.env[c]; ok && (v == aTrue || v == aFalse) {
		return flip(v)
	}
	if b, ok := c.(*ssa.BinOp); ok {
		if b.Op == token.NEQ || b.Op == token.EQL {
			var x ssa.Value
			if k, ok := b.Y.(*ssa.Const); ok && k.IsNil() {
				x = b.X
			} else if k, ok := b.X.(*ssa.Const); ok && k.IsNil() {
				x = b.Y
			}
			if x != nil {
				if v, ok := fr.env[x]; ok && (v == aNil || v == aNonNil) {
					isNil := v == aNil
					if (b.Op == token.EQL) == isNil {
						return flip(aTrue)
					}
					return flip(aFalse)
				}
			}
		}
		// len(p.mbuffer) > 0 with an empty restart buffer
		if a.isLenOfField(b.X, a.procT, "mbuffer") && isZero(b.Y) && st.MB == 0 {
			switch b.Op {
			case token.GTR, token.NEQ:
				return flip(aFalse)
			case token.EQL, token.LEQ:
				return flip(aTrue)
			}
		}
	}
	return aUnk
}

// refineState: on the edge where len(p.mbuffer) is known to be 0 the restart buffer is empty.
func (a *LTA) refineState(st LSt, c ssa.Value, taken bool) LSt {
	for {
		if u, ok := c.(*ssa.UnOp); ok && u.Op == token.NOT {
			c = u.X
			taken = !taken
			continue
		}
		break
	}
	if b, ok := c.(*ssa.BinOp); ok && a.isLenOfField(b.X, a.procT, "mbuffer") && isZero(b.Y) {
		empty := false
		switch b.Op {
		case token.GTR, token.NEQ:
			empty = !taken
		case token.EQL, token.LEQ:
			empty = taken
		}
		if empty {
			st.MB = 0
		}
	}
	return st
}

func isZero(v ssa.Value) bool {
	k, ok := v.(*ssa.Const)
	return ok && k.Value != nil && k.Value.Kind() == constant.Int && constant.Sign(k.Value) == 0
}

func (a *LTA) isLenOfField(v ssa.Value, named *types.Named, field string) bool {
	args, ok := isBuiltinCall(v, "len")
	if !ok || len(args) != 1 {
		return false
	}
	u, ok := args[0].(*ssa.UnOp)
	if !ok {
		return false
	}
	fa, ok := u.X.(*ssa.FieldAddr)
	if !ok {
		return false
	}
	name, _ := fieldName(fa)
	if name != field {
		return false
	}
	// Opts is embedded in process: accept Opts.Middleware reached through process
	return true
}

// refine learns facts from a branch: nil-ness of compared values and len(Middleware)==0.
func (a *LTA) refine(fr *lframe, c ssa.Value, taken bool) {
	for {
		if u, ok := c.(*ssa.UnOp); ok && u.Op == token.NOT {
			c = u.X
			taken = !taken
			continue
		}
		break
	}
	b, ok := c.(*ssa.BinOp)
	if !ok {
		return
	}
	if b.Op == token.NEQ || b.Op == token.EQL {
		var x ssa.Value
		if k, ok := b.Y.(*ssa.Const); ok && k.IsNil() {
			x = b.X
		} else if k, ok := b.X.(*ssa.Const); ok && k.IsNil() {
			x = b.Y
		}
		if x != nil {
			if _, isP := x.(*ssa.Parameter); isP {
				if (b.Op == token.EQL) == taken {
					fr.env[x] = aNil
				} else {
					fr.env[x] = aNonNil
				}
			}
		}
	}
	if a.isLenOfField(b.X, a.procT, "Middleware") && isZero(b.Y) {
		switch b.Op {
		case token.GTR, token.NEQ:
			fr.mwEmpty = !taken
		case token.EQL, token.LEQ:
			fr.mwEmpty = taken
		}
	}
}

// roleKey rewrites the abstract call stack inside a finding key in terms of roles (Start, Invoke, their
// recover handlers, the restart / stop / delivery functions) and drops frames without a role, so that a
// renamed function or an extracted helper does not turn a known finding into a new one.
func (a *LTA) roleKey(k string) string {
	if a.roleName == nil {
		return k
	}
	i := strings.Index(k, ":")
	if i < 0 {
		return k
	}
	head, rest := k[:i+1], k[i+1:] // "kind@driver:" , "f>g>h:event"
	j := strings.LastIndex(rest, ":")
	event := ""
	stack := rest
	if j >= 0 {
		stack, event = rest[:j], rest[j:]
	}
	var out []string
	for _, fn := range strings.Split(stack, ">") {
		if r, ok := a.roleName[fn]; ok {
			if len(out) == 0 || out[len(out)-1] != r {
				out = append(out, r)
			}
		}
	}
	return head + strings.Join(out, ">") + event
}

// export turns the engine's findings of the given kinds into obligations of rule.
func (a *LTA) export(r *Report, rule string, kinds []string, what string) {
	a.exportIf(r, rule, kinds, what, nil)
}

func (a *LTA) exportIf(r *Report, rule string, kinds []string, what string, keep func(lfinding) bool) {
	if len(a.problems) > 0 {
		r.Unknown(rule, "lta", what, "-", "typestate engine could not start: "+strings.Join(a.problems, "; "))
		return
	}
	for _, kind := range kinds {
		n := 0
		var ks []string
		for k := range a.findings {
			ks = append(ks, k)
		}
		sort.Strings(ks)
		for _, k := range ks {
			f := a.findings[k]
			if f.Kind != kind || (keep != nil && !keep(f)) {
				continue
			}
			n++
			r.Fail(rule, a.roleKey(k), what+" ["+kind+"]", a.w.pos(f.Pos), "abstract path: "+f.Stack+"  state="+f.State)
		}
		if n == 0 {
			r.OK(rule, "lta:"+kind, fmt.Sprintf("%s [%s]: none on any abstract path (%d summaries, %d live states, %d rounds)", what, kind, a.stats.summaries, a.stats.states, a.stats.rounds),
				a.w.fnPos(a.w.Method("actor", "process", "Start")))
		}
	}
}


// stopsInbox: fn calls Inboxer.Stop itself (the stop function of the process machine).
func (a *LTA) stopsInbox(fn *ssa.Function) bool {
	if a.stopsMemo == nil {
		a.stopsMemo = map[*ssa.Function]bool{}
	}
	if v, ok := a.stopsMemo[fn]; ok {
		return v
	}
	res := false
	for _, b := range fn.Blocks {
		for _, in := range b.Instrs {
			if c := callOf(in); c != nil && c.IsInvoke() && c.Method.Name() == "Stop" && strings.Contains(c.Value.Type().String(), "Inboxer") {
				res = true
			}
		}
	}
	a.stopsMemo[fn] = res
	return res
}

// callOffBudgetEdge: fn compares restarts with MaxRestarts and the call `in` is not confined to the edge on
// which the budget is exhausted.
func (a *LTA) callOffBudgetEdge(fn *ssa.Function, in ssa.Instruction) bool {
	g := a.w.FG(fn)
	exhausted, _ := g.CondEdges(func(v ssa.Value) (bool, bool) {
		b, ok := v.(*ssa.BinOp)
		if !ok {
			return false, false
		}
		x, y := a.w.pathOf(b.X), a.w.pathOf(b.Y)
		op := b.Op
		if strings.HasSuffix(y, ".restarts") && strings.HasSuffix(x, ".MaxRestarts") {
			x, y = y, x
			switch op {
			case token.LSS:
				op = token.GTR
			case token.GTR:
				op = token.LSS
			case token.LEQ:
				op = token.GEQ
			case token.GEQ:
				op = token.LEQ
			}
		}
		if !strings.HasSuffix(x, ".restarts") || !strings.HasSuffix(y, ".MaxRestarts") {
			return false, false
		}
		switch op {
		case token.EQL, token.GEQ, token.GTR:
			return true, true
		case token.NEQ, token.LSS, token.LEQ:
			return false, true
		}
		return false, false
	})
	if len(exhausted) == 0 {
		return false
	}
	n, ok := g.idx[in]
	return ok && !g.OnlyVia(exhausted, n)
}
