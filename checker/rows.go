package main

import (
	"fmt"
	"regexp"
	"strings"

	"golang.org/x/tools/go/ssa"
)

// row is one line of a forwarding table: inside fn, the callee is called with exactly
// these argument provenances (E-FLOW), by a plain synchronous call (E-ORD), exactly once on
// every path that is not excused.
type row struct {
	rule   string
	fn     *ssa.Function
	callee Ev
	name   string   // display name of the callee
	args   []string // expected provenance per argument; "" = not checked; prefix "~" = suffix match
	// excuse: edges through which a path may legitimately skip the call (e.g. the nil-guard edge)
	excuse func(g *FG) []Edge
	// only: the call must be reachable only through these edges (e.g. the "registered" edge)
	only  func(g *FG) []Edge
	why   string
	multi bool // several call sites allowed (each checked); default: exactly one site
	loop  bool // the call sits in a loop: skip the at-most-once check
	// alts: the same hand-off one level further down (the thin wrapper the row names was written out: Engine.Send(p, m)
	// is send(p, m, nil)); tried when fn has no call of callee
	alts []rowAlt
}

type rowAlt struct {
	callee Ev
	name   string
	args   []string
}

func matchArg(want, got string) bool {
	if want == "" {
		return true
	}
	if strings.HasPrefix(want, "~") {
		return strings.HasSuffix(got, want[1:])
	}
	if strings.HasPrefix(want, "re:") {
		ok, _ := regexp.MatchString("^(?:"+want[3:]+")$", got)
		return ok
	}
	return want == got
}

func (w *World) checkRow(r *Report, rw row) bool {
	key := fmt.Sprintf("%s->%s", fname(rw.fn), rw.name)
	what := fmt.Sprintf("%s calls %s(%s) synchronously, once", fname(rw.fn), rw.name, strings.Join(rw.args, ", "))
	if rw.fn == nil {
		r.Unknown(rw.rule, key, what, "-", "function not found")
		return false
	}
	site := w.fnPos(rw.fn)
	g := w.FGI(rw.fn)
	sites := w.callsIn(rw.fn, rw.callee)
	if len(sites) == 0 {
		// delegation: fn hands the job to a sibling of its package that makes the call (Forward -> Context.Send ->
		// SendWithSender). The sibling's body is read in place, its parameters standing for fn's arguments.
		if g2 := w.delegating(rw.fn, rw.callee); g2 != nil {
			g = g2
			for _, in := range g.ins {
				if ci, ok := in.(ssa.CallInstruction); ok && rw.callee.M(in) {
					sites = append(sites, ci)
				}
			}
		}
	}
	if len(sites) == 0 {
		for _, alt := range rw.alts {
			if ss := w.callsIn(rw.fn, alt.callee); len(ss) > 0 {
				sites = ss
				rw.callee, rw.args = alt.callee, alt.args
				what = fmt.Sprintf("%s calls %s(%s) synchronously, once", fname(rw.fn), alt.name, strings.Join(alt.args, ", "))
				break
			}
		}
	}
	if len(sites) == 0 {
		r.Fail(rw.rule, key, what, site, "no call of "+rw.name+" in "+fname(rw.fn)+". "+rw.why)
		return false
	}
	if len(sites) > 1 && !rw.multi {
		r.Fail(rw.rule, key, what, site, fmt.Sprintf("%d call sites of %s (expected one): a message can be forwarded twice. %s", len(sites), rw.name, rw.why))
		return false
	}
	nodes := make([]bool, len(g.ins))
	for _, ci := range sites {
		if callKind(ci) != "call" {
			r.Fail(rw.rule, key, what, w.pos(ci.Pos()), fmt.Sprintf("%s is issued with `%s`: the hand-off is no longer synchronous, ordering between successive sends is lost. %s", rw.name, callKind(ci), rw.why))
			return false
		}
		got := w.argPaths(ci.Common())
		if ci.Common().IsInvoke() {
			got = append([]string{w.pathOf(ci.Common().Value)}, got...)
		}
		if len(got) < len(rw.args) {
			r.Fail(rw.rule, key, what, w.pos(ci.Pos()), fmt.Sprintf("call has %d arguments, expected %d", len(got), len(rw.args)))
			return false
		}
		for i, want := range rw.args {
			if !matchArg(want, got[i]) {
				r.Fail(rw.rule, key, what, w.pos(ci.Pos()), fmt.Sprintf("argument %d is %s, expected %s. %s", i, got[i], strings.TrimPrefix(want, "~"), rw.why))
				return false
			}
		}
		nodes[g.idx[ci.(ssa.Instruction)]] = true
	}
	// on every non-excused path, exactly once
	cut := map[Edge]bool{}
	if rw.excuse != nil {
		for _, e := range rw.excuse(g) {
			cut[e] = true
		}
	}
	reach := g.reach(g.entry(), nodes, cut)
	for _, x := range g.returns {
		if reach[x] {
			r.Fail(rw.rule, key, what, site, "a path through "+fname(rw.fn)+" returns without calling "+rw.name+". "+rw.why)
			return false
		}
	}
	if ok, x := g.AtMostOnce(nodes); !ok && !rw.loop {
		r.Fail(rw.rule, key, what, w.pos(g.ins[x].Pos()), rw.name+" can be called more than once on one path. "+rw.why)
		return false
	}
	if rw.only != nil {
		es := rw.only(g)
		for _, n := range members(nodes) {
			if !g.OnlyVia(es, n) {
				r.Fail(rw.rule, key, what, w.pos(g.ins[n].Pos()), rw.name+" is reachable outside its guarding branch. "+rw.why)
				return false
			}
		}
	}
	r.OK(rw.rule, key, what, site)
	return true
}

// nilEdges returns the edges on which the value with the given path is known to be nil
// (pos) / non-nil (neg).
func (w *World) nilEdges(g *FG, path string) (isNil []Edge, nonNil []Edge) {
	return g.CondEdges(func(v ssa.Value) (bool, bool) {
		b, ok := v.(*ssa.BinOp)
		if !ok || (b.Op.String() != "==" && b.Op.String() != "!=") {
			return false, false
		}
		x, y := w.pathOf(b.X), w.pathOf(b.Y)
		if x == "K:nil" {
			x, y = y, x
		}
		if y != "K:nil" || !matchArg(path, x) {
			return false, false
		}
		return b.Op.String() == "==", true
	})
}

// boolCallEdges returns the edges on which a call (matching the path predicate) returned true / false.
func (w *World) boolEdges(g *FG, pred func(path string) bool) (tr []Edge, fa []Edge) {
	return g.CondEdges(func(v ssa.Value) (bool, bool) {
		if pred(w.pathOf(v)) {
			return true, true
		}
		return false, false
	})
}

// returnsPath checks that every return of fn yields exactly the given provenance(s).
func (w *World) returnsOnly(fn *ssa.Function, want ...string) (bool, string) {
	if fn == nil {
		return false, "function not found"
	}
	n := 0
	for _, in := range w.insOf(fn) {
		{
			if ret, ok := in.(*ssa.Return); ok {
				n++
				if len(ret.Results) != len(want) {
					return false, "result count"
				}
				for i, v := range ret.Results {
					if !matchArg(want[i], w.pathOf(v)) {
						return false, "returns " + w.pathOf(v) + ", expected " + want[i]
					}
				}
			}
		}
	}
	return n > 0, "no return"
}

// delegating: fn's graph with the one same-package callee spliced in whose own body makes the call ev (nil when there is
// no such callee, or several).
func (w *World) delegating(fn *ssa.Function, ev Ev) *FG {
	pkg := fnPkgPath(fn)
	makes := func(h *ssa.Function) bool {
		for _, b := range h.Blocks {
			for _, in := range b.Instrs {
				if ev.M(in) {
					return true
				}
			}
		}
		return false
	}
	n := 0
	isSite := func(c *ssa.Call) bool {
		h := c.Call.StaticCallee()
		if c.Parent() != fn || h == nil || h.Blocks == nil || h.Synthetic != "" || !w.isLib(h) || fnPkgPath(h) != pkg || h == fn || c.Call.IsInvoke() {
			return false
		}
		if h.Recover != nil || len(c.Call.Args) != len(h.Params) || !makes(h) {
			return false
		}
		for _, b := range h.Blocks {
			for _, in := range b.Instrs {
				switch in.(type) {
				case *ssa.Defer, *ssa.RunDefers, *ssa.Go:
					return false
				}
			}
		}
		return true
	}
	for _, b := range fn.Blocks {
		for _, in := range b.Instrs {
			if c, ok := in.(*ssa.Call); ok && isSite(c) {
				n++
			}
		}
	}
	if n != 1 {
		return nil
	}
	g := w.spliced(fn, map[*ssa.Function]*FG{}, isSite)
	if g == nil || g.inl == nil {
		return nil
	}
	return g
}
