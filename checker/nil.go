package main

import (
	"fmt"
	"go/token"
	"go/types"

	"golang.org/x/tools/go/ssa"
)

// ---------------------------------------------------------------------------
// E-NIL: "parameter i may be dereferenced while nil" summaries, and
// "function may return nil" summaries. Only definite flows are reported.
// ---------------------------------------------------------------------------

type nilSite struct {
	fn    *ssa.Function
	pos   token.Pos
	chain string
}

// nonNilAt reports whether value v is known to be non-nil at node n of g (dominating nil checks).
func (w *World) nonNilAt(g *FG, n int, v ssa.Value) bool {
	for _, f := range g.FactsAt(n) {
		b, ok := f.Cond.(*ssa.BinOp)
		if !ok {
			continue
		}
		var x ssa.Value
		if k, ok := b.Y.(*ssa.Const); ok && k.IsNil() {
			x = b.X
		} else if k, ok := b.X.(*ssa.Const); ok && k.IsNil() {
			x = b.Y
		}
		if x == nil || !w.sameValue(x, v) {
			continue
		}
		if (b.Op == token.NEQ && f.Val) || (b.Op == token.EQL && !f.Val) {
			return true
		}
	}
	return false
}

// sameValue: identical SSA value, or two loads with the same access path.
func (w *World) sameValue(a, b ssa.Value) bool {
	if a == b {
		return true
	}
	pa, pb := w.pathOf(a), w.pathOf(b)
	return pa == pb && pa != "" && pa[0] != '?'
}

// derefsParam reports whether fn may dereference its parameter idx on a path with no
// dominating nil check. Interprocedural (static callees inside the module), depth-bounded.
func (w *World) derefsParam(fn *ssa.Function, idx int, depth int, seen map[string]bool) *nilSite {
	defer w.noCtx()()
	if fn == nil || fn.Blocks == nil || idx >= len(fn.Params) || depth > 8 {
		return nil
	}
	key := fmt.Sprintf("%s#%d", fn.String(), idx)
	if seen[key] {
		return nil
	}
	seen[key] = true
	p := fn.Params[idx]
	if _, ok := p.Type().Underlying().(*types.Pointer); !ok {
		return nil
	}
	g := w.FG(fn)
	// values that alias the parameter: the parameter itself and loads of its single-store spill
	isP := func(v ssa.Value) bool {
		if v == ssa.Value(p) {
			return true
		}
		if u, ok := v.(*ssa.UnOp); ok && u.Op == token.MUL {
			if al, ok := u.X.(*ssa.Alloc); ok && singleStore(al) == ssa.Value(p) {
				return true
			}
		}
		return false
	}
	for n, in := range g.ins {
		var site bool
		var chain string
		switch x := in.(type) {
		case *ssa.FieldAddr:
			// &p.f is computed eagerly, the fault happens at the load/store through it
			if isP(x.X) && x.Referrers() != nil {
				for _, r := range *x.Referrers() {
					switch r.(type) {
					case *ssa.UnOp, *ssa.Store:
						rn := g.idx[r]
						if !w.nonNilAt(g, rn, p) && !w.nonNilAt(g, rn, x.X) {
							return &nilSite{fn, r.Pos(), fname(fn)}
						}
					}
				}
			}
		case *ssa.UnOp:
			if x.Op == token.MUL && isP(x.X) {
				site = true
			}
		case ssa.CallInstruction:
			c := x.Common()
			if c.IsInvoke() {
				continue
			}
			callee := c.StaticCallee()
			if callee == nil {
				continue
			}
			for ai, a := range c.Args {
				if !isP(a) {
					continue
				}
				if w.nonNilAt(g, n, p) {
					continue
				}
				if !w.inMod[callee] && !w.inMod[origin(callee)] {
					continue
				}
				if s := w.derefsParam(callee, ai, depth+1, seen); s != nil {
					return &nilSite{s.fn, s.pos, fname(fn) + " -> " + s.chain}
				}
			}
		}
		if site && !w.nonNilAt(g, n, p) {
			return &nilSite{fn, in.Pos(), fname(fn) + chain}
		}
	}
	return nil
}

// mayReturnNil reports whether fn (pointer result) has a return path yielding nil.
func (w *World) mayReturnNil(fn *ssa.Function) bool {
	defer w.noCtx()()
	if fn == nil || fn.Blocks == nil {
		return false
	}
	for _, b := range fn.Blocks {
		for _, in := range b.Instrs {
			ret, ok := in.(*ssa.Return)
			if !ok || len(ret.Results) == 0 {
				continue
			}
			if w.valueMayBeNil(ret.Results[0], 0) {
				return true
			}
		}
	}
	return false
}

func (w *World) valueMayBeNil(v ssa.Value, depth int) bool {
	defer w.noCtx()()
	if depth > 6 {
		return false
	}
	switch x := v.(type) {
	case *ssa.Const:
		return x.IsNil()
	case *ssa.Phi:
		for _, e := range x.Edges {
			if e != ssa.Value(x) && w.valueMayBeNil(e, depth+1) {
				return true
			}
		}
	case *ssa.UnOp:
		if x.Op == token.MUL {
			if al, ok := x.X.(*ssa.Alloc); ok && al.Referrers() != nil {
				// a local variable: nil if declared without initialiser (zero) and some path does not assign it,
				// approximated: any store of nil, or var declared (zero) with stores only under conditions
				stores := 0
				for _, r := range *al.Referrers() {
					if st, ok := r.(*ssa.Store); ok && st.Addr == ssa.Value(al) {
						stores++
						if w.valueMayBeNil(st.Val, depth+1) {
							return true
						}
					}
				}
				if stores == 0 {
					return true
				}
				// zero-initialised local assigned inside a loop/branch only
				g := w.FG(al.Parent())
				un := g.idx[x]
				assigned := make([]bool, len(g.ins))
				for _, r := range *al.Referrers() {
					if st, ok := r.(*ssa.Store); ok && st.Addr == ssa.Value(al) {
						assigned[g.idx[st]] = true
					}
				}
				if !g.Before(assigned, un) {
					return true
				}
			}
		}
	}
	return false
}
