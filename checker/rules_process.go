package main

import (
	"sort"
	"fmt"
	"go/token"
	"go/types"
	"strings"

	"golang.org/x/tools/go/ssa"
)

func init() {
	register("C04", checkC04)
	register("C05", checkC05)
	register("C06", checkC06)
	register("C07", checkC07)
	register("C13", checkC13)
}

// ---------------------------------------------------------------------------
// roles of the process machine
// ---------------------------------------------------------------------------

type procRoles struct {
	w         *World
	procT     *types.Named
	ctxT      *types.Named
	start     *ssa.Function
	invoke    *ssa.Function
	send      *ssa.Function
	shutdown  *ssa.Function
	stopFn    *ssa.Function // calls Inboxer.Stop
	deliverFn *ssa.Function // stores an Envelope's Msg into Context.message
	restartFn *ssa.Function // called from a recover handler, calls Start
	recovers  []*ssa.Function
	applyMW   *ssa.Function
	lta       *LTA
	problems  []string
}

func (w *World) findProcRolesUncached() *procRoles {
	pr := &procRoles{w: w, procT: w.Named("actor", "process"), ctxT: w.Named("actor", "Context")}
	bad := func(f string, a ...any) { pr.problems = append(pr.problems, fmt.Sprintf(f, a...)) }
	if pr.procT == nil || pr.ctxT == nil {
		bad("actor.process / actor.Context not found")
		return pr
	}
	pr.start = w.Method("actor", "process", "Start")
	pr.invoke = w.Method("actor", "process", "Invoke")
	pr.send = w.Method("actor", "process", "Send")
	pr.shutdown = w.Method("actor", "process", "Shutdown")
	if pr.start == nil || pr.invoke == nil || pr.send == nil || pr.shutdown == nil {
		bad("actor.process does not implement Processer")
		return pr
	}
	pr.lta = w.runLTA()
	pr.applyMW = pr.lta.applyMW
	pr.problems = append(pr.problems, pr.lta.problems...)
	evStop := EvInvoke("Inboxer.Stop", w.IfaceMethod("actor", "Inboxer", "Stop"))
	var stopCands []*ssa.Function
	pickStop := func() {
		// the stop function closes the inbox; when several functions do, it is the one that also unregisters the actor
		// (the others are judged by the typestate analysis as what they are: an inbox closed in mid-life)
		if len(stopCands) > 1 {
			var both []*ssa.Function
			evRem := EvCall("Registry.Remove", w.Method("actor", "Registry", "Remove"))
			for _, fn := range stopCands {
				if len(w.callsIn(fn, evRem)) > 0 {
					both = append(both, fn)
				}
			}
			if len(both) == 1 {
				stopCands = both
			}
		}
		if len(stopCands) > 1 {
			bad("two stop functions (callers of Inboxer.Stop): %s, %s", fname(stopCands[0]), fname(stopCands[1]))
		}
		if len(stopCands) > 0 {
			pr.stopFn = stopCands[len(stopCands)-1]
		}
	}
	for _, fn := range w.MethodsOf("actor", "process") {
		if fn.Parent() == nil && len(w.callsIn(fn, evStop)) > 0 {
			stopCands = append(stopCands, fn)
		}
		for _, in := range w.insOf(fn) {
			{
				if st, ok := in.(*ssa.Store); ok {
					if fa, ok := st.Addr.(*ssa.FieldAddr); ok && isFieldOf(fa, pr.ctxT, "message") {
						if vp := w.pathOf(st.Val); strings.HasSuffix(vp, ".Msg") {
							if pr.deliverFn != nil && pr.deliverFn != fn {
								bad("two delivery functions: %s, %s", fname(pr.deliverFn), fname(fn))
							}
							pr.deliverFn = fn
						}
					}
				}
				if c, ok := in.(*ssa.Call); ok {
					if b, ok := c.Call.Value.(*ssa.Builtin); ok && b.Name() == "recover" {
						pr.recovers = append(pr.recovers, fn)
					}
				}
			}
		}
	}
	pickStop()
	for _, rf := range pr.recovers {
		for _, in := range w.insOf(rf) {
			{
				if c := callOf(in); c != nil {
					if f := c.StaticCallee(); f != nil && isProcessMethod(w, f) && len(w.callsIn(f, EvCall("Start", pr.start))) > 0 {
						if pr.restartFn != nil && pr.restartFn != f {
							bad("two restart functions: %s, %s", fname(pr.restartFn), fname(f))
						}
						pr.restartFn = f
					}
				}
			}
		}
	}
	if pr.stopFn == nil {
		bad("no stop function (method of process calling Inboxer.Stop)")
	}
	if pr.deliverFn == nil {
		bad("no delivery function (method of process storing Envelope.Msg into Context.message)")
	}
	if pr.restartFn == nil {
		bad("no restart function (method of process called from a recover handler that calls Start)")
	}
	aliasRole(pr.stopFn, "(*actor.process).cleanup")
	aliasRole(pr.restartFn, "(*actor.process).tryRestart")
	aliasRole(pr.deliverFn, "(*actor.process).invokeMsg")
	aliasRole(pr.applyMW, "actor.applyMiddleware")
	if len(pr.problems) == 0 {
		rn := map[string]string{pr.start.Name(): "Start", pr.invoke.Name(): "Invoke", pr.shutdown.Name(): "Shutdown",
			pr.stopFn.Name(): "stop", pr.restartFn.Name(): "restart", pr.deliverFn.Name(): "deliver"}
		for _, rf := range pr.recovers {
			if p := rf.Parent(); p != nil {
				if host, ok := rn[p.Name()]; ok {
					rn[rf.Name()] = host + "$recover"
				}
			}
		}
		for _, host := range []*ssa.Function{pr.start, pr.invoke} {
			if rec := pr.recoverHandlerOf(host); rec != nil {
				rn[rec.Name()] = rn[host.Name()] + "$recover"
			}
		}
		if pr.restartFn != nil {
			rn[pr.restartFn.Name()+"[not-at-budget]"] = "restart[not-at-budget]"
		}
		pr.lta.roleName = rn
	}
	return pr
}

func (pr *procRoles) fail(r *Report, rule string) bool {
	if len(pr.problems) > 0 {
		r.Unknown(rule, "roles", "resolve the roles of the process machine", "-", strings.Join(pr.problems, "; "))
		return true
	}
	return false
}

// evDeliver: a delivery to the receiver — invoke Receiver.Receive, or a call of the
// value returned by the middleware applicator.
func (pr *procRoles) evDeliver() Ev {
	recv := pr.w.IfaceMethod("actor", "Receiver", "Receive")
	return Ev{Name: "deliver", M: func(in ssa.Instruction) bool {
		c := callOf(in)
		if c == nil {
			return false
		}
		if c.IsInvoke() {
			return c.Method == recv
		}
		if inner, ok := c.Value.(*ssa.Call); ok && pr.applyMW != nil && inner.Call.StaticCallee() == pr.applyMW {
			return true
		}
		return false
	}}
}

func (w *World) evBroadcast(pkg, typ string) Ev {
	bc := w.Method("actor", "Engine", "BroadcastEvent")
	named := w.Named(pkg, typ)
	return Ev{Name: "broadcast:" + typ, M: func(in ssa.Instruction) bool {
		c := callOf(in)
		if c == nil || bc == nil || c.StaticCallee() != bc || len(c.Args) != 2 {
			return false
		}
		n, _, ok := w.structLit(c.Args[1])
		if ok && sameNamed(n, named) {
			return true
		}
		if mi, ok := c.Args[1].(*ssa.MakeInterface); ok {
			if nn, ok := types.Unalias(mi.X.Type()).(*types.Named); ok {
				return sameNamed(nn, named)
			}
		}
		return false
	}}
}

// ---------------------------------------------------------------------------
// C04 — lifecycle protocol
// ---------------------------------------------------------------------------

var ltaProtocolKinds = []string{
	"incarnation-replaced-without-Stopped", "delivery-after-Stopped", "Stopped-twice", "Initialized-out-of-order",
	"Started-out-of-order", "user-message-before-Started", "delivery-of-unknown-message", "Stopped-without-incarnation",
	"terminated-without-Stopped", "spawn-returns-before-Started", "unclassified-delivery", "inbox-started-after-cleanup", "spawn-leaves-inbox-closed",
	"inbox-reopened-by-worker", "delivery-concurrent-with-worker",
}

func checkC04(w *World, r *Report) {
	r.Rule("C04.R1", "Registry.add registers before it starts the process and starts it synchronously; process.Send always enqueues", 3)
	r.Rule("C04.R2", "the stop function closes the inbox before delivering Stopped, delivers it once, unregisters and publishes ActorStoppedEvent on every path", 4)
	r.Rule("C04.R3", "lifecycle automaton on every abstract path: Initialized, Started, user*, one final Stopped, nothing afterwards (typestate)", 10)
	pr := w.findProcRoles()
	if pr.fail(r, "C04.R3") {
		return
	}
	// R1
	add := w.Method("actor", "Registry", "add")
	reg := w.Named("actor", "Registry")
	if add == nil || reg == nil {
		r.Unknown("C04.R1", "Registry.add", "Registry.add exists", "-", "not found")
	} else {
		g := w.FGI(add)
		ins := make([]bool, len(g.ins))
		for n, in := range g.ins {
			if mu, ok := in.(*ssa.MapUpdate); ok && strings.HasSuffix(w.pathOf(mu.Map), ".lookup") {
				ins[n] = true
			}
		}
		evStart := EvInvoke("Processer.Start", w.IfaceMethod("actor", "Processer", "Start"))
		starts := w.callsIn(add, evStart)
		ok := len(starts) > 0 && anyOf(ins)
		for _, ci := range starts {
			if callKind(ci) != "call" || !g.Before(ins, g.idx[ci.(ssa.Instruction)]) {
				ok = false
			}
		}
		r.Check(ok, "C04.R1", "Registry.add:register-then-start", "the process is in the lookup table before Start runs, and Start is a plain synchronous call", w.fnPos(add),
			"Start can run before registration (messages sent from Started handlers to self dead-letter) or asynchronously (Spawn returns before Started)")
	}
	{
		g := w.FGI(pr.send)
		evIS := EvInvoke("Inboxer.Send", w.IfaceMethod("actor", "Inboxer", "Send"))
		S := w.Nodes(g, evIS, true)
		plain := true
		for _, ci := range w.callsIn(pr.send, evIS) {
			if callKind(ci) != "call" {
				plain = false
			}
		}
		r.Check(g.AfterEntry(S) && plain, "C04.R1", "process.Send:always-enqueues", "every message handed to a registered process is pushed into its inbox, whatever its lifecycle state", w.fnPos(pr.send),
			"a path through process.Send drops the message: sends between registration and Started are lost")
	}
	spawnProc := w.Method("actor", "Engine", "SpawnProc")
	if spawnProc != nil {
		g := w.FGI(spawnProc)
		A := w.Nodes(g, EvCall("Registry.add", add), true)
		plain := true
		for _, ci := range w.callsIn(spawnProc, EvCall("Registry.add", add)) {
			if callKind(ci) != "call" {
				plain = false
			}
		}
		r.Check(g.AfterEntry(A) && plain, "C04.R1", "Engine.SpawnProc:sync-add", "SpawnProc registers and starts the process before it returns", w.fnPos(spawnProc),
			"SpawnProc can return before the process was added/started")
	}

	checkStopFn(w, r, pr, "C04.R2")
	pr.lta.export(r, "C04.R3", ltaProtocolKinds, "lifecycle protocol")
	r.Rule("C04.R4", "the worker loop re-reads the status before every batch: nothing is handed to a process that the previous batch stopped", 1)
	checkLoopStatus(w, r, "C04.R4")
	checkInboxStopStores(w, r, "C04.R4")
	// R5: what was accepted for the PID stays with the PID across incarnations: the messages behind a failing one are
	// handed to the incarnation that finally starts (C05.R2's buffer rules)
	if r.Prop == "C04" {
		r.Rule("C04.R5", "the messages queued behind a failing one survive until an incarnation has started (C05.R2: the restart buffer is neither dropped nor cleared before its replay)", 1)
		importRules(w, r, checkC05, "C05", "C04.R5", func(o *Obligation) bool {
			return o.Rule == "C05.R2" && (strings.HasPrefix(o.Key, "C05.R2|restart-buffer-dropped") || strings.HasSuffix(o.Key, ":clears-replayed-buffer"))
		})
		// ... and what is sent before Started or while the actor is down waits in the ring
		// "nothing is delivered to it afterwards", "Stopped exactly once": one worker at a time delivers to the incarnation
		r.Rule("C04.R7", "one worker per actor: status-word protocol (C02.R1-R4)", 4)
		importRules(w, r, checkC02, "C02", "C04.R7", func(o *Obligation) bool {
			return o.Rule == "C02.R1" || o.Rule == "C02.R2" || o.Rule == "C02.R3" || o.Rule == "C02.R4"
		})
		r.Rule("C04.R6", "messages accepted before Started (or during a restart) wait in a ring whose operations are sound (C14.R1-R5)", 8)
		importRules(w, r, checkC14, "C14", "C04.R6", func(o *Obligation) bool {
			return o.Rule == "C14.R1" || o.Rule == "C14.R2" || o.Rule == "C14.R3" || o.Rule == "C14.R4" || o.Rule == "C14.R5"
		})
	}
}

// checkStopFn: shared by C04.R2, C06.R3.
func checkStopFn(w *World, r *Report, pr *procRoles, rule string) {
	g := w.FGI(pr.stopFn)
	evD := pr.evDeliver()
	evStop := EvInvoke("Inboxer.Stop", w.IfaceMethod("actor", "Inboxer", "Stop"))
	evRem := EvCall("Registry.Remove", w.Method("actor", "Registry", "Remove"))
	evEvt := w.evBroadcast("actor", "ActorStoppedEvent")
	D := w.Nodes(g, evD, false)
	Dm := w.Nodes(g, evD, true)
	S := w.Nodes(g, evStop, true)
	site := w.fnPos(pr.stopFn)
	fn := fname(pr.stopFn)
	ok := anyOf(D)
	for _, d := range members(D) {
		if !g.Before(S, d) {
			ok = false
		}
	}
	r.Check(ok, rule, fn+":stop-before-Stopped", "the inbox is stopped before Stopped is delivered", site,
		"Stopped can be delivered while the worker still accepts batches: user messages may follow Stopped")
	r.Check(g.Once(Dm) && func() bool { ok, _ := g.AtMostOnce(D); return ok }(), rule, fn+":Stopped-once", "exactly one Stopped delivery on every path of the stop function", site,
		"a path through the stop function delivers Stopped zero times or more than once")
	Rm := w.Nodes(g, evRem, true)
	okRem := g.AfterEntry(Rm)
	for _, d := range members(D) {
		if !g.Before(Rm, d) {
			okRem = false
		}
	}
	r.Check(okRem, rule, fn+":unregisters", "the actor is removed from the registry on every path, before Stopped is delivered (a panicking Stopped handler cannot keep the id registered)", site,
		"a stopped actor can stay registered: later sends are accepted into a dead inbox instead of dead-lettering, and the id can never be spawned again")
	{
		all := w.Nodes(g, evRem, false)
		once, _ := g.AtMostOnce(all)
		r.Check(once, rule, fn+":unregisters-once", "the stop function removes the registry entry once (before Stopped), never again afterwards", site,
			"Registry.Remove runs a second time (a deferred or trailing removal): Remove is by id, so if the id was spawned again while this actor handled Stopped the second removal evicts the live successor")
	}
	r.Check(g.AfterEntry(w.Nodes(g, evEvt, true)), rule, fn+":ActorStoppedEvent", "ActorStoppedEvent is published on every path", site,
		"a path through the stop function publishes no ActorStoppedEvent")
	r.Check(g.AfterEntry(S), rule, fn+":stops-inbox", "the inbox is stopped on every path", site, "a path through the stop function leaves the inbox running")
}

// ---------------------------------------------------------------------------
// C05 — panic containment and resume
// ---------------------------------------------------------------------------

func checkC05(w *World, r *Report) {
	r.Rule("C05.R1", "no delivery can panic out of the actor's goroutine (typestate: panics are unwound through the deferred recover handlers)", 1)
	r.Rule("C05.R2", "crash path: Stopped to the old incarnation, then a fresh receiver, Initialized, Started, replay, and only then the inbox; the restart runs synchronously", 4)
	r.Rule("C05.R3", "the replay cursor is advanced before each delivery of a batch (the failing message is not replayed, queued ones are)", 2)
	r.Rule("C05.R4", "the restart counter is incremented before ActorRestartedEvent is built, the event carries it, and only the restart function writes it", 3)
	pr := w.findProcRoles()
	if pr.fail(r, "C05.R1") {
		return
	}
	pr.lta.export(r, "C05.R1", []string{"panic-escapes"}, "a panic in Receive never leaves the actor")
	if r.Prop == "C05" {
		// the restarted actor still has ONE worker: Start's call of Inboxer.Start from inside the worker must stay a no-op
		r.Rule("C05.R6", "a restart leaves one worker: status-word protocol and Start's guard (C02.R1-R5); the restart event's Log cannot panic in the event stream", 6)
		importRules(w, r, checkC02, "C02", "C05.R6", func(o *Obligation) bool {
			return o.Rule == "C02.R1" || o.Rule == "C02.R2" || o.Rule == "C02.R3" || o.Rule == "C02.R4" || o.Rule == "C02.R5"
		})
		checkEventLogs(w, r, "C05.R6", []string{"ActorRestartedEvent"})
		// what is sent while the actor is down waits in the ring, which may have to grow under it
		r.Rule("C05.R5", "messages sent during the restart wait in the ring in order: pops, pushes and the grow transfer are sound (C14.R2-R5)", 8)
		importRules(w, r, checkC14, "C14", "C05.R5", func(o *Obligation) bool {
			return o.Rule == "C14.R1" || o.Rule == "C14.R2" || o.Rule == "C14.R3" || o.Rule == "C14.R4" || o.Rule == "C14.R5"
		})
	}
	pr.lta.export(r, "C05.R2", []string{"incarnation-replaced-without-Stopped", "Initialized-out-of-order", "Started-out-of-order", "user-message-before-Started", "inbox-started-after-cleanup", "restart-buffer-dropped", "unclassified-delivery", "chain-does-not-end-in-the-receiver", "inbox-reopened-by-worker", "spawn-leaves-inbox-closed"}, "restart order; every delivery goes to the current incarnation's receiver")

	// R2: both recover handlers exist and hand the panic value to the restart function, synchronously
	evRestart := EvCall("restart", pr.restartFn)
	evStart := EvCall("Start", pr.start)
	nRec := 0
	for _, host := range []*ssa.Function{pr.start, pr.invoke} {
		rec := pr.recoverHandlerOf(host)
		key := fname(host) + ":recover-handler"
		if rec == nil {
			r.Fail("C05.R2", key, "a deferred recover handler guards the deliveries of "+host.Name(), w.fnPos(host), "no deferred closure calling recover(): a panic in Receive kills the process")
			continue
		}
		nRec++
		// the defer must be registered before the first delivery of the host
		hg := w.FGI(host)
		defNodes := make([]bool, len(hg.ins))
		for _, d := range hg.defers {
			if deferredFn(hg.ins[d].(*ssa.Defer)) == rec {
				defNodes[d] = true
			}
		}
		ok := anyOf(defNodes)
		for _, d := range members(w.Nodes(hg, pr.evDeliver(), false)) {
			if !hg.Before(defNodes, d) {
				ok = false
			}
		}
		r.Check(ok, "C05.R2", key, "the recover handler is registered before any delivery of "+host.Name(), w.fnPos(rec),
			"a delivery can run before the recover handler is deferred")
		// on the recovered edge the restart function is reached, by a plain call
		rg := w.FGI(rec)
		pos, _ := rg.CondEdges(func(v ssa.Value) (bool, bool) {
			if b, ok := v.(*ssa.BinOp); ok {
				for _, pair := range [][2]ssa.Value{{b.X, b.Y}, {b.Y, b.X}} {
					if _, isRec := isBuiltinCall(pair[0], "recover"); isRec {
						if k, ok := pair[1].(*ssa.Const); ok && k.IsNil() {
							return b.Op == token.NEQ, b.Op == token.NEQ || b.Op == token.EQL
						}
					}
				}
			}
			return false, false
		})
		okR := len(pos) > 0
		R := w.Nodes(rg, evRestart, true)
		for _, e := range pos {
			reach := rg.reach([]int{e.to}, R, nil)
			for _, x := range rg.returns {
				if reach[x] {
					okR = false
				}
			}
		}
		for _, ci := range w.callsIn(rec, evRestart) {
			if callKind(ci) != "call" {
				okR = false
			}
		}
		r.Check(okR, "C05.R2", fname(rec)+":restarts", "a recovered panic always reaches the restart function, synchronously", w.fnPos(rec),
			"a recovered panic can leave the handler without restarting (the actor is left half-dead), or restarts on another goroutine")
	}
	// restart function calls Start synchronously
	{
		ok := true
		n := 0
		for _, ci := range w.callsIn(pr.restartFn, evStart) {
			n++
			if callKind(ci) != "call" {
				ok = false
			}
		}
		r.Check(ok && n > 0, "C05.R2", fname(pr.restartFn)+":sync-Start", "the restart runs Start synchronously on the worker, so newer messages wait in the ring", w.fnPos(pr.restartFn),
			"Start is launched asynchronously: the old worker keeps consuming while the new incarnation initialises")
	}
	// Start replays the buffer before opening the inbox
	{
		g := w.FGI(pr.start)
		evInv := EvCall("Invoke", pr.invoke)
		evIStart := EvInvoke("Inboxer.Start", w.IfaceMethod("actor", "Inboxer", "Start"))
		inv := w.Nodes(g, evInv, false)
		ist := w.Nodes(g, evIStart, false)
		ok := anyOf(inv) && anyOf(ist)
		for _, n := range members(ist) {
			if ok2, _ := g.Never(n, inv); !ok2 {
				ok = false
			}
			if ok2, _ := g.Never(n, w.Nodes(g, pr.evDeliver(), false)); !ok2 {
				ok = false
			}
		}
		// the replay is conditional on a non-empty buffer only
		for _, ci := range w.callsIn(pr.start, evInv) {
			cc := ci.Common()
			if len(cc.Args) != 2 || !strings.HasSuffix(w.pathOf(cc.Args[1]), ".mbuffer") || callKind(ci) != "call" {
				ok = false
			}
		}
		r.Check(ok, "C05.R2", fname(pr.start)+":replay-before-inbox", "Start replays the restart buffer (Invoke(p.mbuffer)) before Inboxer.Start and delivers nothing afterwards", w.fnPos(pr.start),
			"the buffered messages are not replayed ahead of newer ones, or something is delivered after the inbox was opened")
	}

	checkReplayCursor(w, r, pr)
	checkStartClearsBuffer(w, r, "C05.R2")

	// R4
	{
		g := w.FGI(pr.restartFn)
		evInc := EvStoreField(pr.procT, "restarts")
		inc := w.Nodes(g, Ev{Name: evInc.Name, M: evInc.M, Shallow: true}, false)
		evE := w.evBroadcast("actor", "ActorRestartedEvent")
		E := w.Nodes(g, Ev{Name: evE.Name, M: evE.M, Shallow: true}, false)
		ok := anyOf(inc) && anyOf(E)
		detail := "no increment or no ActorRestartedEvent in the restart function"
		for _, e := range members(E) {
			if !g.Before(inc, e) {
				ok = false
				detail = "ActorRestartedEvent can be built before restarts is incremented (stale count)"
			}
			_, fs, lit := w.structLit(callOf(g.ins[e]).Args[1])
			if !lit || fs["Restarts"] == nil || !strings.HasSuffix(w.pathOf(fs["Restarts"]), ".restarts") {
				ok = false
				detail = "ActorRestartedEvent.Restarts is not the process's restart counter"
			} else if ld, isI := fs["Restarts"].(ssa.Instruction); isI {
				if !g.Before(inc, g.idx[ld]) {
					ok = false
					detail = "the counter is read for the event before it is incremented"
				}
			}
			if lit && (fs["PID"] == nil || !strings.HasSuffix(w.pathOf(fs["PID"]), ".pid")) {
				ok = false
				detail = "ActorRestartedEvent.PID is not the process's pid"
			}
		}
		// increment is +1 of the same field
		for _, n := range members(inc) {
			p := w.pathOf(g.ins[n].(*ssa.Store).Val)
			if !(strings.HasSuffix(p, ".restarts+K:1)") && strings.HasPrefix(p, "(")) {
				ok = false
				detail = "restarts is not incremented by one: " + p
			}
		}
		r.Check(ok, "C05.R4", fname(pr.restartFn)+":count-then-event", "restarts++ precedes ActorRestartedEvent{Restarts: p.restarts}", w.fnPos(pr.restartFn), detail)
		var writers []string
		for _, fn := range w.Funcs {
			if fn == pr.restartFn {
				continue
			}
			for _, in := range w.insOf(fn) {
				{
					if evInc.M(in) {
						if fa := in.(*ssa.Store).Addr.(*ssa.FieldAddr); true {
							if _, fresh := fa.X.(*ssa.Alloc); !fresh {
								writers = append(writers, fname(fn))
							}
						}
					}
				}
			}
		}
		r.Check(len(writers) == 0, "C05.R4", "process.restarts:writers", "only the restart function writes the restart counter", w.fnPos(pr.restartFn), fmt.Sprintf("other writers: %v", writers))
		// event published before Start on the counted path
		okE := true
		for _, ci := range w.callsIn(pr.restartFn, evStart) {
			n := g.idx[ci.(ssa.Instruction)]
			if g.Before(inc, n) && !g.Before(E, n) {
				okE = false
			}
		}
		r.Check(okE, "C05.R4", fname(pr.restartFn)+":event-before-Start", "a counted restart publishes ActorRestartedEvent before it restarts", w.fnPos(pr.restartFn),
			"a counted restart path reaches Start without publishing ActorRestartedEvent")
	}
}

// checkReplayCursor implements C05.R3.
func checkReplayCursor(w *World, r *Report, pr *procRoles) {
	var rec *ssa.Function
	for _, a := range pr.invoke.AnonFuncs {
		for _, rf := range pr.recovers {
			if rf == a {
				rec = a
			}
		}
	}
	if rec == nil {
		r.Unknown("C05.R3", "Invoke:cursor", "the batch function has a recover handler building the replay buffer", w.fnPos(pr.invoke), "no recover handler in Invoke")
		return
	}
	g := w.FGI(pr.invoke)
	// candidate cursors: int variables captured by the recover handler and stored more than once by Invoke
	var cursor *ssa.Alloc
	n := 0
	for _, fv := range rec.FreeVars {
		pt, ok := fv.Type().(*types.Pointer)
		if !ok {
			continue
		}
		if b, ok := pt.Elem().Underlying().(*types.Basic); !ok || b.Info()&types.IsInteger == 0 {
			continue
		}
		// find the binding
		for _, in := range g.ins {
			if d, ok := in.(*ssa.Defer); ok {
				if mc, ok := d.Call.Value.(*ssa.MakeClosure); ok && mc.Fn == ssa.Value(rec) {
					for i, b := range mc.Bindings {
						if rec.FreeVars[i] == fv {
							if al, ok := b.(*ssa.Alloc); ok {
								stores := 0
								for _, rr := range *al.Referrers() {
									if st, ok := rr.(*ssa.Store); ok && st.Addr == ssa.Value(al) {
										stores++
									}
								}
								if stores > 1 {
									cursor = al
									n++
								}
							}
						}
					}
				}
			}
		}
	}
	if n != 1 {
		r.Unknown("C05.R3", "Invoke:cursor", "exactly one mutable integer (the replay cursor) is shared between the batch loop and its recover handler", w.fnPos(pr.invoke),
			fmt.Sprintf("%d candidates", n))
		return
	}
	// the recover handler must build the buffer from msgs offset by the cursor
	{
		ok := false
		// the construct may live in the handler itself or in a private helper the
		// handler passes the cursor to: the cursor is then one of its parameters
		builder, curTok, srcPrefix := rec, "FV:"+freeVarName(rec, cursor, g), "FV:"
		for _, in := range w.insOf(rec) {
			{
				c, isC := in.(*ssa.Call)
				if !isC || c.Call.StaticCallee() == nil || !w.isLib(c.Call.StaticCallee()) {
					continue
				}
				cal := c.Call.StaticCallee()
				if rg := w.FGI(rec); !writesField(cal, pr.procT, "mbuffer") || rg.inl[rg.idx[c]] {
					continue // (a spliced helper already reads as part of the handler)
				}
				for k, a := range c.Call.Args {
					if w.pathOf(a) == curTok && k < len(cal.Params) {
						builder, curTok, srcPrefix = cal, fmt.Sprintf("P%d", k), "P"
						break
					}
				}
			}
		}
		for _, in := range w.insOf(builder) {
			{
				if st, isSt := in.(*ssa.Store); isSt {
					p := w.pathOf(st.Val)
					if strings.HasPrefix(p, srcPrefix) && strings.Contains(p, "[") && strings.Contains(p, curTok) {
						ok = true
					}
				}
				// or in one go: copy(p.mbuffer, msgs[cursor:...])
				if c, isC := in.(*ssa.Call); isC {
					if args, isCopy := isBuiltinCall(c, "copy"); isCopy && len(args) == 2 {
						dp, sp := w.pathOf(args[0]), w.pathOf(args[1])
						if (strings.HasSuffix(dp, ".mbuffer") || strings.HasPrefix(dp, "makeslice(")) && strings.HasPrefix(sp, srcPrefix) && strings.Contains(sp, "["+curTok+":") {
							ok = true
						}
					}
				}
			}
		}
		// and the buffer is a fresh slice sized from the cursor, allocated before the copy
		alloc := false
		rg := w.FGI(builder)
		for i, in := range rg.ins {
			if st, isSt := in.(*ssa.Store); isSt {
				if fa, isFA := st.Addr.(*ssa.FieldAddr); isFA && isFieldOf(fa, pr.procT, "mbuffer") {
					if p := w.pathOf(st.Val); strings.HasPrefix(p, "makeslice(") && strings.Contains(p, curTok) {
						alloc = true
						for j, in2 := range rg.ins {
							if st2, ok2 := in2.(*ssa.Store); ok2 {
								if ia, isIA := st2.Addr.(*ssa.IndexAddr); isIA && strings.HasSuffix(w.pathOf(ia.X), ".mbuffer") && !rg.Before(setOf(len(rg.ins), i), j) {
									alloc = false
								}
							}
						}
					}
				}
			}
		}
		// ... and on every path of the handler before it restarts (a buffer that is only assigned when something is
		// left keeps the messages of an earlier crash, which are then replayed a second time)
		if ok && alloc && pr.restartFn != nil {
			hg := w.FGI(rec)
			evSt := EvStoreField(pr.procT, "mbuffer")
			S := w.Nodes(hg, evSt, true)
			for _, ci := range w.callsIn(rec, EvCall("restart", pr.restartFn)) {
				if n, in := hg.idx[ci.(ssa.Instruction)]; in && !hg.Before(S, n) {
					alloc = false
				}
			}
		}
		r.Check(ok && alloc, "C05.R3", fname(rec)+":buffer-from-cursor", "the replay buffer is a fresh slice sized from the cursor, filled from the batch starting at the cursor", w.fnPos(rec),
			"the recover handler does not (allocate and) fill the restart buffer from the batch at the shared cursor: the copy panics inside the recover handler or replays the wrong messages")
	}
	inc := make([]bool, len(g.ins))
	for i, in := range g.ins {
		if st, ok := in.(*ssa.Store); ok && st.Addr == ssa.Value(cursor) {
			if b, ok := st.Val.(*ssa.BinOp); ok && b.Op == token.ADD && constStr(b.Y) == "1" {
				inc[i] = true
			}
		}
	}
	D := w.Nodes(g, pr.evDeliver(), false)
	for _, d := range members(D) {
		key := fmt.Sprintf("%s:deliver[%s]", fname(pr.invoke), deliverySiteClass(w, g, d))
		ok := g.Before(inc, d)
		detail := "a delivery is reachable from the function entry without advancing the cursor: if it panics, the failing message is replayed"
		if ok {
			// between two deliveries there must be an increment
			reach := g.reach(g.succ[d], inc, nil)
			for _, d2 := range members(D) {
				if reach[d2] {
					ok = false
					detail = "two deliveries can follow each other (" + w.pos(g.ins[d].Pos()) + " -> " + w.pos(g.ins[d2].Pos()) +
						") without the cursor advancing: a panic in the later one replays messages that were already delivered, and the failing one"
				}
			}
		}
		r.Check(ok, "C05.R3", key, "the cursor is advanced before this delivery and between consecutive deliveries", w.pos(g.ins[d].Pos()), detail)
	}
}

func freeVarName(rec *ssa.Function, al *ssa.Alloc, g *FG) string {
	for _, in := range g.ins {
		if d, ok := in.(*ssa.Defer); ok {
			if mc, ok := d.Call.Value.(*ssa.MakeClosure); ok && mc.Fn == ssa.Value(rec) {
				for i, b := range mc.Bindings {
					if b == ssa.Value(al) {
						return rec.FreeVars[i].Name()
					}
				}
			}
		}
	}
	return "?"
}

// callDesc is a position-free description of a call site: callee + argument paths.
func callDesc(w *World, in ssa.Instruction) string {
	c := callOf(in)
	if c == nil {
		return "?"
	}
	fc := &flowCtx{w: w, seen: map[ssa.Value]bool{}}
	s := fc.call(c)
	if len(s) > 90 {
		s = s[:90] + "…"
	}
	return s
}

// ---------------------------------------------------------------------------
// C06 — bounded restarts
// ---------------------------------------------------------------------------

func checkC06(w *World, r *Report) {
	r.Rule("C06.R1", "every restart is guarded by the budget comparison restarts ==/>= MaxRestarts; the exhausted edge publishes ActorMaxRestartsExceededEvent, stops and never restarts", 3)
	r.Rule("C06.R2", "no definitely-nil function value is called on any abstract path (typestate)", 1)
	r.Rule("C06.R3", "the stop function unregisters, stops the inbox and the children on every path", 4)
	r.Rule("C06.R4", "termination at the budget is clean: no panic escapes, Stopped exactly once (typestate)", 2)
	pr := w.findProcRoles()
	if pr.fail(r, "C06.R1") {
		return
	}
	g := w.FGI(pr.restartFn)
	evStart := EvCall("Start", pr.start)
	evStopFn := EvCall("stop", pr.stopFn)
	exact := false // the budget is tested with == / != : the counter must never step over MaxRestarts
	exhausted, within := g.CondEdges(func(v ssa.Value) (bool, bool) {
		b, ok := v.(*ssa.BinOp)
		if !ok {
			return false, false
		}
		x, y := w.pathOf(b.X), w.pathOf(b.Y)
		op := b.Op
		if strings.HasSuffix(y, ".restarts") && strings.HasSuffix(x, ".MaxRestarts") {
			x, y = y, x
			switch op {
			case token.LSS:
				op = token.GTR
			case token.GTR:
				op = token.LSS
			case token.LEQ:
				op = token.GEQ
			case token.GEQ:
				op = token.LEQ
			}
		}
		if !strings.HasSuffix(x, ".restarts") || !strings.HasSuffix(y, ".MaxRestarts") {
			return false, false
		}
		switch op {
		case token.EQL, token.GEQ:
			exact = exact || op == token.EQL
			return true, true
		case token.NEQ, token.LSS:
			exact = exact || op == token.NEQ
			return false, true
		}
		return false, false
	})
	if len(exhausted) == 0 {
		r.Fail("C06.R1", fname(pr.restartFn)+":budget-check", "the restart function compares restarts with MaxRestarts (== or >=)", w.fnPos(pr.restartFn),
			"no recognised budget comparison: restarts are unbounded or the bound is off by one (e.g. > lets MaxRestarts+1 restarts through)")
	} else {
		evInc := EvStoreField(pr.procT, "restarts")
		inc := w.Nodes(g, Ev{Name: evInc.Name, M: evInc.M, Shallow: true}, false)
		for _, ci := range w.callsIn(pr.restartFn, evStart) {
			n := g.idx[ci.(ssa.Instruction)]
			for _, pc := range pathClasses(w, g, n) {
				key := fmt.Sprintf("%s:Start[%s]", fname(pr.restartFn), pc.desc)
				ok := pc.onlyVia(g, within, n) && pc.before(g, inc, n)
				r.Check(ok, "C06.R1", key, "this restart is on the within-budget edge and is counted", w.pos(ci.Pos()),
					"Start is reachable without passing the budget check or without incrementing restarts: this path restarts the actor without bound")
			}
		}
		// an equality test only stops a counter that arrives at MaxRestarts one step at a time, from below: every
		// increment has to sit behind the within-budget edge (an increment on an unchecked path steps over the bound,
		// and from then on no panic ever finds restarts == MaxRestarts again)
		if exact {
			var loose []string
			for _, n := range members(inc) {
				if !g.OnlyVia(within, n) {
					loose = append(loose, w.pos(g.ins[n].Pos()))
				}
			}
			r.Check(len(loose) == 0, "C06.R1", fname(pr.restartFn)+":counter-stops-at-the-bound", "the budget is tested for equality, so restarts is only incremented behind the within-budget edge", w.fnPos(pr.restartFn),
				"restarts is incremented at "+strings.Join(loose, ", ")+" without having been compared with MaxRestarts on that path: it can step over the bound, after which the equality test never holds and the actor restarts without limit")
		}
		okX := true
		detail := ""
		E := w.Nodes(g, w.evBroadcast("actor", "ActorMaxRestartsExceededEvent"), true)
		S := w.Nodes(g, evStopFn, true)
		St := w.Nodes(g, evStart, false)
		for _, e := range exhausted {
			reach := g.reach([]int{e.to}, E, nil)
			for _, x := range g.returns {
				if reach[x] {
					okX, detail = false, "the exhausted edge can return without ActorMaxRestartsExceededEvent"
				}
			}
			reach = g.reach([]int{e.to}, S, nil)
			for _, x := range g.returns {
				if reach[x] {
					okX, detail = false, "the exhausted edge can return without stopping the actor"
				}
			}
			all := g.reach([]int{e.to}, nil, nil)
			for _, s := range members(St) {
				if all[s] {
					okX, detail = false, "the exhausted edge can still reach Start"
				}
			}
			// event before the stop function (subscribers see it before ActorStoppedEvent)
			for _, s := range members(S) {
				if all[s] && !g.Before(E, s) {
					okX, detail = false, "the actor is stopped before ActorMaxRestartsExceededEvent is published"
				}
			}
		}
		r.Check(okX, "C06.R1", fname(pr.restartFn)+":exhausted-edge", "at the budget: ActorMaxRestartsExceededEvent, then the stop function, never Start", w.fnPos(pr.restartFn), detail)
	}
	r.Rule("C06.R5", "the configured budget is the one used (WithMaxRestarts stores n for every n); the process keeps its Context (children) across restarts", 2)
	checkMaxRestartsOpt(w, r, "C06.R5")
	checkContextFixed(w, r, "C06.R5")
	pr.lta.export(r, "C06.R2", []string{"nil-func-call"}, "no nil function value is called")
	checkStopFn(w, r, pr, "C06.R3")
	checkChildrenRegion(w, r, pr, "C06.R3")
	checkSafeMapLen(w, r, "C06.R3")
	if a := w.sendAnchors(); a.missing() == "" {
		checkRemoveExact(w, r, "C06.R3", a) // "every other actor keeps running": unregistering one id touches no other
	}
	if r.Prop == "C06" {
		// a terminated actor gets nothing more: its worker looks at the status before every batch
		checkLoopStatus(w, r, "C06.R4")
		// "the actor (and its children) are stopped": the children the stop function finds are the children there are
		// (C08.R2/R3: keyed by the child's full id, recorded by SpawnChild, removed by the child before it gives up its id)
		r.Rule("C06.R6", "the children table the stop function walks is exact (C08.R2, C08.R3)", 3)
		importRules(w, r, checkC08, "C08", "C06.R6", func(o *Obligation) bool { return o.Rule == "C08.R2" || o.Rule == "C08.R3" })
	}
	budgetPath := ">" + pr.restartFn.Name() + ">" + pr.stopFn.Name()
	pr.lta.exportIf(r, "C06.R4", []string{"panic-escapes", "Stopped-twice", "terminated-without-Stopped", "inbox-started-after-cleanup", "delivery-after-Stopped"},
		"clean termination at the restart budget", func(f lfinding) bool {
			return strings.Contains(f.Stack, budgetPath) || f.Kind == "inbox-started-after-cleanup" || f.Kind == "delivery-after-Stopped"
		})
	// R5: stopping the children of a terminated actor must come back even when a child is already gone
	r.Rule("C06.R5", "Stop/Poison of a PID that is not registered cancels the returned context at once (C07.R1): the stop function's wait for its children cannot hang on a child that is already gone", 2)
	importRules(w, r, checkC07, "C07", "C06.R5", func(o *Obligation) bool {
		return o.Rule == "C07.R1" && (strings.Contains(o.Key, "unknown-pid") || strings.Contains(o.Key, "known-pid"))
	})
}

// guardDesc describes the branch facts guarding node n (position free), to key sites of the same callee.
func guardDesc(w *World, g *FG, n int) string {
	var fs []string
	for _, f := range g.FactsAt(n) {
		s := w.pathOf(f.Cond)
		if !f.Val {
			s = "!" + s
		}
		fs = append(fs, s)
	}
	return strings.Join(fs, "&")
}

// checkChildrenRegion: C08.R1 (also part of C06.R3): children are poisoned and awaited before the inbox stops.
func checkChildrenRegion(w *World, r *Report, pr *procRoles, rule string) {
	g := w.FGI(pr.stopFn)
	poison := w.Method("actor", "Engine", "Poison")
	stop := w.Method("actor", "Engine", "Stop")
	poisonCtx := w.Method("actor", "Engine", "PoisonCtx")
	evP := EvCall("Poison|Stop", poison, stop, poisonCtx)
	site := w.fnPos(pr.stopFn)
	fn := fname(pr.stopFn)
	P := w.Nodes(g, Ev{Name: evP.Name, M: evP.M, Shallow: true}, false)
	if !anyOf(P) {
		r.Fail(rule, fn+":children-stopped", "the stop function poisons/stops every child", site, "no call of Engine.Poison/Stop in the stop function: children outlive their parent")
		return
	}
	okAll := true
	detail := ""
	for _, p := range members(P) {
		// the poisoned pid must come from the context's children
		cc := callOf(g.ins[p])
		arg := w.pathOf(cc.Args[len(cc.Args)-1])
		if !strings.Contains(arg, "Children(") && !strings.Contains(arg, ".children") {
			okAll, detail = false, "the stopped pid is not taken from the context's children: "+arg
		}
		// the awaited context must only end when the child is done: a caller-supplied parent
		// context (PoisonCtx) can be cancelled earlier
		if cc.StaticCallee() == poisonCtx && len(cc.Args) == 3 && !strings.HasPrefix(w.pathOf(cc.Args[1]), "call:context.Background(") && !strings.HasPrefix(w.pathOf(cc.Args[1]), "call:context.TODO(") {
			okAll, detail = false, "the child's stop context derives from "+w.pathOf(cc.Args[1])+": when that context is cancelled the parent stops waiting although the child is still alive"
		}
		// wait: a receive from Done() of that very context follows on every path
		wait := make([]bool, len(g.ins))
		for i, in := range g.ins {
			if u, ok := in.(*ssa.UnOp); ok && u.Op == token.ARROW {
				if c, ok := u.X.(*ssa.Call); ok && c.Call.IsInvoke() && c.Call.Method.Name() == "Done" && c.Call.Value == ssa.Value(g.ins[p].(*ssa.Call)) {
					wait[i] = true
				}
			}
		}
		if !anyOf(wait) || !g.After(p, wait) {
			okAll, detail = false, "a child is poisoned but its stop context is not awaited (<-ctx.Done()) on every path: the parent can finish first"
		}
	}
	// the loop covers all children: it ranges over Children() / the children map (structure: call inside a loop whose bound is len(children slice))
	r.Check(okAll, rule, fn+":children-awaited", "each child is poisoned and its context awaited", site, detail)
	// region before Inboxer.Stop, Remove, Stopped
	evStop := EvInvoke("Inboxer.Stop", w.IfaceMethod("actor", "Inboxer", "Stop"))
	evRem := EvCall("Registry.Remove", w.Method("actor", "Registry", "Remove"))
	later := union(union(w.Nodes(g, evStop, false), w.Nodes(g, evRem, false)), w.Nodes(g, pr.evDeliver(), false))
	ok := true
	for _, l := range members(later) {
		if ok2, _ := g.Never(l, P); !ok2 {
			ok = false
		}
	}
	// and every path to the later events passes the "has children" decision: i.e. the children region cannot be skipped
	// when children exist: the only way around it is the len==0 edge.
	skip := false
	{
		// edges that bypass the region must be guarded by children.Len() == 0 (or an empty range)
		avoid := P
		reach := g.reach(g.entry(), avoid, nil)
		for _, l := range members(later) {
			if reach[l] {
				skip = true
			}
		}
		if skip {
			// acceptable only if every bypass crosses an "empty" edge
			empties, _ := g.CondEdges(func(v ssa.Value) (bool, bool) {
				b, ok := v.(*ssa.BinOp)
				if !ok {
					return false, false
				}
				x := w.pathOf(b.X)
				y := w.pathOf(b.Y)
				isLen := strings.Contains(x, "Len(") && strings.Contains(x, ".children") || strings.HasPrefix(x, "len(") && strings.Contains(x, "Children(")
				if !isLen {
					// loop condition i < len(children)
					if strings.HasPrefix(y, "len(") && strings.Contains(y, "Children(") && b.Op == token.LSS {
						return false, true // exits (false edge) when exhausted
					}
					return false, false
				}
				switch {
				case b.Op == token.GTR && y == "K:0", b.Op == token.NEQ && y == "K:0":
					return false, true
				case b.Op == token.EQL && y == "K:0":
					return true, true
				}
				return false, false
			})
			cut := map[Edge]bool{}
			for _, e := range empties {
				cut[e] = true
			}
			reach = g.reach(g.entry(), avoid, cut)
			skip = false
			for _, l := range members(later) {
				if reach[l] {
					skip = true
				}
			}
		}
	}
	r.Check(ok && !skip, rule, fn+":children-first", "children are stopped before the parent's inbox stops, before it is unregistered and before its Stopped", site,
		"the parent can stop (or be unregistered / handle Stopped) while children are still alive, or the children region can be bypassed with children present")
	// the children are stopped in ONE pass over one snapshot: a loop that goes on "while there are children" never ends
	// when an entry cannot be removed by stopping it (a child that died while it was being spawned is still listed)
	{
		kids := w.Method("actor", "Context", "Children")
		K := w.Nodes(g, Ev{Name: "Children", M: EvCall("Children", kids).M, Shallow: true}, false)
		once := true
		if anyOf(K) {
			once, _ = g.AtMostOnce(K)
		}
		r.Check(once, rule, fn+":children-one-pass", "the stop function takes the list of children at most once and stops that list", site,
			"the children are listed again and again until none is left: an entry that stopping cannot remove (a child that died during SpawnChild stays listed) makes the stop function spin forever: no Stopped, never unregistered")
	}
}

// ---------------------------------------------------------------------------
// C07 — Stop/Poison
// ---------------------------------------------------------------------------

func checkC07(w *World, r *Report) {
	r.Rule("C07.R1", "sendPoisonPill: the returned context and the pill's cancel come from one WithCancel; unknown PID: dead letter + cancel; known PID: the pill is sent", 3)
	r.Rule("C07.R2", "cancel is only called with the inbox stopped, the actor unregistered and Stopped delivered (typestate); a non-nil cancel is called on every exit of the stop function", 2)
	r.Rule("C07.R3", "Invoke hands the pill's own cancel to the stop function; the graceful edge drains the rest of the batch first, the other edge delivers nothing", 3)
	r.Rule("C07.R4", "pill invisibility: a message is stored for delivery only on the failed branch of the poisonPill assertion of that envelope", 1)
	r.Rule("C07.R5", "pill linearity: wherever an envelope is recognised as a poison pill its cancel is called or handed to the stop function on every path", 2)
	r.Rule("C07.R6", "a crash while draining cannot lose the pill", 1)
	pr := w.findProcRoles()
	if pr.fail(r, "C07.R1") {
		return
	}
	pillT := w.Named("actor", "poisonPill")
	// R1
	spp := w.Method("actor", "Engine", "sendPoisonPill")
	sppCtx, sppGraceful, sppPid := 1, 2, 3 // parameter slots of the (private) pill sender, found by type
	if spp == nil {
		// find by role: method of Engine that builds a poisonPill literal
		for _, fn := range w.MethodsOf("actor", "Engine") {
			for _, in := range w.insOf(fn) {
				{
					if al, ok := in.(*ssa.Alloc); ok {
						if n, _ := structOf(al.Type()); sameNamed(n, pillT) {
							spp = fn
						}
					}
				}
			}
		}
	}
	if spp == nil || pillT == nil {
		r.Unknown("C07.R1", "sendPoisonPill", "the function that builds poison pills", "-", "not found")
	} else {
		g := w.FGI(spp)
		site := w.fnPos(spp)
		fn := fname(spp)
		sppCtx, sppGraceful, sppPid = sppParamSlots(spp)
		// WithCancel call
		var wc *ssa.Call
		nwc := 0
		for _, in := range g.ins {
			if c, ok := in.(*ssa.Call); ok && c.Call.StaticCallee() != nil && c.Call.StaticCallee().String() == "context.WithCancel" {
				wc = c
				nwc++
			}
		}
		okPair := nwc == 1
		var pills []map[string]ssa.Value
		for _, in := range g.ins {
			if al, ok := in.(*ssa.Alloc); ok {
				if n, _ := structOf(al.Type()); sameNamed(n, pillT) {
					if fs, ok := w.litFields(al); ok {
						pills = append(pills, fs)
					}
				}
			}
		}
		if okPair {
			wcp := w.pathOf(wc)
			if len(pills) != 1 || pills[0]["cancel"] == nil || w.pathOf(pills[0]["cancel"]) != wcp+"#1" {
				okPair = false
			}
			if okPair && w.pathOf(pills[0]["graceful"]) != fmt.Sprintf("P%d", sppGraceful) {
				okPair = false
			}
			for _, x := range g.returns {
				rs := g.ins[x].(*ssa.Return).Results
				if len(rs) != 1 || w.pathOf(rs[0]) != wcp+"#0" {
					okPair = false
				}
			}
		}
		r.Check(okPair, "C07.R1", fn+":one-WithCancel", "the context returned to the caller and the cancel carried by the pill belong to the same WithCancel; graceful is the parameter", site,
			"the caller waits on a context that the actor's cleanup never cancels (or the pill's graceful flag is not the caller's)")
		// miss / hit edges
		miss, hit := g.CondEdges(func(v ssa.Value) (bool, bool) {
			b, ok := v.(*ssa.BinOp)
			if !ok {
				return false, false
			}
			x, y := w.pathOf(b.X), w.pathOf(b.Y)
			if y != "K:nil" {
				x, y = y, x
			}
			if y == "K:nil" && strings.Contains(x, "Registry).get(") {
				return b.Op == token.EQL, b.Op == token.EQL || b.Op == token.NEQ
			}
			return false, false
		})
		okMiss := len(miss) > 0 && wc != nil
		if okMiss {
			DL := w.Nodes(g, w.evBroadcast("actor", "DeadLetterEvent"), true)
			CN := make([]bool, len(g.ins))
			for i, in := range g.ins {
				if c := callOf(in); c != nil && !c.IsInvoke() && c.StaticCallee() == nil && w.pathOf(c.Value) == w.pathOf(wc)+"#1" {
					if _, isGo := in.(*ssa.Go); !isGo {
						CN[i] = true
					}
				}
			}
			for _, e := range miss {
				for _, set := range [][]bool{DL, CN} {
					reach := g.reach([]int{e.to}, set, nil)
					for _, x := range g.returns {
						if reach[x] {
							okMiss = false
						}
					}
				}
			}
		}
		r.Check(okMiss, "C07.R1", fn+":unknown-pid", "for an unregistered PID: DeadLetterEvent is published and the context is cancelled before returning", site,
			"Stop/Poison of an unknown or already stopped PID returns a context that never becomes done (or no dead letter)")
		okHit := len(hit) > 0
		if okHit {
			sl := w.Method("actor", "Engine", "SendLocal")
			SL := make([]bool, len(g.ins))
			for i, in := range g.ins {
				if c := callOf(in); c != nil && c.StaticCallee() == sl && sl != nil {
					if _, isCall := in.(*ssa.Call); isCall && len(c.Args) == 4 {
						n, _, lit := w.structLit(c.Args[2])
						if lit && sameNamed(n, pillT) && w.pathOf(c.Args[1]) == fmt.Sprintf("P%d", sppPid) {
							SL[i] = true
						}
					}
				}
			}
			for _, e := range hit {
				reach := g.reach([]int{e.to}, SL, nil)
				for _, x := range g.returns {
					if reach[x] {
						okHit = false
					}
				}
			}
		}
		r.Check(okHit, "C07.R1", fn+":known-pid", "for a registered PID the pill is sent to it through SendLocal, synchronously", site,
			"a path for a registered PID does not enqueue the pill: the returned context never becomes done")
	}

	if spp != nil {
		why := "Stop must be immediate and Poison graceful, both for the PID the caller gave."
		slots := func(ctx, graceful, pid string) []string {
			a := []string{"P0", "", "", ""}
			a[sppCtx], a[sppGraceful], a[sppPid] = ctx, graceful, pid
			return a
		}
		w.checkRow(r, row{rule: "C07.R1", fn: w.Method("actor", "Engine", "Stop"), callee: EvCall("spp", spp), name: "sendPoisonPill", args: slots("call:context.Background()", "K:false", "P1"), why: why})
		w.checkRow(r, row{rule: "C07.R1", fn: w.Method("actor", "Engine", "Poison"), callee: EvCall("spp", spp), name: "sendPoisonPill", args: slots("call:context.Background()", "K:true", "P1"), why: why})
		w.checkRow(r, row{rule: "C07.R1", fn: w.Method("actor", "Engine", "PoisonCtx"), callee: EvCall("spp", spp), name: "sendPoisonPill", args: slots("P1", "K:true", "P2"), why: why})
	}
	// R2
	pr.lta.export(r, "C07.R2", []string{"cancel-before-stopped", "restart-buffer-dropped"},"the stop context is cancelled only after the inbox stopped, the actor was unregistered and handled Stopped")
	// "every message accepted before the Poison is handled": the queue they wait in and the replay after a crash
	r.Rule("C07.R8", "messages queued before a Poison reach the actor: ring transfers are sound (C14.R2-R5) and the crash buffer is rebuilt from the cursor on every path and replayed first (C05.R2/R3)", 8)
	importRules(w, r, checkC14, "C14", "C07.R8", func(o *Obligation) bool {
		return o.Rule == "C14.R1" || o.Rule == "C14.R2" || o.Rule == "C14.R3" || o.Rule == "C14.R4" || o.Rule == "C14.R5"
	})
	importRules(w, r, checkC05, "C05", "C07.R8", func(o *Obligation) bool {
		return o.Rule == "C05.R3" && strings.Contains(o.Key, "buffer-from-cursor") || o.Rule == "C05.R2" && (strings.Contains(o.Key, "replay-before-inbox") || strings.Contains(o.Key, "clears-replayed-buffer"))
	})
	if r.Prop == "C07" {
		// the pill reaches the process the PID names, and the inbox it is pushed into wakes up for it
		r.Rule("C07.R9", "a pill reaches the live actor: a losing duplicate spawn does not take over the registry entry (C10.R2), and an inbox wakes up for every accepted message (C03.R1-R3, R7)", 6)
		if a := w.sendAnchors(); a.missing() == "" {
			checkRegistryAdd(w, r, "C07.R9", a)
		} else {
			r.Unknown("C07.R9", "anchors", "resolve the registry API", "-", "missing: "+a.missing())
		}
		importRules(w, r, checkC03, "C03", "C07.R9", func(o *Obligation) bool {
			return o.Rule == "C03.R1" || o.Rule == "C03.R2" || o.Rule == "C03.R3" || (o.Rule == "C03.R7" && strings.Contains(o.Key, "idle-writers"))
		})
		// the stop function comes to an end: its wait for the children is one pass over one list (C08.R1)
		// (checked here directly: C08 imports C07's rules, an import the other way round would be circular)
		checkChildrenRegion(w, r, pr, "C07.R9")
	}
	{
		g := w.FGI(pr.stopFn)
		var cancelP *ssa.Parameter
		for _, p := range pr.stopFn.Params {
			if isCancelFunc(p.Type()) {
				cancelP = p
			}
		}
		key := fname(pr.stopFn) + ":cancel-on-every-exit"
		what := "a non-nil cancel handed to the stop function is called on every exit (deferred or last)"
		if cancelP == nil {
			r.Unknown("C07.R2", key, what, w.fnPos(pr.stopFn), "the stop function has no context.CancelFunc parameter")
		} else {
			nilEdges, _ := g.CondEdges(func(v ssa.Value) (bool, bool) {
				b, ok := v.(*ssa.BinOp)
				if !ok {
					return false, false
				}
				var x ssa.Value
				if k, ok := b.Y.(*ssa.Const); ok && k.IsNil() {
					x = b.X
				} else if k, ok := b.X.(*ssa.Const); ok && k.IsNil() {
					x = b.Y
				}
				if x != ssa.Value(cancelP) {
					return false, false
				}
				return b.Op == token.EQL, b.Op == token.EQL || b.Op == token.NEQ
			})
			cut := map[Edge]bool{}
			for _, e := range nilEdges {
				cut[e] = true
			}
			ok := mustCallOnExit(g, func(in ssa.Instruction) bool {
				c := callOf(in)
				return c != nil && c.Value == ssa.Value(cancelP)
			}, cut)
			r.Check(ok, "C07.R2", key, what, w.fnPos(pr.stopFn), "a path through the stop function returns without calling the caller's cancel: that Stop/Poison context never becomes done")
		}
	}

	checkCancelDeferred(w, r, "C07.R2")
	checkDrainStart(w, r, "C07.R3")
	// R3
	{
		g := w.FGI(pr.invoke)
		evStopFn := EvCall("stop", pr.stopFn)
		calls := w.callsIn(pr.invoke, evStopFn)
		D := w.Nodes(g, pr.evDeliver(), false)
		if len(calls) == 0 {
			r.Fail("C07.R3", fname(pr.invoke)+":pill-stops", "the batch function calls the stop function when it meets a poison pill", w.fnPos(pr.invoke), "Invoke never calls the stop function")
		}
		for _, ci := range calls {
			n := g.idx[ci.(ssa.Instruction)]
			cc := ci.Common()
			arg := w.pathOf(cc.Args[len(cc.Args)-1])
			okArg := strings.HasPrefix(arg, "assert<actor.poisonPill>(") && strings.HasSuffix(arg, "#0.cancel") && callKind(ci) == "call"
			r.Check(okArg, "C07.R3", fname(pr.invoke)+":own-cancel", "the stop function receives the cancel of the pill being handled", w.pos(ci.Pos()),
				"the stop function is called with "+arg+": the poisoner's context is never (or prematurely) cancelled")
			// nothing delivered after the stop function in this activation
			ok, x := g.Never(n, D)
			d := ""
			if !ok {
				d = "a delivery at " + w.pos(g.ins[x].Pos()) + " is reachable after the stop function returned"
			}
			r.Check(ok, "C07.R3", fname(pr.invoke)+":nothing-after-stop", "no delivery after the stop function in the same activation", w.pos(ci.Pos()), d)
			// graceful edges
			grT, grF := g.CondEdges(func(v ssa.Value) (bool, bool) {
				p := w.pathOf(v)
				if strings.HasPrefix(p, "assert<actor.poisonPill>(") && strings.HasSuffix(p, "#0.graceful") {
					return true, true
				}
				return false, false
			})
			okG := len(grT) > 0
			stopSet := setOf(len(g.ins), n)
			for _, e := range grT {
				reach := g.reach([]int{e.to}, stopSet, nil)
				has := false
				for _, d := range members(D) {
					if reach[d] {
						has = true
					}
				}
				if !has {
					okG = false
				}
			}
			r.Check(okG, "C07.R3", fname(pr.invoke)+":graceful-drains", "on the graceful edge the remaining messages are delivered before the stop function", w.pos(ci.Pos()),
				"Poison does not drain: messages sent before the Poison call are dropped")
			okN := len(grF) > 0
			for _, e := range grF {
				reach := g.reach([]int{e.to}, stopSet, nil)
				for _, d := range members(D) {
					if reach[d] {
						okN = false
					}
				}
			}
			r.Check(okN, "C07.R3", fname(pr.invoke)+":stop-immediate", "on the non-graceful edge nothing is delivered before the stop function", w.pos(ci.Pos()),
				"Stop delivers messages before stopping")
			// the drain covers the batch tail: it ranges over a slice msgs[k:] of the batch parameter
			okT := false
			for _, d := range members(D) {
				if reachFromEdges(g, grT, stopSet)[d] {
					p := callDesc(w, g.ins[d])
					if strings.Contains(p, "P1[") && strings.Contains(p, ":]") {
						okT = true
					}
				}
			}
			r.Check(okT, "C07.R3", fname(pr.invoke)+":drain-is-batch-tail", "the drained messages are a tail slice of the batch", w.pos(ci.Pos()),
				"the drain loop does not range over msgs[k:]")
		}
	}

	// R4
	{
		g := w.FGI(pr.deliverFn)
		n := 0
		for i, in := range g.ins {
			st, ok := in.(*ssa.Store)
			if !ok {
				continue
			}
			fa, ok := st.Addr.(*ssa.FieldAddr)
			if !ok || !isFieldOf(fa, pr.ctxT, "message") {
				continue
			}
			n++
			src := w.pathOf(st.Val)
			ok = false
			for _, f := range g.FactsAt(i) {
				if !f.Val && w.pathOf(f.Cond) == "assert<actor.poisonPill>("+src+")#1" {
					ok = true
				}
			}
			if !ok {
				// ... or every caller hands the delivery function an envelope it has found not to be a pill
				sites, all := 0, true
				for _, cf := range w.MethodsOf("actor", "process") {
					cg := w.FGI(cf)
					for _, ci := range w.callsIn(cf, EvCall("deliver", pr.deliverFn)) {
						sites++
						cn := cg.idx[ci.(ssa.Instruction)]
						args := ci.Common().Args
						ap := w.pathOf(args[len(args)-1])
						guarded := false
						for _, f := range cg.FactsAt(cn) {
							if !f.Val && w.pathOf(f.Cond) == "assert<actor.poisonPill>("+ap+".Msg)#1" {
								guarded = true
							}
						}
						if !guarded {
							all = false
						}
					}
				}
				ok = sites > 0 && all
			}
			r.Check(ok, "C07.R4", fname(pr.deliverFn)+":pill-suppressed", "the envelope's message is stored for delivery only if it is not a poisonPill", w.pos(st.Pos()),
				"a poisonPill can be delivered to Receive (the drain loop re-visits the pill itself and later pills)")
		}
		if n == 0 {
			r.Unknown("C07.R4", fname(pr.deliverFn)+":pill-suppressed", "delivery function stores the message", w.fnPos(pr.deliverFn), "no store to Context.message")
		}
	}

	checkPillLinearity(w, r, pr, "C07.R5")
	r.Rule("C07.R7", "the worker loop re-reads the status before every batch: a stopped actor never sees a further batch (second pill, later messages)", 1)
	checkLoopStatus(w, r, "C07.R7")
	checkInboxStopStores(w, r, "C07.R7")

	// R6: a crash while the pill is held (between recognising it and handing its cancel to the stop
	// function) loses the pill: the recover handler can neither cancel nor re-buffer it.
	{
		g := w.FGI(pr.invoke)
		D := w.Nodes(g, pr.evDeliver(), false)
		okEdges, _ := g.CondEdges(func(v ssa.Value) (bool, bool) {
			p := w.pathOf(v)
			if strings.HasPrefix(p, "assert<actor.poisonPill>(") && strings.HasSuffix(p, "#1") {
				return true, true
			}
			return false, false
		})
		stopCalls := make([]bool, len(g.ins))
		for _, ci := range w.callsIn(pr.invoke, EvCall("stop", pr.stopFn)) {
			stopCalls[g.idx[ci.(ssa.Instruction)]] = true
		}
		held := reachFromEdges(g, okEdges, stopCalls)
		n := 0
		for _, d := range members(D) {
			if !held[d] {
				continue
			}
			n++
			// acceptable only if the recover handler deals with the pill (it cannot today: it has no access to it)
			r.Fail("C07.R6", fmt.Sprintf("%s:deliver-while-pill-held[%s]", fname(pr.invoke), deliverySiteClass(w, g, d)),
				"no delivery can panic while a recognised pill is held, unless the recover handler cancels or re-buffers the pill", w.pos(g.ins[d].Pos()),
				"if this delivery panics the recover handler rebuilds the restart buffer without the pill and never calls its cancel: the Poison context is never done and the actor keeps running")
		}
		if n == 0 {
			r.OK("C07.R6", fname(pr.invoke)+":no-delivery-while-pill-held", "no delivery happens between recognising a pill and the stop function", w.fnPos(pr.invoke))
		}
	}
}

func reachFromEdges(g *FG, es []Edge, avoid []bool) []bool {
	return g.reachFromEdgesCorr(es, avoid)
}

// mustCallOnExit: on every entry->return path (not crossing cut edges) a matching call is executed
// directly, or was deferred earlier on the path.
func mustCallOnExit(g *FG, match func(ssa.Instruction) bool, cut map[Edge]bool) bool {
	type stt struct {
		n   int
		reg bool
	}
	seen := map[stt]bool{}
	var stack []stt
	if len(g.ins) == 0 {
		return true
	}
	stack = append(stack, stt{0, false})
	seen[stt{0, false}] = true
	for len(stack) > 0 {
		s := stack[len(stack)-1]
		stack = stack[:len(stack)-1]
		in := g.ins[s.n]
		reg := s.reg
		switch x := in.(type) {
		case *ssa.Defer:
			if match(x) {
				reg = true
			}
		case *ssa.RunDefers:
			if reg {
				continue // satisfied
			}
		case *ssa.Return:
			if x.Parent() == g.fn {
				return false
			}
		case *ssa.Go:
		default:
			if match(in) {
				continue // satisfied
			}
		}
		for _, t := range g.succ[s.n] {
			if cut[Edge{s.n, t}] {
				continue
			}
			ns := stt{t, reg}
			if !seen[ns] {
				seen[ns] = true
				stack = append(stack, ns)
			}
		}
	}
	return true
}

// checkPillLinearity: C07.R5 = C08.R5.
func checkPillLinearity(w *World, r *Report, pr *procRoles, rule string) {
	pillT := w.Named("actor", "poisonPill")
	n := 0
	for _, fn := range w.MethodsOf("actor", "process") {
		g := w.FGI(fn)
		for _, in := range g.ins {
			ta, ok := in.(*ssa.TypeAssert)
			if !ok || !ta.CommaOk {
				continue
			}
			nn, _ := types.Unalias(ta.AssertedType).(*types.Named)
			if !sameNamed(nn, pillT) {
				continue
			}
			n++
			okEdges, _ := g.CondEdges(func(v ssa.Value) (bool, bool) {
				if e, ok := v.(*ssa.Extract); ok && e.Tuple == ssa.Value(ta) && e.Index == 1 {
					return true, true
				}
				return false, false
			})
			tap := w.pathOf(ta)
			done := make([]bool, len(g.ins))
			for i, x := range g.ins {
				c := callOf(x)
				if c == nil {
					continue
				}
				if _, isGo := x.(*ssa.Go); isGo {
					continue
				}
				if c.StaticCallee() == pr.stopFn && len(c.Args) > 0 && w.pathOf(c.Args[len(c.Args)-1]) == tap+"#0.cancel" {
					done[i] = true
				}
				if c.StaticCallee() == nil && !c.IsInvoke() && w.pathOf(c.Value) == tap+"#0.cancel" {
					done[i] = true
				}
			}
			ok2 := len(okEdges) > 0
			for _, e := range okEdges {
				reach := g.reach([]int{e.to}, done, nil)
				for _, x := range g.returns {
					if reach[x] {
						ok2 = false
					}
				}
			}
			key := fmt.Sprintf("%s:pill[%s]", fname(fn), tap)
			if !ok2 {
				// a pill that is dropped: name the finding by where in the batch it is met, not by the function the test
				// happens to be written in (the delivery function, or the drain loop it was moved into)
				cls := ""
				if fn == pr.invoke {
					cls = deliverySiteClass(w, g, g.idx[ta])
				} else if fn == pr.deliverFn && pr.invoke != nil {
					ig := w.FGI(pr.invoke)
					set := map[string]bool{}
					for _, ci := range w.callsIn(pr.invoke, EvCall("deliver", pr.deliverFn)) {
						dn := ig.idx[ci.(ssa.Instruction)]
						// a call site that only ever sees non-pills (behind the failed pill test of the batch loop) cannot drop one
						knownNoPill := false
						for _, f := range ig.FactsAt(dn) {
							if fp := w.pathOf(f.Cond); !f.Val && strings.HasPrefix(fp, "assert<actor.poisonPill>(") && strings.HasSuffix(fp, "#1") && deliverySiteClass(w, ig, dn) == "batch-element" {
								knownNoPill = true
							}
						}
						if !knownNoPill {
							set[deliverySiteClass(w, ig, dn)] = true
						}
					}
					var cs []string
					for c := range set {
						cs = append(cs, c)
					}
					sort.Strings(cs)
					cls = strings.Join(cs, ",")
				}
				if cls != "" {
					key = "pill-dropped[" + cls + "]"
				}
			}
			r.Check(ok2, rule, key, "a recognised poison pill has its cancel called (or handed to the stop function) on every path", w.pos(ta.Pos()),
				"a pill is consumed without its cancel ever being called: the context of that Stop/Poison call is never done (second pill of a batch; a parent waiting on a busy child that already holds a pill hangs)")
		}
	}
	if n == 0 {
		r.Unknown(rule, "pills", "the process machine recognises poison pills", w.fnPos(pr.invoke), "no x.(poisonPill) assertion found")
	}
}

// ---------------------------------------------------------------------------
// C13 — middleware
// ---------------------------------------------------------------------------

func checkC13(w *World, r *Report) {
	r.Rule("C13.R1", "every delivery on every abstract path goes through the chain built from Opts.Middleware around the receiver, exactly once, or happens where len(Middleware)==0 was established (typestate)", 5)
	r.Rule("C13.R2", "the middleware applicator wraps from the last middleware to the first, so the first is outermost and the receiver innermost", 1)
	r.Rule("C13.R3", "the chain is invoked on the process's own Context after the message (and sender) of that delivery were stored", 3)
	pr := w.findProcRoles()
	if pr.fail(r, "C13.R1") {
		return
	}
	pr.lta.export(r, "C13.R1", []string{"bypasses-middleware", "middleware-applied-twice", "chain-does-not-end-in-the-receiver", "unclassified-delivery", "delivery-of-unknown-message"}, "middleware wraps every delivery")
	checkApplyMW(w, r, pr)
	r.Rule("C13.R4", "the chain given at spawn belongs to that spawn alone (fresh middleware slice per Opts)", 2)
	checkDefaultOptsFresh(w, r, "C13.R4")
	checkOptionStores(w, r, "C13.R4", "WithMiddleware", "Middleware", "append(P0.Middleware,FV:mw)")
	checkOptionsAppliedOnce(w, r, "C13.R4")
	// R3: every delivery site: argument is P0.context / FV:p.context; in the delivery function message and sender stores precede it
	evD := pr.evDeliver()
	n := 0
	for _, fn := range w.MethodsOf("actor", "process") {
		g := w.FGI(fn)
		for _, d := range members(w.Nodes(g, Ev{Name: evD.Name, M: evD.M, Shallow: true}, false)) {
			n++
			cc := callOf(g.ins[d])
			arg := w.pathOf(cc.Args[len(cc.Args)-1])
			okA := strings.HasSuffix(arg, ".context") && (strings.HasPrefix(arg, "P0") || strings.HasPrefix(arg, "FV:"))
			// receiver bound into the chain is the context's current receiver (or the value just stored there)
			okR := true
			if inner, ok := cc.Value.(*ssa.Call); ok {
				if mc, ok := inner.Call.Args[0].(*ssa.MakeClosure); ok && len(mc.Bindings) == 1 {
					b := w.pathOf(mc.Bindings[0])
					if !strings.HasSuffix(b, ".context.receiver") {
						// must be the value stored into Context.receiver in this function
						okR = false
						for _, in := range g.ins {
							if st, ok := in.(*ssa.Store); ok {
								if fa, ok := st.Addr.(*ssa.FieldAddr); ok && isFieldOf(fa, pr.ctxT, "receiver") && st.Val == mc.Bindings[0] {
									okR = true
								}
							}
						}
						// the delivery sits in a local closure of that function: the receiver it binds is the enclosing
						// function's variable (a captured cell), and that variable is what was stored into Context.receiver
						if cell := capturedCell(fn, mc.Bindings[0]); cell != nil && fn.Parent() != nil && storesTo(cell) == 1 {
							for _, in := range w.insOf(fn.Parent()) {
								if st, ok := in.(*ssa.Store); ok {
									if fa, ok := st.Addr.(*ssa.FieldAddr); ok && isFieldOf(fa, pr.ctxT, "receiver") {
										if ld, ok := st.Val.(*ssa.UnOp); ok && ld.Op == token.MUL && ld.X == cell {
											okR = true
										}
									}
								}
							}
						}
					}
				}
			} else if cc.IsInvoke() {
				okR = strings.HasSuffix(w.pathOf(cc.Value), ".context.receiver")
			}
			key := fmt.Sprintf("%s:deliver[%s]", fname(fn), guardDesc(w, g, d))
			r.Check(okA && okR, "C13.R3", key, "the delivery targets the process's current receiver with the process's own Context", w.pos(g.ins[d].Pos()),
				"delivery with context "+arg+" or a receiver that is not the context's current one")
		}
	}
	{
		g := w.FGI(pr.deliverFn)
		msgSt := make([]bool, len(g.ins))
		sndSt := make([]bool, len(g.ins))
		for i, in := range g.ins {
			if st, ok := in.(*ssa.Store); ok {
				if fa, ok := st.Addr.(*ssa.FieldAddr); ok {
					if isFieldOf(fa, pr.ctxT, "message") && strings.HasSuffix(w.pathOf(st.Val), ".Msg") {
						msgSt[i] = true
					}
					if isFieldOf(fa, pr.ctxT, "sender") && strings.HasSuffix(w.pathOf(st.Val), ".Sender") {
						sndSt[i] = true
					}
				}
			}
		}
		ok := anyOf(msgSt) && anyOf(sndSt)
		for _, d := range members(w.Nodes(g, evD, false)) {
			if !g.Before(msgSt, d) || !g.Before(sndSt, d) {
				ok = false
			}
		}
		r.Check(ok, "C13.R3", fname(pr.deliverFn)+":context-shows-delivery", "Context.message and Context.sender are set from the envelope before the chain runs", w.fnPos(pr.deliverFn),
			"inside the chain the Context can show the message or sender of a previous delivery")
	}
	_ = n
	// R5: "inside the chain the Context shows the message and sender of that delivery": the accessors read the fields
	// the delivery function filled (C01.R2), and no second delivery of the same actor overwrites them meanwhile: one
	// worker at a time (C02.R1-R4), lifecycle deliveries before the inbox can start a worker (C02.R6)
	if r.Prop == "C13" {
		r.Rule("C13.R5", "the Context's accessors show the fields the delivery filled (C01.R2) and stay put during the chain: single worker (C02.R1-R4), no lifecycle delivery next to a running worker (C02.R6)", 8)
		importRules(w, r, checkC01, "C01", "C13.R5", func(o *Obligation) bool {
			return o.Rule == "C01.R2" && (strings.HasSuffix(o.Key, "|Context.Message") || strings.HasSuffix(o.Key, "|Context.Sender"))
		})
		importRules(w, r, checkC02, "C02", "C13.R5", func(o *Obligation) bool {
			return o.Rule == "C02.R1" || o.Rule == "C02.R2" || o.Rule == "C02.R3" || o.Rule == "C02.R4" || o.Rule == "C02.R6" || o.Rule == "C02.R7"
		})
		// what the Context shows is written by the process machine alone (the delivery function and the lifecycle deliveries
		// of actor.process): an API method that clears or rewrites sender/message changes what the rest of the chain sees
		{
			var strangers []string
			for _, fn := range w.Funcs {
				if !w.isLib(fn) {
					continue
				}
				for _, in := range w.insOf(fn) {
					st, ok := in.(*ssa.Store)
					if !ok {
						continue
					}
					fa, ok := st.Addr.(*ssa.FieldAddr)
					if !ok || !(isFieldOf(fa, pr.ctxT, "message") || isFieldOf(fa, pr.ctxT, "sender")) {
						continue
					}
					if _, fresh := fa.X.(*ssa.Alloc); fresh {
						continue
					}
					okW := false
					for _, rt := range w.inlineRoots(fn) {
						top := rt
						for top.Parent() != nil {
							top = top.Parent()
						}
						if isProcessMethod(w, top) {
							okW = true
						}
					}
					if !okW {
						nm, _ := fieldName(fa)
						strangers = append(strangers, fname(fn)+" writes Context."+nm+" at "+w.pos(st.Pos()))
					}
				}
			}
			r.Check(len(strangers) == 0, "C13.R5", "Context.message/sender:writers", "only the process machine writes the message and sender a Context shows", w.fnPos(pr.deliverFn),
				strings.Join(strangers, "; ")+": inside the chain (a middleware after next(c), the receiver after the call) the Context no longer shows the sender/message of the delivery")
		}
	}
}

// checkApplyMW recognises the descending wrap loop (idiom rule, fail-closed).
func checkApplyMW(w *World, r *Report, pr *procRoles) {
	fn := pr.applyMW
	key := fname(fn) + ":wrap-order"
	what := "rcv = mw[i](rcv) for i = len(mw)-1 down to 0; the result is returned"
	site := w.fnPos(fn)
	var call *ssa.Call
	nDyn := 0
	for _, in := range w.insOf(fn) {
		{
			if c, ok := in.(*ssa.Call); ok && c.Call.StaticCallee() == nil && !c.Call.IsInvoke() {
				if _, isB := c.Call.Value.(*ssa.Builtin); !isB {
					call = c
					nDyn++
				}
			}
		}
	}
	if nDyn != 1 {
		r.Unknown("C13.R2", key, what, site, fmt.Sprintf("expected exactly one dynamic call mw[i](rcv), found %d (unrecognised idiom)", nDyn))
		return
	}
	ld, ok := call.Call.Value.(*ssa.UnOp)
	var ia *ssa.IndexAddr
	if ok {
		ia, _ = ld.X.(*ssa.IndexAddr)
	}
	if ia == nil || ia.X != ssa.Value(fn.Params[1]) || len(call.Call.Args) != 1 {
		r.Unknown("C13.R2", key, what, site, "the called value is not an element of the middleware slice parameter")
		return
	}
	// accumulator
	acc, ok := call.Call.Args[0].(*ssa.Phi)
	okAcc := ok
	if ok {
		has0, hasC := false, false
		for _, e := range acc.Edges {
			if e == ssa.Value(fn.Params[0]) {
				has0 = true
			}
			if e == ssa.Value(call) {
				hasC = true
			}
		}
		okAcc = has0 && hasC && len(acc.Edges) == 2
	}
	if okAcc {
		for _, in := range w.insOf(fn) {
			{
				if ret, ok := in.(*ssa.Return); ok {
					if len(ret.Results) != 1 || ret.Results[0] != ssa.Value(acc) {
						okAcc = false
					}
				}
			}
		}
	}
	if !okAcc {
		r.Fail("C13.R2", key, what, site, "the wrapped function is not accumulated as rcv = mw[i](rcv) and returned")
		return
	}
	// index: i = phi(len(mw)-1, i-1), or n-1 with n = phi(len(mw), n-1)
	idx, ok := ia.Index.(*ssa.Phi)
	off := int64(0)
	if b, isB := ia.Index.(*ssa.BinOp); !ok && isB && b.Op == token.SUB {
		if c, isC := b.Y.(*ssa.Const); isC && c.Value != nil {
			if ph, isPh := b.X.(*ssa.Phi); isPh {
				idx, ok, off = ph, true, c.Int64()
			}
		}
	}
	desc := false
	if ok && len(idx.Edges) == 2 && (off == 0 || off == 1) {
		var init, step bool
		for _, e := range idx.Edges {
			p := w.pathOf(e)
			if (off == 0 && p == "(len(P1)-K:1)") || (off == 1 && p == "len(P1)") {
				init = true
			}
			if b, ok := e.(*ssa.BinOp); ok && b.X == ssa.Value(idx) && ((b.Op == token.SUB && constStr(b.Y) == "1") || (b.Op == token.ADD && constStr(b.Y) == "-1")) {
				step = true
			}
		}
		desc = init && step
	}
	if !desc {
		// the ascending form: first middleware applied first => it ends up innermost
		r.Fail("C13.R2", key, what, site, "the index does not run from len(mw)-1 down: with any other order the first configured middleware is not the outermost")
		return
	}
	// loop condition i >= 0 (or i > -1; n > 0 / n >= 1 in the n-1 form) guards the call
	g := w.FGI(fn)
	lo, lo1 := fmt.Sprint(off), fmt.Sprint(off-1)
	pos, _ := g.CondEdges(func(v ssa.Value) (bool, bool) {
		b, ok := v.(*ssa.BinOp)
		if !ok || b.X != ssa.Value(idx) {
			return false, false
		}
		k := constStr(b.Y)
		switch {
		case b.Op == token.GEQ && k == lo, b.Op == token.GTR && k == lo1:
			return true, true
		case b.Op == token.LSS && k == lo:
			return false, true
		}
		return false, false
	})
	okLoop := len(pos) > 0 && g.OnlyVia(pos, g.idx[call])
	// and the loop is left only when i < 0: all returns are on the negative edge
	r.Check(okLoop, "C13.R2", key, what, site, "the loop bound is not i >= 0: a middleware is skipped (e.g. i > 0 drops the first one)")
}


// isParamPath: the access path of a plain parameter (P1, P2, ...).
func isParamPath(p string) bool {
	if len(p) < 2 || p[0] != 'P' {
		return false
	}
	for _, c := range p[1:] {
		if c < '0' || c > '9' {
			return false
		}
	}
	return true
}

// capturedCell: v, inside the closure fn, is a load of a free variable: the cell (Alloc) of the enclosing function that
// the closure captured for it, else nil.
func capturedCell(fn *ssa.Function, v ssa.Value) ssa.Value {
	ld, ok := v.(*ssa.UnOp)
	if !ok || ld.Op != token.MUL {
		return nil
	}
	fv, ok := ld.X.(*ssa.FreeVar)
	if !ok || fn.Parent() == nil {
		return nil
	}
	idx := -1
	for i, f := range fn.FreeVars {
		if f == fv {
			idx = i
		}
	}
	if idx < 0 {
		return nil
	}
	for _, b := range fn.Parent().Blocks {
		for _, in := range b.Instrs {
			if mc, ok := in.(*ssa.MakeClosure); ok && mc.Fn == fn && idx < len(mc.Bindings) {
				return mc.Bindings[idx]
			}
		}
	}
	return nil
}

// storesTo counts the stores into the cell v (in any function that can see it).
func storesTo(v ssa.Value) int {
	n := 0
	var visit func(x ssa.Value, seen map[ssa.Value]bool)
	visit = func(x ssa.Value, seen map[ssa.Value]bool) {
		if seen[x] || x.Referrers() == nil {
			return
		}
		seen[x] = true
		for _, ref := range *x.Referrers() {
			switch r := ref.(type) {
			case *ssa.Store:
				if r.Addr == x {
					n++
				}
			case *ssa.MakeClosure:
				for i, b := range r.Bindings {
					if b == x {
						if f, ok := r.Fn.(*ssa.Function); ok && i < len(f.FreeVars) {
							visit(f.FreeVars[i], seen)
						}
					}
				}
			}
		}
	}
	visit(v, map[ssa.Value]bool{})
	return n
}

// sppParamSlots: the pill sender is private, so the order of its parameters is its own business: the slots of the
// context, the graceful flag and the target PID are found by type (defaults when the shape is not (ctx, bool, *PID)).
func sppParamSlots(spp *ssa.Function) (ctx, graceful, pid int) {
	ctx, graceful, pid = 1, 2, 3
	if spp == nil || len(spp.Params) != 4 {
		return
	}
	c, g, p := 0, 0, 0
	for i, prm := range spp.Params[1:] {
		switch t := prm.Type().(type) {
		case *types.Basic:
			if t.Kind() == types.Bool {
				g = i + 1
			}
		case *types.Pointer:
			p = i + 1
		case *types.Named:
			if t.Obj().Name() == "Context" {
				c = i + 1
			}
		}
	}
	if c > 0 && g > 0 && p > 0 && c != g && g != p && c != p {
		return c, g, p
	}
	return
}
