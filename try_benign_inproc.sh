#!/bin/bash
# in-process run of the benign corpus
T=$(mktemp -d /tmp/hw-ben-XXXX)
for d in /verif/benign/*.diff; do n=$(basename $d .diff); mkdir -p $T/$n; cp $d $T/$n/patch.diff; done
/verif/try_patches.sh $T | grep -v " silent$"
rm -rf $T
