package remote

import (
	"sync/atomic"
	"testing"
	"time"

	"github.com/anthdm/hollywood/actor"
)

// With a TLS configuration, a peer that cannot be reached must be reported like any other unreachable peer:
// RemoteUnreachableEvent, and the message handed to that attempt surfaces as a dead letter. (Before the fix the failed
// tls.Dial left a nil *tls.Conn inside the net.Conn variable, the "could not connect" test did not see it, and the
// router actor crashed in SetDeadline on the nil connection: no event, no dead letter, a zombie writer registered.)
func TestD19TLSDialFailureIsReported(t *testing.T) {
	cfg, err := generateTLSConfig()
	if err != nil {
		t.Fatal(err)
	}
	e, r, err := makeRemoteEngineTls(getRandomLocalhostAddr(), cfg.peer1Config)
	if err != nil {
		t.Fatal(err)
	}
	defer r.Stop().Wait()
	var unreachable, dead, restarts atomic.Int32
	sub := e.SpawnFunc(func(c *actor.Context) {
		switch c.Message().(type) {
		case actor.RemoteUnreachableEvent:
			unreachable.Add(1)
		case actor.DeadLetterEvent:
			dead.Add(1)
		case actor.ActorRestartedEvent:
			restarts.Add(1)
		}
	}, "d19sub")
	e.Subscribe(sub)
	time.Sleep(50 * time.Millisecond)
	e.Send(actor.NewPID("127.0.0.1:1", "nobody"), &TestMessage{Data: []byte("x")})
	deadline := time.Now().Add(10 * time.Second)
	for time.Now().Before(deadline) && (unreachable.Load() == 0 || dead.Load() == 0) && restarts.Load() == 0 {
		time.Sleep(50 * time.Millisecond)
	}
	if restarts.Load() != 0 {
		t.Errorf("an actor of the node crashed and was restarted (%d restarts)", restarts.Load())
	}
	if unreachable.Load() != 1 {
		t.Errorf("RemoteUnreachableEvent: got %d, want 1", unreachable.Load())
	}
	if dead.Load() != 1 {
		t.Errorf("DeadLetterEvent: got %d, want 1", dead.Load())
	}
}
