package actor

import (
	"sync"
	"testing"
	"time"
)

// UNMODIFIED TREE.  A parent with two children is poisoned.  While it waits
// for the first child, a third party poisons the second child.  cleanup()
// removes a process from the registry BEFORE it delivers Stopped to it, and
// Engine.sendPoisonPill answers a pill for an unregistered pid by cancelling
// the returned context at once.  So when the parent gets round to the second
// child (it is in the snapshot Children() took earlier), Poison(child).Done()
// is closed immediately although the child is still inside its Stopped
// handler: the parent handles its own Stopped, and its stop context is done,
// before that child has handled Stopped.
func TestMut7DefectParentOvertakesChildStoppedByThirdParty(t *testing.T) {
	e, err := NewEngine(NewEngineConfig())
	if err != nil {
		t.Fatal(err)
	}
	var (
		mu      sync.Mutex
		order   []string
		entered = make(chan string, 2)
		release = map[string]chan struct{}{"x": make(chan struct{}), "y": make(chan struct{})}
		pids    = map[string]*PID{}
		started sync.WaitGroup
	)
	rec := func(s string) {
		mu.Lock()
		order = append(order, s)
		mu.Unlock()
	}
	child := func(name string) func(*Context) {
		return func(c *Context) {
			switch c.Message().(type) {
			case Started:
				started.Done()
			case Stopped:
				entered <- name
				<-release[name] // a Stopped handler that takes its time
				rec(name)
			}
		}
	}
	started.Add(3)
	parent := e.SpawnFunc(func(c *Context) {
		switch c.Message().(type) {
		case Started:
			pids["x"] = c.SpawnChildFunc(child("x"), "child", WithID("x"))
			pids["y"] = c.SpawnChildFunc(child("y"), "child", WithID("y"))
			started.Done()
		case Stopped:
			rec("parent")
		}
	}, "parent", WithID("1"))
	started.Wait()

	pdone := e.Poison(parent)
	first := <-entered // the child the parent poisoned first, now inside Stopped
	second := "x"
	if first == "x" {
		second = "y"
	}
	e.Poison(pids[second]) // third party stops the other child
	if got := <-entered; got != second {
		t.Fatalf("unexpected child %s", got)
	}
	close(release[first]) // the parent moves on to the second child

	overtook := false
	select {
	case <-pdone.Done():
		overtook = true // second child is still blocked inside its Stopped handler
	case <-time.After(2 * time.Second):
	}
	close(release[second])
	<-pdone.Done()
	time.Sleep(50 * time.Millisecond)
	mu.Lock()
	got := append([]string(nil), order...)
	mu.Unlock()
	if overtook || got[len(got)-1] != "parent" {
		t.Fatalf("parent's stop context done / parent handled Stopped while child %q was still handling Stopped; Stopped completion order = %v", second, got)
	}
}
