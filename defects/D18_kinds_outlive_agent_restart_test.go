package cluster

import (
	"testing"
	"time"

	"github.com/anthdm/hollywood/actor"
)

type d18Noop struct{}

func (d18Noop) Receive(*actor.Context) {}

// After the agent was restarted (it can be crashed through the public API) and a member left in the meantime,
// HasKind keeps answering true for a kind that no member of the processed snapshot advertises.
func TestD18KindsOutliveAgentRestart(t *testing.T) {
	e, err := actor.NewEngine(actor.NewEngineConfig())
	if err != nil {
		t.Fatal(err)
	}
	cfg := NewConfig().WithID("S").WithEngine(e).WithRequestTimeout(5 * time.Second).
		WithProvider(func(*Cluster) actor.Producer { return func() actor.Receiver { return d18Noop{} } })
	c, err := New(cfg)
	if err != nil {
		t.Fatal(err)
	}
	c.RegisterKind("own", func() actor.Receiver { return d18Noop{} }, NewKindConfig())
	restarted := make(chan struct{}, 4)
	sub := e.SpawnFunc(func(ctx *actor.Context) {
		if ev, ok := ctx.Message().(actor.ActorRestartedEvent); ok && ev.PID.Equals(c.PID()) {
			restarted <- struct{}{}
		}
	}, "d18sub")
	e.Subscribe(sub)
	c.Start()
	self := c.Member()
	b := &Member{ID: "B", Host: "127.0.0.1:1", Kinds: []string{"y"}}
	e.Send(c.PID(), &Members{Members: []*Member{self, b}})
	if got := c.Members(); len(got) != 2 {
		t.Fatalf("setup: %d members", len(got))
	}
	if !c.HasKind("y") {
		t.Fatal("setup: HasKind(y) should be true while B is a member")
	}
	c.Deactivate(nil) // the agent dereferences the nil PID, crashes and is restarted by its supervisor
	select {
	case <-restarted:
	case <-time.After(5 * time.Second):
		t.Fatal("agent was not restarted")
	}
	time.Sleep(700 * time.Millisecond) // restart delay
	// B left while the agent was down: the provider's next snapshot is [S]
	e.Send(c.PID(), &Members{Members: []*Member{self}})
	if got := c.Members(); len(got) != 1 || got[0].ID != "S" {
		t.Fatalf("Members() = %v, want [S]", got)
	}
	if c.HasKind("y") {
		t.Fatalf("HasKind(y) is true after the snapshot [S] was processed: no member of the current view advertises y")
	}
}
