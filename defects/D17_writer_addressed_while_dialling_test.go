package remote

import (
	"testing"
	"time"

	"github.com/anthdm/hollywood/actor"
)

// A message addressed to a stream writer's PID while the writer is still dialling must not crash the node.
func TestD17WriterAddressedWhileDialling(t *testing.T) {
	addr := getRandomLocalhostAddr()
	r := New(addr, NewConfig())
	e, err := actor.NewEngine(actor.NewEngineConfig().WithRemote(r))
	if err != nil {
		t.Fatal(err)
	}
	defer r.Stop().Wait()
	dead := "127.0.0.1:1" // nobody listens: the writer retries for ~1.5 s
	go e.Send(actor.NewPID(dead, "nobody"), &actor.Ping{})
	time.Sleep(200 * time.Millisecond) // the writer is registered and dialling now
	// any local (or remote) party can address the writer by its PID
	e.Send(actor.NewPID(addr, "stream/"+dead), &actor.Ping{})
	time.Sleep(2500 * time.Millisecond)
}
